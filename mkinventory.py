#!/usr/bin/env python3
"""prints the theorem inventory table of DESIGN.md 10.6 from lean/Muxide/Props/*.lean
(the same scan `check` uses for the proof obligations)"""
import glob, os, re, sys
root = os.path.dirname(os.path.abspath(__file__))
rows = []
total = 0
for f in sorted(glob.glob(os.path.join(root, "lean/Muxide/Props/*.lean"))):
    names = re.findall(r"^theorem\s+([A-Za-z0-9_'.]+)", open(f).read(), re.M)
    total += len(names)
    rows.append("| `Props/%s` | %d | %s |" % (os.path.basename(f), len(names), ", ".join("`%s`" % n for n in names)))
print("| file | theorems | names |\n|---|---|---|")
print("\n".join(rows))
print("\ntotal: %d theorems in %d files" % (total, len(rows)))
