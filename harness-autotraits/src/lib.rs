//! C17, auto-trait clause: "a muxer may be moved between threads whenever its sink may".
//! These functions only have to type-check (`cargo check`); rustc decides the obligation for
//! EVERY sink type W at once.
use std::io::Write;

use muxide::api::{Muxer, MuxerBuilder};
use muxide::fragmented::FragmentedMuxer;

fn is_send<T: Send>() {}
fn is_sync<T: Sync>() {}

pub fn muxer_send_when_sink_send<W: Write + Send>() {
    is_send::<Muxer<W>>();
}

pub fn muxer_sync_when_sink_sync<W: Write + Sync>() {
    is_sync::<Muxer<W>>();
}

pub fn builder_send_when_sink_send<W: Send>() {
    is_send::<MuxerBuilder<W>>();
}

pub fn builder_sync_when_sink_sync<W: Sync>() {
    is_sync::<MuxerBuilder<W>>();
}

pub fn fragmented_is_send_sync() {
    is_send::<FragmentedMuxer>();
    is_sync::<FragmentedMuxer>();
}

/// moving a muxer into another thread compiles for a concrete Send sink
pub fn move_into_thread(m: Muxer<Vec<u8>>) -> std::thread::JoinHandle<()> {
    std::thread::spawn(move || {
        let _ = m.finish();
    })
}
