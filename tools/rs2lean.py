#!/usr/bin/env python3
"""tools/rs2lean.py — a translator for the straight-line byte builders of /repo/src.

The Lean model is hand-written and tied to the code by the correspondence run.  For one family of
functions a second, mechanical tie is cheap: the fixed-layout box builders are straight-line code that
appends big-endian integers, byte-string literals and the output of other builders to a `Vec<u8>`.  This
script translates that subset of Rust, statement by statement, into Lean definitions over `List UInt8`
(`lean/Muxide/Generated/Builders.lean`, regenerated from /repo's current working tree on every check
run); `Props/C19Generated.lean` proves every generated definition equal to the hand-written model's
builder.  Editing a literal, a field width, a field order or a reserved value in one of these Rust
functions therefore breaks a *proof obligation*, not only the correspondence.

Supported statements (anything else makes the function `untranslatable`, which is reported):
    let mut payload = Vec::new();            let mut payload = vec![0u8; N];
    payload.extend_from_slice(&E.to_be_bytes());     E: typed literal | constant | parameter | local | (x as uN) | a << k
    payload.extend_from_slice(b"....");      payload.extend_from_slice(&[0u8; N]);   payload.extend_from_slice(&[a, b, ..]);
    payload.extend_from_slice(&LOCAL);       payload.push(E);
    let NAME = [ e1, e2, .. ];  for V in NAME { payload.extend_from_slice(&V.to_be_bytes()); }
    for _ in 0..N { payload.extend_from_slice(&E.to_be_bytes()); }
    let NAME = callee(args);  let NAME = E;
    if C1 || C2 { stmts ; return build_box(b"....", &payload); }
    build_box(b"....", &payload)    |    payload     (tail expression)
Integer semantics: every value is a Lean `Nat`; `x as uN` is `x % 2^N`; `a << k` on a W-bit operand is
`(a * 2^k) % 2^W`; `.to_be_bytes()` of a W-bit value is the model's `uWbe` (which writes `% 2^W`).
"""
import os
import re
import sys

REPO = "/repo"
OUT = os.path.join(os.path.dirname(os.path.dirname(os.path.abspath(__file__))), "lean", "Muxide", "Generated", "Builders.lean")

# (file, function) in translation order (callees first)
TARGETS = [
    ("src/fragmented.rs", "build_ftyp_fmp4"), ("src/fragmented.rs", "build_mvhd_fmp4"), ("src/fragmented.rs", "build_mvex"),
    ("src/fragmented.rs", "build_hdlr_video"), ("src/fragmented.rs", "build_vmhd"), ("src/fragmented.rs", "build_dinf"),
    ("src/fragmented.rs", "build_empty_stts"), ("src/fragmented.rs", "build_empty_stsc"), ("src/fragmented.rs", "build_empty_stsz"),
    ("src/fragmented.rs", "build_empty_stco"), ("src/fragmented.rs", "build_mfhd"), ("src/fragmented.rs", "build_tfhd"),
    ("src/fragmented.rs", "build_tfdt"),
    ("src/muxer/mp4.rs", "build_url_box"), ("src/muxer/mp4.rs", "build_dref_box"), ("src/muxer/mp4.rs", "build_dinf_box"),
    ("src/muxer/mp4.rs", "build_vmhd_box"), ("src/muxer/mp4.rs", "build_smhd_box"),
    ("src/muxer/mp4.rs", "build_hdlr_box"), ("src/muxer/mp4.rs", "build_sound_hdlr_box"), ("src/muxer/mp4.rs", "build_meta_hdlr_box"),
    ("src/muxer/mp4.rs", "build_ftyp_box"), ("src/muxer/mp4.rs", "build_mvhd_payload"),
    ("src/muxer/mp4.rs", "build_tkhd_box_with_id"), ("src/muxer/mp4.rs", "build_stsc_box"),
    ("src/muxer/mp4.rs", "build_audio_specific_config"), ("src/muxer/mp4.rs", "build_esds_box"), ("src/muxer/mp4.rs", "build_mp4a_box"),
]

WIDTH = {"u8": 8, "u16": 16, "u32": 32, "u64": 64}


class Untranslatable(Exception):
    pass


def strip_comments(src):
    return re.sub(r"//[^\n]*", "", src)


def find_fn(src, name):
    m = re.search(r"\bfn\s+%s\s*\(" % re.escape(name), src)
    if not m:
        raise Untranslatable("function not found")
    i = src.index("{", m.end())
    depth, j = 0, i
    while True:
        if src[j] == "{":
            depth += 1
        elif src[j] == "}":
            depth -= 1
            if depth == 0:
                break
        j += 1
    sig = src[m.start():i]
    body = src[i + 1:j]
    return sig, body


def consts_of(src):
    out = {}
    for m in re.finditer(r"^\s*(?:pub(?:\(crate\))?\s+)?const\s+(\w+)\s*:\s*(u8|u16|u32|u64)\s*=\s*([0-9_xa-fA-F]+)\s*;", src, re.M):
        out[m.group(1)] = (int(m.group(3).replace("_", ""), 0), m.group(2))
    return out


def structs_of(src):
    """integer fields of the plain structs (other fields are ignored: a builder that reads them is untranslatable)"""
    out = {}
    for m in re.finditer(r"struct\s+(\w+)\s*\{(.*?)\}", src, re.S):
        fields = []
        for fm in re.finditer(r"(?:pub\s+)?(\w+)\s*:\s*(u8|u16|u32|u64)\s*,", m.group(2)):
            fields.append((fm.group(1), fm.group(2)))
        if fields:
            out[m.group(1)] = fields
    return out


def split_statements(body):
    """top-level statements of a block: split at ';' and at the end of a top-level '{...}' block"""
    out, cur, depth, par = [], "", 0, 0
    for ch in body:
        cur += ch
        if ch in "([":
            par += 1
        elif ch in ")]":
            par -= 1
        elif ch == "{":
            depth += 1
        elif ch == "}":
            depth -= 1
            if depth == 0 and par == 0:
                out.append(cur.strip()); cur = ""
        elif ch == ";" and depth == 0 and par == 0:
            out.append(cur.strip()); cur = ""
    if cur.strip():
        out.append(cur.strip())
    return [s for s in out if s and s != ";"]


def lean_bytes(bs):
    return "[" + ", ".join(str(b) for b in bs) + "]"


class Fn:
    def __init__(self, name, sig, body, consts, known, structs=None):
        self.name, self.consts, self.known = name, consts, known
        structs = structs or {}
        self.all_structs = structs
        self.structs_of = {}
        self.env = {}          # name -> ("int", width) | ("bytes",) | ("array", width)
        self.params = []
        m = re.search(r"\((.*)\)", sig, re.S)
        for p in [x.strip() for x in m.group(1).split(",") if x.strip()]:
            n, t = [x.strip() for x in p.split(":", 1)]
            if t in WIDTH:
                self.env[n] = ("int", WIDTH[t])
                self.params.append(n)
            elif t.lstrip("&") in structs:
                # a struct passed by reference: one Lean parameter per integer field
                for fname, ftype in structs[t.lstrip("&")]:
                    self.env["%s.%s" % (n, fname)] = ("int", WIDTH[ftype])
                    self.params.append("%s_%s" % (n, fname))
                self.structs_of[n] = t.lstrip("&")
            else:
                raise Untranslatable("parameter type " + t)
        self.lines = []
        self.translate_block(split_statements(body), top=True)

    # ---- expressions -------------------------------------------------------------------------
    def expr(self, e):
        """returns (lean term, width or None)"""
        e = e.strip()
        while e.startswith("(") and e.endswith(")") and self.balanced(e[1:-1]):
            e = e[1:-1].strip()
        m = re.fullmatch(r"(0x[0-9a-fA-F_]+|[0-9][0-9_]*?)_?(u8|u16|u32|u64)?", e)
        if m:
            return str(int(m.group(1).replace("_", ""), 0)), (WIDTH[m.group(2)] if m.group(2) else None)
        # lowest-precedence binary operators first: | then & (split at top level, right to left)
        for op, lean in (("|", "|||"), ("&", "&&&")):
            k = self.top_level(e, op)
            if k is not None:
                a, wa = self.expr(e[:k]); b, wb = self.expr(e[k + 1:])
                return "(%s %s %s)" % (a, lean, b), (wa or wb)
        m = re.fullmatch(r"(.+)\s+as\s+(u8|u16|u32|u64|usize)", e)
        if m and self.balanced(m.group(1)):
            t, _ = self.expr(m.group(1))
            w = 64 if m.group(2) == "usize" else WIDTH[m.group(2)]
            return "(%s %% 2 ^ %d)" % (t, w), w
        m = re.fullmatch(r"(.+?)\s*>>\s*(\d+)", e)
        if m and self.balanced(m.group(1)):
            t, w = self.expr(m.group(1))
            return "(%s / 2 ^ %s)" % (t, m.group(2)), w
        m = re.fullmatch(r"(.+)\.min\((\d+)\)", e)
        if m and self.balanced(m.group(1)):
            t, w = self.expr(m.group(1))
            return "(min %s %s)" % (t, m.group(2)), w
        m = re.fullmatch(r"(\w+)\.len\(\)", e)
        if m and m.group(1) in self.env and self.env[m.group(1)][0] == "bytes":
            return "%s.length" % m.group(1), 64
        m = re.fullmatch(r"(\w+)\.(\w+)", e)
        if m and "%s.%s" % (m.group(1), m.group(2)) in self.env:
            return "%s_%s" % (m.group(1), m.group(2)), self.env[e][1]
        m = re.fullmatch(r"(.+?)\s*<<\s*(\d+)", e)
        if m and self.balanced(m.group(1)):
            t, w = self.expr(m.group(1))
            if w is None:
                raise Untranslatable("shift of an untyped value: " + e)
            return "(%s * 2 ^ %s %% 2 ^ %d)" % (t, m.group(2), w), w
        if re.fullmatch(r"\w+", e):
            if e in self.env and self.env[e][0] == "int":
                return e, self.env[e][1]
            if e in self.consts:
                return str(self.consts[e][0]), WIDTH[self.consts[e][1]]
        raise Untranslatable("expression: " + e)

    @staticmethod
    def top_level(e, op):
        """index of the LAST top-level occurrence of the single-character operator `op` (not `||`, `&&`)"""
        d, idx = 0, None
        for i, ch in enumerate(e):
            if ch in "([":
                d += 1
            elif ch in ")]":
                d -= 1
            elif ch == op and d == 0 and e[i - 1:i] != op and e[i + 1:i + 2] != op and i > 0:
                idx = i
        return idx

    @staticmethod
    def balanced(s):
        d = 0
        for ch in s:
            d += ch == "("
            d -= ch == ")"
            if d < 0:
                return False
        return d == 0

    def be(self, e, elem_width=None):
        t, w = self.expr(e)
        w = w or elem_width
        if w is None:
            raise Untranslatable("width of " + e)
        return "u8' %s" % t if w == 8 else "u%dbe %s" % (w, t)

    def bytes_arg(self, a):
        """the byte string denoted by an argument of extend_from_slice"""
        a = a.strip()
        m = re.fullmatch(r'b"((?:[^"\\]|\\.)*)"', a)
        if m:
            s = bytes(m.group(1), "utf-8").decode("unicode_escape").encode("latin-1")
            return lean_bytes(s)
        m = re.fullmatch(r"&\[\s*0u8\s*;\s*(\d+)\s*\]", a)
        if m:
            return "zeros %s" % m.group(1)
        m = re.fullmatch(r"&\[(.*)\]", a, re.S)
        if m:
            return "[" + ", ".join("u8' " + self.expr(x)[0] for x in m.group(1).split(",") if x.strip()) + "]"
        m = re.fullmatch(r"&(.+)\.to_be_bytes\(\)", a, re.S)
        if m:
            return self.be(m.group(1))
        m = re.fullmatch(r"&?(\w+)", a)
        if m and m.group(1) in self.env and self.env[m.group(1)][0] == "bytes":
            return m.group(1)
        if m and m.group(1) in self.env and self.env[m.group(1)] == ("array", 8):
            return "%s.map u8'" % m.group(1)
        raise Untranslatable("byte-string argument: " + a)

    # ---- statements --------------------------------------------------------------------------
    def emit(self, buf, term):
        self.lines.append("  let %s := %s ++ %s" % (buf, buf, term))

    def is_buf(self, n):
        return n in self.env and self.env[n] == ("bytes", "mut")

    def box_expr(self, s):
        m = re.fullmatch(r'(?:return\s+)?build_box\(\s*b"(....)"\s*,\s*&(\w+)\s*\)', s)
        if not m:
            return None
        arg = m.group(2)
        if arg in self.env and self.env[arg][0] == "bytes":
            return "buildBox %s %s" % (lean_bytes(m.group(1).encode()), arg)
        if arg in self.env and self.env[arg][0] == "array" and self.env[arg][1] in (None, 8):
            return "buildBox %s (%s.map u8')" % (lean_bytes(m.group(1).encode()), arg)
        raise Untranslatable("build_box argument: " + arg)

    def ret(self, s):
        b = self.box_expr(s)
        if b:
            return b
        m = re.fullmatch(r"(?:return\s+)?(\w+)", s)
        if m and m.group(1) in self.env and self.env[m.group(1)][0] == "bytes":
            return m.group(1)
        m = re.fullmatch(r"\[(.*)\]", s, re.S)
        if m:
            return "[" + ", ".join("u8' " + self.expr(x)[0] for x in m.group(1).split(",") if x.strip()) + "]"
        raise Untranslatable("result expression: " + s)

    def translate_block(self, stmts, top):
        for k, s in enumerate(stmts):
            s = s.rstrip(";").strip()
            last = k == len(stmts) - 1
            m = re.fullmatch(r"let\s+mut\s+(\w+)\s*=\s*Vec::new\(\)", s)
            if m:
                self.env[m.group(1)] = ("bytes", "mut")
                self.lines.append("  let %s : Bytes := []" % m.group(1)); continue
            m = re.fullmatch(r"let\s+mut\s+(\w+)\s*=\s*vec!\[\s*0u8\s*;\s*(\d+)\s*\]", s)
            if m:
                self.env[m.group(1)] = ("bytes", "mut")
                self.lines.append("  let %s : Bytes := zeros %s" % (m.group(1), m.group(2))); continue
            m = re.fullmatch(r"(\w+)\.extend_from_slice\((.*)\)", s, re.S)
            if m and self.is_buf(m.group(1)):
                self.emit(m.group(1), self.bytes_arg(m.group(2))); continue
            m = re.fullmatch(r"(\w+)\.push\((.*)\)", s)
            if m and self.is_buf(m.group(1)):
                self.emit(m.group(1), "[u8' %s]" % self.expr(m.group(2))[0]); continue
            m = re.fullmatch(r"let\s+(\w+)\s*=\s*(build_box\(.*\))", s, re.S)
            if m:
                self.lines.append("  let %s : Bytes := %s" % (m.group(1), self.box_expr(m.group(2))))
                self.env[m.group(1)] = ("bytes",); continue
            m = re.fullmatch(r"let\s+(\w+)\s*=\s*\[(.*)\]", s, re.S)
            if m:
                elems = [self.expr(x) for x in m.group(2).split(",") if x.strip()]
                ws = {w for _, w in elems if w}
                if len(ws) > 1:
                    raise Untranslatable("array element type")
                self.env[m.group(1)] = ("array", ws.pop() if ws else None)
                self.lines.append("  let %s : List Nat := [%s]" % (m.group(1), ", ".join(t for t, _ in elems))); continue
            m = re.fullmatch(r"for\s+(\w+)\s+in\s+(\w+)\s*\{\s*(\w+)\.extend_from_slice\(\s*&(\w+)\.to_be_bytes\(\)\s*\)\s*;?\s*\}", s, re.S)
            if m and m.group(2) in self.env and self.env[m.group(2)][0] == "array" and self.env[m.group(2)][1] and m.group(1) == m.group(4) and self.is_buf(m.group(3)):
                w = self.env[m.group(2)][1]
                self.emit(m.group(3), "%s.flatMap (fun v => u%dbe v)" % (m.group(2), w)); continue
            m = re.fullmatch(r"for\s+_\s+in\s+0\.\.(\d+)\s*\{\s*(\w+)\.extend_from_slice\((.*)\)\s*;?\s*\}", s, re.S)
            if m and self.is_buf(m.group(2)):
                self.emit(m.group(2), "(List.replicate %s (%s)).flatten" % (m.group(1), self.bytes_arg(m.group(3)))); continue
            m = re.fullmatch(r"let\s+(\w+)\s*=\s*match\s+(\w+)\s*\{(.*)\}", s, re.S)
            if m:
                scrut, w0 = self.expr(m.group(2))
                arms, dflt, w = [], None, None
                for arm in [x.strip() for x in m.group(3).split(",") if x.strip()]:
                    pat, val = [x.strip() for x in arm.split("=>")]
                    v, wv = self.expr(val); w = w or wv
                    if pat == "_":
                        dflt = v
                    else:
                        arms.append((self.expr(pat)[0], v))
                if dflt is None:
                    raise Untranslatable("match without default arm")
                term = dflt
                for pat, v in reversed(arms):
                    term = "if %s = %s then %s else %s" % (scrut, pat, v, term)
                self.env[m.group(1)] = ("int", w or 8)
                self.lines.append("  let %s : Nat := %s" % (m.group(1), term)); continue
            m = re.fullmatch(r"let\s+(\w+)\s*=\s*(\w+)\((.*)\)", s, re.S)
            if m and m.group(2) in self.known:
                args = []
                for a in [x.strip() for x in m.group(3).split(",") if x.strip()]:
                    if a in self.structs_of:
                        args += ["%s_%s" % (a, f) for f, _ in self.all_structs[self.structs_of[a]]]
                    else:
                        args.append("(%s)" % self.expr(a)[0])
                args = " ".join(args)
                self.env[m.group(1)] = ("bytes",)
                self.lines.append("  let %s : Bytes := %s %s" % (m.group(1), m.group(2), args)); continue
            m = re.fullmatch(r"let\s+(\w+)\s*=\s*(.+)", s, re.S)
            if m:
                t, w = self.expr(m.group(2))
                if w is None:
                    raise Untranslatable("type of local " + m.group(1))
                self.env[m.group(1)] = ("int", w)
                self.lines.append("  let %s : Nat := %s" % (m.group(1), t)); continue
            m = re.fullmatch(r"if\s+(.+?)\s*\{(.*)\}", s, re.S)
            if m and top:
                conds = []
                for c in m.group(1).split("||"):
                    mm = re.fullmatch(r"\s*(\w+)\s*==\s*(\w+)\s*", c)
                    if not mm:
                        raise Untranslatable("condition: " + c)
                    conds.append("%s = %s" % (self.expr(mm.group(1))[0], self.expr(mm.group(2))[0]))
                inner = split_statements(m.group(2))
                if not inner or not inner[-1].startswith("return"):
                    raise Untranslatable("if-block without early return")
                saved = self.lines
                self.lines = []
                self.translate_block(inner, top=False)
                block = self.lines
                self.lines = saved
                self.lines.append("  if %s then (\n%s) else" % (" ∨ ".join(conds), "\n".join("  " + l for l in block)))
                continue
            if last or s.startswith("return"):
                self.lines.append("  " + self.ret(s)); return
            raise Untranslatable("statement: " + s[:80])
        raise Untranslatable("no result expression")

    def lean(self):
        params = "".join(" (%s : Nat)" % p for p in self.params)
        return "def %s%s : Bytes :=\n%s\n" % (self.name, params, "\n".join(self.lines))


def generate():
    srcs = {}
    out = []
    failed = []
    NS = {"src/muxer/mp4.rs": "Mp4", "src/fragmented.rs": "Frag"}
    cur = None
    known = set()
    for f, name in TARGETS:
        if f not in srcs:
            srcs[f] = strip_comments(open(os.path.join(REPO, f)).read())
        if NS[f] != cur:
            if cur:
                out.append("end %s\n" % cur)
            cur = NS[f]
            known = set()
            out.append("namespace %s\n" % cur)
        try:
            sig, body = find_fn(srcs[f], name)
            fn = Fn(name, sig, body, consts_of(srcs[f]), known, structs_of(srcs[f]))
            out.append("/-- `%s` of %s, translated statement by statement -/\n%s" % (name, f, fn.lean()))
            known.add(name)
        except Untranslatable as e:
            failed.append((name, str(e)))
            out.append("-- UNTRANSLATABLE %s: %s\n" % (name, e))
    if cur:
        out.append("end %s\n" % cur)
    text = ("import Muxide.Model.Basic\n"
            "/-\n  GENERATED by tools/rs2lean.py from /repo's working tree — do not edit.\n"
            "  Straight-line byte builders of src/muxer/mp4.rs and src/fragmented.rs, translated statement by statement.\n-/\n"
            "namespace Muxide.Generated\nopen Muxide\n\n"
            "/-- a byte-sized value pushed or listed as a `u8` -/\nabbrev u8' (n : Nat) : UInt8 := UInt8.ofNat n\n\n"
            "/-- `build_box` (hand-written: length as `u32`, type, payload; its invariant INV-001 is a tautology) -/\n"
            "def buildBox (typ payload : Bytes) : Bytes := u32be (8 + payload.length) ++ typ ++ payload\n\n"
            + "\n".join(out) + "\nend Muxide.Generated\n")
    return text, failed


def main():
    text, failed = generate()
    os.makedirs(os.path.dirname(OUT), exist_ok=True)
    old = open(OUT).read() if os.path.exists(OUT) else None
    if old != text:
        with open(OUT, "w") as f:
            f.write(text)
    for n, e in failed:
        print("untranslatable %s: %s" % (n, e))
    print("generated %d definitions (%d untranslatable)%s" % (len(TARGETS) - len(failed), len(failed), "" if old == text else " [file updated]"))
    return 1 if failed else 0


if __name__ == "__main__":
    sys.exit(main())
