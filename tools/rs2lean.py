#!/usr/bin/env python3
"""tools/rs2lean.py — a translator for the straight-line byte builders of /repo/src.

The Lean model is hand-written and tied to the code by the correspondence run.  For one family of
functions a second, mechanical tie is cheap: the fixed-layout box builders are straight-line code that
appends big-endian integers, byte-string literals and the output of other builders to a `Vec<u8>`.  This
script translates that subset of Rust, statement by statement, into Lean definitions over `List UInt8`
(`lean/Muxide/Generated/Builders.lean`, regenerated from /repo's current working tree on every check
run); `Props/C19Generated.lean` proves every generated definition equal to the hand-written model's
builder.  Editing a literal, a field width, a field order or a reserved value in one of these Rust
functions therefore breaks a *proof obligation*, not only the correspondence.

Supported statements (anything else makes the function `untranslatable`, which is reported):
    let mut payload = Vec::new();            let mut payload = vec![0u8; N];
    payload.extend_from_slice(&E.to_be_bytes());     E: typed literal | constant | parameter | local | (x as uN) | a << k
    payload.extend_from_slice(b"....");      payload.extend_from_slice(&[0u8; N]);   payload.extend_from_slice(&[a, b, ..]);
    payload.extend_from_slice(&LOCAL);       payload.push(E);
    let NAME = [ e1, e2, .. ];  for V in NAME { payload.extend_from_slice(&V.to_be_bytes()); }
    for _ in 0..N { payload.extend_from_slice(&E.to_be_bytes()); }
    let NAME = callee(args);  let NAME = E;
    if C1 || C2 { stmts ; return build_box(b"....", &payload); }
    build_box(b"....", &payload)    |    payload     (tail expression)
Second batch: parameters `&[u32]` / `&[i32]` (lists) and `&Struct` (flattened to the integer, `bool`, `Vec<u8>` and
`Option<Vec<u8>>` fields the body or a callee reads); methods (`&self`); `for x in xs { …extend(&x.to_be_bytes()) }`;
the run-length loop of stts/ctts (recognised as a whole, rendered as `rleSnoc`); `let (a, b, c) = if C { (..) } else { (..) }`;
`vec![e1, e2, ..]`; `if C { A } else { B }` as an expression; `v[i]`, `v.get(i).copied().unwrap_or(d)`,
`v.get(i).map(|b| E).unwrap_or(d)`; `if let Some(v) = &s.f { stmts }`; `x.is_some()`; `s.method()` of a translated method.
Dropped on purpose: `assert_invariant!(..)` statements (they panic or return unit; the translation describes the value returned).
Integer semantics: every value is a Lean `Nat`; `x as uN` is `x % 2^N`; `a << k` on a W-bit operand is
`(a * 2^k) % 2^W`; `.to_be_bytes()` of a W-bit value is the model's `uWbe` (which writes `% 2^W`).
"""
import os
import re
import sys

REPO = os.environ.get("RS2LEAN_REPO", "/repo")
OUT = os.environ.get("RS2LEAN_OUT") or os.path.join(os.path.dirname(os.path.dirname(os.path.abspath(__file__))), "lean", "Muxide", "Generated", "Builders.lean")

# (file, function) in translation order (callees first)
TARGETS = [
    ("src/fragmented.rs", "build_ftyp_fmp4"), ("src/fragmented.rs", "build_mvhd_fmp4"), ("src/fragmented.rs", "build_mvex"),
    ("src/fragmented.rs", "build_hdlr_video"), ("src/fragmented.rs", "build_vmhd"), ("src/fragmented.rs", "build_dinf"),
    ("src/fragmented.rs", "build_empty_stts"), ("src/fragmented.rs", "build_empty_stsc"), ("src/fragmented.rs", "build_empty_stsz"),
    ("src/fragmented.rs", "build_empty_stco"), ("src/fragmented.rs", "build_mfhd"), ("src/fragmented.rs", "build_tfhd"),
    ("src/fragmented.rs", "build_tfdt"), ("src/fragmented.rs", "build_tkhd_fmp4"),
    ("src/fragmented.rs", "build_avcc_fmp4"), ("src/fragmented.rs", "build_avc1_fmp4"),
    ("src/fragmented.rs", "build_hvcc_fmp4"), ("src/fragmented.rs", "build_hvc1_fmp4"),
    ("src/muxer/mp4.rs", "build_url_box"), ("src/muxer/mp4.rs", "build_dref_box"), ("src/muxer/mp4.rs", "build_dinf_box"),
    ("src/muxer/mp4.rs", "build_vmhd_box"), ("src/muxer/mp4.rs", "build_smhd_box"),
    ("src/muxer/mp4.rs", "build_hdlr_box"), ("src/muxer/mp4.rs", "build_sound_hdlr_box"), ("src/muxer/mp4.rs", "build_meta_hdlr_box"),
    ("src/muxer/mp4.rs", "build_ftyp_box"), ("src/muxer/mp4.rs", "build_mvhd_payload"),
    ("src/muxer/mp4.rs", "build_tkhd_box_with_id"), ("src/muxer/mp4.rs", "build_stsc_box"),
    ("src/muxer/mp4.rs", "build_audio_specific_config"), ("src/muxer/mp4.rs", "build_esds_box"), ("src/muxer/mp4.rs", "build_mp4a_box"),
    ("src/muxer/mp4.rs", "build_stsz_box"), ("src/muxer/mp4.rs", "build_stco_box"), ("src/muxer/mp4.rs", "build_stss_box"),
    ("src/muxer/mp4.rs", "build_stts_box"), ("src/muxer/mp4.rs", "build_ctts_box"),
    ("src/muxer/mp4.rs", "build_avcc_box"), ("src/muxer/mp4.rs", "build_av1c_box"), ("src/muxer/mp4.rs", "build_vpcc_box"),
    ("src/muxer/mp4.rs", "build_avc1_box"), ("src/muxer/mp4.rs", "build_av01_box"), ("src/muxer/mp4.rs", "build_vp09_box"),
    # the four SPS readers of `impl HevcConfig` (methods: `&self` is the struct), then the boxes that call them
    ("src/codec/h265.rs", "general_profile_space", "HevcConfig"), ("src/codec/h265.rs", "general_tier_flag", "HevcConfig"),
    ("src/codec/h265.rs", "general_profile_idc", "HevcConfig"), ("src/codec/h265.rs", "general_level_idc", "HevcConfig"),
    ("src/muxer/mp4.rs", "build_hvcc_box"), ("src/muxer/mp4.rs", "build_hvc1_box"),
]

WIDTH = {"u8": 8, "u16": 16, "u32": 32, "u64": 64}


class Untranslatable(Exception):
    pass


def strip_comments(src):
    return re.sub(r"//[^\n]*", "", src)


def find_fn(src, name):
    m = re.search(r"\bfn\s+%s\s*\(" % re.escape(name), src)
    if not m:
        raise Untranslatable("function not found")
    i = src.index("{", m.end())
    depth, j = 0, i
    while True:
        if src[j] == "{":
            depth += 1
        elif src[j] == "}":
            depth -= 1
            if depth == 0:
                break
        j += 1
    sig = src[m.start():i]
    body = src[i + 1:j]
    return sig, body


def consts_of(src):
    out = {}
    for m in re.finditer(r"^\s*(?:pub(?:\(crate\))?\s+)?const\s+(\w+)\s*:\s*(u8|u16|u32|u64)\s*=\s*([0-9_xa-fA-F]+)\s*;", src, re.M):
        out[m.group(1)] = (int(m.group(3).replace("_", ""), 0), m.group(2))
    return out


def structs_of(src):
    """integer fields of the plain structs (other fields are ignored: a builder that reads them is untranslatable)"""
    out = {}
    for m in re.finditer(r"struct\s+(\w+)\s*\{(.*?)\}", src, re.S):
        fields = []
        for fm in re.finditer(r"(?:pub\s+)?(\w+)\s*:\s*(u8|u16|u32|u64|bool|Vec<u8>|Option<Vec<u8>>)\s*,", m.group(2)):
            fields.append((fm.group(1), fm.group(2)))
        if fields:
            out[m.group(1)] = fields
    return out


def split_statements(body):
    """top-level statements of a block: split at ';' and at the end of a top-level '{...}' block"""
    out, cur, depth, par = [], "", 0, 0
    in_str, esc = False, False
    for ch in body:
        cur += ch
        if in_str:                      # brackets inside string literals do not nest
            if esc:
                esc = False
            elif ch == "\\":
                esc = True
            elif ch == '"':
                in_str = False
            continue
        if ch == '"':
            in_str = True
            continue
        if ch in "([":
            par += 1
        elif ch in ")]":
            par -= 1
        elif ch == "{":
            depth += 1
        elif ch == "}":
            depth -= 1
            if depth == 0 and par == 0 and not re.match(r"\s*(let|return)\b", cur):
                out.append(cur.strip()); cur = ""
        elif ch == ";" and depth == 0 and par == 0:
            out.append(cur.strip()); cur = ""
    if cur.strip():
        out.append(cur.strip())
    return [s for s in out if s and s != ";"]


def lean_bytes(bs):
    return "[" + ", ".join(str(b) for b in bs) + "]"


class Fn:
    def __init__(self, name, sig, body, consts, known, structs=None, self_struct=None):
        self.name, self.consts, self.known = name, consts, known
        mret = re.search(r"->\s*([\w<>\[\]; ]+?)\s*$", sig.strip())
        rt = mret.group(1) if mret else ""
        self.result = ("int", WIDTH[rt]) if rt in WIDTH else ("bool",) if rt == "bool" else ("bytes",)
        structs = structs or {}
        self.all_structs = structs
        self.structs_of = {}
        self.used = {}          # struct parameter -> set of field names the body reads
        self.rust_params = []   # per Rust parameter: None (plain) or the struct parameter's name
        self.env = {}          # name -> ("int", width) | ("bytes",) | ("array", width)
        self.params = []
        m = re.search(r"\((.*)\)", sig, re.S)
        for p in [x.strip() for x in m.group(1).split(",") if x.strip()]:
            if p == "&self" and self_struct in structs:
                p = "self: &" + self_struct
            n, t = [x.strip() for x in p.split(":", 1)]
            if t in WIDTH:
                self.env[n] = ("int", WIDTH[t])
                self.params.append((n, "Nat")); self.rust_params.append(None)
            elif re.fullmatch(r"&\[(u8|u16|u32|u64)\]", t):
                self.env[n] = ("array", WIDTH[t[2:-1]])
                self.params.append((n, "List Nat")); self.rust_params.append(None)
            elif t == "&[i32]":
                self.env[n] = ("iarray", 32)
                self.params.append((n, "List Int")); self.rust_params.append(None)
            elif t.lstrip("&") in structs:
                # a struct passed by reference: one Lean parameter per integer, bool or Vec<u8> field
                for fname, ftype in structs[t.lstrip("&")]:
                    key = "%s.%s" % (n, fname)
                    if ftype in WIDTH:
                        self.env[key] = ("int", WIDTH[ftype]); lt = "Nat"
                    elif ftype == "bool":
                        self.env[key] = ("bool",); lt = "Bool"
                    elif ftype == "Option<Vec<u8>>":
                        self.env[key] = ("optbytes",); lt = "Option Bytes"
                    else:
                        self.env[key] = ("bytes",); lt = "Bytes"
                    self.params.append(("%s_%s" % (n, fname), lt, n, fname))
                self.structs_of[n] = t.lstrip("&"); self.used[n] = set(); self.rust_params.append(n)
            else:
                raise Untranslatable("parameter type " + t)
        self.lines = []
        self.translate_block(split_statements(body), top=True)

    # ---- expressions -------------------------------------------------------------------------
    def expr(self, e):
        """returns (lean term, width or None)"""
        e = re.sub(r"\s+\.", ".", e.strip())
        while e.startswith("(") and e.endswith(")") and self.balanced(e[1:-1]):
            e = e[1:-1].strip()
        m = re.fullmatch(r"(0x[0-9a-fA-F_]+|0b[01_]+|[0-9][0-9_]*?)_?(u8|u16|u32|u64)?", e)
        if m:
            return str(int(m.group(1).replace("_", ""), 0)), (WIDTH[m.group(2)] if m.group(2) else None)
        # if C { A } else { B } as an expression (C: a bool field or a comparison)
        m = re.fullmatch(r"if\s+(.+?)\s*\{\s*([^{}]+?)\s*\}\s*else\s*\{\s*([^{}]+?)\s*\}", e, re.S)
        if m:
            a, wa = self.expr(m.group(2)); b, wb = self.expr(m.group(3))
            return "(if %s then %s else %s)" % (self.cond(m.group(1)), a, b), (wa or wb)
        # lowest-precedence binary operators first: | then & (split at top level, right to left)
        for op, lean in (("|", "|||"), ("&", "&&&")):
            k = self.top_level(e, op)
            if k is not None:
                a, wa = self.expr(e[:k]); b, wb = self.expr(e[k + 1:])
                return "(%s %s %s)" % (a, lean, b), (wa or wb)
        m = re.fullmatch(r"(.+)\s+as\s+(u8|u16|u32|u64|usize)", e)
        if m and self.balanced(m.group(1)):
            t, _ = self.expr(m.group(1))
            w = 64 if m.group(2) == "usize" else WIDTH[m.group(2)]
            return "(%s %% 2 ^ %d)" % (t, w), w
        m = re.fullmatch(r"(.+?)\s*>>\s*(\d+)", e)
        if m and self.balanced(m.group(1)):
            t, w = self.expr(m.group(1))
            return "(%s / 2 ^ %s)" % (t, m.group(2)), w
        m = re.fullmatch(r"(.+)\.min\((\d+)\)", e)
        if m and self.balanced(m.group(1)):
            t, w = self.expr(m.group(1))
            return "(min %s %s)" % (t, m.group(2)), w
        m = re.fullmatch(r"(\w+(?:\.\w+)?)\.len\(\)", e)
        if m and m.group(1) in self.env and self.env[m.group(1)][0] in ("bytes", "array", "iarray", "pairs"):
            return "%s.length" % self.fld(m.group(1)), 64
        m = re.fullmatch(r"(\w+(?:\.\w+)?)\[(\d+)\]", e)
        if m and m.group(1) in self.env and self.env[m.group(1)][0] == "bytes":
            # an index the Rust code guards itself (out of range is a panic there: C12's subject, not this translation's)
            return "(%s.getD %s 0).toNat" % (self.fld(m.group(1)), m.group(2)), 8
        m = re.fullmatch(r"(\w+(?:\.\w+)?)\.get\((\d+)\)\s*\.map\(\|(\w+)\|\s*(.+)\)\s*\.unwrap_or\((\w+)\)", e, re.S)
        if m and m.group(1) in self.env and self.env[m.group(1)][0] == "bytes" and self.balanced(m.group(4)):
            saved = self.env.get(m.group(3))
            self.env[m.group(3)] = ("int", 8)
            try:
                if self.result == ("bool",):
                    body, w = "decide (%s)" % self.cond(m.group(4)), None
                    dflt = m.group(5)
                else:
                    body, w = self.expr(m.group(4))
                    dflt = self.expr(m.group(5))[0]
            finally:
                if saved is None:
                    del self.env[m.group(3)]
                else:
                    self.env[m.group(3)] = saved
            return "(match (%s[%s]?).map (·.toNat) with | some %s => %s | none => %s)" % (self.fld(m.group(1)), m.group(2), m.group(3), body, dflt), (w or 8)
        m = re.fullmatch(r"(\w+)\.(\w+)\(\)", e)
        if m and m.group(1) in self.structs_of and m.group(2) in self.known and self.known[m.group(2)].get("self") == self.structs_of[m.group(1)]:
            spec = self.known[m.group(2)]
            args = [self.fld("%s.%s" % (m.group(1), f)) for f, _ in self.all_structs[self.structs_of[m.group(1)]] if f in spec["params"][0]]
            return "(%s.%s %s)" % (spec["ns"], m.group(2), " ".join(args)), spec["result"]
        m = re.fullmatch(r"(\w+(?:\.\w+)?)\.get\((\d+)\)\.copied\(\)\.unwrap_or\((\w+)\)", e)
        if m and m.group(1) in self.env and self.env[m.group(1)][0] == "bytes":
            return "(match %s[%s]? with | some b => b.toNat | none => %s)" % (self.fld(m.group(1)), m.group(2), self.expr(m.group(3))[0]), 8
        m = re.fullmatch(r"(\w+)\.(\w+)", e)
        if m and "%s.%s" % (m.group(1), m.group(2)) in self.env and self.env[e][0] == "int":
            return self.fld(e), self.env[e][1]
        m = re.fullmatch(r"(.+?)\s*<<\s*(\d+)", e)
        if m and self.balanced(m.group(1)):
            t, w = self.expr(m.group(1))
            if w is None and re.fullmatch(r"\d+", t):
                return str(int(t) << int(m.group(2))), None
            if w is None:
                raise Untranslatable("shift of an untyped value: " + e)
            return "(%s * 2 ^ %s %% 2 ^ %d)" % (t, m.group(2), w), w
        if re.fullmatch(r"\w+", e):
            if e in self.env and self.env[e][0] == "int":
                return e, self.env[e][1]
            if e in self.consts:
                return str(self.consts[e][0]), WIDTH[self.consts[e][1]]
        raise Untranslatable("expression: " + e)

    def fld(self, key):
        """Lean name of an environment entry; a struct field is recorded as read"""
        if "." in key:
            a, f = key.split(".", 1)
            if a in self.used:
                self.used[a].add(f)
        return key.replace(".", "_")

    def cond(self, c):
        c = c.strip()
        if c in self.env and self.env[c] == ("bool",):
            return self.fld(c)
        m = re.fullmatch(r"(\w+(?:\.\w+)?)\.is_some\(\)", c)
        if m and self.env.get(m.group(1)) == ("optbytes",):
            return "%s.isSome" % self.fld(m.group(1))
        for op, lean in ((">=", "≥"), ("<=", "≤"), ("==", "="), ("!=", "≠"), (">", ">"), ("<", "<")):
            d = 0
            for i, ch in enumerate(c):
                if ch in "([":
                    d += 1
                elif ch in ")]":
                    d -= 1
                elif d == 0 and c.startswith(op, i):
                    if len(op) == 1 and (c[i - 1:i] in ("<", ">") or c[i + 1:i + 2] in ("<", ">", "=")):
                        continue
                    if len(op) == 2 and op in (">=", "<=") and c[i - 1:i] in ("<", ">"):
                        continue
                    return "%s %s %s" % (self.expr(c[:i])[0], lean, self.expr(c[i + len(op):])[0])
        raise Untranslatable("condition: " + c)

    @staticmethod
    def top_level(e, op):
        """index of the LAST top-level occurrence of the single-character operator `op` (not `||`, `&&`)"""
        d, idx = 0, None
        for i, ch in enumerate(e):
            if ch in "([":
                d += 1
            elif ch in ")]":
                d -= 1
            elif ch == op and d == 0 and e[i - 1:i] != op and e[i + 1:i + 2] != op and i > 0:
                idx = i
        return idx

    @staticmethod
    def split_args(s):
        out, cur, d = [], "", 0
        for ch in s:
            if ch in "([{":
                d += 1
            elif ch in ")]}":
                d -= 1
            if ch == "," and d == 0:
                out.append(cur); cur = ""
            else:
                cur += ch
        out.append(cur)
        return [x.strip() for x in out if x.strip()]

    @staticmethod
    def balanced(s):
        d = 0
        for ch in s:
            d += ch == "("
            d -= ch == ")"
            if d < 0:
                return False
        return d == 0

    def be(self, e, elem_width=None):
        if e.strip() in self.env and self.env[e.strip()] == ("sint", 32):
            return "i32be %s" % e.strip()
        t, w = self.expr(e)
        w = w or elem_width
        if w is None:
            raise Untranslatable("width of " + e)
        return "u8' %s" % t if w == 8 else "u%dbe %s" % (w, t)

    def bytes_arg(self, a):
        """the byte string denoted by an argument of extend_from_slice"""
        a = a.strip()
        m = re.fullmatch(r'b"((?:[^"\\]|\\.)*)"', a)
        if m:
            s = bytes(m.group(1), "utf-8").decode("unicode_escape").encode("latin-1")
            return lean_bytes(s)
        m = re.fullmatch(r"&\[\s*0u8\s*;\s*(\d+)\s*\]", a)
        if m:
            return "zeros %s" % m.group(1)
        m = re.fullmatch(r"&\[(.*)\]", a, re.S)
        if m:
            return "[" + ", ".join("u8' " + self.expr(x)[0] for x in m.group(1).split(",") if x.strip()) + "]"
        m = re.fullmatch(r"&(.+)\.to_be_bytes\(\)", a, re.S)
        if m:
            return self.be(m.group(1))
        m = re.fullmatch(r"&?(\w+(?:\.\w+)?)", a)
        if m and m.group(1) in self.env and self.env[m.group(1)][0] == "bytes":
            return self.fld(m.group(1))
        if m and m.group(1) in self.env and self.env[m.group(1)] == ("array", 8):
            return "%s.map u8'" % m.group(1)
        raise Untranslatable("byte-string argument: " + a)

    # ---- statements --------------------------------------------------------------------------
    def emit(self, buf, term):
        self.lines.append("  let %s := %s ++ %s" % (buf, buf, term))

    def is_buf(self, n):
        return n in self.env and self.env[n] == ("bytes", "mut")

    def box_expr(self, s):
        m = re.fullmatch(r'(?:return\s+)?build_box\(\s*b"(....)"\s*,\s*&(\w+)\s*\)', s)
        if not m:
            return None
        arg = m.group(2)
        if arg in self.env and self.env[arg][0] == "bytes":
            return "buildBox %s %s" % (lean_bytes(m.group(1).encode()), arg)
        if arg in self.env and self.env[arg][0] == "array" and self.env[arg][1] in (None, 8):
            return "buildBox %s (%s.map u8')" % (lean_bytes(m.group(1).encode()), arg)
        raise Untranslatable("build_box argument: " + arg)

    def ret(self, s):
        if self.result[0] != "bytes":
            return self.expr(re.sub(r"^return\s+", "", s))[0]
        b = self.box_expr(s)
        if b:
            return b
        m = re.fullmatch(r"(?:return\s+)?(\w+)", s)
        if m and m.group(1) in self.env and self.env[m.group(1)][0] == "bytes":
            return m.group(1)
        m = re.fullmatch(r"\[(.*)\]", s, re.S)
        if m:
            return "[" + ", ".join("u8' " + self.expr(x)[0] for x in m.group(1).split(",") if x.strip()) + "]"
        raise Untranslatable("result expression: " + s)

    def translate_block(self, stmts, top):
        for k, s in enumerate(stmts):
            s = s.rstrip(";").strip()
            last = k == len(stmts) - 1
            if re.fullmatch(r"assert_invariant!\(.*\)", s, re.S):
                continue            # panics or returns unit: the translation describes the value returned
            if re.fullmatch(r"for\s+\(\w+,\s*&?\w+\)\s+in\s+\w+\.iter\(\)\.enumerate\(\)\s*\{\s*assert_invariant!\([^;]*\);?\s*\}", s, re.S):
                continue
            m = re.fullmatch(r"let\s+mut\s+(\w+)\s*=\s*vec!\[(.*)\]", s, re.S)
            if m and ";" not in m.group(2):
                self.env[m.group(1)] = ("bytes", "mut")
                self.lines.append("  let %s : Bytes := [%s]" % (m.group(1), ", ".join("u8' " + self.expr(x)[0] for x in self.split_args(m.group(2)))))
                continue
            m = re.fullmatch(r"let\s+\(([\w\s,]+)\)\s*=\s*if\s+(.+?)\s*\{\s*\((.*?)\)\s*\}\s*else\s*\{\s*\((.*?)\)\s*\}", s, re.S)
            if m:
                names = [x.strip() for x in m.group(1).split(",") if x.strip()]
                c = self.cond(m.group(2))
                ea = self.split_args(m.group(3)); eb = self.split_args(m.group(4))
                if not (len(names) == len(ea) == len(eb)):
                    raise Untranslatable("tuple arity")
                for n_, a_, b_ in zip(names, ea, eb):
                    (ta, wa), (tb, wb) = self.expr(a_), self.expr(b_)
                    self.env[n_] = ("int", wa or wb or 8)
                    self.lines.append("  let %s : Nat := if %s then %s else %s" % (n_, c, ta, tb))
                continue
            # the run-length idiom of stts / ctts: (count, value) entries, the last one extended while the value repeats
            m = re.fullmatch(r"let\s+mut\s+(\w+)\s*:\s*Vec<\(u32,\s*(u32|i32)\)>\s*=\s*Vec::new\(\)", s)
            if m and k + 1 < len(stmts):
                ent, ty = m.group(1), m.group(2)
                nxt = re.sub(r"\s+", " ", stmts[k + 1].rstrip(";").strip())
                mm = re.fullmatch(r"for &(\w+) in (\w+) \{ if let Some\(last\) = %s\.last_mut\(\) \{ if last\.1 == \1 \{ last\.0 \+= 1; continue; \} \} %s\.push\(\(1(?:u32)?, \1\)\); \}" % (ent, ent), nxt)
                want = ("array", 32) if ty == "u32" else ("iarray", 32)
                if mm and self.env.get(mm.group(2)) == want:
                    self.env[ent] = ("pairs", ty)
                    self.lines.append("  let %s := rleSnoc %s" % (ent, mm.group(2)))
                    self.skip_next = True
                    continue
                raise Untranslatable("run-length loop over " + ent)
            if getattr(self, "skip_next", False):
                self.skip_next = False
                continue
            m = re.fullmatch(r"for\s+\((\w+),\s*(\w+)\)\s+in\s+(\w+)\s*\{\s*(\w+)\.extend_from_slice\(&(\w+)\.to_be_bytes\(\)\);\s*(\w+)\.extend_from_slice\(&(\w+)\.to_be_bytes\(\)\);?\s*\}", s, re.S)
            if m and self.env.get(m.group(3), ("",))[0] == "pairs" and self.is_buf(m.group(4)) and m.group(4) == m.group(6) \
                    and m.group(1) == m.group(5) and m.group(2) == m.group(7):
                second = "u32be" if self.env[m.group(3)][1] == "u32" else "i32be"
                self.emit(m.group(4), "%s.flatMap (fun (%s, %s) => u32be %s ++ %s %s)" % (m.group(3), m.group(1), m.group(2), m.group(1), second, m.group(2)))
                continue
            m = re.fullmatch(r"let\s+mut\s+(\w+)\s*=\s*Vec::new\(\)", s)
            if m:
                self.env[m.group(1)] = ("bytes", "mut")
                self.lines.append("  let %s : Bytes := []" % m.group(1)); continue
            m = re.fullmatch(r"let\s+mut\s+(\w+)\s*=\s*vec!\[\s*0u8\s*;\s*(\d+)\s*\]", s)
            if m:
                self.env[m.group(1)] = ("bytes", "mut")
                self.lines.append("  let %s : Bytes := zeros %s" % (m.group(1), m.group(2))); continue
            m = re.fullmatch(r"(\w+)\.extend_from_slice\((.*)\)", s, re.S)
            if m and self.is_buf(m.group(1)):
                self.emit(m.group(1), self.bytes_arg(m.group(2))); continue
            m = re.fullmatch(r"(\w+)\.push\((.*)\)", s)
            if m and self.is_buf(m.group(1)):
                self.emit(m.group(1), "[u8' %s]" % self.expr(m.group(2))[0]); continue
            m = re.fullmatch(r"let\s+(\w+)\s*=\s*(build_box\(.*\))", s, re.S)
            if m:
                self.lines.append("  let %s : Bytes := %s" % (m.group(1), self.box_expr(m.group(2))))
                self.env[m.group(1)] = ("bytes",); continue
            m = re.fullmatch(r"let\s+(\w+)\s*=\s*\[(.*)\]", s, re.S)
            if m:
                elems = [self.expr(x) for x in m.group(2).split(",") if x.strip()]
                ws = {w for _, w in elems if w}
                if len(ws) > 1:
                    raise Untranslatable("array element type")
                self.env[m.group(1)] = ("array", ws.pop() if ws else None)
                self.lines.append("  let %s : List Nat := [%s]" % (m.group(1), ", ".join(t for t, _ in elems))); continue
            m = re.fullmatch(r"for\s+(\w+)\s+in\s+(\w+)\s*\{\s*(\w+)\.extend_from_slice\(\s*&(\w+)\.to_be_bytes\(\)\s*\)\s*;?\s*\}", s, re.S)
            if m and m.group(2) in self.env and self.env[m.group(2)][0] == "array" and self.env[m.group(2)][1] and m.group(1) == m.group(4) and self.is_buf(m.group(3)):
                w = self.env[m.group(2)][1]
                self.emit(m.group(3), "%s.flatMap (fun v => u%dbe v)" % (m.group(2), w)); continue
            m = re.fullmatch(r"for\s+_\s+in\s+0\.\.(\d+)\s*\{\s*(\w+)\.extend_from_slice\((.*)\)\s*;?\s*\}", s, re.S)
            if m and self.is_buf(m.group(2)):
                self.emit(m.group(2), "(List.replicate %s (%s)).flatten" % (m.group(1), self.bytes_arg(m.group(3)))); continue
            m = re.fullmatch(r"let\s+(\w+)\s*=\s*match\s+(\w+)\s*\{(.*)\}", s, re.S)
            if m:
                scrut, w0 = self.expr(m.group(2))
                arms, dflt, w = [], None, None
                for arm in [x.strip() for x in m.group(3).split(",") if x.strip()]:
                    pat, val = [x.strip() for x in arm.split("=>")]
                    v, wv = self.expr(val); w = w or wv
                    if pat == "_":
                        dflt = v
                    else:
                        arms.append((self.expr(pat)[0], v))
                if dflt is None:
                    raise Untranslatable("match without default arm")
                term = dflt
                for pat, v in reversed(arms):
                    term = "if %s = %s then %s else %s" % (scrut, pat, v, term)
                self.env[m.group(1)] = ("int", w or 8)
                self.lines.append("  let %s : Nat := %s" % (m.group(1), term)); continue
            m = re.fullmatch(r"let\s+(\w+)\s*=\s*(\w+)\((.*)\)", s, re.S)
            if m and m.group(2) in self.known:
                args = []; argkinds = []
                for a in [x.strip() for x in m.group(3).split(",") if x.strip()]:
                    if a in self.structs_of:
                        want = self.known[m.group(2)]["params"][len(argkinds)]
                        argkinds.append(a)
                        args += [self.fld("%s.%s" % (a, f)) for f, _ in self.all_structs[self.structs_of[a]] if f in (want or ())]
                        continue
                    argkinds.append(None)
                    if False:
                        pass
                    elif a in self.env and self.env[a][0] in ("bytes", "array", "iarray"):
                        args.append(a)
                    else:
                        args.append("(%s)" % self.expr(a)[0])
                args = " ".join(args)
                self.env[m.group(1)] = ("bytes",)
                self.lines.append("  let %s : Bytes := %s %s" % (m.group(1), m.group(2), args)); continue
            m = re.fullmatch(r"let\s+(\w+)\s*(?::\s*(u8|u16|u32|u64))?\s*=\s*(.+)", s, re.S)
            if m:
                t, w = self.expr(m.group(3))
                if m.group(2):
                    w = WIDTH[m.group(2)]
                if w == "bool":
                    self.env[m.group(1)] = ("bool",)
                    self.lines.append("  let %s : Bool := %s" % (m.group(1), t)); continue
                if w is None:
                    raise Untranslatable("type of local " + m.group(1))
                self.env[m.group(1)] = ("int", w)
                self.lines.append("  let %s : Nat := %s" % (m.group(1), t)); continue
            m = re.fullmatch(r"if\s+let\s+Some\((\w+)\)\s*=\s*&(\w+\.\w+)\s*\{(.*)\}", s, re.S)
            if m and self.env.get(m.group(2)) == ("optbytes",):
                v = m.group(1)
                bufs = [n_ for n_ in self.env if self.is_buf(n_)]
                if len(bufs) != 1 or v in self.env:
                    raise Untranslatable("if-let block")
                self.env[v] = ("bytes",)
                saved = self.lines
                self.lines = []
                inner = split_statements(m.group(3))
                for st in inner:
                    if re.match(r"\s*(return|let)\b", st):
                        raise Untranslatable("if-let block with let/return")
                self.translate_block(inner + [bufs[0]], top=False)
                block = self.lines
                self.lines = saved
                del self.env[v]
                self.lines.append("  let %s := match %s with\n    | none => %s\n    | some %s => (\n%s)" % (bufs[0], self.fld(m.group(2)), bufs[0], v, "\n".join("    " + l for l in block)))
                continue
            m = re.fullmatch(r"if\s+(.+?)\s*\{(.*)\}", s, re.S)
            if m and top:
                conds = []
                for c in m.group(1).split("||"):
                    mm = re.fullmatch(r"\s*(\w+)\s*==\s*(\w+)\s*", c)
                    if not mm:
                        raise Untranslatable("condition: " + c)
                    conds.append("%s = %s" % (self.expr(mm.group(1))[0], self.expr(mm.group(2))[0]))
                inner = split_statements(m.group(2))
                if not inner or not inner[-1].startswith("return"):
                    raise Untranslatable("if-block without early return")
                saved = self.lines
                self.lines = []
                self.translate_block(inner, top=False)
                block = self.lines
                self.lines = saved
                self.lines.append("  if %s then (\n%s) else" % (" ∨ ".join(conds), "\n".join("  " + l for l in block)))
                continue
            if last or s.startswith("return"):
                self.lines.append("  " + self.ret(s)); return
            raise Untranslatable("statement: " + s[:80])
        raise Untranslatable("no result expression")

    def callee_spec(self):
        """per Rust parameter: None, or the struct fields this function (and its callees) read"""
        return [None if n is None else set(self.used[n]) for n in self.rust_params]

    def lean(self):
        params = "".join(" (%s : %s)" % p[:2] for p in self.params if len(p) == 2 or p[3] in self.used[p[2]])
        rt = {"bytes": "Bytes", "int": "Nat", "bool": "Bool"}[self.result[0]]
        return "def %s%s : %s :=\n%s\n" % (self.name, params, rt, "\n".join(self.lines))


def generate():
    srcs = {}
    out = []
    failed = []
    NS = {"src/muxer/mp4.rs": "Mp4", "src/fragmented.rs": "Frag", "src/codec/h265.rs": "Hevc"}
    cur = None
    known = {}
    all_structs = {}
    for root, _, files in sorted(os.walk(os.path.join(REPO, "src"))):
        for fn_ in sorted(files):
            if fn_.endswith(".rs"):
                all_structs.update(structs_of(strip_comments(open(os.path.join(root, fn_)).read())))
    for tgt in TARGETS:
        f, name = tgt[0], tgt[1]
        self_struct = tgt[2] if len(tgt) > 2 else None
        if f not in srcs:
            srcs[f] = strip_comments(open(os.path.join(REPO, f)).read())
        if NS[f] != cur:
            if cur:
                out.append("end %s\n" % cur)
            cur = NS[f]
            out.append("namespace %s\n" % cur)
        try:
            sig, body = find_fn(srcs[f], name)
            structs = dict(all_structs); structs.update(structs_of(srcs[f]))
            fn = Fn(name, sig, body, consts_of(srcs[f]), known, structs, self_struct)
            out.append("/-- `%s` of %s, translated statement by statement -/\n%s" % (name, f, fn.lean()))
            known[name] = {"params": fn.callee_spec(), "result": ("bool" if fn.result == ("bool",) else fn.result[1] if fn.result[0] == "int" else None),
                           "self": self_struct, "ns": cur}
        except Untranslatable as e:
            e = re.sub(r"\s+", " ", str(e))
            failed.append((name, e))
            out.append("-- UNTRANSLATABLE %s: %s\n" % (name, e))
    if cur:
        out.append("end %s\n" % cur)
    text = ("import Muxide.Model.Basic\n"
            "/-\n  GENERATED by tools/rs2lean.py from /repo's working tree — do not edit.\n"
            "  Straight-line byte builders of src/muxer/mp4.rs and src/fragmented.rs, translated statement by statement.\n-/\n"
            "namespace Muxide.Generated\nopen Muxide\n\n"
            "/-- a byte-sized value pushed or listed as a `u8` -/\nabbrev u8' (n : Nat) : UInt8 := UInt8.ofNat n\n\n"
            "/-- `build_box` (hand-written: length as `u32`, type, payload; its invariant INV-001 is a tautology) -/\n"
            "def buildBox (typ payload : Bytes) : Bytes := u32be (8 + payload.length) ++ typ ++ payload\n\n"
            "/-- the loop `for &x in xs { if let Some(last) = entries.last_mut() { if last.1 == x { last.0 += 1; continue; } }\n"
            "    entries.push((1, x)); }` (hand-written once; the translator only recognises the loop) -/\n"
            "def rleSnoc {α} [DecidableEq α] (xs : List α) : List (Nat × α) :=\n"
            "  xs.foldl (fun entries x => match entries.getLast? with\n"
            "    | some last => if last.2 = x then entries.dropLast ++ [(last.1 + 1, last.2)] else entries ++ [(1, x)]\n"
            "    | none => entries ++ [(1, x)]) []\n\n"
            + "\n".join(out) + "\nend Muxide.Generated\n")
    return text, failed


def main():
    text, failed = generate()
    os.makedirs(os.path.dirname(OUT), exist_ok=True)
    old = open(OUT).read() if os.path.exists(OUT) else None
    if old != text:
        with open(OUT, "w") as f:
            f.write(text)
    ntargets = len(TARGETS)
    for n, e in failed:
        print("untranslatable %s: %s" % (n, e))
    print("generated %d definitions (%d untranslatable)%s" % (len(TARGETS) - len(failed), len(failed), "" if old == text else " [file updated]"))
    return 1 if failed else 0


if __name__ == "__main__":
    sys.exit(main())
