#!/usr/bin/env python3
"""tools/rs2lean_frag.py — translator for the state machine of `FragmentedMuxer` (src/fragmented.rs).

`write_video`, `flush_segment`, `ready_to_flush` and `current_fragment_duration_ms` are the whole mutable core of the
fragmented muxer: a queue, the last accepted decode time, the sequence counter and the base decode time.  C10, C11
and the fragmented half of C05 are statements about exactly this state machine.  The script translates the four
methods, statement by statement and from /repo's working tree on every C10 run, into Lean functions over the
model's state record (`Muxide.Frag`): every assignment to a field of `self` becomes a record update, an early
`return` ends the function with the current state.  `Props/C10Generated.lean` proves each translated method equal
to the model's (`Frag.write`, `Frag.flush`, `Frag.ready`, `Frag.spanMs`) for every state and argument, so the
theorems of Props/C10.lean and Props/C11.lean are statements about the translated source.

Fields:  samples, last_dts → lastDts, sequence_number → seq, base_media_decode_time → base,
         config.timescale → cfg.timescale, config.fragment_duration_ms → cfg.fragDurMs
Statements (anything else makes the method `untranslatable`, which is reported):
    if let Some(v) = self.F { if A < v { return Err(FragmentedError::NonMonotonicDts { .. }); } }
    self.F = Some(x);      self.F = E;      self.samples.push(FragmentSample { pts, dts, data: data.to_vec(), is_sync });
    if COND { return V; }  let x = E;       let samples = std::mem::take(&mut self.samples);
    let segment = build_media_segment(&samples, self.sequence_number, self.base_media_decode_time, self.config.timescale);
    Ok(())    Some(segment)    E  (tail expression)
Expressions: self.samples.is_empty(), self.samples.len() < 2, samples[0].dts, self.samples[0].dts,
    self.samples.last().unwrap().dts, a.saturating_sub(b), x.wrapping_add(1), u128::from(a) * 1000 / u128::from(b),
    u64::try_from(ms).unwrap_or(u64::MAX), self.current_fragment_duration_ms() >= self.config.fragment_duration_ms as u64
Also translated: `build_trun`, `build_traf`, `build_moof_with_offset`, `build_moof`, `build_media_segment` (the whole media
segment, proved equal to the model's `buildSegment`).  Trusted: these patterns; indices the source guards itself (`samples[0]` after the emptiness test,
`last().unwrap()` after the length test) are rendered with a default value.
"""
import os
import re
import sys

sys.path.insert(0, os.path.dirname(os.path.abspath(__file__)))
from rs2lean import strip_comments, find_fn, split_statements, Untranslatable   # noqa: E402

REPO = os.environ.get("RS2LEAN_REPO", "/repo")
OUT = os.environ.get("RS2LEAN_FRAG_OUT") or os.path.join(os.path.dirname(os.path.dirname(os.path.abspath(__file__))),
                                                          "lean", "Muxide", "Generated", "FragMethods.lean")
FIELD = {"samples": "samples", "last_dts": "lastDts", "sequence_number": "seq", "base_media_decode_time": "base"}


def impl_body(src):
    m = re.search(r"impl\s+FragmentedMuxer\s*\{", src)
    if not m:
        raise Untranslatable("impl FragmentedMuxer not found")
    return src[m.start():]


def expr(e, env):
    e = e.strip()
    while e.startswith("(") and e.endswith(")"):
        e = e[1:-1].strip()
    if re.fullmatch(r"\d+", e):
        return e
    if e in env:
        return env[e]
    m = re.fullmatch(r"self\.(\w+)", e)
    if m and m.group(1) in FIELD:
        return "self.%s" % FIELD[m.group(1)]
    if e == "self.config.timescale":
        return "self.cfg.timescale"
    if e == "self.config.fragment_duration_ms as u64":
        return "self.cfg.fragDurMs"
    m = re.fullmatch(r"(self\.samples|samples)\[0\]\.dts", e)
    if m:
        return "((%s.head?.map (·.dts)).getD 0)" % expr(m.group(1), env)
    if e == "self.samples.last().unwrap().dts":
        return "((self.samples.getLast?.map (·.dts)).getD 0)"
    m = re.fullmatch(r"(\w+)\.saturating_sub\((\w+)\)", e)
    if m:
        return "(%s - %s)" % (expr(m.group(1), env), expr(m.group(2), env))
    m = re.fullmatch(r"(self\.\w+)\.wrapping_add\(1\)", e)
    if m:
        return "((%s + 1) %% 2 ^ 32)" % expr(m.group(1), env)
    m = re.fullmatch(r"u128::from\((\w+)\)\s*\*\s*1000\s*/\s*u128::from\(([\w.]+)\)", e)
    if m:
        return "(%s * 1000 / %s)" % (expr(m.group(1), env), expr(m.group(2), env))
    m = re.fullmatch(r"u64::try_from\((\w+)\)\.unwrap_or\(u64::MAX\)", e)
    if m:
        return "(min %s u64Max)" % expr(m.group(1), env)
    if e == "self.current_fragment_duration_ms()":
        return "(current_fragment_duration_ms self)"
    raise Untranslatable("expression: " + e)


def cond(c, env):
    c = c.strip()
    if c == "self.samples.is_empty()":
        return "self.samples = []"
    m = re.fullmatch(r"self\.samples\.len\(\)\s*<\s*(\d+)", c)
    if m:
        return "self.samples.length < %s" % m.group(1)
    m = re.fullmatch(r"(.+?)\s*(==|>=|<)\s*(.+)", c)
    if m:
        op = {"==": "=", ">=": "≥", "<": "<"}[m.group(2)]
        return "%s %s %s" % (expr(m.group(1), env), op, expr(m.group(3), env))
    raise Untranslatable("condition: " + c)


def value(v, env, kind):
    v = v.strip()
    if kind == "reply":
        if v == "Ok(())":
            return ".ok"
        if v == "None":
            return ".none"
        m = re.fullmatch(r"Some\((\w+)\)", v)
        if m and m.group(1) in env:
            return ".seg %s" % env[m.group(1)]
        if re.fullmatch(r"Err\(\s*FragmentedError::NonMonotonicDts\s*\{.*\}\s*\)", v, re.S):
            return ".errNonMonotonic"
        raise Untranslatable("result value: " + v[:50])
    if kind == "bool":
        if v in ("true", "false"):
            return v
        return "decide (%s)" % cond(v, env)
    return expr(v, env)


def method(src, name, kind, params):
    sig, body = find_fn(src, name)
    env = {p: p for p in params}
    lines = []
    mutating = kind == "reply"

    def ret(v):
        r = value(v, env, kind)
        return "(self, %s)" % r if mutating else r

    stmts = [s.strip().rstrip(";").strip() for s in split_statements(body)]
    stmts = [s for s in stmts if s]
    for k, s in enumerate(stmts):
        last = k == len(stmts) - 1
        m = re.fullmatch(r"if\s+let\s+Some\((\w+)\)\s*=\s*self\.(\w+)\s*\{\s*if\s+(\w+)\s*<\s*(\w+)\s*\{\s*return\s+(.*?)\s*;?\s*\}\s*\}", s, re.S)
        if m and m.group(2) in FIELD and m.group(4) == m.group(1) and m.group(3) in env:
            lines.append("  if (match self.%s with | some %s => decide (%s < %s) | none => false) then %s else"
                         % (FIELD[m.group(2)], m.group(1), env[m.group(3)], m.group(1), ret(m.group(5))))
            continue
        m = re.fullmatch(r"if\s+(.+?)\s*\{\s*return\s+(.*?)\s*;?\s*\}", s, re.S)
        if m:
            lines.append("  if %s then %s else" % (cond(m.group(1), env), ret(m.group(2)))); continue
        m = re.fullmatch(r"self\.(\w+)\s*=\s*Some\((\w+)\)", s)
        if m and m.group(1) in FIELD and m.group(2) in env and mutating:
            lines.append("  let self : Frag := { self with %s := some %s }" % (FIELD[m.group(1)], env[m.group(2)])); continue
        m = re.fullmatch(r"self\.(\w+)\s*=\s*(.+)", s, re.S)
        if m and m.group(1) in FIELD and mutating:
            lines.append("  let self : Frag := { self with %s := %s }" % (FIELD[m.group(1)], expr(m.group(2), env))); continue
        m = re.fullmatch(r"self\.samples\.push\(\s*FragmentSample\s*\{\s*pts\s*,\s*dts\s*,\s*data\s*:\s*data\.to_vec\(\)\s*,\s*is_sync\s*,?\s*\}\s*\)", s, re.S)
        if m and mutating:
            lines.append("  let self : Frag := { self with samples := self.samples ++ [⟨pts, dts, data, is_sync⟩] }"); continue
        if re.fullmatch(r"let\s+samples\s*=\s*std::mem::take\(&mut\s+self\.samples\)", s) and mutating:
            lines.append("  let samples : List FSample := self.samples")
            lines.append("  let self : Frag := { self with samples := [] }")
            env["samples"] = "samples"; continue
        m = re.fullmatch(r"let\s+(\w+)\s*=\s*build_media_segment\(\s*&samples\s*,\s*self\.sequence_number\s*,\s*self\.base_media_decode_time\s*,\s*self\.config\.timescale\s*,?\s*\)", s, re.S)
        if m and "samples" in env:
            lines.append("  let %s : Bytes := build_media_segment samples self.seq self.base" % m.group(1))
            env[m.group(1)] = m.group(1); continue
        m = re.fullmatch(r"let\s+(\w+)\s*=\s*(.+)", s, re.S)
        if m:
            lines.append("  let %s : Nat := %s" % (m.group(1), expr(m.group(2), env)))
            env[m.group(1)] = m.group(1); continue
        if last:
            lines.append("  " + ret(s)); break
        raise Untranslatable("statement: " + s[:70])
    else:
        raise Untranslatable("no result expression")
    ps = "".join(" (%s : %s)" % (p, {"pts": "Nat", "dts": "Nat", "data": "Bytes", "is_sync": "Bool"}[p]) for p in params)
    rty = {"reply": "Frag × FReply", "bool": "Bool", "nat": "Nat"}[kind]
    return "/-- `FragmentedMuxer::%s`, translated statement by statement -/\ndef %s (self : Frag)%s : %s :=\n%s\n" % (name, name, ps, rty, "\n".join(lines))


def trun_expr(e, loop):
    """integer expressions of `build_trun` (all values are Lean `Nat`s; `as u32` = `% 2^32`)"""
    e = e.strip()
    while e.startswith("(") and e.endswith(")") and e.count("(") == e.count(")") and balanced(e[1:-1]):
        e = e[1:-1].strip()
    m = re.fullmatch(r"(0x[0-9a-fA-F_]+|\d[\d_]*)(?:_?u32)?", e)
    if m:
        return str(int(m.group(1).replace("_", ""), 0))
    if "|" in e and balanced(e):
        parts = [x for x in e.split("|")]
        return "(" + " ||| ".join(trun_expr(x, loop) for x in parts) + ")"
    m = re.fullmatch(r"(.+)\s+as\s+u32", e, re.S)
    if m and balanced(m.group(1)):
        return "(%s %% 2 ^ 32)" % trun_expr(m.group(1), loop)
    d, k = 0, None
    for j, ch in enumerate(e):                      # a top-level binary minus (outside brackets)
        if ch in "([":
            d += 1
        elif ch in ")]":
            d -= 1
        elif ch == "-" and d == 0 and j > 0:
            k = j
    if k is not None:
        return "(%s - %s)" % (trun_expr(e[:k], loop), trun_expr(e[k + 1:], loop))
    if e in ("flags", "duration", "data_offset"):
        return e
    if e == "samples.len()":
        return "samples.length"
    if loop:
        if e == "sample.dts":
            return "sample.dts"
        if e == "sample.data.len()":
            return "sample.data.length"
        m = re.fullmatch(r"samples\[i\s*([+-])\s*1\]\.dts", e)
        if m:
            return "((samples[i %s 1]?.map (·.dts)).getD 0)" % m.group(1)
    raise Untranslatable("trun expression: " + e)


def balanced(s):
    d = 0
    for ch in s:
        d += ch == "("
        d -= ch == ")"
        if d < 0:
            return False
    return d == 0


def translate_trun(full_src):
    """`build_trun(samples, data_offset)`: three header words, then four words per sample; the per-sample duration is
    the gap to the next sample, for the last sample the previous gap, for a lone sample 3000."""
    sig, body = find_fn(full_src, "build_trun")
    stmts = [x.strip().rstrip(";").strip() for x in split_statements(body)]
    stmts = [x for x in stmts if x]
    lines = []
    i = 0
    m = re.fullmatch(r"let\s+flags\s*:\s*u32\s*=\s*(.+)", stmts[i], re.S)
    if not m:
        raise Untranslatable("trun: flags")
    lines.append("  let flags : Nat := %s" % trun_expr(m.group(1), False)); i += 1
    if stmts[i] != "let mut payload = Vec::new()":
        raise Untranslatable("trun: payload")
    lines.append("  let payload : Bytes := []"); i += 1
    while i < len(stmts) and stmts[i].startswith("payload.extend_from_slice"):
        m = re.fullmatch(r"payload\.extend_from_slice\(&(.+)\.to_be_bytes\(\)\)", stmts[i], re.S)
        if not m:
            raise Untranslatable("trun header: " + stmts[i][:50])
        lines.append("  let payload := payload ++ u32be %s" % trun_expr(m.group(1), False)); i += 1
    m = re.fullmatch(r"for\s+\(i,\s*sample\)\s+in\s+samples\.iter\(\)\.enumerate\(\)\s*\{(.*)\}", stmts[i], re.S)
    if not m:
        raise Untranslatable("trun: loop")
    inner = [x.strip().rstrip(";").strip() for x in split_statements(m.group(1))]
    inner = [x for x in inner if x]
    row = []
    for st in inner:
        mm = re.fullmatch(r"let\s+duration\s*=\s*if\s+i\s*\+\s*1\s*<\s*samples\.len\(\)\s*\{(.*?)\}\s*else\s+if\s+i\s*>\s*0\s*\{(.*?)\}\s*else\s*\{\s*(\d+)\s*\}", st, re.S)
        if mm:
            row.append("      let duration : Nat := if i + 1 < samples.length then %s else if i > 0 then %s else %s"
                       % (trun_expr(mm.group(1), True), trun_expr(mm.group(2), True), mm.group(3))); continue
        mm = re.fullmatch(r"let\s+flags\s*=\s*if\s+sample\.is_sync\s*\{\s*(\S+)\s*\}\s*else\s*\{\s*(\S+)\s*\}", st, re.S)
        if mm:
            row.append("      let flags : Nat := if sample.sync then %s else %s" % (trun_expr(mm.group(1), True), trun_expr(mm.group(2), True))); continue
        if re.fullmatch(r"let\s+cts\s*=\s*\(sample\.pts\s+as\s+i64\)\.wrapping_sub\(sample\.dts\s+as\s+i64\)\s+as\s+i32", st):
            row.append("      let cts : Int := ctsWrap sample.pts sample.dts"); continue
        mm = re.fullmatch(r"payload\.extend_from_slice\(&(.+)\.to_be_bytes\(\)\)", st, re.S)
        if mm:
            if mm.group(1).strip() == "cts":
                row.append("      let row := row ++ i32be cts")
            else:
                row.append("      let row := row ++ u32be %s" % trun_expr(mm.group(1), True))
            continue
        raise Untranslatable("trun row statement: " + st[:60])
    lines.append("  let payload := payload ++ (List.zip (List.range samples.length) samples).flatMap (fun (i, sample) =>")
    lines.append("      let row : Bytes := []")
    lines += row
    lines.append("      row)")
    i += 1
    if i != len(stmts) - 1 or not re.fullmatch(r'build_box\(b"trun",\s*&payload\)', stmts[i]):
        raise Untranslatable("trun: tail")
    lines.append("  u32be (8 + payload.length) ++ [116, 114, 117, 110] ++ payload")
    return ("/-- `build_trun` (src/fragmented.rs), translated statement by statement (the loop appends one row per sample) -/\n"
            "def build_trun (samples : List FSample) (data_offset : Nat) : Bytes :=\n" + "\n".join(lines) + "\n")


SEG_FUNCS = {  # name -> (Lean parameter list, Rust parameter names in call order)
    "build_traf": ("(samples : List FSample) (base_media_decode_time : Nat) (data_offset : Nat)", ["samples", "base_media_decode_time", "data_offset"]),
    "build_moof_with_offset": ("(samples : List FSample) (sequence_number : Nat) (base_media_decode_time : Nat) (data_offset : Nat)",
                               ["samples", "sequence_number", "base_media_decode_time", "data_offset"]),
    "build_moof": ("(samples : List FSample) (sequence_number : Nat) (base_media_decode_time : Nat)", ["samples", "sequence_number", "base_media_decode_time"]),
    "build_media_segment": ("(samples : List FSample) (sequence_number : Nat) (base_media_decode_time : Nat)",
                            ["samples", "sequence_number", "base_media_decode_time", "_timescale"]),
}
CALLEES = {"build_mfhd": "Muxide.Generated.Frag.build_mfhd", "build_tfhd": "Muxide.Generated.Frag.build_tfhd",
           "build_tfdt": "Muxide.Generated.Frag.build_tfdt", "build_trun": "build_trun", "build_traf": "build_traf",
           "build_moof_with_offset": "build_moof_with_offset", "build_moof": "build_moof"}


def seg_call(c, env):
    m = re.fullmatch(r"(\w+)\((.*)\)", c.strip(), re.S)
    if not m or m.group(1) not in CALLEES:
        raise Untranslatable("call: " + c[:50])
    args = []
    for a_ in [x.strip() for x in m.group(2).split(",") if x.strip()]:
        a_ = a_.lstrip("&")
        if re.fullmatch(r"\d+", a_):
            args.append(a_)
        elif a_ in env:
            args.append(a_)
        else:
            raise Untranslatable("argument: " + a_)
    return ("%s %s" % (CALLEES[m.group(1)], " ".join(args))).strip()


def translate_seg(full_src, name):
    """the four functions that assemble a media segment from its boxes (moof[mfhd, traf[tfhd, tfdt, trun]], mdat)"""
    params, rust_params = SEG_FUNCS[name]
    sig, body = find_fn(full_src, name)
    env = set(p for p in rust_params if not p.startswith("_"))
    lines = []
    stmts = [x.strip().rstrip(";").strip() for x in split_statements(body)]
    stmts = [x for x in stmts if x]
    for k, st in enumerate(stmts):
        last = k == len(stmts) - 1
        m = re.fullmatch(r"let\s+mut\s+(\w+)\s*=\s*Vec::(?:new\(\)|with_capacity\(.*\))", st, re.S)
        if m:
            lines.append("  let %s : Bytes := []" % m.group(1)); env.add(m.group(1)); continue
        m = re.fullmatch(r"let\s+(\w+)\s*:\s*usize\s*=\s*samples\.iter\(\)\.map\(\|s\|\s*s\.data\.len\(\)\)\.sum\(\)", st)
        if m:
            lines.append("  let %s : Nat := (samples.map (·.data.length)).sum" % m.group(1)); env.add(m.group(1)); continue
        m = re.fullmatch(r"let\s+(\w+)\s*=\s*(\w+)\.len\(\)\s+as\s+u32", st)
        if m and m.group(2) in env:
            lines.append("  let %s : Nat := %s.length %% 2 ^ 32" % (m.group(1), m.group(2))); env.add(m.group(1)); continue
        m = re.fullmatch(r"let\s+(\w+)\s*=\s*(\w+)\s*\+\s*(\d+)", st)
        if m and m.group(2) in env:
            lines.append("  let %s : Nat := (%s + %s) %% 2 ^ 32" % (m.group(1), m.group(2), m.group(3))); env.add(m.group(1)); continue
        m = re.fullmatch(r"let\s+(\w+)\s*=\s*\((\d+)\s*\+\s*(\w+)\)\s+as\s+u32", st)
        if m and m.group(3) in env:
            lines.append("  let %s : Nat := (%s + %s) %% 2 ^ 32" % (m.group(1), m.group(2), m.group(3))); env.add(m.group(1)); continue
        m = re.fullmatch(r"let\s+(\w+)\s*=\s*(\w+\(.*\))", st, re.S)
        if m:
            lines.append("  let %s : Bytes := %s" % (m.group(1), seg_call(m.group(2), env))); env.add(m.group(1)); continue
        m = re.fullmatch(r"(\w+)\.extend_from_slice\(&(\w+)\.to_be_bytes\(\)\)", st)
        if m and m.group(1) in env and m.group(2) in env:
            lines.append("  let %s := %s ++ u32be %s" % (m.group(1), m.group(1), m.group(2))); continue
        m = re.fullmatch(r'(\w+)\.extend_from_slice\(b"(....)"\)', st)
        if m and m.group(1) in env:
            lines.append("  let %s := %s ++ [%s]" % (m.group(1), m.group(1), ", ".join(str(b_) for b_ in m.group(2).encode()))); continue
        m = re.fullmatch(r"(\w+)\.extend_from_slice\(&(\w+)\)", st)
        if m and m.group(1) in env and m.group(2) in env:
            lines.append("  let %s := %s ++ %s" % (m.group(1), m.group(1), m.group(2))); continue
        m = re.fullmatch(r"for\s+sample\s+in\s+samples\s*\{\s*(\w+)\.extend_from_slice\(&sample\.data\)\s*;?\s*\}", st, re.S)
        if m and m.group(1) in env:
            lines.append("  let %s := %s ++ samples.flatMap (·.data)" % (m.group(1), m.group(1))); continue
        if last:
            m = re.fullmatch(r'build_box\(b"(....)",\s*&(\w+)\)', st)
            if m and m.group(2) in env:
                lines.append("  u32be (8 + %s.length) ++ [%s] ++ %s" % (m.group(2), ", ".join(str(b_) for b_ in m.group(1).encode()), m.group(2))); break
            if st in env:
                lines.append("  " + st); break
            lines.append("  " + seg_call(st, env)); break
        raise Untranslatable("statement: " + st[:70])
    else:
        raise Untranslatable("no result")
    return "/-- `%s` (src/fragmented.rs), translated statement by statement -/\ndef %s %s : Bytes :=\n%s\n" % (name, name, params, "\n".join(lines))


def generate():
    full = strip_comments(open(os.path.join(REPO, "src/fragmented.rs")).read())
    src = impl_body(full)
    out, failed = [], []
    try:
        out.append(translate_trun(full))
    except Untranslatable as e:
        msg = re.sub(r"\s+", " ", str(e))
        failed.append(("build_trun", msg))
        out.append("-- UNTRANSLATABLE build_trun: %s\n" % msg)
    for nm in ("build_traf", "build_moof_with_offset", "build_moof", "build_media_segment"):
        try:
            out.append(translate_seg(full, nm))
        except Untranslatable as e:
            msg = re.sub(r"\s+", " ", str(e))
            failed.append((nm, msg))
            out.append("-- UNTRANSLATABLE %s: %s\n" % (nm, msg))
    for name, kind, params in [("current_fragment_duration_ms", "nat", []), ("ready_to_flush", "bool", []),
                               ("write_video", "reply", ["pts", "dts", "data", "is_sync"]), ("flush_segment", "reply", [])]:
        try:
            out.append(method(src, name, kind, params))
        except Untranslatable as e:
            msg = re.sub(r"\s+", " ", str(e))
            failed.append((name, msg))
            out.append("-- UNTRANSLATABLE %s: %s\n" % (name, msg))
    text = ("import Muxide.Model.Frag\nimport Muxide.Generated.Builders\n/-\n  GENERATED by tools/rs2lean_frag.py from /repo's working tree — do not edit.\n"
            "  The state machine of `FragmentedMuxer` (src/fragmented.rs).\n-/\n"
            "namespace Muxide.Generated.FragMethods\nopen Muxide\n\n" + "\n".join(out) + "\nend Muxide.Generated.FragMethods\n")
    return text, failed


def main():
    text, failed = generate()
    os.makedirs(os.path.dirname(OUT), exist_ok=True)
    old = open(OUT).read() if os.path.exists(OUT) else None
    if old != text:
        with open(OUT, "w") as f:
            f.write(text)
    for n, e in failed:
        print("untranslatable %s: %s" % (n, e))
    print("generated 9 definitions (%d untranslatable)%s" % (len(failed), "" if old == text else " [file updated]"))
    return 1 if failed else 0


if __name__ == "__main__":
    sys.exit(main())
