#!/usr/bin/env python3
"""tools/rs2lean_stats.py — translator for `Mp4Writer::max_end_pts` and its local `track_end` (src/muxer/mp4.rs).

`MuxerStats::duration_secs` is `max_end_pts / 90000`: the largest presentation end (pts + duration) over all samples
of both tracks — C06's "duration equals the maximum end time".  The script translates the two functions, statement
by statement and from /repo's working tree on every C06 run; `Props/C06Generated.lean` proves them equal to the
model's `trackEnd` / `Writer.maxEndPts`, so `C06_stats` and `C06_duration_within_one_tick` are about the translated
source.

Supported (whitespace-normalised; anything else makes the function `untranslatable`, which is reported):
  fn track_end(samples: &[SampleInfo], last_delta: Option<u32>) -> Option<u64> {
      let last_idx = samples.len().checked_sub(1)?;
      samples.iter().enumerate().map(|(idx, sample)| { let duration = match sample.duration { Some(d) => d,
          None if idx == last_idx => last_delta.unwrap_or(A), None => B, }; sample.pts.saturating_add(u64::from(duration)) }).max() }
  let video_end = track_end(&self.video_samples, self.video_last_delta);   (same for audio)
  match (video_end, audio_end) { (Some(v), Some(a)) => Some(v.max(a)), (Some(v), None) => Some(v), (None, Some(a)) => Some(a), (None, None) => None, }
`x.checked_sub(1)?` = return None when x = 0; `a.saturating_add(b)` on u64 = `min (a + b) u64Max`; `.max()` of an
iterator = `List.max?`.
"""
import os
import re
import sys

sys.path.insert(0, os.path.dirname(os.path.abspath(__file__)))
from rs2lean import strip_comments, find_fn, split_statements, Untranslatable   # noqa: E402

REPO = os.environ.get("RS2LEAN_REPO", "/repo")
OUT = os.environ.get("RS2LEAN_STATS_OUT") or os.path.join(os.path.dirname(os.path.dirname(os.path.abspath(__file__))),
                                                           "lean", "Muxide", "Generated", "Stats.lean")


def norm(s):
    return re.sub(r"\s+", " ", s.strip().rstrip(";").strip())


def translate(src):
    sig, body = find_fn(src, "max_end_pts")
    tsig, tbody = find_fn(body, "track_end")
    if norm(re.sub(r"^fn\s+", "", tsig)) != "track_end(samples: &[SampleInfo], last_delta: Option<u32>) -> Option<u64>":
        raise Untranslatable("signature of track_end: " + norm(tsig))
    t = [norm(x) for x in split_statements(tbody)]
    t = [x for x in t if x]
    if len(t) != 2 or t[0] != "let last_idx = samples.len().checked_sub(1)?":
        raise Untranslatable("track_end head: " + (t[0] if t else "")[:60])
    m = re.fullmatch(r"samples ?\.iter\(\) ?\.enumerate\(\) ?\.map\(\|\(idx, sample\)\| \{ let duration = match sample\.duration \{ Some\(d\) => d, "
                     r"None if idx == last_idx => last_delta\.unwrap_or\((\d+)\), None => (\d+), \}; "
                     r"sample\.pts\.saturating_add\(u64::from\(duration\)\) \}\) ?\.max\(\)", t[1])
    if not m:
        raise Untranslatable("track_end body: " + t[1][:80])
    track = ("/-- the local `fn track_end` of `max_end_pts` -/\n"
             "def track_end (samples : List Sample) (last_delta : Option Nat) : Option Nat :=\n"
             "  match (if samples.length = 0 then none else some (samples.length - 1)) with\n"
             "  | none => none\n"
             "  | some last_idx =>\n"
             "    ((List.zip (List.range samples.length) samples).map (fun (idx, sample) =>\n"
             "      let duration : Nat := match sample.dur with\n"
             "        | some d => d\n"
             "        | none => if idx = last_idx then last_delta.getD %s else %s\n"
             "      min (sample.pts + duration) u64Max)).max?\n" % (m.group(1), m.group(2)))
    # the body of max_end_pts after the nested fn
    rest = body[body.index(tbody) + len(tbody) + 1:]
    r = [norm(x) for x in split_statements(rest)]
    r = [x for x in r if x]
    want = ["let video_end = track_end(&self.video_samples, self.video_last_delta)",
            "let audio_end = track_end(&self.audio_samples, self.audio_last_delta)"]
    if r[:2] != want or len(r) != 3:
        raise Untranslatable("max_end_pts statements: " + " ; ".join(r)[:100])
    m = re.fullmatch(r"match \(video_end, audio_end\) \{ \(Some\(v\), Some\(a\)\) => Some\(v\.max\(a\)\), \(Some\(v\), None\) => Some\(v\), "
                     r"\(None, Some\(a\)\) => Some\(a\), \(None, None\) => None, \}", r[2])
    if not m:
        raise Untranslatable("max_end_pts match: " + r[2][:80])
    main = ("/-- `Mp4Writer::max_end_pts`, translated statement by statement -/\n"
            "def max_end_pts (video_samples audio_samples : List Sample) (video_last_delta audio_last_delta : Option Nat) : Option Nat :=\n"
            "  let video_end := track_end video_samples video_last_delta\n"
            "  let audio_end := track_end audio_samples audio_last_delta\n"
            "  match video_end, audio_end with\n"
            "  | some v, some a => some (max v a)\n  | some v, none => some v\n  | none, some a => some a\n  | none, none => none\n")
    return track + "\n" + main


def generate():
    src = strip_comments(open(os.path.join(REPO, "src/muxer/mp4.rs")).read())
    failed = []
    try:
        body = translate(src)
    except Untranslatable as e:
        msg = re.sub(r"\s+", " ", str(e))
        failed.append(("max_end_pts", msg))
        body = "-- UNTRANSLATABLE max_end_pts: %s\n" % msg
    text = ("import Muxide.Model.Mp4\n/-\n  GENERATED by tools/rs2lean_stats.py from /repo's working tree — do not edit.\n"
            "  `Mp4Writer::max_end_pts` (src/muxer/mp4.rs).\n-/\n"
            "namespace Muxide.Generated.Stats\nopen Muxide\n\n" + body + "\nend Muxide.Generated.Stats\n")
    return text, failed


def main():
    text, failed = generate()
    os.makedirs(os.path.dirname(OUT), exist_ok=True)
    old = open(OUT).read() if os.path.exists(OUT) else None
    if old != text:
        with open(OUT, "w") as f:
            f.write(text)
    for n, e in failed:
        print("untranslatable %s: %s" % (n, e))
    print("generated 2 definitions (%d untranslatable)%s" % (len(failed), "" if old == text else " [file updated]"))
    return 1 if failed else 0


if __name__ == "__main__":
    sys.exit(main())
