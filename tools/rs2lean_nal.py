#!/usr/bin/env python3
"""tools/rs2lean_nal.py — translator for the NAL-unit loops of src/codec/h264.rs and src/codec/h265.rs.

`extract_avc_config`, `extract_hevc_config`, `is_h264_keyframe`, `is_hevc_keyframe` and the two re-framing functions
`annexb_to_avcc`, `hevc_annexb_to_hvcc` (C14: an output vector filled unit by unit) walk the units produced by
`AnnexBNalIter` with a `for` loop that uses `continue`, `break`, early `return` and a few `Option` slots; together
with the two small helpers `hevc_nal_type` and `is_hevc_keyframe_nal_type` and the constants of `mod nal_type`
they decide which parameter sets end up in avcC / hvcC (C07) and which frames count as key frames.  This script
translates them, statement by statement and from /repo's working tree on every C07 run, into Lean: the `for` loop
becomes a structurally recursive function over the list of units (`continue` = recurse with the current slots,
`break` = stop with the current slots, `return v` = stop with `v`), the slots become its arguments.
`Props/C07Generated.lean` proves each generated function equal to the model's (`extractAvc`, `extractHevc`,
`isH264Keyframe`, …) for every byte string.  The iterator itself is the model's `nals` (hand-written; tied to the
source by the checked model of Props/C12Checked.lean and the correspondence run).

Supported statements (anything else makes the function `untranslatable`, which is reported):
  head:   if data.is_empty() { return V; }      assert_invariant!(..);      let mut S: Option<&[u8]> = None;
  loop:   for nal in AnnexBNalIter::new(data) { BODY }
  BODY:   if nal.is_empty() { continue; }       let nal_type = E;           assert_invariant!(..);
          match nal_type { nal_type::C if S.is_none() => S = Some(nal), .. _ => {} }
          if nal_type == nal_type::C && S.is_none() { S = Some(nal); } else if .. { .. }
          if S1.is_some() && S2.is_some() .. { break; }
          if COND { return true; }
  tail:   if let (Some(a), ..) = (S1, ..) { assert_invariant!(..); Some(Struct { f: a.to_vec(), .. }) } else { None }
          | false
  E:      nal[0] & 0x1f  |  (nal[0] >> 1) & 0x3f  |  hevc_nal_type(nal)
  COND:   nal_type == nal_type::C  |  is_hevc_keyframe_nal_type(nal_type)
"""
import os
import re
import sys

sys.path.insert(0, os.path.dirname(os.path.abspath(__file__)))
from rs2lean import strip_comments, find_fn, split_statements, Untranslatable   # noqa: E402

REPO = os.environ.get("RS2LEAN_REPO", "/repo")
OUT = os.environ.get("RS2LEAN_NAL_OUT") or os.path.join(os.path.dirname(os.path.dirname(os.path.abspath(__file__))),
                                                         "lean", "Muxide", "Generated", "Nal.lean")


def nal_consts(src):
    m = re.search(r"pub\s+mod\s+nal_type\s*\{(.*?)\n\}", src, re.S)
    out = {}
    if m:
        for c in re.finditer(r"pub\s+const\s+(\w+)\s*:\s*u8\s*=\s*(\d+)\s*;", m.group(1)):
            out[c.group(1)] = int(c.group(2))
    return out


def join_else(stmts):
    out = []
    for s in stmts:
        if s.strip().startswith("else") and out:
            out[-1] = out[-1] + " " + s.strip()
        else:
            out.append(s)
    return out


class Loop:
    def __init__(self, name, src, consts, struct=None):
        self.name, self.consts = name, consts
        sig, body = find_fn(src, name)
        self.slots = []
        self.head = []          # (cond, value) early returns before the loop
        self.ret_bool = bool(re.search(r"->\s*bool\s*$", sig.strip()))
        stmts = join_else(split_statements(body))
        i = 0
        while i < len(stmts):
            s = stmts[i].strip().rstrip(";").strip()
            if re.fullmatch(r"assert_invariant!\(.*\)", s, re.S):
                i += 1; continue
            m = re.fullmatch(r"if\s+data\.is_empty\(\)\s*\{\s*return\s+(\w+)\s*;?\s*\}", s, re.S)
            if m:
                self.head.append(("data = []", {"None": "none", "false": "false", "true": "true"}[m.group(1)])); i += 1; continue
            m = re.fullmatch(r"let\s+mut\s+(\w+)\s*:\s*Option<&\[u8\]>\s*=\s*None", s)
            if m:
                self.slots.append(m.group(1)); i += 1; continue
            m = re.fullmatch(r"for\s+nal\s+in\s+AnnexBNalIter::new\(data\)\s*\{(.*)\}", s, re.S)
            if m:
                self.body = self.block(join_else(split_statements(m.group(1))))
                i += 1
                break
            raise Untranslatable("statement before the loop: " + s[:60])
        else:
            raise Untranslatable("no loop over AnnexBNalIter::new(data)")
        rest = [x.strip().rstrip(";").strip() for x in stmts[i:]]
        rest = [x for x in rest if x]
        self.tail = self.tail_expr(rest)

    # --- expressions ---
    def const(self, c):
        m = re.fullmatch(r"nal_type::(\w+)", c.strip())
        if not m or m.group(1) not in self.consts:
            raise Untranslatable("constant: " + c)
        return str(self.consts[m.group(1)])

    def ntype(self, e):
        e = e.strip()
        if re.fullmatch(r"nal\[0\]\s*&\s*0x1f", e):
            return "((nal.getD 0 0).toNat &&& 31)"
        if re.fullmatch(r"\(nal\[0\]\s*>>\s*1\)\s*&\s*0x3f", e):
            return "(((nal.getD 0 0).toNat / 2 ^ 1) &&& 63)"
        if re.fullmatch(r"hevc_nal_type\(nal\)", e):
            return "(hevc_nal_type nal)"
        raise Untranslatable("NAL type expression: " + e)

    def cond(self, c):
        parts = [p.strip() for p in c.split("&&")]
        out = []
        for p in parts:
            m = re.fullmatch(r"(\w+)\.is_none\(\)", p)
            if m and m.group(1) in self.slots:
                out.append("%s.isNone" % m.group(1)); continue
            m = re.fullmatch(r"(\w+)\.is_some\(\)", p)
            if m and m.group(1) in self.slots:
                out.append("%s.isSome" % m.group(1)); continue
            m = re.fullmatch(r"nal_type\s*==\s*(nal_type::\w+)", p)
            if m:
                out.append("nal_type = %s" % self.const(m.group(1))); continue
            if re.fullmatch(r"is_hevc_keyframe_nal_type\(nal_type\)", p):
                out.append("is_hevc_keyframe_nal_type nal_type = true"); continue
            raise Untranslatable("condition: " + p)
        return " ∧ ".join(out)

    def assign(self, s):
        m = re.fullmatch(r"(\w+)\s*=\s*Some\(nal\)\s*;?", s.strip())
        if not m or m.group(1) not in self.slots:
            raise Untranslatable("assignment: " + s[:50])
        return m.group(1)

    # --- the loop body: a list of steps; each step maps the slot tuple or leaves the iteration ---
    def block(self, stmts):
        steps = []
        for s in stmts:
            s = s.strip().rstrip(";").strip()
            if not s or re.fullmatch(r"assert_invariant!\(.*\)", s, re.S):
                continue
            if re.fullmatch(r"if\s+nal\.is_empty\(\)\s*\{\s*continue\s*;?\s*\}", s, re.S):
                steps.append(("continue_if", "nal = []")); continue
            m = re.fullmatch(r"let\s+nal_type\s*=\s*(.+)", s, re.S)
            if m:
                steps.append(("let", self.ntype(m.group(1)))); continue
            m = re.fullmatch(r"match\s+nal_type\s*\{(.*)\}", s, re.S)
            if m:
                arms = []
                for arm in [a.strip() for a in m.group(1).split(",") if a.strip()]:
                    if re.fullmatch(r"_\s*=>\s*\{\s*\}", arm):
                        continue
                    mm = re.fullmatch(r"(nal_type::\w+)\s+if\s+(.+?)\s*=>\s*(.+)", arm, re.S)
                    if not mm:
                        raise Untranslatable("match arm: " + arm[:60])
                    arms.append(("nal_type = %s ∧ %s" % (self.const(mm.group(1)), self.cond(mm.group(2))), self.assign(mm.group(3))))
                steps.append(("assign", arms)); continue
            if re.match(r"if\s+.*\{\s*\w+\s*=\s*Some\(nal\)", s, re.S):
                arms, rest_ = [], s
                while rest_:
                    mm = re.match(r"(?:else\s+)?if\s+(.+?)\s*\{\s*(\w+\s*=\s*Some\(nal\)\s*;?)\s*\}\s*", rest_, re.S)
                    if not mm:
                        raise Untranslatable("if-chain: " + rest_[:60])
                    arms.append((self.cond(mm.group(1)), self.assign(mm.group(2))))
                    rest_ = rest_[mm.end():]
                steps.append(("assign", arms)); continue
            m = re.fullmatch(r"if\s+(.+?)\s*\{\s*break\s*;?\s*\}", s, re.S)
            if m:
                steps.append(("break_if", self.cond(m.group(1)))); continue
            m = re.fullmatch(r"if\s+(.+?)\s*\{\s*return\s+true\s*;?\s*\}", s, re.S)
            if m and self.ret_bool:
                steps.append(("return_true_if", self.cond(m.group(1)))); continue
            raise Untranslatable("loop statement: " + s[:70])
        return steps

    def tail_expr(self, rest):
        if self.ret_bool:
            if rest != ["false"]:
                raise Untranslatable("tail of a bool function: " + " ; ".join(rest)[:60])
            return None
        if len(rest) != 1:
            raise Untranslatable("tail: " + " ; ".join(rest)[:80])
        m = re.fullmatch(r"if\s+let\s+\((.+?)\)\s*=\s*\(([\w\s,]+)\)\s*\{(.*)\}\s*else\s*\{\s*None\s*\}", rest[0], re.S)
        if not m:
            raise Untranslatable("tail: " + rest[0][:80])
        pats = [re.fullmatch(r"Some\((\w+)\)", p.strip()) for p in m.group(1).split(",")]
        vars_ = [v.strip() for v in m.group(2).split(",")]
        if not all(pats) or vars_ != self.slots:
            raise Untranslatable("tail pattern")
        names = [p.group(1) for p in pats]
        inner = [x.strip().rstrip(";").strip() for x in split_statements(m.group(3))]
        inner = [x for x in inner if x and not re.fullmatch(r"assert_invariant!\(.*\)", x, re.S)]
        if len(inner) != 1:
            raise Untranslatable("tail block")
        mm = re.fullmatch(r"Some\(\s*(\w+)\s*\{(.*)\}\s*\)", inner[0], re.S)
        if not mm:
            raise Untranslatable("tail value: " + inner[0][:60])
        fields = []
        for f in [x.strip() for x in mm.group(2).split(",") if x.strip()]:
            fm = re.fullmatch(r"(\w+)\s*:\s*(\w+)\.to_vec\(\)", f)
            if not fm or fm.group(2) not in names:
                raise Untranslatable("struct field: " + f)
            fields.append((fm.group(1), fm.group(2)))
        return mm.group(1), names, fields

    # --- Lean ---
    def lean(self):
        slots = self.slots
        tup = "(" + ", ".join(slots) + ")" if slots else "()"
        sty = " × ".join(["Option Bytes"] * len(slots)) if slots else "Unit"
        args = "".join(" (%s : Option Bytes)" % s for s in slots)
        pas = " ".join(slots)
        rty = "Bool" if self.ret_bool else sty
        done = "false" if self.ret_bool else tup                 # value at the end of the list
        lines = []
        ind = "    "
        for kind, v in self.body:
            if kind == "continue_if":
                lines.append(ind + "if %s then %s.loop rest %s else" % (v, self.name, pas))
            elif kind == "let":
                lines.append(ind + "let nal_type : Nat := %s" % v)
            elif kind == "assign":
                term = tup
                for c, slot in reversed(v):
                    new = "(" + ", ".join("some nal" if s == slot else s for s in slots) + ")"
                    term = "if %s then %s else %s" % (c, new, term)
                lines.append(ind + "let %s : %s := %s" % (tup, sty, term))
            elif kind == "break_if":
                lines.append(ind + "if %s then %s else" % (v, tup))
            elif kind == "return_true_if":
                lines.append(ind + "if %s then true else" % v)
        lines.append(ind + "%s.loop rest %s" % (self.name, pas))
        loop = ("/-- the `for nal in AnnexBNalIter::new(data)` loop of `%s`: one unit per step -/\n"
                "def %s.loop : List Bytes →%s %s\n  | []%s => %s\n  | nal :: rest%s =>\n%s\n"
                % (self.name, self.name, "".join(" Option Bytes →" for _ in slots), rty,
                   "".join(", " + s for s in slots), done, "".join(", " + s for s in slots), "\n".join(lines)))
        init = " ".join("none" for _ in slots)
        head = "".join("  if %s then %s else\n" % (c, v) for c, v in self.head)
        if self.ret_bool:
            main = "def %s (data : Bytes) : Bool :=\n%s  %s.loop (nals data)\n" % (self.name, head, self.name)
        else:
            struct, names, fields = self.tail
            pat = ", ".join("some %s" % n for n in names)
            val = "{ " + ", ".join("%s := %s" % f for f in fields) + " : %s }" % struct
            main = ("def %s (data : Bytes) : Option %s :=\n%s  match %s.loop (nals data) %s with\n  | (%s) => some %s\n  | _ => none\n"
                    % (self.name, struct, head, self.name, init, pat, val))
        return loop + "\n/-- `%s`, translated statement by statement -/\n" % self.name + main


def acc_stmts(stmts, var):
    """`let len = V.len() as u32; out.extend_from_slice(&len.to_be_bytes()); out.extend_from_slice(V);` → Lean lets"""
    lines = []
    for s in stmts:
        s = s.strip().rstrip(";").strip()
        if not s:
            continue
        m = re.fullmatch(r"let\s+len\s*=\s*(\w+)\.len\(\)\s+as\s+u32", s)
        if m and m.group(1) == var:
            lines.append("let len : Nat := %s.length %% 2 ^ 32" % var); continue
        if re.fullmatch(r"out\.extend_from_slice\(&len\.to_be_bytes\(\)\)", s):
            lines.append("let out : Bytes := out ++ u32be len"); continue
        m = re.fullmatch(r"out\.extend_from_slice\((\w+)\)", s)
        if m and m.group(1) == var:
            lines.append("let out : Bytes := out ++ %s" % var); continue
        raise Untranslatable("statement: " + s[:60])
    return lines


def acc_loop(name, src):
    """`annexb_to_avcc` / `hevc_annexb_to_hvcc`: an output vector filled unit by unit, with a fallback for input without units"""
    sig, body = find_fn(src, name)
    st = [x.strip().rstrip(";").strip() for x in join_else(split_statements(body))]
    st = [x for x in st if x]
    if len(st) != 4 or st[0] != "let mut out = Vec::new()" or st[3] != "out":
        raise Untranslatable("shape of " + name)
    m = re.fullmatch(r"for\s+nal\s+in\s+AnnexBNalIter::new\(data\)\s*\{(.*)\}", st[1], re.S)
    if not m:
        raise Untranslatable("loop of " + name)
    inner = [x.strip() for x in split_statements(m.group(1))]
    if not re.fullmatch(r"if\s+nal\.is_empty\(\)\s*\{\s*continue\s*;?\s*\}", inner[0], re.S):
        raise Untranslatable("first loop statement of " + name)
    body_lines = acc_stmts(inner[1:], "nal")
    m = re.fullmatch(r"if\s+out\.is_empty\(\)\s*&&\s*!data\.is_empty\(\)\s*\{(.*)\}", st[2], re.S)
    if not m:
        raise Untranslatable("fallback of " + name)
    fb = acc_stmts(split_statements(m.group(1)), "data")
    return ("/-- the `for nal in AnnexBNalIter::new(data)` loop of `%s` -/\n"
            "def %s.loop : List Bytes → Bytes → Bytes\n  | [], out => out\n  | nal :: rest, out =>\n"
            "    if nal = [] then %s.loop rest out else\n%s\n    %s.loop rest out\n\n"
            "/-- `%s`, translated statement by statement -/\n"
            "def %s (data : Bytes) : Bytes :=\n  let out : Bytes := %s.loop (nals data) []\n"
            "  if out = [] ∧ ¬ data = [] then (\n%s\n    out) else\n  out\n"
            % (name, name, name, "\n".join("    " + l for l in body_lines), name, name, name, name, "\n".join("    " + l for l in fb)))


def simple_fns(src, consts):
    out = []
    sig, body = find_fn(src, "hevc_nal_type")
    st = [x.strip().rstrip(";").strip() for x in split_statements(body)]
    if len(st) != 2 or not re.fullmatch(r"if\s+nal\.is_empty\(\)\s*\{\s*return\s+0\s*;?\s*\}", st[0], re.S) \
            or not re.fullmatch(r"\(nal\[0\]\s*>>\s*1\)\s*&\s*0x3f", st[1]):
        raise Untranslatable("hevc_nal_type body")
    out.append("/-- `hevc_nal_type` -/\ndef hevc_nal_type (nal : Bytes) : Nat :=\n  if nal = [] then 0 else\n  (((nal.getD 0 0).toNat / 2 ^ 1) &&& 63)\n")
    sig, body = find_fn(src, "is_hevc_keyframe_nal_type")
    m = re.fullmatch(r"\s*matches!\(\s*nal_type\s*,(.*)\)\s*", body, re.S)
    if not m:
        raise Untranslatable("is_hevc_keyframe_nal_type body")
    alts = []
    for a in [x.strip() for x in m.group(1).split("|") if x.strip()]:
        mm = re.fullmatch(r"nal_type::(\w+)", a)
        if not mm or mm.group(1) not in consts:
            raise Untranslatable("matches! alternative " + a)
        alts.append("nal_type = %d" % consts[mm.group(1)])
    out.append("/-- `is_hevc_keyframe_nal_type` (`matches!` over the constants of `mod nal_type`) -/\n"
               "def is_hevc_keyframe_nal_type (nal_type : Nat) : Bool :=\n  decide (%s)\n" % " ∨ ".join(alts))
    return out


def generate():
    out, failed = [], []
    s264 = strip_comments(open(os.path.join(REPO, "src/codec/h264.rs")).read())
    s265 = strip_comments(open(os.path.join(REPO, "src/codec/h265.rs")).read())
    c264, c265 = nal_consts(s264), nal_consts(s265)

    def attempt(label, f):
        try:
            out.extend(f())
        except Untranslatable as e:
            msg = re.sub(r"\s+", " ", str(e))
            failed.append((label, msg))
            out.append("-- UNTRANSLATABLE %s: %s\n" % (label, msg))

    out.append("namespace H264\n")
    attempt("extract_avc_config", lambda: [Loop("extract_avc_config", s264, c264).lean()])
    attempt("is_h264_keyframe", lambda: [Loop("is_h264_keyframe", s264, c264).lean()])
    attempt("annexb_to_avcc", lambda: [acc_loop("annexb_to_avcc", s264)])
    out.append("end H264\n\nnamespace H265\n")
    attempt("hevc_nal_type / is_hevc_keyframe_nal_type", lambda: simple_fns(s265, c265))
    attempt("extract_hevc_config", lambda: [Loop("extract_hevc_config", s265, c265).lean()])
    attempt("is_hevc_keyframe", lambda: [Loop("is_hevc_keyframe", s265, c265).lean()])
    attempt("hevc_annexb_to_hvcc", lambda: [acc_loop("hevc_annexb_to_hvcc", s265)])
    out.append("end H265\n")
    text = ("import Muxide.Model.AnnexB\n/-\n  GENERATED by tools/rs2lean_nal.py from /repo's working tree — do not edit.\n"
            "  The NAL-unit loops of src/codec/h264.rs and src/codec/h265.rs.\n-/\n"
            "namespace Muxide.Generated.Nal\nopen Muxide\n\n" + "\n".join(out) + "\nend Muxide.Generated.Nal\n")
    return text, failed


def main():
    text, failed = generate()
    os.makedirs(os.path.dirname(OUT), exist_ok=True)
    old = open(OUT).read() if os.path.exists(OUT) else None
    if old != text:
        with open(OUT, "w") as f:
            f.write(text)
    for n, e in failed:
        print("untranslatable %s: %s" % (n, e))
    print("generated 8 definitions (%d untranslatable)%s" % (len(failed), "" if old == text else " [file updated]"))
    return 1 if failed else 0


if __name__ == "__main__":
    sys.exit(main())
