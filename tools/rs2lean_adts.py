#!/usr/bin/env python3
"""tools/rs2lean_adts.py — translator for the decision logic of `adts_to_raw` (src/muxer/mp4.rs).

`adts_to_raw` decides which ADTS frames are accepted and which bytes of an accepted frame are stored (C14: "the
stored sample is the bytes between the header and the declared frame length"; C04: invalid frames are refused and
the error names the field).  Most of the function's text builds diagnostics (hex dumps, suggestions); the
decision is a straight line of `let FIELD = <bit arithmetic on frame[i]>;` and `if COND { return Err(.. kind:
AdtsErrorKind::K ..) }`, ending in `Ok(&frame[a..b])`.  The script translates that line, statement by statement and
from /repo's working tree on every C14 run, into `adts_to_raw : Bytes → Except AdtsErr Bytes` keeping of each error
only its `kind`; `Props/C14GeneratedAdts.lean` proves it equal to the model's `adtsToRaw` for every byte string.

Supported (anything else makes the function `untranslatable`, which is reported):
    let create_hex_dump = |..| -> String { .. };              (diagnostics: skipped)
    let NAME[: T] = EXPR;      EXPR over frame[i], frame.len(), earlier names: as uN/usize, <<, >>, |, &, + - (usize), != 0,
                               if B { 7 } else { 9 }, literals
    let _NAME = match .. { .. };                                (diagnostics: skipped)
    if COND { return Err(AdtsValidationError { kind: AdtsErrorKind::K, .. }); }      COND: comparisons joined by || or &&, !B
    if COND { let NAME = EXPR; if COND2 { return Err(..K..); } }                      (one level of nesting)
    Ok(&frame[A..B])
Indexing `frame[i]` is rendered `(frame.getD i 0).toNat`; that these indices are in range behind the length checks is
C12's checked model (`C12_checked_adts_to_raw`), not this translation.
"""
import os
import re
import sys

sys.path.insert(0, os.path.dirname(os.path.abspath(__file__)))
from rs2lean import strip_comments, find_fn, split_statements, Untranslatable   # noqa: E402

REPO = os.environ.get("RS2LEAN_REPO", "/repo")
OUT = os.environ.get("RS2LEAN_ADTS_OUT") or os.path.join(os.path.dirname(os.path.dirname(os.path.abspath(__file__))),
                                                          "lean", "Muxide", "Generated", "Adts.lean")
KIND = {"FrameTooShort": ".frameTooShort", "MissingSyncword": ".missingSyncword", "InvalidMpegVersion": ".invalidMpegVersion",
        "InvalidLayer": ".invalidLayer", "InvalidHeaderLength": ".invalidHeaderLength", "InvalidSampleRateIndex": ".invalidSampleRateIndex",
        "InvalidChannelConfig": ".invalidChannelConfig", "InvalidFrameLength": ".invalidFrameLength", "CrcMismatch": ".crcMismatch"}
W = {"u8": 8, "u16": 16, "u32": 32, "u64": 64, "usize": 64}


def balanced(s):
    d = 0
    for ch in s:
        d += ch in "(["
        d -= ch in ")]"
        if d < 0:
            return False
    return d == 0


def top_split(e, ops):
    """split e at the LAST top-level occurrence of one of the operator strings; returns (lhs, op, rhs) or None"""
    d, best = 0, None
    i = 0
    while i < len(e):
        ch = e[i]
        if ch in "([":
            d += 1
        elif ch in ")]":
            d -= 1
        elif d == 0:
            for op in ops:
                if e.startswith(op, i) and i > 0:
                    # do not split `<<`/`>>`/`<=`/`>=`/`!=`/`==`/`||`/`&&` in the middle
                    if len(op) == 1 and (e[i - 1:i] == op or e[i + 1:i + 2] in (op, "=")):
                        continue
                    if op in ("<", ">") and e[i - 1:i] in ("<", ">"):
                        continue
                    best = (i, op)
        i += 1
    if best is None:
        return None
    i, op = best
    return e[:i].strip(), op, e[i + len(op):].strip()


def expr(e, env):
    """(lean term, width).  All values are Nat; u8 operands stay below 256 by construction of the masks."""
    e = e.strip()
    while e.startswith("(") and e.endswith(")") and balanced(e[1:-1]):
        e = e[1:-1].strip()
    m = re.fullmatch(r"(0x[0-9a-fA-F_]+|\d[\d_]*)", e)
    if m:
        return str(int(m.group(1).replace("_", ""), 0)), None
    m = re.fullmatch(r"frame\[(\d+)\]", e)
    if m:
        return "(frame.getD %s 0).toNat" % m.group(1), 8
    if e == "frame.len()":
        return "frame.length", 64
    if e in env:
        return e, env[e]
    for ops in (["|"], ["&"], ["<<", ">>"], ["+", "-"]):
        sp = top_split(e, ops)
        if sp:
            a, op, b = sp
            ta, wa = expr(a, env)
            tb, wb = expr(b, env)
            w = wa or wb
            if op == "|":
                return "(%s ||| %s)" % (ta, tb), w
            if op == "&":
                return "(%s &&& %s)" % (ta, tb), w
            if op == "<<":
                if w is None:
                    raise Untranslatable("shift of untyped value: " + e)
                return "(%s * 2 ^ %s %% 2 ^ %d)" % (ta, tb, w), w
            if op == ">>":
                return "(%s / 2 ^ %s)" % (ta, tb), w
            if op == "+":
                return "(%s + %s)" % (ta, tb), w
            if op == "-":
                return "(%s - %s)" % (ta, tb), w
    m = re.fullmatch(r"(.+)\s+as\s+(u8|u16|u32|u64|usize)", e, re.S)
    if m and balanced(m.group(1)):
        t, _ = expr(m.group(1), env)
        return "(%s %% 2 ^ %d)" % (t, W[m.group(2)]), W[m.group(2)]
    raise Untranslatable("expression: " + e)


def cond(c, env, bools):
    c = c.strip()
    while c.startswith("(") and c.endswith(")") and balanced(c[1:-1]):
        c = c[1:-1].strip()
    for op, lean in (("||", "∨"), ("&&", "∧")):
        sp = top_split(c, [op])
        if sp:
            return "(%s %s %s)" % (cond(sp[0], env, bools), lean, cond(sp[2], env, bools))
    if c.startswith("!") and c[1:] in bools:
        return "¬ %s = true" % c[1:]
    if c in bools:
        return "%s = true" % c
    for op, lean in (("<=", "≤"), (">=", "≥"), ("==", "="), ("!=", "≠"), ("<", "<"), (">", ">")):
        sp = top_split(c, [op])
        if sp:
            return "%s %s %s" % (expr(sp[0], env)[0], lean, expr(sp[2], env)[0])
    raise Untranslatable("condition: " + c)


def kind_of(block):
    m = re.search(r"return\s+Err\(\s*AdtsValidationError\s*\{\s*kind:\s*AdtsErrorKind::(\w+)", block)
    if not m or m.group(1) not in KIND:
        raise Untranslatable("error block: " + block[:60])
    return KIND[m.group(1)]


def translate(src):
    sig, body = find_fn(src, "adts_to_raw")
    env, bools, lines = {}, set(), []
    stmts = [x.strip() for x in split_statements(body)]
    stmts = [x.rstrip(";").strip() for x in stmts if x.strip().rstrip(";").strip()]
    for k, st in enumerate(stmts):
        if re.match(r"let\s+create_hex_dump\s*=", st) or re.match(r"let\s+_\w+\s*=", st):
            continue
        m = re.fullmatch(r"let\s+(\w+)\s*(?::\s*\w+)?\s*=\s*if\s+(\w+)\s*\{\s*(\d+)\s*\}\s*else\s*\{\s*(\d+)\s*\}", st)
        if m and m.group(2) in bools:
            lines.append("  let %s : Nat := if %s = true then %s else %s" % (m.group(1), m.group(2), m.group(3), m.group(4)))
            env[m.group(1)] = 64; continue
        m = re.fullmatch(r"let\s+(\w+)\s*(?::\s*\w+)?\s*=\s*(.+?)\s*!=\s*0", st, re.S)
        if m and balanced(m.group(2)):
            lines.append("  let %s : Bool := decide (%s ≠ 0)" % (m.group(1), expr(m.group(2), env)[0]))
            bools.add(m.group(1)); continue
        m = re.fullmatch(r"let\s+(\w+)\s*(?::\s*(\w+))?\s*=\s*(.+)", st, re.S)
        if m:
            t, w = expr(m.group(3), env)
            lines.append("  let %s : Nat := %s" % (m.group(1), t))
            env[m.group(1)] = W.get(m.group(2), w or 64); continue
        m = re.fullmatch(r"if\s+([^{]+?)\s*\{\s*(return\s+Err\(.*)\}", st, re.S)
        if m:
            lines.append("  if %s then .error %s else" % (cond(m.group(1), env, bools), kind_of(m.group(2)))); continue
        m = re.fullmatch(r"if\s+(.+?)\s*\{\s*let\s+(\w+)\s*=\s*([^;]+);\s*if\s+(.+?)\s*\{\s*(return\s+Err\(.*)\}\s*\}", st, re.S)
        if m:
            env2 = dict(env); env2[m.group(2)] = 64
            lines.append("  if %s ∧ (let %s : Nat := %s; %s) then .error %s else"
                         % (cond(m.group(1), env, bools), m.group(2), expr(m.group(3), env)[0], cond(m.group(4), env2, bools), kind_of(m.group(5))))
            continue
        m = re.fullmatch(r"Ok\(&frame\[(\w+)\.\.(\w+)\]\)", st)
        if m and k == len(stmts) - 1:
            a, b = expr(m.group(1), env)[0], expr(m.group(2), env)[0]
            lines.append("  .ok ((frame.drop %s).take (%s - %s))" % (a, b, a)); break
        raise Untranslatable("statement: " + re.sub(r"\s+", " ", st)[:80])
    else:
        raise Untranslatable("no result")
    return ("/-- the decision logic of `adts_to_raw`, translated statement by statement (errors reduced to their kind) -/\n"
            "def adts_to_raw (frame : Bytes) : Except AdtsErr Bytes :=\n" + "\n".join(lines) + "\n")


def generate():
    src = strip_comments(open(os.path.join(REPO, "src/muxer/mp4.rs")).read())
    failed = []
    try:
        body = translate(src)
    except Untranslatable as e:
        msg = re.sub(r"\s+", " ", str(e))
        failed.append(("adts_to_raw", msg))
        body = "-- UNTRANSLATABLE adts_to_raw: %s\n" % msg
    text = ("import Muxide.Model.Adts\n/-\n  GENERATED by tools/rs2lean_adts.py from /repo's working tree — do not edit.\n"
            "  The decision logic of `adts_to_raw` (src/muxer/mp4.rs).\n-/\n"
            "namespace Muxide.Generated.Adts\nopen Muxide\n\n"
            + body + "\nend Muxide.Generated.Adts\n")
    return text, failed


def main():
    text, failed = generate()
    os.makedirs(os.path.dirname(OUT), exist_ok=True)
    old = open(OUT).read() if os.path.exists(OUT) else None
    if old != text:
        with open(OUT, "w") as f:
            f.write(text)
    for n, e in failed:
        print("untranslatable %s: %s" % (n, e))
    print("generated 1 definition (%d untranslatable)%s" % (len(failed), "" if old == text else " [file updated]"))
    return 1 if failed else 0


if __name__ == "__main__":
    sys.exit(main())
