#!/usr/bin/env python3
"""tools/translator_sensitivity.py — self-audit of the translators (rs2lean*.py).

A translator that silently ignored part of a function would make the "regenerated on every run" tie hollow.  This
script mutates, one small edit at a time, the bodies of the translated Rust functions in a SCRATCH COPY of /repo/src
(never /repo itself), re-runs the translators on the copy, and classifies each mutant:

    untranslatable   the translator rejects the edited function            -> the tie is reported broken
    proof-broken     the generated Lean changed and an obligation no longer checks (lake build fails)
    equivalent       the generated Lean changed but every obligation still checks (the edit does not change
                     what the function computes on the model's domain, e.g. a literal that is masked away)
    blind            the generated Lean is identical to the baseline: the translator did not see the edit

`blind` mutants are listed with their location; they are acceptable only inside what a translator drops on purpose
(assert_invariant! arguments, error payload fields, the `frame_index` locals).  Usage:

    tools/translator_sensitivity.py [--n 60] [--seed 1] [--build]      (--build also runs lake on changed mutants)

Writes .cache/translator_sensitivity.json and prints a summary.  The Lean project is copied to a scratch directory;
nothing under /verif/lean is touched.
"""
import json
import os
import random
import re
import shutil
import subprocess
import sys

ROOT = os.path.dirname(os.path.dirname(os.path.abspath(__file__)))
sys.path.insert(0, os.path.join(ROOT, "tools"))
import rs2lean            # noqa: E402
import rs2lean_guards     # noqa: E402
import rs2lean_nal        # noqa: E402
import rs2lean_frag       # noqa: E402

SCRATCH = os.environ.get("SENS_SCRATCH", "/tmp/translator-sensitivity")
TRANSLATORS = [("rs2lean.py", "RS2LEAN_OUT", "Builders.lean"), ("rs2lean_guards.py", "RS2LEAN_GUARDS_OUT", "Guards.lean"),
               ("rs2lean_nal.py", "RS2LEAN_NAL_OUT", "Nal.lean"), ("rs2lean_frag.py", "RS2LEAN_FRAG_OUT", "FragMethods.lean"),
               ("rs2lean_sched.py", "RS2LEAN_SCHED_OUT", "Schedule.lean"),
               ("rs2lean_tables.py", "RS2LEAN_TABLES_OUT", "Tables.lean"),
               ("rs2lean_stats.py", "RS2LEAN_STATS_OUT", "Stats.lean"),
               ("rs2lean_adts.py", "RS2LEAN_ADTS_OUT", "Adts.lean"),
               ("rs2lean_writer.py", "RS2LEAN_WRITER_OUT", "Writer.lean")]
PROOFS = ["Muxide.Props.C19Generated", "Muxide.Props.C19GeneratedTables", "Muxide.Props.C04Generated", "Muxide.Props.C07Generated",
          "Muxide.Props.C14Generated", "Muxide.Props.C10Generated", "Muxide.Props.C11Generated", "Muxide.Props.C15Generated", "Muxide.Props.C03Generated", "Muxide.Props.C06Generated", "Muxide.Props.C14GeneratedAdts", "Muxide.Props.C05Generated"]


def targets():
    t = [(f, n) for (f, n, *_) in [tuple(x) for x in rs2lean.TARGETS]]
    t += [("src/api.rs", n) for n, _ in rs2lean_guards.TARGETS] + [("src/api.rs", "convert_mp4_error"), ("src/api.rs", "encode_video"), ("src/api.rs", "encode_audio")]
    t += [("src/codec/h264.rs", n) for n in ("extract_avc_config", "is_h264_keyframe", "annexb_to_avcc")]
    t += [("src/codec/h265.rs", n) for n in ("hevc_nal_type", "is_hevc_keyframe_nal_type", "extract_hevc_config", "is_hevc_keyframe", "hevc_annexb_to_hvcc")]
    t += [("src/fragmented.rs", n) for n in ("current_fragment_duration_ms", "ready_to_flush", "write_video", "flush_segment",
                                             "build_trun", "build_traf", "build_moof_with_offset", "build_moof", "build_media_segment")]
    t += [("src/muxer/mp4.rs", "compute_interleave_schedule"), ("src/muxer/mp4.rs", "from_samples"), ("src/muxer/mp4.rs", "max_end_pts"), ("src/muxer/mp4.rs", "adts_to_raw"),
          ("src/muxer/mp4.rs", "write_video_sample_with_dts"), ("src/muxer/mp4.rs", "write_audio_sample")]
    return t


def body_span(src, name, impl=None):
    start = 0
    if impl:
        m = re.search(r"impl\s+%s\s*\{" % impl, src)
        start = m.start() if m else 0
    m = re.search(r"\bfn\s+%s\s*[(<]" % re.escape(name), src[start:])
    if not m:
        return None
    i = src.index("{", start + m.end())
    depth, j = 0, i
    while True:
        if src[j] == "{":
            depth += 1
        elif src[j] == "}":
            depth -= 1
            if depth == 0:
                break
        j += 1
    return i + 1, j


def mutants_of(body):
    """(description, new body) for one body"""
    out = []
    code = re.sub(r"//[^\n]*", lambda m: " " * len(m.group(0)), body)          # same length, comments blanked
    for m in re.finditer(r"(?<![\w.])(0x[0-9a-fA-F_]+|\d[\d_]*)(?=(?:u8|u16|u32|u64)?\b)", code):
        tok = m.group(1)
        try:
            v = int(tok.replace("_", ""), 0)
        except ValueError:
            continue
        new = hex(v + 1) if tok.startswith("0x") else str(v + 1)
        out.append(("literal %s -> %s" % (tok, new), body[:m.start(1)] + new + body[m.end(1):]))
    for a, b in (("<=", "<"), (">=", ">"), ("==", "!="), ("!=", "=="), (" < ", " <= "), (" > ", " >= ")):
        for m in re.finditer(re.escape(a), code):
            if a in (" < ", " > ") or code[m.end():m.end() + 1] not in "=<>":
                out.append(("operator %s -> %s" % (a.strip(), b.strip()), body[:m.start()] + b + body[m.end():]))
    lines = body.split("\n")
    stmt = [i for i, l in enumerate(lines) if re.search(r"\.(extend_from_slice|push)\(.*\);\s*(//.*)?$", l)]
    for i in stmt:
        out.append(("delete statement `%s`" % lines[i].strip()[:50], "\n".join(lines[:i] + lines[i + 1:])))
    for i, j in zip(stmt, stmt[1:]):
        if j == i + 1 and lines[i].strip() != lines[j].strip():
            sw = lines[:i] + [lines[j], lines[i]] + lines[j + 1:]
            out.append(("swap statements `%s` / `%s`" % (lines[i].strip()[:30], lines[j].strip()[:30]), "\n".join(sw)))
    for m in re.finditer(r"\bSome\((\w+)\)\s*;", code):
        pass
    return out


def run_translators(repo, leandir):
    """returns ({file: text}, [untranslatable messages])"""
    texts, bad = {}, []
    for script, envname, fname in TRANSLATORS:
        out = os.path.join(leandir, "Muxide", "Generated", fname)
        env = dict(os.environ, RS2LEAN_REPO=repo)
        env[envname] = out
        p = subprocess.run([sys.executable, os.path.join(ROOT, "tools", script)], env=env, capture_output=True, text=True)
        if p.returncode != 0:
            bad += [l for l in (p.stdout + p.stderr).split("\n") if l.startswith("untranslatable")]
        texts[fname] = open(out).read()
    return texts, bad


def main():
    n = int(sys.argv[sys.argv.index("--n") + 1]) if "--n" in sys.argv else 60
    seed = int(sys.argv[sys.argv.index("--seed") + 1]) if "--seed" in sys.argv else 1
    build = "--build" in sys.argv
    rng = random.Random(seed)
    shutil.rmtree(SCRATCH, ignore_errors=True)
    repo = os.path.join(SCRATCH, "repo")
    os.makedirs(repo)
    shutil.copytree("/repo/src", os.path.join(repo, "src"))
    leandir = os.path.join(SCRATCH, "lean")
    subprocess.run(["rsync", "-a", os.path.join(ROOT, "lean") + "/", leandir + "/"], check=True)
    base, bad0 = run_translators(repo, leandir)
    assert not bad0, bad0
    if build:
        p = subprocess.run(["lake", "build"] + PROOFS, cwd=leandir, capture_output=True, text=True)
        assert p.returncode == 0, p.stdout[-2000:]
    allm = []
    for f, name in targets():
        src = open(os.path.join("/repo", f)).read()
        impl = "FragmentedMuxer" if f == "src/fragmented.rs" and name in ("write_video", "flush_segment", "ready_to_flush", "current_fragment_duration_ms") else None
        sp = body_span(src, name, impl)
        if not sp:
            continue
        for desc, nb in mutants_of(src[sp[0]:sp[1]]):
            allm.append((f, name, desc, src[:sp[0]] + nb + src[sp[1]:]))
    rng.shuffle(allm)
    results = []
    for f, name, desc, newsrc in allm[:n]:
        path = os.path.join(repo, f)
        orig = open(path).read()
        open(path, "w").write(newsrc)
        try:
            texts, bad = run_translators(repo, leandir)
            if bad:
                cls = "untranslatable"
            elif texts == base:
                cls = "blind"
            elif not build:
                cls = "generated-differs"
            else:
                p = subprocess.run(["lake", "build"] + PROOFS, cwd=leandir, capture_output=True, text=True)
                cls = "equivalent" if p.returncode == 0 else "proof-broken"
        finally:
            open(path, "w").write(orig)
        results.append(dict(file=f, function=name, mutation=desc, outcome=cls))
        print("%-16s %s::%s  %s" % (cls, f, name, desc), flush=True)
    run_translators(repo, leandir)
    summary = {}
    for r in results:
        summary[r["outcome"]] = summary.get(r["outcome"], 0) + 1
    os.makedirs(os.path.join(ROOT, ".cache"), exist_ok=True)
    json.dump(dict(seed=seed, mutants_available=len(allm), mutants_run=len(results), summary=summary, results=results),
              open(os.path.join(ROOT, ".cache", "translator_sensitivity.json"), "w"), indent=1)
    print("available mutants: %d; run: %d; %s" % (len(allm), len(results), summary))
    shutil.rmtree(SCRATCH, ignore_errors=True)


if __name__ == "__main__":
    main()
