#!/usr/bin/env python3
"""tools/rs2lean_tables.py — translator for `SampleTables::from_samples` (src/muxer/mp4.rs).

Every progressive file's sample tables — durations (stts), sizes (stsz), key-frame numbers (stss), composition
offsets (ctts) and whether a ctts box is written — are computed by this one function from the queued samples; C03's
timing theorems, C01's sizes and C02's "mutually consistent entry counts" all rest on it.  The script translates it,
statement by statement and from /repo's working tree on every C03 run, into a Lean function over the model's
`Sample` list; `Props/C03Generated.lean` proves it equal to the model's `Tables.ofSamples` (for payloads and sample
counts below 2^32, which the writer's own checks guarantee).

Supported (whitespace-normalised; anything else makes the function `untranslatable`, which is reported):
    let sample_count = samples.len() as u32;                     let _ = sample_count;
    let mut durations = Vec::with_capacity(..);
    for (idx, sample) in samples.iter().enumerate() { let duration = sample.duration.unwrap_or_else(|| { if idx == samples.len() - 1
        { fallback_duration.unwrap_or(A) } else { B } }); durations.push(duration); }
    let sizes = samples.iter().map(|sample| sample.data.len() as u32).collect();
    let keyframes = samples.iter().enumerate().filter_map(|(idx, sample)| { if sample.is_keyframe { Some(idx as u32 + 1) } else { None } }).collect();
    let mut has_bframes = false;
    let cts_offsets: Vec<i32> = samples.iter().map(|sample| { let offset = (i128::from(sample.pts) - i128::from(sample.dts)) as i32;
        if offset != 0 { has_bframes = true; } offset }).collect();
    Self { durations, sizes, keyframes, chunk_offsets, samples_per_chunk, cts_offsets, has_bframes, }
`x as u32` = `x % 2^32`; `(a - b) as i32` on 128-bit operands = the model's `toI32` of the difference mod 2^32; a flag set
inside the closure whenever the element is non-zero = `any (· ≠ 0)` over the collected list.
"""
import os
import re
import sys

sys.path.insert(0, os.path.dirname(os.path.abspath(__file__)))
from rs2lean import strip_comments, find_fn, split_statements, Untranslatable   # noqa: E402

REPO = os.environ.get("RS2LEAN_REPO", "/repo")
OUT = os.environ.get("RS2LEAN_TABLES_OUT") or os.path.join(os.path.dirname(os.path.dirname(os.path.abspath(__file__))),
                                                            "lean", "Muxide", "Generated", "Tables.lean")


def norm(s):
    return re.sub(r"\s+", " ", s.strip().rstrip(";").strip())


def translate(src):
    m = re.search(r"impl\s+SampleTables\s*\{", src)
    if not m:
        raise Untranslatable("impl SampleTables not found")
    sig, body = find_fn(src[m.start():], "from_samples")
    stmts = [norm(x) for x in split_statements(body)]
    stmts = [x for x in stmts if x]
    lines = []
    have = set()
    for k, st in enumerate(stmts):
        if st in ("let sample_count = samples.len() as u32", "let _ = sample_count"):
            continue
        if re.fullmatch(r"let mut durations = Vec::with_capacity\(.*\)", st) or st == "let mut durations = Vec::new()":
            continue
        m = re.fullmatch(r"for \(idx, sample\) in samples\.iter\(\)\.enumerate\(\) \{ let duration = sample\.duration\.unwrap_or_else\(\|\| \{ "
                         r"if idx == samples\.len\(\) - 1 \{ fallback_duration\.unwrap_or\((\d+)\) \} else \{ (\d+) \} \}\); durations\.push\(duration\); \}", st)
        if m:
            lines.append("  let durations : List Nat := (List.zip (List.range samples.length) samples).map (fun (idx, sample) =>\n"
                         "      match sample.dur with\n      | some d => d\n      | none => if idx = samples.length - 1 then fallback_duration.getD %s else %s)"
                         % (m.group(1), m.group(2)))
            have.add("durations"); continue
        if st == "let sizes = samples .iter() .map(|sample| sample.data.len() as u32) .collect()" or \
           re.fullmatch(r"let sizes = samples ?\.iter\(\) ?\.map\(\|sample\| sample\.data\.len\(\) as u32\) ?\.collect\(\)", st):
            lines.append("  let sizes : List Nat := samples.map (fun sample => sample.data.length % 2 ^ 32)")
            have.add("sizes"); continue
        if re.fullmatch(r"let keyframes = samples ?\.iter\(\) ?\.enumerate\(\) ?\.filter_map\(\|\(idx, sample\)\| \{ if sample\.is_keyframe \{ "
                        r"Some\(idx as u32 \+ 1\) \} else \{ None \} \}\) ?\.collect\(\)", st):
            lines.append("  let keyframes : List Nat := (List.zip (List.range samples.length) samples).filterMap (fun (idx, sample) =>\n"
                         "      if sample.key then some (idx % 2 ^ 32 + 1) else none)")
            have.add("keyframes"); continue
        if st == "let mut has_bframes = false":
            continue
        if re.fullmatch(r"let cts_offsets: Vec<i32> = samples ?\.iter\(\) ?\.map\(\|sample\| \{ let offset = \(i128::from\(sample\.pts\) - "
                        r"i128::from\(sample\.dts\)\) as i32; if offset != 0 \{ has_bframes = true; \} offset \}\) ?\.collect\(\)", st):
            lines.append("  let cts_offsets : List Int := samples.map (fun sample =>\n"
                         "      toI32 ((((sample.pts : Int) - (sample.dts : Int)) % (2 ^ 32 : Int)).toNat))")
            lines.append("  let has_bframes : Bool := cts_offsets.any (· ≠ 0)")
            have.add("cts_offsets"); have.add("has_bframes"); continue
        m = re.fullmatch(r"Self \{ (.*?),? \}", st)
        if m and k == len(stmts) - 1:
            fields = [f.strip() for f in m.group(1).split(",") if f.strip()]
            want = ["durations", "sizes", "keyframes", "chunk_offsets", "samples_per_chunk", "cts_offsets", "has_bframes"]
            if fields != want:
                raise Untranslatable("struct literal fields: " + ", ".join(fields))
            missing = [f for f in want if f not in have and f not in ("chunk_offsets", "samples_per_chunk")]
            if missing:
                raise Untranslatable("fields never computed: " + ", ".join(missing))
            lines.append("  { durations := durations, sizes := sizes, keyframes := keyframes, chunkOffsets := chunk_offsets,\n"
                         "    samplesPerChunk := samples_per_chunk, ctsOffsets := cts_offsets, hasBframes := has_bframes }")
            break
        raise Untranslatable("statement: " + st[:90])
    else:
        raise Untranslatable("no result")
    return ("/-- `SampleTables::from_samples`, translated statement by statement -/\n"
            "def from_samples (samples : List Sample) (chunk_offsets : List Nat) (samples_per_chunk : Nat) (fallback_duration : Option Nat) : Tables :=\n"
            + "\n".join(lines) + "\n")


def generate():
    src = strip_comments(open(os.path.join(REPO, "src/muxer/mp4.rs")).read())
    failed = []
    try:
        body = translate(src)
    except Untranslatable as e:
        msg = re.sub(r"\s+", " ", str(e))
        failed.append(("from_samples", msg))
        body = "-- UNTRANSLATABLE from_samples: %s\n" % msg
    text = ("import Muxide.Model.Mp4\n/-\n  GENERATED by tools/rs2lean_tables.py from /repo's working tree — do not edit.\n"
            "  `SampleTables::from_samples` (src/muxer/mp4.rs).\n-/\n"
            "namespace Muxide.Generated.Tables\nopen Muxide\n\n" + body + "\nend Muxide.Generated.Tables\n")
    return text, failed


def main():
    text, failed = generate()
    os.makedirs(os.path.dirname(OUT), exist_ok=True)
    old = open(OUT).read() if os.path.exists(OUT) else None
    if old != text:
        with open(OUT, "w") as f:
            f.write(text)
    for n, e in failed:
        print("untranslatable %s: %s" % (n, e))
    print("generated 1 definition (%d untranslatable)%s" % (len(failed), "" if old == text else " [file updated]"))
    return 1 if failed else 0


if __name__ == "__main__":
    sys.exit(main())
