#!/usr/bin/env python3
"""tools/adts_decision_sensitivity.py — companion of translator_sensitivity.py for `adts_to_raw`, most of whose text is
diagnostics the ADTS translator drops on purpose: every mutant that falls inside a DECISION span (a top-level `let` of a
header field, the condition of a guard, the final slice) must change the generated Lean or be rejected; prints the blind ones."""
import sys,os,re,subprocess,shutil
sys.path.insert(0,'/verif/tools')
import translator_sensitivity as ts
src=open('/repo/src/muxer/mp4.rs').read()
a,b=ts.body_span(src,'adts_to_raw')
body=src[a:b]
# decision spans
spans=[]
depth=0;i=0
code=re.sub(r"//[^\n]*", lambda m:" "*len(m.group(0)), body)
# statement-level scan at depth 0 and 1
pos=0
def add(s,e,why): spans.append((s,e,why))
for m in re.finditer(r"\blet\s+(mut\s+)?(\w+)\s*(:[^=;]+)?=\s*", code):
    # depth at m.start()
    d=code[:m.start()].count("{")-code[:m.start()].count("}")
    name=m.group(2)
    if name.startswith("_") or name=="create_hex_dump": continue
    # only lets whose enclosing blocks are not error-construction: require d<=1
    if d>1: continue
    # inside closure? skip if within create_hex_dump closure span
    e=code.index(";",m.end())
    add(m.start(),e,"let "+name)
for m in re.finditer(r"\bif\s+([^{]+?)\s*\{", code):
    d=code[:m.start()].count("{")-code[:m.start()].count("}")
    if d>1: continue
    add(m.start(1),m.end(1),"if "+m.group(1)[:30])
m=re.search(r"Ok\(&frame\[[^\]]*\]\)",code)
add(m.start(),m.end(),"Ok")
# closure span to exclude
cm=re.search(r"let\s+create_hex_dump\s*=",code)
cs=cm.start(); ce=code.index("};",cs)
spans=[s for s in spans if not (cs<=s[0]<ce)]
print(len(spans),"decision spans")
scratch=os.environ.get('SENS_SCRATCH','/tmp/adts-sens'); shutil.rmtree(scratch,ignore_errors=True); os.makedirs(scratch+'/src/muxer')
base=None
def run(text):
    open(scratch+'/src/muxer/mp4.rs','w').write(text)
    env=dict(os.environ,RS2LEAN_REPO=scratch,RS2LEAN_ADTS_OUT=scratch+'/Adts.lean')
    p=subprocess.run([sys.executable,'/verif/tools/rs2lean_adts.py'],env=env,capture_output=True,text=True)
    return p.returncode, open(scratch+'/Adts.lean').read()
rc,base=run(src)
n=0;bad=[]
for desc,nb in ts.mutants_of(body):
    k=next((i for i in range(min(len(body),len(nb))) if body[i]!=nb[i]),None)
    if k is None: continue
    inside=[w for (s,e,w) in spans if s<=k<=e]
    if not inside: continue
    n+=1
    rc,t=run(src[:a]+nb+src[b:])
    cls="untranslatable" if rc else ("blind" if t==base else "differs")
    if cls=="blind": bad.append((desc,inside,body[max(0,k-40):k+20].replace("\n"," ")))
print("mutants inside decision spans:",n,"blind:",len(bad))
for x in bad: print(x)
shutil.rmtree(scratch)
