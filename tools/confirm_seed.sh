#!/bin/sh
# confirm_seed.sh <worktree> : independent confirmation of a seeded change delivered by a sub-agent.
#   <worktree> is a scratch git worktree of /repo (outside /repo and /verif) holding the agent's change
#   (uncommitted or committed on top of /repo HEAD) and its demonstration tests/seeded_demo.rs.
# Confirms: (1) the change applies to /repo HEAD as a patch touching src/ only; (2) the demonstration
# passes without the change and fails with it; (3) the unedited test suite passes with the change.
# Prints CONFIRMED or REJECTED:<why>; writes <worktree>/patch.diff.
set -u
W="$1"
export CARGO_NET_OFFLINE=true RUST_BACKTRACE=0
cd "$W" || { echo "REJECTED:no worktree"; exit 1; }
BASE=$(git -C /repo rev-parse HEAD)
git add -A >/dev/null 2>&1
git diff --cached "$BASE" -- src Cargo.toml > patch.diff
[ -s patch.diff ] || { echo "REJECTED:empty patch"; exit 1; }
[ -f tests/seeded_demo.rs ] || { echo "REJECTED:no tests/seeded_demo.rs"; exit 1; }
# tests/ other than the demo must be untouched
if git diff --cached --name-only "$BASE" | grep -v '^src/\|^tests/seeded_demo.rs$\|\.patch$\|\.diff$\|\.log$\|^agent_meta.txt$\|^Cargo.lock$' | grep -q .; then
  echo "REJECTED:touches $(git diff --cached --name-only "$BASE" | grep -v '^src/\|^tests/seeded_demo.rs$\|\.patch$\|\.diff$\|\.log$\|^agent_meta.txt$' | tr '\n' ' ')"; exit 1; fi
# with the change
if cargo test --offline --test seeded_demo >demo_with.log 2>&1; then echo "REJECTED:demo passes with the change"; exit 1; fi
grep -q 'test result: FAILED\|panicked' demo_with.log || { echo "REJECTED:demo did not run (build error?)"; tail -5 demo_with.log; exit 1; }
cp tests/seeded_demo.rs /tmp/.seeded_demo_keep.$$ 
mv tests/seeded_demo.rs /tmp/.seeded_demo.$$
if ! cargo test --offline --workspace --no-fail-fast >suite_with.log 2>&1; then mv /tmp/.seeded_demo.$$ tests/seeded_demo.rs; echo "REJECTED:existing suite fails with the change"; grep -E '^test .* FAILED|failed' suite_with.log | head; exit 1; fi
mv /tmp/.seeded_demo.$$ tests/seeded_demo.rs
NT=$(grep -E '^test result: ok' suite_with.log | awk '{s+=$4} END {print s}')
# without the change
git stash -q -- src 2>/dev/null || git checkout -q "$BASE" -- src
git checkout -q "$BASE" -- src Cargo.toml
if ! cargo test --offline --test seeded_demo >demo_without.log 2>&1; then git apply patch.diff; echo "REJECTED:demo fails without the change"; tail -5 demo_without.log; exit 1; fi
git apply patch.diff || { echo "REJECTED:patch does not re-apply"; exit 1; }
rm -f /tmp/.seeded_demo_keep.$$
echo "CONFIRMED suite_tests_passed=$NT"
