#!/bin/sh
# own_check.sh : every seeded change against the quick check of the property it was written against.
# Applies each patch to /repo in turn (and reverts it); writes seeded/OWN_CHECK.txt.
cd /verif
: > seeded/OWN_CHECK.txt
for d in seeded/*/; do
  id=$(basename $d)
  [ -f "$d/patch.diff" ] || continue
  tools/try_seed.sh $id 2>&1 | grep -v WARNING | tee -a seeded/OWN_CHECK.txt
done
echo DONE >> seeded/OWN_CHECK.txt
