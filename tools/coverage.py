#!/usr/bin/env python3
"""tools/coverage.py [--tier quick|thorough] [Cxx ...]

How much of /repo/src do the correspondence runs actually execute?

The hand-written Lean model is tied to the code by running both on the same cases, so a line of
/repo/src that no case executes is a line whose behaviour is tied to the model by nothing.  This tool
measures that: it builds the harness (and the `muxide` binary, for C20) from /repo's current working
tree with `-C instrument-coverage` (nightly toolchain: llvm-cov / llvm-profdata ship with it), runs the
ordinary `./check Cxx --quick` of every claimed property with the instrumented binaries substituted
(VERIF_HARNESS_BIN / VERIF_MUXIDE_BIN), merges the profiles and writes

   coverage/summary.json      per file and per function: lines / regions executed, per-property totals
   coverage/uncovered.txt     every source line of /repo/src (test modules excluded) no case executed

It is a measurement of the tie, not a check: it never prints VIOLATION and is not registered in
MANIFEST.json.  The evidence files are restored afterwards (they must come from the ordinary build).
"""
import json
import os
import re
import shutil
import subprocess
import sys

ROOT = os.path.dirname(os.path.dirname(os.path.abspath(__file__)))
CACHE = os.path.join(ROOT, ".cache")
COVT = os.path.join(CACHE, "cov-target")
COVM = os.path.join(CACHE, "cov-muxide-target")
PROF = os.path.join(CACHE, "cov-prof")
OUT = os.path.join(ROOT, "coverage")


def sh(cmd, **kw):
    return subprocess.run(cmd, capture_output=True, text=True, **kw)


def tool(name):
    sysroot = sh(["rustc", "+nightly", "--print", "sysroot"]).stdout.strip()
    for base, _, files in os.walk(os.path.join(sysroot, "lib", "rustlib")):
        if name in files:
            return os.path.join(base, name)
    raise SystemExit("no " + name + " in the nightly toolchain")


def main():
    args = sys.argv[1:]
    tier = "quick"
    if "--tier" in args:
        tier = args[args.index("--tier") + 1]
        del args[args.index("--tier"):args.index("--tier") + 2]
    props = args or ["C%02d" % i for i in range(1, 21)]
    env = dict(os.environ, CARGO_NET_OFFLINE="true", RUST_BACKTRACE="0")
    env["RUSTFLAGS"] = "--cfg muxide_verif -C instrument-coverage"
    # build scripts and proc macros are instrumented too: keep their profiles out of /repo
    os.makedirs(os.path.join(CACHE, "cov-build-prof"), exist_ok=True)
    env["LLVM_PROFILE_FILE"] = os.path.join(CACHE, "cov-build-prof", "b-%p-%8m.profraw")
    e1 = dict(env, CARGO_TARGET_DIR=COVT)
    shutil.copyfile("/repo/Cargo.lock", os.path.join(ROOT, "harness", "Cargo.lock"))
    p = sh(["cargo", "+nightly", "build", "--offline"], cwd=os.path.join(ROOT, "harness"), env=e1)
    if p.returncode:
        raise SystemExit("instrumented harness does not build:\n" + p.stderr[-3000:])
    e2 = dict(env)
    p = sh(["cargo", "+nightly", "build", "--offline", "--bin", "muxide", "--manifest-path", "/repo/Cargo.toml",
            "--target-dir", COVM], env=e2)
    if p.returncode:
        raise SystemExit("instrumented muxide binary does not build:\n" + p.stderr[-3000:])
    hbin = os.path.join(COVT, "debug", "muxide-verif-harness")
    mbin = os.path.join(COVM, "debug", "muxide")
    shutil.rmtree(PROF, ignore_errors=True)
    os.makedirs(PROF)
    os.makedirs(OUT, exist_ok=True)
    # keep the committed evidence: the coverage run rewrites it from instrumented binaries
    evbak = os.path.join(CACHE, "cov-evidence-backup")
    shutil.rmtree(evbak, ignore_errors=True)
    shutil.copytree(os.path.join(ROOT, "evidence"), evbak)
    profdata, cov = tool("llvm-profdata"), tool("llvm-cov")
    per_prop = {}
    try:
        for prop in props:
            pd = os.path.join(PROF, prop)
            os.makedirs(pd)
            e = dict(os.environ, VERIF_HARNESS_BIN=hbin, VERIF_MUXIDE_BIN=mbin,
                     LLVM_PROFILE_FILE=os.path.join(pd, "p-%p-%8m.profraw"), VERIF_DEBUG_NOPROOF="1")
            r = sh([os.path.join(ROOT, "check"), prop, "--" + tier], env=e, cwd=ROOT)
            print(prop, "rc=%d" % r.returncode, (r.stdout.strip().split("\n") or [""])[-1][:200], flush=True)
            raws = [os.path.join(pd, f) for f in os.listdir(pd)]
            if not raws:
                continue
            m = sh([profdata, "merge", "-sparse", "-o", os.path.join(PROF, prop + ".profdata")] + raws)
            if m.returncode:
                print(m.stderr[-500:])
            shutil.rmtree(pd)
            per_prop[prop] = os.path.join(PROF, prop + ".profdata")
    finally:
        shutil.rmtree(os.path.join(ROOT, "evidence"))
        shutil.copytree(evbak, os.path.join(ROOT, "evidence"))
    allp = os.path.join(PROF, "all.profdata")
    sh([profdata, "merge", "-sparse", "-o", allp] + list(per_prop.values()))

    def export(pdata):
        r = sh([cov, "export", "--format=text", "--instr-profile=" + pdata, "--object", hbin, "--object", mbin,
                "--ignore-filename-regex=/\\.cargo/|/rustc/|/verif/"])
        return json.loads(r.stdout)

    def lines_of(data):
        """file -> {line: executed?} from the segment list (line is covered if any region starting on it ran)"""
        res = {}
        for f in data["data"][0]["files"]:
            name = f["filename"]
            if not name.startswith("/repo/src"):
                continue
            ln = {}
            for seg in f["segments"]:
                line, col, count, has_count, is_entry = seg[0], seg[1], seg[2], seg[3], seg[4]
                if has_count and is_entry:
                    ln[line] = ln.get(line, False) or count > 0
            res[name] = (ln, f["summary"])
        return res

    full = export(allp)
    lf = lines_of(full)
    summary = {"tier": tier, "repo_head": sh(["git", "-C", "/repo", "rev-parse", "--short", "HEAD"]).stdout.strip(),
               "files": {}, "per_property_regions_covered": {}, "functions_never_called": []}
    unc = []
    for name, (ln, summ) in sorted(lf.items()):
        src = open(name).read().split("\n")
        # lines inside #[cfg(test)] modules are not compiled in this build and do not appear at all
        missed = sorted(l for l, hit in ln.items() if not hit)
        summary["files"][name[len("/repo/"):]] = {
            "lines": summ["lines"], "regions": summ["regions"], "functions": summ["functions"],
            "branches": summ.get("branches", {}), "region_start_lines_missed": len(missed)}
        for l in missed:
            unc.append("%s:%d: %s" % (name[len("/repo/"):], l, src[l - 1].strip() if l - 1 < len(src) else ""))
    for fn in full["data"][0]["functions"]:
        if fn["filenames"] and fn["filenames"][0].startswith("/repo/src") and fn["count"] == 0:
            summary["functions_never_called"].append(fn["name"])
    summary["functions_never_called"] = sorted(set(summary["functions_never_called"]))
    for prop, pdta in sorted(per_prop.items()):
        d = export(pdta)
        t = d["data"][0]["totals"]
        summary["per_property_regions_covered"][prop] = {"regions": t["regions"]["covered"], "lines": t["lines"]["covered"]}
    summary["totals"] = full["data"][0]["totals"]
    json.dump(summary, open(os.path.join(OUT, "summary.json"), "w"), indent=1, sort_keys=True)
    open(os.path.join(OUT, "uncovered.txt"), "w").write("\n".join(unc) + "\n")
    t = summary["totals"]
    print("lines %.1f%%  regions %.1f%%  functions %.1f%%   uncovered region-start lines: %d" %
          (t["lines"]["percent"], t["regions"]["percent"], t["functions"]["percent"], len(unc)))


if __name__ == "__main__":
    main()
