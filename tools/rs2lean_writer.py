#!/usr/bin/env python3
"""tools/rs2lean_writer.py — translator for `Mp4Writer::write_video_sample_with_dts` and `Mp4Writer::write_audio_sample`
(src/muxer/mp4.rs): the two functions through which every frame of a progressive file enters the writer.

What they decide — which calls are refused and with which error, what is queued for an accepted call (converted
payload, timestamps, key flag), how the previous sample's duration and the last delta are patched, that nothing is
touched when a call is refused — is what C01 (samples), C03 (timing), C04 (acceptance), C05 (refusals leave no trace)
and C09 rest on.  The script translates both functions statement by statement, from /repo's working tree on every run
of those checks, into functions over the model's `Writer` record; `Props/C05Generated.lean` proves them equal to the
hand-written `Writer.writeVideo` / `Writer.writeAudio`, so every theorem about those is a theorem about the translated
source.

Supported statement forms (whitespace-normalised; anything else makes the function `untranslatable`, which is reported):
  if COND { return Err(E); }                                    E: Mp4WriterError::X  |  match self.video_codec { .. => E, }
  let mut NAME: Option<T> = None;                                a local assigned inside the next `if let`
  if let Some(X) = self.F { S* } [else { S* }]                   S*: the forms above, `let N = EXPR;`, `NAME = EXPR;`; no writes to self
        -> one `Except` value yielding the mutable locals; its error is returned with the writer untouched
  let NAME = self.audio_track.as_ref().ok_or(E)?;
  let NAME = match audio_track.codec { ARM* };                   arms: blocks of `assert_invariant!(..)` (dropped), `let raw = adts_to_raw(data)
        .map_err(|e| Mp4WriterError::InvalidAdtsDetailed(Box::new(e)))?;`, `if COND { return Err(E); }`, `return Err(E);`, a final value
  let NAME = EXPR;
  if let Some(X) = LOCAL { U* }      if COND { U* }              U*: updates of self (below)
  if let Some(last) = self.V.last_mut() { last.duration = Some(E); }      -> setLastDur (hand-written: the newest sample is the list head)
  self.F = EXPR;      self.V.push(SampleInfo { .. });      Ok(())
Vectors of samples are rendered newest-first (`push` = cons, `last_mut` = head), as in the model's `Writer`; `u64`
subtraction `a - b` is rendered as natural-number subtraction (every occurrence is behind the guard `a > b` / `a >= b`:
C12's checked model proves the absence of underflow), `x as u32` as `x % 2^32`.
"""
import os
import re
import sys

sys.path.insert(0, os.path.dirname(os.path.abspath(__file__)))
from rs2lean import strip_comments, find_fn, split_statements, Untranslatable   # noqa: E402

REPO = os.environ.get("RS2LEAN_REPO", "/repo")
OUT = os.environ.get("RS2LEAN_WRITER_OUT") or os.path.join(os.path.dirname(os.path.dirname(os.path.abspath(__file__))),
                                                            "lean", "Muxide", "Generated", "Writer.lean")
FIELD = {"finalized": "finalized", "video_prev_pts": "vPrev", "video_codec": "codec", "video_samples": "vsRev",
         "video_last_delta": "vLastDelta", "video_config": "vConfig", "audio_track": "audio", "audio_prev_pts": "aPrev",
         "audio_samples": "asRev", "audio_last_delta": "aLastDelta"}
TYPES = {"u32": "Nat", "u64": "Nat", "VideoConfig": "VideoConfig"}
VCODEC = {"H264": ".h264", "H265": ".h265", "Av1": ".av1", "Vp9": ".vp9"}
FUNS = {"annexb_to_avcc": "annexb_to_avcc", "hevc_annexb_to_hvcc": "hevc_annexb_to_hvcc", "extract_avc_config": "extract_avc_config",
        "extract_hevc_config": "extract_hevc_config", "extract_av1_config": "extract_av1_config", "extract_vp9_config": "extract_vp9_config"}
VCONF = {"Avc": "VideoConfig.avc", "Hevc": "VideoConfig.hevc", "Av1": "VideoConfig.av1", "Vp9": "VideoConfig.vp9"}


def norm(s):
    return re.sub(r"\s+", " ", s.strip()).rstrip(";").strip()


def stmts_of(body):
    """normalised statements of a block body; an `else { .. }` is joined to its `if`"""
    out = []
    for x in split_statements(body):
        x = norm(x)
        if not x:
            continue
        if x.startswith("else") and out:
            out[-1] += " " + x
        else:
            out.append(x)
    return out


def block_after(s, i):
    """s[i] == '{': returns (inner text, index after the matching '}')"""
    assert s[i] == "{", s[i:i + 20]
    d = 0
    for j in range(i, len(s)):
        if s[j] == "{":
            d += 1
        elif s[j] == "}":
            d -= 1
            if d == 0:
                return s[i + 1:j], j + 1
    raise Untranslatable("unbalanced block")


def err(e):
    e = e.strip().rstrip(",").strip()
    m = re.fullmatch(r"Mp4WriterError::(\w+)", e)
    if m:
        return "." + m.group(1)[0].lower() + m.group(1)[1:]
    m = re.fullmatch(r"match self\.video_codec \{ (.*) \}", e)
    if m:
        arms = [a.strip() for a in m.group(1).split(",") if a.strip()]
        out = []
        for a in arms:
            k, v = [x.strip() for x in a.split("=>")]
            pat = "_" if k == "_" else VCODEC[re.fullmatch(r"VideoCodec::(\w+)", k).group(1)]
            out.append("| %s => %s" % (pat, err(v)))
        return "(match w.codec with " + " ".join(out) + ")"
    raise Untranslatable("error value: " + e[:60])


def expr(e):
    e = e.strip()
    if re.fullmatch(r"[a-z_][a-z_0-9]*", e):
        return e
    if e == "None":
        return "none"
    if e in ("true", "false"):
        return e
    m = re.fullmatch(r"Some\((.+)\)", e)
    if m:
        return "some (%s)" % expr(m.group(1))
    m = re.fullmatch(r"(\w+) as u32", e)
    if m:
        return "%s %% 2 ^ 32" % m.group(1)
    m = re.fullmatch(r"(\w+) - (\w+)", e)
    if m:
        return "%s - %s" % (m.group(1), m.group(2))
    m = re.fullmatch(r"i128::from\((\w+)\) - i128::from\((\w+)\)", e)
    if m:
        return "((%s : Int) - (%s : Int))" % (m.group(1), m.group(2))
    m = re.fullmatch(r"self\.(\w+)", e)
    if m and m.group(1) in FIELD:
        return "w." + FIELD[m.group(1)]
    m = re.fullmatch(r"(\w+)\.to_vec\(\)", e)
    if m:
        return m.group(1)
    m = re.fullmatch(r"match self\.video_codec \{ (.*) \}", e)
    if m:
        out = []
        for a in [a.strip() for a in m.group(1).split(", ") if a.strip().rstrip(",")]:
            a = a.rstrip(",").strip()
            k, v = [x.strip() for x in a.split("=>")]
            pat = VCODEC[re.fullmatch(r"VideoCodec::(\w+)", k).group(1)]
            mv = re.fullmatch(r"(\w+)\(data\)\.map\(VideoConfig::(\w+)\)", v)
            if mv and mv.group(1) in FUNS:
                out.append("| %s => (%s data).map %s" % (pat, FUNS[mv.group(1)], VCONF[mv.group(2)]))
                continue
            mv = re.fullmatch(r"(\w+)\(data\)", v)
            if mv and mv.group(1) in FUNS:
                out.append("| %s => %s data" % (pat, FUNS[mv.group(1)]))
                continue
            out.append("| %s => %s" % (pat, expr(v)))
        return "(match w.codec with " + " ".join(out) + ")"
    raise Untranslatable("expression: " + e[:70])


def cond(c):
    c = c.strip()
    if "||" in c:
        return " ∨ ".join(cond(x) for x in c.split("||"))
    m = re.fullmatch(r"(\w+) (<=|<|>|>=) (\w+)", c)
    if m and not m.group(3).isdigit():
        return "%s %s %s" % (m.group(1), {"<=": "≤", ">=": "≥"}.get(m.group(2), m.group(2)), m.group(3))
    m = re.fullmatch(r"(\w+) > u64::from\(u32::MAX\)", c)
    if m:
        return "%s > u32Max" % m.group(1)
    m = re.fullmatch(r"(\w+)\.len\(\) > u32::MAX as usize", c)
    if m:
        return "%s.length > u32Max" % m.group(1)
    m = re.fullmatch(r"(\w+) > i128::from\(i32::MAX\)", c)
    if m:
        return "%s > 2 ^ 31 - 1" % m.group(1)
    m = re.fullmatch(r"(\w+) < i128::from\(i32::MIN\)", c)
    if m:
        return "%s < -(2 ^ 31)" % m.group(1)
    m = re.fullmatch(r"!(\w+)", c)
    if m:
        return "¬ %s = true" % m.group(1)
    m = re.fullmatch(r"!is_valid_opus_packet\((\w+)\)", c)
    if m:
        return "¬ is_valid_opus_packet %s = true" % m.group(1)
    m = re.fullmatch(r"self\.finalized", c)
    if m:
        return "w.finalized = true"
    m = re.fullmatch(r"(\w+)\.is_none\(\)", c)
    if m:
        return "%s.isNone = true" % m.group(1)
    m = re.fullmatch(r"(\w+)\.is_some\(\)", c)
    if m:
        return "%s.isSome = true" % m.group(1)
    raise Untranslatable("condition: " + c[:70])


def guard(st):
    """`if COND { return Err(E); }` -> (cond, err) or None"""
    m = re.fullmatch(r"if (.+?) \{ return Err\((.+)\); \}", st)
    if m and "{" not in m.group(1):
        return cond(m.group(1)), err(m.group(2))
    return None


class T:
    def __init__(self):
        self.muts = []          # [(name, lean type)] declared and not yet consumed

    # ---- blocks that may return early and assign the mutable locals; value: Except WRes <muts tuple> ----
    def checks(self, stmts, ind):
        pad = "  " * ind
        if not stmts:
            return pad + ".ok " + self.mut_tuple()
        st, rest = stmts[0], stmts[1:]
        g = guard(st)
        if g:
            return pad + "if %s then .error (.err %s) else\n" % g + self.checks(rest, ind)
        m = re.fullmatch(r"let (\w+) = (.+)", st)
        if m:
            return pad + "let %s := %s\n" % (m.group(1), expr(m.group(2))) + self.checks(rest, ind)
        m = re.fullmatch(r"(\w+) = (.+)", st)
        if m and m.group(1) in [n for n, _ in self.muts]:
            ty = dict(self.muts)[m.group(1)]
            return pad + "let %s : Option %s := %s\n" % (m.group(1), ty, expr(m.group(2))) + self.checks(rest, ind)
        raise Untranslatable("statement in a checking block: " + st[:80])

    def mut_tuple(self):
        return "(" + ", ".join(n for n, _ in self.muts) + ")" if len(self.muts) != 1 else self.muts[0][0]

    def mut_type(self):
        return " × ".join("Option " + t for _, t in self.muts)

    # ---- updates of self without early return; value: Writer ----
    def updates(self, stmts, ind):
        pad = "  " * ind
        out = ""
        for st in stmts:
            m = re.fullmatch(r"if let Some\(last\) = self\.(\w+)\.last_mut\(\) \{ last\.duration = Some\((\w+)\); \}", st)
            if m and m.group(1) in FIELD:
                f = FIELD[m.group(1)]
                out += pad + "let w : Writer := { w with %s := setLastDur w.%s %s }\n" % (f, f, m.group(2))
                continue
            m = re.fullmatch(r"if let Some\((\w+)\) = (\w+) \{ (.*) \}", st)
            if m:
                inner = stmts_of(m.group(3))
                out += pad + "let w : Writer := match %s with\n" % m.group(2)
                out += pad + "  | some %s =>\n" % m.group(1) + self.updates(inner, ind + 2) + pad + "    w\n"
                out += pad + "  | none => w\n"
                continue
            m = re.fullmatch(r"if (.+?) \{ (.*) \}", st)
            if m and "{" not in m.group(1) and "return" not in m.group(2):
                inner = stmts_of(m.group(2))
                out += pad + "let w : Writer := if %s then\n" % cond(m.group(1)) + self.updates(inner, ind + 2) + pad + "    w\n"
                out += pad + "  else w\n"
                continue
            m = re.fullmatch(r"self\.(\w+) = (.+)", st)
            if m and m.group(1) in FIELD:
                out += pad + "let w : Writer := { w with %s := %s }\n" % (FIELD[m.group(1)], expr(m.group(2)))
                continue
            m = re.fullmatch(r"self\.(\w+)\.push\(SampleInfo \{ (.*?),? \}\)", st)
            if m and m.group(1) in FIELD:
                f = FIELD[m.group(1)]
                vals = {}
                for part in [p.strip() for p in m.group(2).split(",") if p.strip()]:
                    if ":" in part:
                        k, v = [x.strip() for x in part.split(":", 1)]
                    else:
                        k = v = part
                    vals[k] = expr(v)
                if sorted(vals) != ["data", "dts", "duration", "is_keyframe", "pts"]:
                    raise Untranslatable("SampleInfo fields: " + ", ".join(sorted(vals)))
                out += pad + "let w : Writer := { w with %s := { pts := %s, dts := %s, data := %s, key := %s, dur := %s } :: w.%s }\n" % (
                    f, vals["pts"], vals["dts"], vals["data"], vals["is_keyframe"], vals["duration"], f)
                continue
            raise Untranslatable("update statement: " + st[:80])
        return out

    # ---- arms of `let NAME = match audio_track.codec { .. }`; value: Except WRes Bytes ----
    def arm(self, stmts, ind):
        pad = "  " * ind
        if not stmts:
            raise Untranslatable("arm without a value")
        st, rest = stmts[0], stmts[1:]
        if re.match(r"assert_invariant!\(", st):
            return self.arm(rest, ind)
        g = guard(st)
        if g:
            return pad + "if %s then .error (.err %s) else\n" % g + self.arm(rest, ind)
        m = re.fullmatch(r"return Err\((.+)\)", st)
        if m and not rest:
            return pad + ".error (.err %s)" % err(m.group(1))
        m = re.fullmatch(r"let (\w+) = adts_to_raw\((\w+)\) ?\.map_err\(\|e\| Mp4WriterError::InvalidAdtsDetailed\(Box::new\(e\)\)\)\?", st)
        if m:
            return (pad + "match adts_to_raw %s with\n" % m.group(2) + pad + "| .error e => .error (.err (.invalidAdts e))\n"
                    + pad + "| .ok %s =>\n" % m.group(1) + self.arm(rest, ind + 1))
        if not rest:
            return pad + ".ok (%s)" % expr(st)
        raise Untranslatable("statement in a match arm: " + st[:80])

    # ---- the function body; value: Writer × WRes ----
    def top(self, stmts, ind):
        pad = "  " * ind
        if not stmts:
            raise Untranslatable("function without a result")
        st, rest = stmts[0], stmts[1:]
        if st == "Ok(())" and not rest:
            return pad + "(w, .ok)"
        g = guard(st)
        if g:
            return pad + "if %s then (w, .err %s) else\n" % g + self.top(rest, ind)
        m = re.fullmatch(r"let mut (\w+): Option<(\w+)> = None", st)
        if m and m.group(2) in TYPES:
            self.muts.append((m.group(1), TYPES[m.group(2)]))
            return pad + "let %s : Option %s := none\n" % (m.group(1), TYPES[m.group(2)]) + self.top(rest, ind)
        m = re.fullmatch(r"let (\w+) = self ?\.audio_track ?\.as_ref\(\) ?\.ok_or\((.+)\)\?", st)
        if m:
            return (pad + "match w.audio with\n" + pad + "| none => (w, .err %s)\n" % err(m.group(2))
                    + pad + "| some %s =>\n" % m.group(1) + self.top(rest, ind + 1))
        m = re.match(r"if let Some\((\w+)\) = self\.(\w+) \{", st)
        if m and m.group(2) in FIELD and self.muts and ("return" in st or any(re.search(r"\b%s = " % n, st) for n, _ in self.muts)):
            a, j = block_after(st, m.end() - 1)
            tail = st[j:].strip()
            b = None
            if tail:
                mm = re.match(r"else \{", tail)
                if not mm:
                    raise Untranslatable("after if-let block: " + tail[:40])
                b, k = block_after(tail, mm.end() - 1)
                if tail[k:].strip():
                    raise Untranslatable("after else block: " + tail[k:][:40])
            if re.search(r"\bself\.\w+(\.\w+\(.*\))? = |\.push\(|last_mut", a + (b or "")):
                raise Untranslatable("write to self inside a checking block")
            s = pad + "match ((match w.%s with\n" % FIELD[m.group(2)]
            s += pad + "    | some %s =>\n" % m.group(1) + self.checks(stmts_of(a), ind + 3) + "\n"
            s += pad + "    | none =>\n" + self.checks(stmts_of(b) if b is not None else [], ind + 3) + ") : Except WRes (%s)) with\n" % self.mut_type()
            s += pad + "| .error r => (w, r)\n"
            s += pad + "| .ok %s =>\n" % self.mut_tuple()
            return s + self.top(rest, ind + 1)
        m = re.match(r"let (\w+) = match audio_track\.codec \{", st)
        if m:
            body, j = block_after(st, m.end() - 1)
            if st[j:].strip():
                raise Untranslatable("after match: " + st[j:][:40])
            arms, i = [], 0
            body = body.strip()
            while i < len(body):
                mm = re.match(r"\s*AudioCodec::(Aac\((\w+)\)|Opus|None) => \{", body[i:])
                if not mm:
                    raise Untranslatable("match arm: " + body[i:i + 50])
                inner, k = block_after(body, i + mm.end() - 1)
                pat = {"O": ".opus", "N": ".none"}.get(mm.group(1)[0]) or ".aac %s" % mm.group(2)
                arms.append((pat, stmts_of(inner)))
                i = k
                while i < len(body) and body[i] in ", ":
                    i += 1
            if sorted(p.split()[0] for p, _ in arms) != [".aac", ".none", ".opus"]:
                raise Untranslatable("arms of match audio_track.codec")
            s = pad + "match ((match audio_track.codec with\n"
            for pat, inner in arms:
                s += pad + "    | %s =>\n" % pat + self.arm(inner, ind + 3) + "\n"
            s = s.rstrip("\n") + ") : Except WRes Bytes) with\n"
            s += pad + "| .error r => (w, r)\n" + pad + "| .ok %s =>\n" % m.group(1)
            return s + self.top(rest, ind + 1)
        m = re.fullmatch(r"let (\w+) = (.+)", st)
        if m and not m.group(2).startswith("match audio"):
            return pad + "let %s := %s\n" % (m.group(1), expr(m.group(2))) + self.top(rest, ind)
        # everything after the last check: updates of self
        if any("return" in x or x.endswith("?") for x in stmts):
            raise Untranslatable("statement: " + st[:80])
        if stmts[-1] != "Ok(())":
            raise Untranslatable("function does not end in Ok(())")
        return self.updates(stmts[:-1], ind) + pad + "(w, .ok)"


SIGS = {"write_video_sample_with_dts": ("fn write_video_sample_with_dts( &mut self, pts: u64, dts: u64, data: &[u8], is_keyframe: bool, ) -> Result<(), Mp4WriterError>",
                                        "(w : Writer) (pts dts : Nat) (data : Bytes) (is_keyframe : Bool) : Writer × WRes"),
        "write_audio_sample": ("fn write_audio_sample(&mut self, pts: u64, data: &[u8]) -> Result<(), Mp4WriterError>",
                               "(w : Writer) (pts : Nat) (data : Bytes) : Writer × WRes")}


def translate(src, name):
    sig, body = find_fn(src, name)
    if norm(re.sub(r"^\s*pub\s+", "", sig)) != SIGS[name][0]:
        raise Untranslatable("signature: " + norm(sig))
    t = T()
    return ("/-- `Mp4Writer::%s`, translated statement by statement -/\ndef %s %s :=\n" % (name, name, SIGS[name][1])
            + t.top(stmts_of(body), 1) + "\n")


PREAMBLE = """/-! hand-written names for the functions the two methods call (each tied to the source elsewhere: the NAL loops and
    `adts_to_raw` by their own translators, the AV1 / VP9 / Opus parsers by the correspondence runs of C07 / C04) -/
abbrev annexb_to_avcc (d : Bytes) : Bytes := toAvcc d
abbrev hevc_annexb_to_hvcc (d : Bytes) : Bytes := toAvcc d
abbrev extract_avc_config (d : Bytes) : Option AvcConfig := extractAvc d
abbrev extract_hevc_config (d : Bytes) : Option HevcConfig := extractHevc d
def extract_av1_config (d : Bytes) : Option Av1Config := match extractAv1 d with | .some c => some c | .none => none
abbrev extract_vp9_config (d : Bytes) : Option Vp9Config := extractVp9 d
abbrev is_valid_opus_packet (d : Bytes) : Bool := isValidOpus d
abbrev adts_to_raw (d : Bytes) : Except AdtsErr Bytes := adtsToRaw d

"""


def generate():
    src = strip_comments(open(os.path.join(REPO, "src/muxer/mp4.rs")).read())
    failed, parts = [], []
    for name in ("write_video_sample_with_dts", "write_audio_sample"):
        try:
            parts.append(translate(src, name))
        except Untranslatable as e:
            msg = re.sub(r"\s+", " ", str(e))
            failed.append((name, msg))
            parts.append("-- UNTRANSLATABLE %s: %s\n" % (name, msg))
    text = ("import Muxide.Model.Mp4\n/-\n  GENERATED by tools/rs2lean_writer.py from /repo's working tree — do not edit.\n"
            "  `Mp4Writer::write_video_sample_with_dts` and `Mp4Writer::write_audio_sample` (src/muxer/mp4.rs).\n-/\n"
            "namespace Muxide.Generated.Writer\nopen Muxide\n\n" + PREAMBLE + "\n".join(parts) + "\nend Muxide.Generated.Writer\n")
    return text, failed


def main():
    text, failed = generate()
    os.makedirs(os.path.dirname(OUT), exist_ok=True)
    old = open(OUT).read() if os.path.exists(OUT) else None
    if old != text:
        with open(OUT, "w") as f:
            f.write(text)
    for n, e in failed:
        print("untranslatable %s: %s" % (n, e))
    print("generated 2 definitions (%d untranslatable)%s" % (len(failed), "" if old == text else " [file updated]"))
    return 1 if failed else 0


if __name__ == "__main__":
    sys.exit(main())
