#!/bin/sh
# adopt_seed.sh <worktree> <id> <property> "<what it needs to manifest>": confirm (confirm_seed.sh) and file under seeded/<id>/
set -u
W="$1"; ID="$2"; P="$3"; WHAT="$4"
R=$(/verif/tools/confirm_seed.sh "$W" 2>&1 | tail -3)
echo "$R"
case "$R" in *CONFIRMED*) ;; *) exit 1;; esac
D=/verif/seeded/$ID; mkdir -p $D
cp "$W/patch.diff" $D/patch.diff; cp "$W/tests/seeded_demo.rs" $D/demo.rs; cp "$W/agent_meta.txt" $D/agent_meta.txt 2>/dev/null
HEAD=$(git -C /repo rev-parse --short HEAD)
python3 - "$ID" "$P" "$WHAT" "$HEAD" "$R" <<'PY'
import json,sys
i,p,what,head,r=sys.argv[1:6]
json.dump({"id":i,"breaks_property":p,"what_it_needs_to_manifest":what,
 "written_by":"fresh sub-agent given only the property text and a scratch worktree of /repo (nothing from /verif); told to avoid the mechanisms of the earlier rounds",
 "confirmed_in_scratch_worktree":{"patch_applies_to":"repo HEAD "+head,"existing_suite_with_change":"pass ("+r.split('CONFIRMED')[-1].strip()+")","demo_without_change":"pass","demo_with_change":"fail","how":"/verif/tools/confirm_seed.sh <worktree> (cargo test --offline)"},
 "demo":"demo.rs is tests/seeded_demo.rs of the agent's worktree"}, open(f"/verif/seeded/{i}/meta.json","w"), indent=1)
PY
echo adopted $ID
