#!/bin/sh
# try_seed.sh <seed-dir under /verif/seeded> [props...] : apply seeded/<id>/patch.diff to /repo, run the quick checks
# of the given properties (default: the property the seed was written against), undo the patch.
# Evidence files are saved and restored around it (committed evidence must come from /repo's own tree).
set -u
S="/verif/seeded/$1"; shift
OWN=$(python3 -c "import json;print(json.load(open('$S/meta.json'))['breaks_property'])")
PROPS="${*:-$OWN}"
cd /verif
[ -z "$(git -C /repo status --short)" ] || { echo "/repo is dirty"; exit 2; }
rm -rf .cache/ev-backup && cp -r evidence .cache/ev-backup
git -C /repo apply "$S/patch.diff" || { echo "patch does not apply"; exit 2; }
for p in $PROPS; do
  t0=$(date +%s)
  ./check $p --quick > .cache/try_seed.out 2> .cache/try_seed.err; rc=$?
  out=$(grep -E '^VIOLATION' .cache/try_seed.out | head -1)
  t1=$(date +%s)
  if [ -z "$out" ] && [ $rc -ne 0 ]; then
     # the check itself broke (a generator or orchestrator error): that is not a verdict about the seed
     echo "$(basename $S) $((t1-t0))s $p: CHECK-CRASHED rc=$rc $(tail -1 .cache/try_seed.err)"
  elif [ -n "$out" ]; then
     case "$out" in *no-failing-input-found*) k="CORR-ONLY";; *) k="DETECTED";; esac
     echo "$(basename $S) $((t1-t0))s $p: $k  $out"
     rp=$(echo "$out" | sed 's/.*replay=\([^ ]*\).*/\1/'); [ -f "$rp" ] && cp "$rp" "$S/replay-$p.case"
  else
     echo "$(basename $S) $((t1-t0))s $p: MISSED"
  fi
done
git -C /repo checkout -- .
rm -rf evidence && mv .cache/ev-backup evidence
