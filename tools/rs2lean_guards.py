#!/usr/bin/env python3
"""tools/rs2lean_guards.py — translator for the guard prefixes of the frame-writing API calls (src/api.rs).

`Muxer::write_video`, `write_video_with_dts` and `write_audio` begin with a sequence of early returns
(`if COND { return Err(MuxerError::X {..}); }`, some under `if let Some(prev) = self.F`), which IS the
input contract of C04 as far as the API layer is concerned.  This script translates that prefix, statement by
statement and from /repo's working tree on every C04 run, into a Lean function `Muxer → args → Option MErr`
(the first failing guard, `none` when the call goes on to the writer); `Props/C04Generated.lean` proves each
generated function equal to the model's decision (`Muxer.writeVideo` … reply an error of that variant and leave
the muxer untouched / reach the writer).  Reordering two guards, flipping `<=` to `<`, dropping a guard or
returning another variant therefore breaks a proof obligation.

Supported (anything else makes the function `untranslatable`, which is reported):
    let frame_index = self.COUNT;                       (ignored: only used inside error payloads)
    if COND { return Err(MuxerError::V {..}|V); }
    if let Some(p) = self.F { if A OP p { return Err(..); } }
    if let Some(p) = self.F { if A OP p { return Err(..); } } else { return Err(..); }
  COND: data.is_empty() | !x.is_finite() | x < 0.0 | !ticks_representable(x) | self.finished | self.F.is_none()
  A OP p: x <= p | x < p
The prefix ends at the first `let scaled_…` statement.  What follows it — the tick conversion
`(x * MEDIA_TIMESCALE as f64).round() as u64` (rendered `F64.ticks x`, the model's soft-float rounding), the writer call
with `.map_err(|e| self.convert_mp4_error(e, frame_index))?`, `if self.F.is_none() { self.F = Some(x); }`,
`self.F = Some(x);`, `self.COUNT += 1;`, `Ok(())` — is translated separately into `<name>_tail : Muxer → args → Muxer × Reply`;
`C04_gen_*_tail` prove that whenever the translated prefix names no error the model's call IS the translated tail.
(`write_video` calls the one-line wrapper `write_video_sample`; the translator checks it still is that wrapper.)  Trusted: the condition table below (a dozen patterns),
`ticksRepresentable` and the `F64` comparisons of the model, and that the error payload fields do not matter for
the *variant* (the payloads are compared by the correspondence run).
"""
import os
import re
import sys

sys.path.insert(0, os.path.dirname(os.path.abspath(__file__)))
from rs2lean import strip_comments, find_fn, split_statements, Untranslatable   # noqa: E402

REPO = os.environ.get("RS2LEAN_REPO", "/repo")
OUT = os.environ.get("RS2LEAN_GUARDS_OUT") or os.path.join(os.path.dirname(os.path.dirname(os.path.abspath(__file__))),
                                                            "lean", "Muxide", "Generated", "Guards.lean")
TARGETS = [("write_video", ["pts", "data"]), ("write_video_with_dts", ["pts", "dts", "data"]), ("write_audio", ["pts", "data"])]
TYPES = {"pts": "F64", "dts": "F64", "data": "Bytes"}


def camel(s):
    parts = s.split("_")
    return parts[0] + "".join(p.capitalize() for p in parts[1:])


def variant(s):
    m = re.fullmatch(r"return\s+Err\(\s*MuxerError::(\w+)\s*(\{.*\})?\s*\)\s*;?", s.strip(), re.S)
    if not m:
        raise Untranslatable("return statement: " + s[:60])
    v = m.group(1)
    return "." + v[0].lower() + v[1:]


def cond(c, floats):
    c = c.strip()
    m = re.fullmatch(r"data\.is_empty\(\)", c)
    if m:
        return "data = []"
    m = re.fullmatch(r"!(\w+)\.is_finite\(\)", c)
    if m and m.group(1) in floats:
        return "¬ %s.isFinite" % m.group(1)
    m = re.fullmatch(r"(\w+)\s*<\s*0\.0", c)
    if m and m.group(1) in floats:
        return "F64.lt %s F64.zero" % m.group(1)
    m = re.fullmatch(r"!ticks_representable\((\w+)\)", c)
    if m and m.group(1) in floats:
        return "¬ ticksRepresentable %s" % m.group(1)
    m = re.fullmatch(r"self\.(\w+)", c)
    if m:
        return "self.%s" % camel(m.group(1))
    m = re.fullmatch(r"self\.(\w+)\.is_none\(\)", c)
    if m:
        return "self.%s.isNone" % camel(m.group(1))
    raise Untranslatable("condition: " + c)


def cmp(c, floats, bound):
    m = re.fullmatch(r"(\w+)\s*(<=|<)\s*(\w+)", c.strip())
    if not m or m.group(1) not in floats or m.group(3) != bound:
        raise Untranslatable("comparison: " + c)
    return "F64.%s %s %s" % ("le" if m.group(2) == "<=" else "lt", m.group(1), bound)


def translate(name, params, src):
    sig, body = find_fn(src, name)
    floats = [p for p in params if TYPES[p] == "F64"]
    guards = []
    stmts = []
    for s in split_statements(body):            # `if … { } else { }` is split at the first closing brace: rejoin
        if s.strip().startswith("else") and stmts:
            stmts[-1] = stmts[-1] + " " + s.strip()
        else:
            stmts.append(s)
    for s in stmts:
        s = s.strip()
        if re.match(r"let\s+scaled_", s):
            break
        if re.fullmatch(r"let\s+frame_index\s*=\s*self\.\w+\s*;?", s):
            continue
        m = re.fullmatch(r"if\s+let\s+Some\((\w+)\)\s*=\s*self\.(\w+)\s*\{\s*if\s+(.+?)\s*\{(.*?)\}\s*\}\s*(?:else\s*\{(.*)\}\s*)?", s, re.S)
        if m:
            b = m.group(1)
            inner = "if %s then some %s else none" % (cmp(m.group(3), floats, b), variant(m.group(4)))
            other = "some %s" % variant(m.group(5)) if m.group(5) else "none"
            guards.append("(match self.%s with | some %s => %s | none => %s)" % (camel(m.group(2)), b, inner, other))
            continue
        m = re.fullmatch(r"if\s+(.+?)\s*\{(.*)\}", s, re.S)
        if m:
            guards.append("(if %s then some %s else none)" % (cond(m.group(1), floats), variant(m.group(2))))
            continue
        raise Untranslatable("statement: " + s[:70])
    else:
        raise Untranslatable("end of guard prefix (`let scaled_…`) not found")
    ps = "".join(" (%s : %s)" % (p, TYPES[p]) for p in params)
    return ("/-- guard prefix of `Muxer::%s` (src/api.rs), translated statement by statement: the first failing guard -/\n"
            "def %s (self : Muxer)%s : Option MErr :=\n  firstSome [\n    %s]\n" % (name, name, ps, ",\n    ".join(guards)))


MFIELD = {"first_video_pts": "firstVideoPts", "last_video_pts": "lastVideoPts", "last_video_dts": "lastVideoDts",
          "last_audio_pts": "lastAudioPts", "video_frame_count": "vCount", "audio_frame_count": "aCount"}


def translate_tail(name, params, src, writer_src):
    """what the call does once every guard has passed: tick conversion, the writer call with its error conversion, and
    the bookkeeping of an accepted frame"""
    sig, body = find_fn(src, name)
    stmts = []
    for s in split_statements(body):
        if s.strip().startswith("else") and stmts:
            stmts[-1] = stmts[-1] + " " + s.strip()
        else:
            stmts.append(s)
    stmts = [re.sub(r"\s+", " ", x.strip()).rstrip(";").strip() for x in stmts]
    stmts = [x for x in stmts if x]
    count = None
    for x in stmts:
        m = re.fullmatch(r"let frame_index = self\.(\w+)", x)
        if m and m.group(1) in MFIELD:
            count = MFIELD[m.group(1)]
    k = next((i for i, x in enumerate(stmts) if re.match(r"let scaled_", x)), None)
    if k is None or count is None:
        raise Untranslatable("tail of %s: no `let scaled_…` / `let frame_index`" % name)
    lines = ["  let frame_index : Nat := self.%s" % count]
    rest = stmts[k:]
    i = 0
    while i < len(rest):
        x = rest[i]
        m = re.fullmatch(r"let scaled_(\w+) = \((\w+) \* MEDIA_TIMESCALE as f64\)\.round\(\)", x)
        if m and i + 1 < len(rest) and m.group(1) == m.group(2):
            m2 = re.fullmatch(r"let (\w+) = scaled_%s as u64" % m.group(1), rest[i + 1])
            if not m2:
                raise Untranslatable("tail: " + rest[i + 1][:60])
            lines.append("  let %s : Nat := F64.ticks %s" % (m2.group(1), m.group(2)))
            i += 2
            continue
        m = re.fullmatch(r"self ?\.writer ?\.(\w+)\(([^()]*)\) ?\.map_err\(\|e\| self\.convert_mp4_error\(e, frame_index\)\)\?", x)
        if m:
            args = [a.strip() for a in m.group(2).split(",")]
            fn = m.group(1)
            if fn == "write_video_sample":
                # one-line wrapper in src/muxer/mp4.rs: must still be `self.write_video_sample_with_dts(pts, pts, data, is_keyframe)`
                wsig, wbody = find_fn(writer_src, "write_video_sample")
                if re.sub(r"\s+", "", wbody) != "self.write_video_sample_with_dts(pts,pts,data,is_keyframe)":
                    raise Untranslatable("write_video_sample is no longer the one-line wrapper")
                call = "self.w.writeVideo %s %s %s %s" % (args[0], args[0], args[1], args[2])
            elif fn == "write_video_sample_with_dts" and len(args) == 4:
                call = "self.w.writeVideo %s" % " ".join(args)
            elif fn == "write_audio_sample" and len(args) == 2:
                call = "self.w.writeAudio %s" % " ".join(args)
            else:
                raise Untranslatable("writer call: " + x[:70])
            lines.append("  match %s with" % call)
            lines.append("  | (w', .err e) => ({ self with w := w' }, convert_mp4_error e frame_index)")
            lines.append("  | (w', .panic) => ({ self with w := w' }, .panic)")
            lines.append("  | (w', .ok) =>")
            lines.append("  let self : Muxer := { self with w := w' }")
            i += 1
            continue
        m = re.fullmatch(r"if self\.(\w+)\.is_none\(\) \{ self\.(\w+) = Some\((\w+)\); \}", x)
        if m and m.group(1) == m.group(2) and m.group(1) in MFIELD:
            f = MFIELD[m.group(1)]
            lines.append("  let self : Muxer := if self.%s.isNone then { self with %s := some %s } else self" % (f, f, m.group(3)))
            i += 1
            continue
        m = re.fullmatch(r"self\.(\w+) = Some\((\w+)\)", x)
        if m and m.group(1) in MFIELD:
            lines.append("  let self : Muxer := { self with %s := some %s }" % (MFIELD[m.group(1)], m.group(2)))
            i += 1
            continue
        m = re.fullmatch(r"self\.(\w+) \+= 1", x)
        if m and m.group(1) in MFIELD:
            f = MFIELD[m.group(1)]
            lines.append("  let self : Muxer := { self with %s := self.%s + 1 }" % (f, f))
            i += 1
            continue
        if x == "Ok(())" and i == len(rest) - 1:
            lines.append("  (self, .ok)")
            i += 1
            continue
        raise Untranslatable("tail statement of %s: %s" % (name, x[:70]))
    if not lines[-1].endswith("(self, .ok)"):
        raise Untranslatable("tail of %s does not end in Ok(())" % name)
    ps = "".join(" (%s : %s)" % (q, TYPES[q]) for q in params)
    extra = " (is_keyframe : Bool)" if name != "write_audio" else ""
    return ("/-- `Muxer::%s` after its guards (src/api.rs), translated statement by statement -/\n"
            "def %s_tail (self : Muxer)%s%s : Muxer × Reply :=\n%s\n" % (name, name, ps, extra, "\n".join(lines)))


WERR = {"NonIncreasingTimestamp": ".nonIncreasingTimestamp", "FirstFrameMustBeKeyframe": ".firstFrameMustBeKeyframe",
        "FirstFrameMissingSpsPps": ".firstFrameMissingSpsPps", "FirstFrameMissingSequenceHeader": ".firstFrameMissingSequenceHeader",
        "FirstFrameMissingVp9Config": ".firstFrameMissingVp9Config", "InvalidAdtsDetailed": ".invalidAdts _",
        "InvalidOpusPacket": ".invalidOpusPacket", "AudioNotEnabled": ".audioNotEnabled", "DurationOverflow": ".durationOverflow",
        "AlreadyFinalized": ".alreadyFinalized"}


def translate_convert(src):
    """`convert_mp4_error`: one `match err { Mp4WriterError::A => MuxerError::B {..}, .. }`; per arm the target variant and
    whether the frame index travels with it.  The arm for the unit variant `InvalidAdts` is skipped: the writer never
    constructs it (the model's `WErr` has only the detailed form)."""
    sig, body = find_fn(src, "convert_mp4_error")
    m = re.fullmatch(r"\s*match\s+err\s*\{(.*)\}\s*", body, re.S)
    if not m:
        raise Untranslatable("body is not a single match on err")
    arms, cur, d = [], "", 0
    for ch in re.sub(r"\}\s*(?=Mp4WriterError::)", "}, ", m.group(1)):      # block arms carry no comma
        if ch in "({[":
            d += 1
        elif ch in ")}]":
            d -= 1
        if ch == "," and d == 0:
            arms.append(cur); cur = ""
        else:
            cur += ch
    arms.append(cur)
    lines, seen = [], set()
    for arm in [a.strip() for a in arms if a.strip()]:
        mm = re.fullmatch(r"Mp4WriterError::(\w+)(\(\w+\))?\s*=>\s*\{?\s*(.*?)\s*\}?", arm, re.S)
        if not mm:
            raise Untranslatable("match arm: " + arm[:60])
        lhs, rhs = mm.group(1), mm.group(3)
        if lhs == "InvalidAdts":
            continue
        if lhs not in WERR:
            raise Untranslatable("writer error variant " + lhs)
        t = re.match(r"MuxerError::(\w+)\s*(.*)", rhs, re.S)
        if not t:
            raise Untranslatable("arm value: " + rhs[:60])
        v, payload = t.group(1), t.group(2)
        idx = "(some frame_index)" if re.search(r"\bframe_index\b", payload) else "none"
        lines.append("  | %s => .err .%s %s" % (WERR[lhs], v[0].lower() + v[1:], idx))
        seen.add(lhs)
    missing = set(WERR) - seen
    if missing:
        raise Untranslatable("no arm for " + ", ".join(sorted(missing)))
    return ("/-- `Muxer::convert_mp4_error` (src/api.rs): the API error variant each writer error becomes, and whether the\n"
            "    frame index is reported with it -/\n"
            "def convert_mp4_error (err : WErr) (frame_index : Nat) : Reply :=\n  match err with\n" + "\n".join(lines) + "\n")


def f64expr(e):
    """the two clock increments: `x as f64 / 1000.0` and `x as f64 / y as f64`"""
    m = re.fullmatch(r"(\w+)\s+as\s+f64\s*/\s*(\d+)\.0", e.strip())
    if m:
        return "F64.div (F64.ofNat %s) (F64.ofNat %s)" % (m.group(1), m.group(2))
    m = re.fullmatch(r"(\w+)\s+as\s+f64\s*/\s*(\w+)\s+as\s+f64", e.strip())
    if m:
        return "F64.div (F64.ofNat %s) (F64.ofNat %s)" % (m.group(1), m.group(2))
    raise Untranslatable("f64 expression: " + e)


CLOCK = {"current_video_pts": "curV", "current_audio_pts": "curA"}


def translate_encode(src, name, param):
    """`encode_video` / `encode_audio`: read the clock, (detect the key frame,) call the write method, and on success
    advance the clock.  `self.write_x(..)?` = return the error reply with the state the call left."""
    sig, body = find_fn(src, name)
    lines, env = [], {}
    stmts = [x.strip().rstrip(";").strip() for x in split_statements(body)]
    stmts = [x for x in stmts if x]
    i = 0
    while i < len(stmts):
        st = stmts[i]
        m = re.fullmatch(r"if\s+self\.audio_track\.is_none\(\)\s*\{\s*return\s+Err\(MuxerError::AudioNotConfigured\)\s*;?\s*\}", st, re.S)
        if m:
            lines.append("  if self.audioTrack.isNone then (self, .err .audioNotConfigured none) else"); i += 1; continue
        m = re.fullmatch(r"let\s+sample_rate\s*=\s*self\.audio_track\.as_ref\(\)\.unwrap\(\)\.sample_rate", st)
        if m:
            lines.append("  let sample_rate : Nat := (self.audioTrack.map (·.sampleRate)).getD 0"); i += 1; continue
        m = re.fullmatch(r"let\s+pts\s*=\s*self\.(\w+)", st)
        if m and m.group(1) in CLOCK:
            lines.append("  let pts : F64 := self.%s" % CLOCK[m.group(1)]); i += 1; continue
        if re.fullmatch(r"let\s+is_keyframe\s*=\s*self\.is_keyframe\(data\)", st):
            lines.append("  let is_keyframe : Bool := self.isKeyframe data"); i += 1; continue
        m = re.fullmatch(r"self\.(write_video|write_audio)\((.*)\)\?", st)
        if m:
            call = {"write_video": "self.writeVideo pts data is_keyframe", "write_audio": "self.writeAudio pts data"}[m.group(1)]
            want = {"write_video": "pts, data, is_keyframe", "write_audio": "pts, data"}[m.group(1)]
            if re.sub(r"\s+", " ", m.group(2).strip()) != want:
                raise Untranslatable("arguments of " + m.group(1))
            rest = stmts[i + 1:]
            if len(rest) != 2 or rest[1] != "Ok(())":
                raise Untranslatable("statements after the write call")
            mm = re.fullmatch(r"self\.(\w+)\s*\+=\s*(.+)", rest[0], re.S)
            if not mm or mm.group(1) not in CLOCK:
                raise Untranslatable("clock update: " + rest[0][:50])
            ck = CLOCK[mm.group(1)]
            lines.append("  match %s with" % call)
            lines.append("  | (self, .ok) => ({ self with %s := F64.add self.%s (%s) }, .ok)" % (ck, ck, f64expr(mm.group(2))))
            lines.append("  | (self, r) => (self, r)")
            break
        raise Untranslatable("statement: " + st[:60])
    else:
        raise Untranslatable("no write call")
    return ("/-- `Muxer::%s` (src/api.rs), translated statement by statement -/\n"
            "def %s (self : Muxer) (data : Bytes) (%s : Nat) : Muxer × Reply :=\n%s\n" % (name, name, param, "\n".join(lines)))


def generate():
    src = strip_comments(open(os.path.join(REPO, "src/api.rs")).read())
    out, failed = [], []
    for nm, prm in (("encode_video", "duration_ms"), ("encode_audio", "samples")):
        try:
            out.append(translate_encode(src, nm, prm))
        except Untranslatable as e:
            msg = re.sub(r"\s+", " ", str(e))
            failed.append((nm, msg))
            out.append("-- UNTRANSLATABLE %s: %s\n" % (nm, msg))
    try:
        out.append(translate_convert(src))
    except Untranslatable as e:
        msg = re.sub(r"\s+", " ", str(e))
        failed.append(("convert_mp4_error", msg))
        out.append("-- UNTRANSLATABLE convert_mp4_error: %s\n" % msg)
    for name, params in TARGETS:
        try:
            out.append(translate(name, params, src))
        except Untranslatable as e:
            msg = re.sub(r"\s+", " ", str(e))
            failed.append((name, msg))
            out.append("-- UNTRANSLATABLE %s: %s\n" % (name, msg))
    writer_src = strip_comments(open(os.path.join(REPO, "src/muxer/mp4.rs")).read())
    for name, params in TARGETS:
        try:
            out.append(translate_tail(name, params, src, writer_src))
        except Untranslatable as e:
            msg = re.sub(r"\s+", " ", str(e))
            failed.append((name + "_tail", msg))
            out.append("-- UNTRANSLATABLE %s_tail: %s\n" % (name, msg))
    text = ("import Muxide.Model.Api\n/-\n  GENERATED by tools/rs2lean_guards.py from /repo's working tree — do not edit.\n"
            "  The early-return guards at the head of the frame-writing API calls of src/api.rs.\n-/\n"
            "namespace Muxide.Generated.Guards\nopen Muxide\n\n"
            "/-- the first `some` of a list of checks, in order (hand-written) -/\n"
            "def firstSome : List (Option MErr) → Option MErr\n  | [] => none\n  | some e :: _ => some e\n  | none :: r => firstSome r\n\n"
            + "\n".join(out) + "\nend Muxide.Generated.Guards\n")
    return text, failed


def main():
    text, failed = generate()
    os.makedirs(os.path.dirname(OUT), exist_ok=True)
    old = open(OUT).read() if os.path.exists(OUT) else None
    if old != text:
        with open(OUT, "w") as f:
            f.write(text)
    for n, e in failed:
        print("untranslatable %s: %s" % (n, e))
    print("generated %d definitions (%d untranslatable)%s" % (2 * len(TARGETS) + 3 - len(failed), len(failed), "" if old == text else " [file updated]"))
    return 1 if failed else 0


if __name__ == "__main__":
    sys.exit(main())
