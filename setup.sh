#!/bin/sh
# Offline setup after a fresh restore: build the Lean project (model, proofs, driver) and the
# Rust harness against /repo. Everything comes from files on disk.
set -e
cd "$(dirname "$0")"
export CARGO_NET_OFFLINE=true
mkdir -p .cache/tmp evidence/replay
(cd lean && lake build Muxide Driver driver)
cp /repo/Cargo.lock harness/Cargo.lock
(cd harness && cargo build --offline)
echo setup-ok
