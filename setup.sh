#!/bin/sh
# Offline setup after a fresh restore: build the Lean project (model, proofs, driver), the Rust
# harness against /repo, the auto-trait crate and the muxide binary. Everything comes from files
# on disk.
set -e
cd "$(dirname "$0")"
export CARGO_NET_OFFLINE=true
mkdir -p .cache/tmp evidence/replay
(cd lean && lake build Muxide Driver driver)
cp /repo/Cargo.lock harness/Cargo.lock
(cd harness && cargo build --offline)
cp /repo/Cargo.lock harness-autotraits/Cargo.lock
(cd harness-autotraits && CARGO_TARGET_DIR=../.cache/autotraits-target cargo check --offline)
cargo build --offline --bin muxide --manifest-path /repo/Cargo.toml --target-dir .cache/muxide-target
echo setup-ok
