#!/usr/bin/env python3
"""Regenerates MANIFEST.json from the table below (claimed properties) — run after claiming a property."""
import json, os
ROOT = os.path.dirname(os.path.abspath(__file__))
ALL = ["C%02d" % i for i in range(1, 21)]

TB = ("Trusted: Lean 4.33 kernel; axioms propext/Classical.choice/Quot.sound only (audited by #print axioms on every run, no native_decide/bv_decide/sorry); "
      "the hand-written Lean model (lean/Muxide/Model) is tied to /repo only by the correspondence run, i.e. by differential testing whose strength is bounded by the generators; "
      "Spec definitions (lean/Muxide/Spec) are the formal reading of the property; Rust harness, rustc, Python orchestrator. ")

CLAIMED = {
    "C02": dict(
        text="Kernel-checked: generic box-tree round trip (any conforming tree of any depth serialises to bytes that parse back to exactly that tree, consuming exactly its bytes); "
             "every moov/init/moof tree the model builds conforms to the container schema under the 32-bit size bound; the progressive file is sers[ftyp, moov|mdat, …] in layout order with "
             "at most one mdat; explicit child-type skeletons of moov/trak/stbl, init and segment; table entry counts agree with the sample count (rle expands back, one chunk offset per sample). "
             "Correspondence on the tree shape + counts of every emitted stream; Spec reader run on the implementation's bytes.",
        note=TB + "Assumes moov/moof sizes < 2^32 (unchecked in the code; see C16).",
        technique="Lean 4 proof (mutual induction over box trees, schema conformance by decide) + correspondence check",
        ref="DESIGN.md section 5 C02"),
    "C13": dict(
        text="Kernel-checked for an ARBITRARY sink (any state, any response function: fail, short write, Ok(0), Interrupted): what the sink holds after a finish attempt is its previous content plus a "
             "prefix of the fault-free file; the reply is an error iff some write_all failed; on success the sink holds the complete file and the reported byte count is its length; after any "
             "finish attempt finalize hands no further chunk to the sink and every frame write is rejected. Induction over chunk list and write_all iterations, no bound. "
             "Correspondence: every byte offset of representative files as failure point, every ErrorKind, short-write caps, interrupt sets and call-indexed scripts on the real library.",
        note=TB + "std::io::Write::write_all is modelled from its documented loop; infinitely many Interrupted results (a hang in std) are outside the model (fuel).",
        technique="Lean 4 proof (induction over chunks and the write_all loop, for all sinks) + fault-enumeration correspondence",
        ref="DESIGN.md section 5 C13"),
    "C14": dict(
        text="Kernel-checked: the structural start-code scanner equals the declarative least-index specification; the NAL iterator equals the declarative split; for every byte string shorter than 2^32 "
             "the converted access unit parses exactly to its end as 4-byte length-prefixed units equal to the specification's units; constructive theorem for all joins of well-formed NAL units with "
             "3/4-byte start codes, leading zeros and trailing zeros; linear step bound of the scanner; the model accepts an ADTS frame iff it is structurally valid by bit position and stores exactly "
             "bytes [header, declared length). Correspondence: exhaustive small strings, constructive joins, ADTS sweeps; Spec oracle evaluated on the implementation's own output.",
        note=TB + "Assumes slices <= isize::MAX and, for the length prefix, units < 2^32 bytes.",
        technique="Lean 4 proof (fun_induction over the scanner, bit-field arithmetic by omega) + correspondence check",
        ref="DESIGN.md section 5 C14"),
    "C18": dict(
        text="Kernel-checked for EVERY day count: the model's year/month loops yield a valid civil date whose day number (calendar defined by summation) is the input, fuel always suffices; the "
             "printed ISO-8601 text is the zero-padded decimal of those fields (20 bytes up to year 9999); every lower-case 3-letter language code round-trips through the 15-bit mdhd field, default "
             "'und'; udta is absent iff neither title nor creation time is set and otherwise holds exactly one name item / one day item with the exact payload; metadata only affects the language "
             "field and the trailing udta child of moov. Correspondence + oracle on the implementation's files (date text re-parsed and checked against the calendar definition), twin run without metadata.",
        note=TB + "The u32 year counter and the running time of the year loop for astronomically large times belong to C12.",
        technique="Lean 4 proof (loop invariant over the year/month loops, omega) + correspondence check",
        ref="DESIGN.md section 5 C18"),
}

REASON_PENDING = "not claimed yet in this build session: the model and harness cover it, the property theorems and judge are still being written (see DESIGN.md section 9)"

def main():
    checks = []
    for p in ALL:
        if p not in CLAIMED:
            continue
        c = CLAIMED[p]
        checks.append({
            "property_id": p,
            "quick_cmd": "./check %s --quick" % p,
            "thorough_cmd": "./check %s --thorough" % p,
            "evidence_file": "evidence/%s.json" % p,
            "replay_cmd_template": "./check %s --replay {path}" % p,
            "engine": "lean-proof+correspondence",
            "level_claimed": {"category": "proof", "text": c["text"], "design_ref": c["ref"]},
            "level_note": c["note"],
            "technique": c["technique"],
        })
    m = {
        "version": 1,
        "setup_cmd": "./setup.sh",
        "hooks": {
            "guard": "muxide_verif",
            "enable": "RUSTFLAGS='--cfg muxide_verif' (set in harness/.cargo/config.toml); no source hook is currently needed — all observations go through the public API",
            "baseline_off_cmd": "cd /repo && cargo nextest run --workspace --no-fail-fast --tool-config-file pb:/w/lib/nextest.toml --profile pb --test-threads 8 --offline",
            "source_commits": [],
            "add_only": True,
        },
        "engines": [
            {"name": "lean-proof+correspondence", "path": "lean/ harness/ check vgen.py",
             "serves_properties": sorted(CLAIMED.keys()),
             "kind_free_text": "Lean 4 model + kernel-checked property theorems (lean/Muxide/Props), native Lean driver evaluating model and Spec oracles, "
                               "Rust harness running the same cases on /repo's current tree, Python orchestrator"}
        ],
        "checks": checks,
        "notes": "See DESIGN.md. ./check Cxx --quick|--thorough [--replay file]. known_findings.json lists recorded defects.",
        "not_applicable": [{"property_id": p, "reason": REASON_PENDING} for p in ALL if p not in CLAIMED],
    }
    json.dump(m, open(os.path.join(ROOT, "MANIFEST.json"), "w"), indent=1)

if __name__ == "__main__":
    main()
