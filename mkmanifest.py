#!/usr/bin/env python3
"""Regenerates MANIFEST.json from the table below (claimed properties) — run after claiming a property."""
import json, os
ROOT = os.path.dirname(os.path.abspath(__file__))
ALL = ["C%02d" % i for i in range(1, 21)]

CLAIMED = {
    "C14": dict(
        text="Kernel-checked theorems about the Lean model of the Annex B scanner/NAL iterator/length-prefix conversion and of adts_to_raw: "
             "for every byte string the converted unit parses exactly to its end as 4-byte length-prefixed units equal to the model's units; "
             "the model accepts an ADTS frame iff it is structurally valid by bit-field and stores exactly bytes [header, declared length). "
             "The model is tied to /repo by a differential run (exhaustive small strings, constructive joins, ADTS sweeps) and the Spec oracle "
             "is evaluated on the implementation's own output.",
        note="Trusted: Lean kernel + propext/Classical.choice/Quot.sound; hand-written model (Muxide/Model/AnnexB.lean, Adts.lean) tied to the Rust "
             "code only by the correspondence run; Spec.Framing definitions; harness. Assumes unit lengths < 2^32.",
        technique="Lean 4 proof (induction over NAL lists, bit-field arithmetic by omega) + model/implementation correspondence check",
        ref="DESIGN.md section 5 C14"),
}

REASON_PENDING = "not claimed yet in this build session: the model and harness cover it, the property theorems and judge are still being written (see DESIGN.md section 9)"

def main():
    checks = []
    for p in ALL:
        if p not in CLAIMED:
            continue
        c = CLAIMED[p]
        checks.append({
            "property_id": p,
            "quick_cmd": "./check %s --quick" % p,
            "thorough_cmd": "./check %s --thorough" % p,
            "evidence_file": "evidence/%s.json" % p,
            "replay_cmd_template": "./check %s --replay {path}" % p,
            "engine": "lean-proof+correspondence",
            "level_claimed": {"category": "proof", "text": c["text"], "design_ref": c["ref"]},
            "level_note": c["note"],
            "technique": c["technique"],
        })
    m = {
        "version": 1,
        "setup_cmd": "./setup.sh",
        "hooks": {
            "guard": "muxide_verif",
            "enable": "RUSTFLAGS='--cfg muxide_verif' (set in harness/.cargo/config.toml); no source hook is currently needed — all observations go through the public API",
            "baseline_off_cmd": "cd /repo && cargo nextest run --workspace --no-fail-fast --tool-config-file pb:/w/lib/nextest.toml --profile pb --test-threads 8 --offline",
            "source_commits": [],
            "add_only": True,
        },
        "engines": [
            {"name": "lean-proof+correspondence", "path": "lean/ harness/ check vgen.py",
             "serves_properties": sorted(CLAIMED.keys()),
             "kind_free_text": "Lean 4 model + kernel-checked property theorems (lean/Muxide/Props), native Lean driver evaluating model and Spec oracles, "
                               "Rust harness running the same cases on /repo's current tree, Python orchestrator"}
        ],
        "checks": checks,
        "notes": "See DESIGN.md. ./check Cxx --quick|--thorough [--replay file]. known_findings.json lists recorded defects.",
        "not_applicable": [{"property_id": p, "reason": REASON_PENDING} for p in ALL if p not in CLAIMED],
    }
    json.dump(m, open(os.path.join(ROOT, "MANIFEST.json"), "w"), indent=1)

if __name__ == "__main__":
    main()
