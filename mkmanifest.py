#!/usr/bin/env python3
"""Regenerates MANIFEST.json from the table below (claimed properties) — run after claiming a property."""
import json, os
ROOT = os.path.dirname(os.path.abspath(__file__))
ALL = ["C%02d" % i for i in range(1, 21)]

TB = ("Trusted: Lean 4.33 kernel; axioms propext/Classical.choice/Quot.sound only (audited by #print axioms on every run, no native_decide/bv_decide/sorry); "
      "the hand-written Lean model (lean/Muxide/Model) is tied to /repo only by the correspondence run, i.e. by differential testing whose strength is bounded by the generators; "
      "Spec definitions (lean/Muxide/Spec) are the formal reading of the property; Rust harness, rustc, Python orchestrator. ")

CLAIMED = {
    "C02": dict(
        text="Kernel-checked: generic box-tree round trip (any conforming tree of any depth serialises to bytes that parse back to exactly that tree, consuming exactly its bytes); "
             "every moov/init/moof tree the model builds conforms to the container schema under the 32-bit size bound; the progressive file is sers[ftyp, moov|mdat, …] in layout order with "
             "at most one mdat; explicit child-type skeletons of moov/trak/stbl, init and segment; table entry counts agree with the sample count (rle expands back, one chunk offset per sample). "
             "Correspondence on the tree shape + counts of every emitted stream; Spec reader run on the implementation's bytes.",
        note=TB + "Assumes moov/moof sizes < 2^32 (unchecked in the code; see C16).",
        technique="Lean 4 proof (mutual induction over box trees, schema conformance by decide) + correspondence check",
        ref="DESIGN.md section 5 C02"),
    "C12": dict(
        text="Kernel-checked: the model marks every state- or input-dependent panic!/assert_invariant!/index/checked-arithmetic site of the Rust code as a `.panic` outcome; for EVERY configuration and EVERY "
             "call list no reply is `.panic` (induction with the C04 invariant: accepted payloads are non-empty, composition offsets cannot overflow, finalize's guards precede the builders), the "
             "fragmented operations never panic and their duration arithmetic is total; loop bounds: the Annex B scanner examines at most one position per input byte, the creation-date loop runs at most "
             "400 times for every Unix time. CHECKED (index-walking) models (lean/Muxide/Checked, Props/C12Checked*.lean) mirror find_start_code, AnnexBNalIter, annexb_to_avcc/hevc_annexb_to_hvcc, extract_avc_config, "
             "is_h264_keyframe, parse_obu_header, ObuIter, the payload slices of parse_sequence_header/is_av1_keyframe, BitReader::read_bit, adts_to_raw, the Opus TOC readers and the VP9 var-uint/keyframe readers operation by "
             "operation (every data[i], slice, usize sum, shift amount, assert_invariant! and loop fuel is an operation that fails where Rust would panic) and are proved to return .ok of the structural model's result for every "
             "input of at most isize::MAX bytes; the validation module is in the model with its is_valid <-> no-errors invariant proved through every nesting. Correspondence: the real library built with overflow checks + debug assertions under catch_unwind and a watchdog, on exhaustive small byte strings through every "
             "public parser, structured inputs truncated at every length / bit-flipped, all f64 classes, integer extremes, extreme metadata, extreme fragmented configurations.",
        note=TB + "PARTIAL for what no model can exhibit: allocation failure/aborts, stack depth, format!/hex-dump code and the clap parser are covered by the differential run only; the checked models are hand-written mirrors of the Rust index operations (tied by the panic/no-panic correspondence), the remaining parsers (HEVC extraction, parse_sequence_header's arithmetic, VP9 extract) have structural models only. tools/coverage.py measures which source lines the correspondence cases execute (95% of src lines; the rest is listed in coverage/uncovered.txt). Arithmetic in the model is on unbounded Nat with explicit wraps; "
             "Rust-side overflow is detected by the overflow-checked harness build.",
        technique="Lean 4 proof (no-panic invariant over all call sequences, loop-step bounds) + correspondence check with panic/overflow/timeout detection",
        ref="DESIGN.md section 5 C12"),
    "C13": dict(
        text="Kernel-checked for an ARBITRARY sink (any state, any response function: fail, short write, Ok(0), Interrupted): what the sink holds after a finish attempt is its previous content plus a "
             "prefix of the fault-free file; the reply is an error iff some write_all failed; on success the sink holds the complete file and the reported byte count is its length; after any "
             "finish attempt finalize hands no further chunk to the sink and every frame write is rejected. Induction over chunk list and write_all iterations, no bound. "
             "Correspondence: every byte offset of representative files as failure point, every ErrorKind, short-write caps, interrupt sets and call-indexed scripts on the real library.",
        note=TB + "std::io::Write::write_all is modelled from its documented loop; infinitely many Interrupted results (a hang in std) are outside the model (fuel).",
        technique="Lean 4 proof (induction over chunks and the write_all loop, for all sinks) + fault-enumeration correspondence",
        ref="DESIGN.md section 5 C13"),
    "C14": dict(
        text="Kernel-checked: the structural start-code scanner equals the declarative least-index specification; the NAL iterator equals the declarative split; for every byte string shorter than 2^32 "
             "the converted access unit parses exactly to its end as 4-byte length-prefixed units equal to the specification's units; constructive theorem for all joins of well-formed NAL units with "
             "3/4-byte start codes, leading zeros and trailing zeros; linear step bound of the scanner; the model accepts an ADTS frame iff it is structurally valid by bit position and stores exactly "
             "bytes [header, declared length). Correspondence: exhaustive small strings, constructive joins, ADTS sweeps; Spec oracle evaluated on the implementation's own output. annexb_to_avcc and hevc_annexb_to_hvcc are TRANSLATED from the source on every run (tools/rs2lean_nal.py) and proved equal to the model's toAvcc (Props/C14Generated.lean); the decision logic of adts_to_raw is TRANSLATED likewise (tools/rs2lean_adts.py) and proved equal to the model's adtsToRaw for every byte string (Props/C14GeneratedAdts.lean).",
        note=TB + "Assumes slices <= isize::MAX and, for the length prefix, units < 2^32 bytes.",
        technique="Lean 4 proof (fun_induction over the scanner, bit-field arithmetic by omega) + correspondence check",
        ref="DESIGN.md section 5 C14"),
    "C01": dict(
        text="Kernel-checked on the model: the interleave schedule is the sorted permutation of both tracks' entries and restricts to each track in sample order for every reachable writer state; "
             "the offset walk assigns to the j-th scheduled sample start + the sum of the sizes before it; every table entry i resolves (generic chunk walk of the Spec reader + slice) to exactly "
             "frame i's bytes in the written file, for both layouts, with and without audio; the sample ranges are pairwise disjoint, inside the media data and cover it exactly; one-chunk and "
             "one-sample-per-chunk stsc shapes are resolved by the generic walk. End to end (C01_e2e) and for every history of write calls on a fresh writer (C01_history): the independent reader, applied to the bytes handed to the sink, returns for track 0 exactly the re-framed submitted bytes and key flags of the accepted video calls in order, for track 1 the raw payloads of the accepted audio calls; the re-framed bytes parse back to the submitted units (C14, C01_history_units). Correspondence on (bytes, sync, offset, size) per sample; the Spec reader "
             "dereferences every sample of the implementation's file and compares with the submitted frames (small-scope exhaustive histories + random histories incl. B-frames with audio). Mp4Writer::write_video_sample_with_dts and write_audio_sample are TRANSLATED from src/muxer/mp4.rs on every run (tools/rs2lean_writer.py) and proved equal to the model's Writer.writeVideo / writeAudio for every state and argument (Props/C05Generated.lean).",
        note=TB + "Found and fixed in /repo: stco indexed in decode order but pushed in PTS-schedule order (known_findings.json).",
        technique="Lean 4 proof (mergeSort permutation/sublist lemmas, prefix-sum induction, reader∘writer on the model) + correspondence check",
        ref="DESIGN.md section 5 C01"),
    "C03": dict(
        text="Kernel-checked: writer invariant (strictly increasing video DTS / non-decreasing audio PTS, every non-newest sample carries the exact next-minus-this delta, deltas fit 32 bits, "
             "|pts-dts| fits i32) holds initially and is preserved by every API call; the durations written are exactly the consecutive DTS differences followed by the previous interval; telescoping: "
             "the decode time of sample k is dts_k - dts_0 for every k (no drift), also stated over histories of calls (C03_history_video/_audio: the times read back from the file are the submitted times of the accepted calls); rle tables expand back exactly; composition offsets are exactly pts-dts and ctts is present iff one is non-zero; "
             "mdhd holds the exact sum of durations and finalize refuses sums above 2^32-1; accepted API calls queue F64.ticks of their arguments. Correspondence on expanded stts/ctts/mdhd incl. long runs. SampleTables::from_samples is TRANSLATED from src/muxer/mp4.rs on every run (tools/rs2lean_tables.py) and proved equal to the model's Tables.ofSamples (Props/C03Generated.lean). Mp4Writer::write_video_sample_with_dts and write_audio_sample are TRANSLATED likewise (tools/rs2lean_writer.py) and proved equal to the model's Writer.writeVideo / writeAudio (Props/C05Generated.lean).",
        note=TB + "tick = (secs*90000.0).round() as modelled by the soft-float (validated against the FPU by the correspondence run).",
        technique="Lean 4 proof (state-machine invariant by induction over calls, telescoping sums) + correspondence check",
        ref="DESIGN.md section 5 C03"),
    "C04": dict(
        text="Kernel-checked refinement: an invariant relates the concrete muxer state to the abstract history of accepted calls (preserved by every call, established by build); under it every "
             "write/finish reply is ok exactly when the Spec.Contract violation list of that call is empty, and every error names a precondition that the call violated (explains). The soft-float "
             "facts used (monotone ticks, lt/le duality, range test equivalence on genuine doubles) are proved; the scanner hypothesis is discharged by C14_split. Builder half (Props/C04Builder.lean): for every sequence of builder "
             "calls build succeeds iff some call configured video and no Opus track above 255 channels is left, and MissingVideoConfig is reported iff no video call was made. "
             "Correspondence + oracle: the implementation's accept/reject decisions and error variants are judged against Spec.Contract computed from the history of the implementation's own replies. The guard prefixes of write_video / write_video_with_dts / write_audio and the error table convert_mp4_error are TRANSLATED from src/api.rs on every run (tools/rs2lean_guards.py) and proved to decide as the model does (Props/C04Generated.lean). Mp4Writer::write_video_sample_with_dts and write_audio_sample are TRANSLATED likewise (tools/rs2lean_writer.py) and proved equal to the model's Writer.writeVideo / writeAudio (Props/C05Generated.lean).",
        note=TB + "Residual explicit hypotheses in the theorems: timestamps are decodings of 64-bit patterns (IsDouble), converted payload and file below 4 GiB (VideoSizeOk/AudioSizeOk/NoSizeLimit), NoStraddle (now unnecessary).",
        technique="Lean 4 proof (refinement to an abstract history with a 22-field invariant) + correspondence check",
        ref="DESIGN.md section 5 C04"),
    "C05": dict(
        text="Kernel-checked: every frame-writing call (five entry points) that replies an error returns a muxer state structurally EQUAL to its input; by induction, running a call list with the "
             "rejected frame-writing calls removed yields the same final state and the same replies at the kept positions, hence the same file and statistics for any sink; no frame-writing call "
             "panics in the model. Correspondence: twin execution on the real library (history vs history without its rejected calls) must give identical replies, stats and bytes. Mp4Writer::write_video_sample_with_dts and write_audio_sample are TRANSLATED from src/muxer/mp4.rs on every run (tools/rs2lean_writer.py) and proved equal to the model's Writer.writeVideo / writeAudio for every state and argument (Props/C05Generated.lean). Restated on the translated functions: C05_gen_video_refusal_no_trace / C05_gen_audio_refusal_no_trace.",
        note=TB + "Found and fixed in /repo: first_video_pts recorded before acceptance; audio duration back-patched before validation.",
        technique="Lean 4 proof (case analysis per call + induction over the call list) + twin-run correspondence",
        ref="DESIGN.md section 5 C05"),
    "C06": dict(
        text="Kernel-checked: only finishStats produces chunks; a successful finish sets finished/finalized; afterwards every finish returns AlreadyFinished with no chunk and every write returns an "
             "error leaving the whole state unchanged; a failed finalize also leaves finalized set (no second header). Statistics: frame counts are the queue lengths, bytes = previous count + total "
             "chunk length, duration = maxEndPts/90000 where maxEndPts is proved to be the maximum over all samples of pts + duration; the rounding clause: for every maxEndPts below 2^53 ticks the double "
             "`maxEndPts as f64 / 90000.0` (soft-float model), read back as ticks, is within one tick of maxEndPts (C06_duration_within_one_tick: exactness of the integer conversion, half-unit rounding of the division, "
             "exponent <= -16), with a kernel-checked counterexample beyond 2^53 (the recorded finding). Correspondence with a recording sink tagging bytes per call. Mp4Writer::max_end_pts (with track_end) is TRANSLATED from src/muxer/mp4.rs on every run (tools/rs2lean_stats.py) and proved equal to the model's maxEndPts (Props/C06Generated.lean).",
        note=TB + "Found and fixed in /repo: duration used the last sample in decode order (too short for reordered streams). Known finding stats-duration-f64-precision: an f64 of seconds cannot be within one tick beyond 2^53 ticks.",
        technique="Lean 4 proof (state-machine lemmas, max over fold) + correspondence check",
        ref="DESIGN.md section 5 C06"),
    "C07": dict(
        text="Kernel-checked: a Lean encoder of the AV1 sequence_header_obu syntax (Spec/Av1Syntax.lean, written from the syntax table, checked bit-for-bit against a real header) and the theorem that the model's "
             "parser returns exactly profile, level, tier and colour configuration of EVERY well-formed non-monochrome header followed by arbitrary bits (all branches: reduced, timing/uvlc/decoder model, "
             "1-32 operating points, frame ids, order hint, screen content, every color_config path); LEB128 (all 1-8 byte encodings), OBU header and extraction of the FIRST sequence-header OBU from a "
             "temporal unit; the monochrome deviation is characterised exactly (partial theorem + counterexample) and recorded as known finding av1C-csp. Strict decoders (Spec/Strict.lean) of avcC/hvcC/av1C/"
             "vpcC/esds/dOps and the sample entries are evaluated on the implementation's files against expectations computed from the submitted first keyframe by the Spec (first SPS/PPS/VPS by NAL type, "
             "sequence-header OBU bytes, VP9 header fields), for progressive files and fragmented init segments; audio entry channel count / rate / ASC / dOps. The AV1 expectations come from a CERTIFYING "
             "reader (Spec/Av1Decode.lean): a full syntax-table decoder whose answer is used only if the trusted encoder re-encodes it to a prefix of the bits (certifiedSeqHdr_sound) - the library's own parser is no longer consulted "
             "by the oracle (that circularity hid the uvlc-32 defect, now fixed in /repo). extract_avc_config / extract_hevc_config / is_h264_keyframe / is_hevc_keyframe and their helpers are TRANSLATED from src/codec/h264.rs and h265.rs on every run (tools/rs2lean_nal.py) and proved equal to the model's functions (Props/C07Generated.lean).",
        note=TB + "Known findings (known_findings.json): audio-entry-rate (16.16 field cannot hold rates >= 65536), av1C-csp (monochrome; behaviour pinned by a unit test). VP9 'accepted form' is the library's own synthetic header layout.",
        technique="Lean 4 proof (parser∘encoder round trip over the full AV1 header syntax) + strict-decoder oracle on the implementation's output + correspondence check",
        ref="DESIGN.md section 5 C07"),
    "C08": dict(
        text="Kernel-checked: size of the moov does not depend on the offset values (only on their number), so the two-pass placeholder construction is exact for every sample count, track mix and "
             "metadata length; fast-start chunks are [ftyp, moov] + mdat with first offset ftypLen+|final moov|+8, standard chunks ftyp, mdat, moov with first offset ftypLen+8; both layouts use the "
             "same tables except chunkOffsets and the same media bytes; for every reachable writer a successful finalize reads back (generic chunk walk) to every frame in order in either layout. "
             "Correspondence: each history executed twice (fast on/off) on the real library, Spec-level movie abstraction must be equal and every sample must dereference correctly in both.",
        note=TB + "Corner recorded in the theorems: zero-frame video-only files have an empty mdat in fast-start and none in the standard layout (pinned by the repository's fixture).",
        technique="Lean 4 proof (serialised-size lemmas, reuse of C01 offset theorems) + twin-run correspondence",
        ref="DESIGN.md section 5 C08"),
    "C09": dict(
        text="Kernel-checked: what the file says (stts/ctts, no edit list) is audioPT_k - videoPT_0 = (a_k - a_0) - (pts_0 - dts_0); the property's claim holds exactly when the first audio timestamp "
             "equals the first video decode timestamp (C09_partial) and fails otherwise with error dts_0 - a_0 (C09_error); C09_counterexample(_api) exhibits video at 0 s + audio at 0.5 s (45000 ticks). "
             "The unchanged code violates the property: recorded as known finding `no-edit-list` (needs an edts/elst feature). The check reports it as KNOWN-FINDING and would report any other deviation. Mp4Writer::write_video_sample_with_dts and write_audio_sample are TRANSLATED from src/muxer/mp4.rs on every run (tools/rs2lean_writer.py) and proved equal to the model's Writer.writeVideo / writeAudio for every state and argument (Props/C05Generated.lean).",
        note=TB + "Oracle understands edts/elst so that a future repair is recognised.",
        technique="Lean 4 proof of the partial statement + kernel-checked counterexample; correspondence check; finding recorded",
        ref="DESIGN.md section 5 C09"),
    "C10": dict(
        text="Kernel-checked over arbitrary op lists (write/flush/ready/dur/init): emitted samples ++ queued = accepted writes (nothing lost, duplicated, reordered); the k-th segment is "
             "buildSegment samples (k+1) (first dts); empty flush is the identity; a write is rejected iff dts < last accepted dts and then leaves the state unchanged; queries are pure, init only fills "
             "its cache and no reply depends on it; the Spec reader parses every built segment and recovers exactly the sample bytes through the data offset relative to the moof. "
             "Correspondence: random op sequences + exhaustive sequences up to length 5/7 over a 6-letter alphabet. FragmentedMuxer::write_video / flush_segment / ready_to_flush / current_fragment_duration_ms are TRANSLATED from src/fragmented.rs on every run (tools/rs2lean_frag.py) and proved equal to the model's Frag.write / flush / ready / spanMs (Props/C10Generated.lean).",
        note=TB + "Reader theorem assumes 8 + payload < 2^32 and moof < 2^31 (the mdat size field is written without a guard; the counter-theorem C10_mdat_overflow shows the wrap).",
        technique="Lean 4 proof (invariant by induction over the op list, reader∘writer round trip) + correspondence check",
        ref="DESIGN.md section 5 C10"),
    "C11": dict(
        text="Kernel-checked: trun rows carry dts_{i+1}-dts_i, size, flags whose non-sync bit is the negation of sync, and pts-dts (exact within i32); every segment's tfdt is its first sample's DTS, "
             "hence monotone, never earlier than the previous segment's last decode time, and equal to first DTS minus the constant 0 for any input; every init reply equals buildInit(config). "
             "Correspondence incl. exhaustive DTS sequences x all segmentations. flush_segment and write_video are TRANSLATED from the source on every run (tools/rs2lean_frag.py) and proved equal to the model's (Props/C11Generated.lean).",
        note=TB + "Found and fixed in /repo: tfdt was 0 for the first segment and last+average afterwards (moved backwards).",
        technique="Lean 4 proof (run invariants, reader on built segments) + correspondence check",
        ref="DESIGN.md section 5 C11"),
    "C15": dict(
        text="Kernel-checked: the schedule is the unique sorted permutation of both tracks' entries; restricted to either track it is the track in sample order (for every reachable state); any two "
             "entries are ordered by (timestamp, video before audio, index); when pts = dts the key is the presentation time, so no sample is stored after a later-timestamped sample of the other track. "
             "Correspondence on absolute offsets of all samples, all submission orders, both layouts. End to end (C15_e2e, C15_history): the chunk-offset tables decoded from the delivered file, merged, list all samples in timestamp order (video first on ties) with each sample ending before the next begins, for every reachable writer and, with the submitted timestamps, for every history of write calls. compute_interleave_schedule is TRANSLATED from src/muxer/mp4.rs on every run (tools/rs2lean_sched.py) and proved equal to the model's schedule for every reachable writer (Props/C15Generated.lean).",
        note=TB,
        technique="Lean 4 proof (List.mergeSort permutation/sortedness/sublist lemmas) + correspondence check",
        ref="DESIGN.md section 5 C15"),
    "C16": dict(
        text="Kernel-checked: field exactness of the integer encodings (a u8/u16/u32/u64/i32 field reads back the exact value iff it is in range; otherwise value mod 2^n is what is written — so every unguarded cast is "
             "visible); the Spec table decoders recover exactly the stco/stss/stsz/stts/ctts/stsc values the model wrote; for every reachable writer state on which finalize succeeds the values handed to the "
             "encoders are in range (stts deltas, mdhd sums, sizes, counts, composition offsets, width/height); chunk offsets are exact in all layouts (standard A/V under the file-size guard); writeVideo "
             "rejects gaps > 2^32-1 and |pts-dts| >= 2^31, finalize rejects track durations > 2^32-1 and dimensions > 65535. Oracle on the implementation: every duration/offset/size/count/length field "
             "recomputed from the history with unbounded arithmetic, with boundary triples around every field limit (2^32 total and gap, 2^31 offset, 65535/65536 lengths, dims, channels, rates, 2^53/2^63/2^64 ticks, fragmented gaps).",
        note=TB + "Known findings (open): param-set-length, f-param-set-length (16-bit lengths of parameter sets >= 65536 bytes), audio-entry-rate (16.16 rate >= 65536), f-trun-duration, f-trun-cts (fragmented writer has no error path). "
             "Box sizes above 4 GiB (moov/moof) are not reachable in a test and appear as hypotheses.",
        technique="Lean 4 proof (range invariants on all successful paths, encoder/decoder exactness) + boundary-value correspondence check",
        ref="DESIGN.md section 5 C16"),
    "C17": dict(
        text="Kernel-checked path equivalences on the model: finish = finish_with_stats = in-place forms (same state, same chunks); audio codec None = no audio; encode_video/encode_audio are the explicit writes at the "
             "accumulated timestamp; an accepted write queues exactly what the inner writer queues for the tick values (timestamps matter only through ticks); the finish result is a function of writer state + "
             "configuration; the BUILDER is in the model as a state machine over its fluent calls (Model/Builder.lean) and, for every call sequence of any length, build / new_with_fragment are functions of the declarative "
             "last-call-of-each-kind reading (Spec/BuilderSpec.lean; C17_builder_config, C17_builder_aliases, C17_builder_audio_none, C17_builder_setters, C17_builder_fragment). PARTIAL by nature: absence of hidden state in the Rust code is not a statement about the model; it is decided by the correspondence run (the model's bytes must be reproduced "
             "byte-exactly on a fresh instance, on spawned threads, on 16 concurrently running threads with a polluted thread-local invariant log, through Vec, Cursor, File and scripted sinks, through the builder "
             "aliases; convenience-vs-explicit and None-vs-no-audio pairs must deliver identical files) and the Send/Sync clause by rustc on harness-autotraits (generic over every sink type).",
        note=TB + "Thread scheduling and wall-clock time cannot be enumerated; 16-way concurrency and repeated runs sample them.",
        technique="Lean 4 proof of path equivalences + byte-exact correspondence across instances/threads/sinks + rustc auto-trait check",
        ref="DESIGN.md section 5 C17"),
    "C18": dict(
        text="Kernel-checked for EVERY day count: the model's year/month loops yield a valid civil date whose day number (calendar defined by summation) is the input, fuel always suffices; the "
             "printed ISO-8601 text is the zero-padded decimal of those fields (20 bytes up to year 9999); every lower-case 3-letter language code round-trips through the 15-bit mdhd field, default "
             "'und'; udta is absent iff neither title nor creation time is set and otherwise holds exactly one name item / one day item with the exact payload; metadata only affects the language "
             "field and the trailing udta child of moov. Correspondence + oracle on the implementation's files (date text re-parsed and checked against the calendar definition), twin run without metadata.",
        note=TB + "The u32 year counter and the running time of the year loop for astronomically large times belong to C12.",
        technique="Lean 4 proof (loop invariant over the year/month loops, omega) + correspondence check",
        ref="DESIGN.md section 5 C18"),
    "C19": dict(
        text="Kernel-checked: the strict decoders (written from ISO/IEC 14496-12/-14/-15 and the AV1/VP9/Opus bindings: exact size, version/flags, reserved values, field positions) accept the model's mvhd, mdhd, hdlr, smhd, "
             "dinf/dref/url, visual and audio sample entries, avcC, hvcC, av1C, vpcC, esds, dOps and the fragmented mvhd/tkhd/vmhd/dinf/trex/sample entries and return the configured values (timescales, dimensions, "
             "handler types, identity matrix, track ids 1/2 with next_track_ID above them); the two recorded non-conformances are proved as counterexample theorems (progressive tkhd: 88-byte payload, flags 0; vmhd "
             "flags 0) with partial theorems for the fields that are placed correctly. The same strict decoders run on the implementation's files and init segments for all codec x audio x metadata x layout configurations, "
             "including fragmented muxers built from builder call sequences with stale parameters of other codecs; 50 builder functions (fixed-layout boxes, sample tables incl. the run-length coded stts/ctts, avcC/hvcC/av1C/vpcC with their sample entries, the SPS readers of HevcConfig) are TRANSLATED from the Rust source on every run (tools/rs2lean.py) and proved equal to the model's boxes (Props/C19Generated.lean, Props/C19GeneratedTables.lean), so the decoder theorems are about what the translated source builds; av1C is compared with the certified reading (Spec/Av1Decode.lean) of the sequence header it carries.",
        note=TB + "Known findings (open, pinned by the repository's golden fixture): v-tkhd-layout, a-tkhd-layout, v-vmhd; audio-entry-rate; f-av1C-vs-configOBUs-mono (monochrome headers, same root cause as C07 av1C-csp). Fixed in this round: uvlc() with 32 leading zeros (a4392db). The strict decoders are the trusted reading of the standards (DESIGN.md Appendix A).",
        technique="Lean 4 proof (strict decoder ∘ builder = expected fields; model = mechanically translated Rust builders; counterexample theorems for recorded findings) + strict-decoder oracle on the implementation's output",
        ref="DESIGN.md section 5 C19"),
    "C20": dict(
        text="Kernel-checked on the model of the binary's pure logic: hex decoding inverts hex printing for every byte string; whatever `validate` accepts decodes to a non-empty frame; the `info` walk lists "
             "only entries with a complete header inside the file, complete boxes except possibly a final `invalid` entry, and makes progress (bounded by the file length) on arbitrary contents. "
             "PARTIAL: clap parsing, exit codes and file-system effects are glue: the check spawns the muxide binary built from /repo's current tree and compares (exit class, completion marker, reported counts, "
             "validate verdict, info box list) with the specification and the output file byte-for-byte with the library run for the same single-frame input (model and in-process library).",
        note=TB + "Not claimed: the CLI's 'Total size' figure (input byte count), creation_time (unimplemented in the CLI).",
        technique="Lean 4 proof for the pure logic + process-level correspondence against the built binary",
        ref="DESIGN.md section 5 C20"),
}

REASON_PENDING = "not claimed yet in this build session: the model and harness cover it, the property theorems and judge are still being written (see DESIGN.md section 9)"

def main():
    checks = []
    for p in ALL:
        if p not in CLAIMED:
            continue
        c = CLAIMED[p]
        checks.append({
            "property_id": p,
            "quick_cmd": "./check %s --quick" % p,
            "thorough_cmd": "./check %s --thorough" % p,
            "evidence_file": "evidence/%s.json" % p,
            "replay_cmd_template": "./check %s --replay {path}" % p,
            "engine": "lean-proof+correspondence",
            "level_claimed": {"category": "proof", "text": c["text"], "design_ref": c["ref"]},
            "level_note": c["note"],
            "technique": c["technique"],
        })
    m = {
        "version": 1,
        "setup_cmd": "./setup.sh",
        "hooks": {
            "guard": "muxide_verif",
            "enable": "RUSTFLAGS='--cfg muxide_verif' (set in harness/.cargo/config.toml); no source hook is currently needed — all observations go through the public API",
            "baseline_off_cmd": "cd /repo && cargo nextest run --workspace --no-fail-fast --tool-config-file pb:/w/lib/nextest.toml --profile pb --test-threads 8 --offline",
            "source_commits": [],
            "add_only": True,
        },
        "engines": [
            {"name": "lean-proof+correspondence", "path": "lean/ harness/ check vgen.py",
             "serves_properties": sorted(CLAIMED.keys()),
             "kind_free_text": "Lean 4 model + kernel-checked property theorems (lean/Muxide/Props), native Lean driver evaluating model and Spec oracles, "
                               "Rust harness running the same cases on /repo's current tree, Python orchestrator"}
        ],
        "checks": checks,
        "notes": "See DESIGN.md. ./check Cxx --quick|--thorough [--replay file]. known_findings.json lists recorded defects.",
        "not_applicable": [{"property_id": p, "reason": REASON_PENDING} for p in ALL if p not in CLAIMED],
    }
    json.dump(m, open(os.path.join(ROOT, "MANIFEST.json"), "w"), indent=1)

if __name__ == "__main__":
    main()
