#!/usr/bin/env python3
"""lists, per judge module of the driver, the identifiers that are defined ONLY in Muxide/Model
(not in Muxide/Spec): each such use inside an oracle must be justified by a theorem that ties the
model function to a Spec definition, or the oracle is circular (see DESIGN 10.4)."""
import glob, os, re
root = os.path.join(os.path.dirname(os.path.abspath(__file__)), "lean")
def defs(pat):
    out = set()
    for f in glob.glob(os.path.join(root, pat)):
        for m in re.finditer(r"^(?:partial )?def\s+([A-Za-z0-9_.']+)", open(f).read(), re.M):
            out.add(m.group(1).split(".")[-1])
    return out
only_model = defs("Muxide/Model/*.lean") - defs("Muxide/Spec/*.lean")
for f in ["Hist", "Contract", "FragJudge", "StrictJudge", "Numeric", "CliJudge", "Judge", "Dispatch"]:
    src = open(os.path.join(root, "Driver", f + ".lean")).read()
    src = re.sub(r"/-.*?-/", "", src, flags=re.S)
    src = re.sub(r"--.*", "", src)
    used = sorted({w for w in re.findall(r"[A-Za-z_][A-Za-z0-9_']*", src) if w in only_model and len(w) > 3})
    print("%-12s %s" % (f, ", ".join(used)))
