//! L cases: spawn the built `muxide` binary (from /repo's current tree) in a scratch directory.
//!
//! `L <id> <token>... | v=<hex|~> a=<hex|~> i=<hex|~>`
//! tokens: literal words; `@v` `@a` `@i` `@out` `@rep` are replaced by paths inside the scratch
//! directory (`~` = the file is not created, so the path does not exist); `x:<hex>` is a UTF-8
//! string argument given in hex.
use crate::{hex, unhex};
use std::io::Read;
use std::process::{Command, Stdio};
use std::sync::atomic::{AtomicUsize, Ordering};
use std::time::{Duration, Instant};

static COUNTER: AtomicUsize = AtomicUsize::new(0);

pub fn run_l(rest: &str) -> String {
    let bin = std::env::var("VERIF_MUXIDE_BIN").unwrap_or_else(|_| "/verif/.cache/muxide-target/debug/muxide".to_string());
    let (toks_s, files_s) = rest.split_once('|').unwrap_or((rest, ""));
    let base = std::env::var("VERIF_TMP").unwrap_or_else(|_| "/verif/.cache/tmp".to_string());
    let dir = format!("{}/cli-{}-{}", base, std::process::id(), COUNTER.fetch_add(1, Ordering::SeqCst));
    let _ = std::fs::create_dir_all(&dir);
    for f in files_s.split_whitespace() {
        if let Some((name, content)) = f.split_once('=') {
            if content != "~" {
                std::fs::write(format!("{}/{}.hex", dir, name), unhex(content)).expect("write input");
            }
        }
    }
    let mut args: Vec<String> = Vec::new();
    for t in toks_s.split_whitespace() {
        let a = match t {
            "@v" => format!("{}/v.hex", dir),
            "@a" => format!("{}/a.hex", dir),
            "@i" => format!("{}/i.hex", dir),
            "@out" => format!("{}/out.mp4", dir),
            "@rep" => format!("{}/report.json", dir),
            "@dir" => dir.clone(),
            _ => {
                if let Some(h) = t.strip_prefix("x:") {
                    String::from_utf8(unhex(h)).unwrap_or_default()
                } else {
                    t.to_string()
                }
            }
        };
        args.push(a);
    }
    let child = Command::new(&bin)
        .args(&args)
        .current_dir(&dir)
        .env("RUST_BACKTRACE", "0")
        .env("NO_COLOR", "1")
        .stdin(Stdio::null())
        .stdout(Stdio::piped())
        .stderr(Stdio::piped())
        .spawn();
    let mut child = match child {
        Ok(c) => c,
        Err(e) => {
            let _ = std::fs::remove_dir_all(&dir);
            return format!("spawnerror:{}", e.to_string().replace(' ', "_"));
        }
    };
    let start = Instant::now();
    let status = loop {
        match child.try_wait() {
            Ok(Some(st)) => break Some(st),
            Ok(None) => {
                if start.elapsed() > Duration::from_secs(10) {
                    let _ = child.kill();
                    let _ = child.wait();
                    break None;
                }
                std::thread::sleep(Duration::from_millis(2));
            }
            Err(_) => break None,
        }
    };
    let mut so = Vec::new();
    if let Some(mut o) = child.stdout.take() {
        let _ = o.read_to_end(&mut so);
    }
    let exit = match status {
        None => "timeout".to_string(),
        Some(st) => match st.code() {
            Some(c) => c.to_string(),
            None => "signal".to_string(),
        },
    };
    let out = std::fs::read(format!("{}/out.mp4", dir)).ok();
    let rep = std::fs::read(format!("{}/report.json", dir)).ok();
    let _ = std::fs::remove_dir_all(&dir);
    format!(
        "exit={} out={} stdout={} rep={}",
        exit,
        match out {
            Some(b) => if b.is_empty() { "empty".to_string() } else { hex(&b) },
            None => "~".to_string(),
        },
        hex(&so),
        match rep {
            Some(b) => hex(&b),
            None => "~".to_string(),
        }
    )
}
