//! Correspondence harness: executes line-protocol cases on the real muxide library
//! (path dependency on /repo, rebuilt from the current working tree on every check).
//!
//! Usage:
//!   harness run <cases>            one result line per case, in order, flushed per case
//!   harness runpar <n> <cases>     same, cases distributed over n concurrently running threads
//!   harness runthread <cases>      every case on a fresh spawned thread (moved muxer)
//!
//! Case kinds (see DESIGN.md 3.2): P (progressive muxer history), F (fragmented muxer op
//! sequence), X (pure public function).

use std::collections::HashSet;
use std::io::{self, BufRead, Write};
use std::panic::{catch_unwind, AssertUnwindSafe};
use std::sync::{Arc, Mutex};

use muxide::api::{AacProfile, AudioCodec, Metadata, Muxer, MuxerBuilder, MuxerError, VideoCodec};
use muxide::codec::vp9::Vp9Config;
use muxide::fragmented::{FragmentConfig, FragmentedMuxer};

mod cli;
mod purefn;

/// a frame placed at a chosen distance from an allocation boundary: the library's results must not depend on where
/// the caller's buffer sits in memory, so successive calls hand their bytes over at every alignment modulo 8
/// (chosen from the frame's text and the position of the call in its case: a replayed case places them identically)
pub struct Placed(Vec<u8>, usize);

impl Placed {
    pub fn s(&self) -> &[u8] {
        &self.0[self.1..]
    }
}

impl std::ops::Deref for Placed {
    type Target = [u8];
    fn deref(&self) -> &[u8] {
        self.s()
    }
}

pub fn placed(hex: &str, idx: usize) -> Placed {
    let mut h: u32 = 2166136261;
    for b in hex.bytes().take(64) {
        h = (h ^ b as u32).wrapping_mul(16777619);
    }
    let k = (h as usize).wrapping_add(idx).wrapping_add(hex.len()) % 8;
    let d = unhex(hex);
    let mut v = Vec::with_capacity(d.len() + k);
    v.resize(k, 0xA5);
    v.extend_from_slice(&d);
    Placed(v, k)
}

pub fn unhex(s: &str) -> Vec<u8> {
    if s == "-" || s == "~" {
        return Vec::new();
    }
    let b = s.as_bytes();
    let mut out = Vec::with_capacity(b.len() / 2);
    let v = |c: u8| -> u8 {
        match c {
            b'0'..=b'9' => c - b'0',
            b'a'..=b'f' => c - b'a' + 10,
            b'A'..=b'F' => c - b'A' + 10,
            _ => panic!("bad hex"),
        }
    };
    let mut i = 0;
    while i + 1 < b.len() {
        out.push(v(b[i]) * 16 + v(b[i + 1]));
        i += 2;
    }
    out
}

pub fn hex(b: &[u8]) -> String {
    if b.is_empty() {
        return "-".to_string();
    }
    const T: &[u8; 16] = b"0123456789abcdef";
    let mut s = String::with_capacity(b.len() * 2);
    for &x in b {
        s.push(T[(x >> 4) as usize] as char);
        s.push(T[(x & 15) as usize] as char);
    }
    s
}

fn f64_of(s: &str) -> f64 {
    f64::from_bits(u64::from_str_radix(s, 16).expect("f64 bits"))
}

// ---------------------------------------------------------------------------------------------
// scripted sink
// ---------------------------------------------------------------------------------------------

#[derive(Clone, Debug)]
enum CallResp {
    Accept(usize),
    Interrupted,
    Fail(usize),
}

#[derive(Clone, Debug, Default)]
struct Policy {
    fail_at: Option<(usize, usize)>,
    fail_once: bool,
    zero_at: Option<usize>,
    cap: Option<usize>,
    intr: Vec<usize>,
    script: Vec<CallResp>,
    /// responses of successive `flush` calls (then Ok): a flush fault is not a failed write
    flush: Vec<CallResp>,
}

#[derive(Default)]
struct SinkState {
    data: Vec<u8>,
    policy: Policy,
    fired: HashSet<usize>,
    script_pos: usize,
    flush_pos: usize,
}

#[derive(Clone)]
struct TestSink(Arc<Mutex<SinkState>>);

fn error_kind(i: usize) -> io::ErrorKind {
    use io::ErrorKind::*;
    const K: [io::ErrorKind; 17] = [
        NotFound,
        PermissionDenied,
        ConnectionRefused,
        ConnectionReset,
        ConnectionAborted,
        NotConnected,
        AddrInUse,
        BrokenPipe,
        AlreadyExists,
        WouldBlock,
        InvalidInput,
        InvalidData,
        TimedOut,
        WriteZero,
        UnexpectedEof,
        Other,
        OutOfMemory,
    ];
    K[i % K.len()]
}

impl Write for TestSink {
    fn write(&mut self, buf: &[u8]) -> io::Result<usize> {
        let mut st = self.0.lock().unwrap();
        // call-indexed script first
        if st.script_pos < st.policy.script.len() {
            let r = st.policy.script[st.script_pos].clone();
            st.script_pos += 1;
            return match r {
                CallResp::Accept(n) => {
                    let k = n.min(buf.len());
                    st.data.extend_from_slice(&buf[..k]);
                    Ok(k)
                }
                CallResp::Interrupted => Err(io::Error::new(io::ErrorKind::Interrupted, "scripted")),
                CallResp::Fail(k) => Err(io::Error::new(error_kind(k), "scripted failure")),
            };
        }
        let off = st.data.len();
        if st.policy.intr.contains(&off) && !st.fired.contains(&off) {
            st.fired.insert(off);
            return Err(io::Error::new(io::ErrorKind::Interrupted, "scripted"));
        }
        if let Some((k, kind)) = st.policy.fail_at {
            // `failonce`: the fault strikes the first time the offset is reached, then clears
            let spent = st.policy.fail_once && st.fired.contains(&(usize::MAX - k));
            if k == off && !spent {
                if st.policy.fail_once {
                    st.fired.insert(usize::MAX - k);
                }
                return Err(io::Error::new(error_kind(kind), "scripted failure"));
            }
        }
        if st.policy.zero_at == Some(off) {
            return Ok(0);
        }
        let mut n = buf.len();
        if let Some(c) = st.policy.cap {
            n = n.min(c.max(1));
        }
        let mut stop = |p: usize| {
            if p > off && p < off + n {
                n = p - off;
            }
        };
        if let Some((k, _)) = st.policy.fail_at {
            if !(st.policy.fail_once && st.fired.contains(&(usize::MAX - k))) {
                stop(k);
            }
        }
        if let Some(k) = st.policy.zero_at {
            stop(k);
        }
        let intr: Vec<usize> = st.policy.intr.iter().copied().filter(|p| !st.fired.contains(p)).collect();
        for p in intr {
            stop(p);
        }
        st.data.extend_from_slice(&buf[..n]);
        Ok(n)
    }
    fn flush(&mut self) -> io::Result<()> {
        let mut st = self.0.lock().unwrap();
        if st.flush_pos < st.policy.flush.len() {
            let r = st.policy.flush[st.flush_pos].clone();
            st.flush_pos += 1;
            return match r {
                CallResp::Accept(_) => Ok(()),
                CallResp::Interrupted => Err(io::Error::new(io::ErrorKind::Interrupted, "scripted flush")),
                CallResp::Fail(k) => Err(io::Error::new(error_kind(k), "scripted flush failure")),
            };
        }
        Ok(())
    }
}

fn parse_policy(s: &str) -> Policy {
    let mut p = Policy::default();
    if s == "ok" {
        return p;
    }
    for part in s.split('+') {
        let f: Vec<&str> = part.split(':').collect();
        match f[0] {
            "failat" => p.fail_at = Some((f[1].parse().unwrap(), f[2].parse().unwrap())),
            "failonce" => {
                p.fail_at = Some((f[1].parse().unwrap(), f[2].parse().unwrap()));
                p.fail_once = true;
            }
            "zeroat" => p.zero_at = Some(f[1].parse().unwrap()),
            "cap" => p.cap = Some(f[1].parse().unwrap()),
            "intr" => p.intr = f[1].split(',').filter(|x| !x.is_empty()).map(|x| x.parse().unwrap()).collect(),
            "flush" => {
                p.flush = f[1]
                    .split(',')
                    .filter(|x| !x.is_empty())
                    .map(|x| {
                        let (c, r) = x.split_at(1);
                        match c {
                            "i" => CallResp::Interrupted,
                            "f" => CallResp::Fail(r.parse().unwrap()),
                            _ => CallResp::Accept(0),
                        }
                    })
                    .collect()
            }
            "script" => {
                p.script = f[1]
                    .split(',')
                    .filter(|x| !x.is_empty())
                    .map(|x| {
                        let (c, r) = x.split_at(1);
                        match c {
                            "a" => CallResp::Accept(r.parse().unwrap()),
                            "i" => CallResp::Interrupted,
                            "f" => CallResp::Fail(r.parse().unwrap()),
                            "z" => CallResp::Accept(0),
                            _ => panic!("bad script"),
                        }
                    })
                    .collect()
            }
            _ => panic!("bad policy {}", part),
        }
    }
    p
}

// ---------------------------------------------------------------------------------------------
// progressive cases
// ---------------------------------------------------------------------------------------------

fn parse_vcodec(s: &str) -> VideoCodec {
    match s {
        "h264" => VideoCodec::H264,
        "h265" => VideoCodec::H265,
        "av1" => VideoCodec::Av1,
        "vp9" => VideoCodec::Vp9,
        _ => panic!("codec"),
    }
}

fn parse_acodec(s: &str) -> AudioCodec {
    match s {
        "aac-lc" => AudioCodec::Aac(AacProfile::Lc),
        "aac-main" => AudioCodec::Aac(AacProfile::Main),
        "aac-ssr" => AudioCodec::Aac(AacProfile::Ssr),
        "aac-ltp" => AudioCodec::Aac(AacProfile::Ltp),
        "aac-he" => AudioCodec::Aac(AacProfile::He),
        "aac-hev2" => AudioCodec::Aac(AacProfile::Hev2),
        "opus" => AudioCodec::Opus,
        "cnone" => AudioCodec::None,
        _ => panic!("acodec"),
    }
}

fn err_reply(e: &MuxerError) -> String {
    use MuxerError::*;
    let (name, idx): (&str, Option<u64>) = match e {
        MissingVideoConfig => ("MissingVideoConfig", None),
        Io(_) => ("Io", None),
        AlreadyFinished => ("AlreadyFinished", None),
        NegativeVideoPts { frame_index, .. } => ("NegativeVideoPts", Some(*frame_index)),
        NegativeVideoDts { frame_index, .. } => ("NegativeVideoDts", Some(*frame_index)),
        InvalidVideoPts { frame_index, .. } => ("InvalidVideoPts", Some(*frame_index)),
        InvalidVideoDts { frame_index, .. } => ("InvalidVideoDts", Some(*frame_index)),
        NegativeAudioPts { frame_index, .. } => ("NegativeAudioPts", Some(*frame_index)),
        InvalidAudioPts { frame_index, .. } => ("InvalidAudioPts", Some(*frame_index)),
        AudioNotConfigured => ("AudioNotConfigured", None),
        EmptyAudioFrame { frame_index } => ("EmptyAudioFrame", Some(*frame_index)),
        EmptyVideoFrame { frame_index } => ("EmptyVideoFrame", Some(*frame_index)),
        NonIncreasingVideoPts { frame_index, .. } => ("NonIncreasingVideoPts", Some(*frame_index)),
        DecreasingAudioPts { frame_index, .. } => ("DecreasingAudioPts", Some(*frame_index)),
        AudioBeforeFirstVideo { .. } => ("AudioBeforeFirstVideo", None),
        FirstVideoFrameMustBeKeyframe => ("FirstVideoFrameMustBeKeyframe", None),
        FirstVideoFrameMissingSpsPps => ("FirstVideoFrameMissingSpsPps", None),
        FirstAv1FrameMissingSequenceHeader => ("FirstAv1FrameMissingSequenceHeader", None),
        FirstVp9FrameMissingSequenceHeader => ("FirstVp9FrameMissingSequenceHeader", None),
        InvalidAdts { frame_index } => ("InvalidAdts", Some(*frame_index)),
        InvalidAdtsDetailed { frame_index, .. } => ("InvalidAdtsDetailed", Some(*frame_index)),
        InvalidOpusPacket { frame_index } => ("InvalidOpusPacket", Some(*frame_index)),
        NonIncreasingDts { frame_index, .. } => ("NonIncreasingDts", Some(*frame_index)),
    };
    // exercise the Display implementation too (C12: formatting code is only covered here)
    let _ = format!("{} {:?}", e, e);
    if let InvalidAdtsDetailed { error, .. } = e {
        // the detailed ADTS error is reachable through the public enum: its methods are public surface
        let _ = error.to_json();
        let _ = error.to_json_compact();
        let _ = error.is_critical();
        let _ = error.all_errors().len();
        let _ = format!("{} {:?}", error, error);
    }
    match idx {
        Some(i) => format!("err:{}:{}", name, i),
        None => format!("err:{}:-", name),
    }
}

fn unit_reply(r: Result<(), MuxerError>) -> String {
    match r {
        Ok(()) => "ok".to_string(),
        Err(e) => err_reply(&e),
    }
}

fn stats_reply(r: Result<muxide::api::MuxerStats, MuxerError>) -> String {
    match r {
        Ok(s) => format!(
            "stats:{}:{}:{:016x}:{}",
            s.video_frames,
            s.audio_frames,
            s.duration_secs.to_bits(),
            s.bytes_written
        ),
        Err(e) => err_reply(&e),
    }
}

struct PCfg {
    codec: VideoCodec,
    w: u32,
    h: u32,
    fps: f64,
    audio: Option<(AudioCodec, u32, u16)>,
    fast: bool,
    md: bool,
    title: Option<String>,
    ctime: Option<u64>,
    lang: Option<String>,
    path: String,
    sink: Policy,
    sinkty: String,
    novideo: bool,
    twin: String,
    bops: Option<String>,
}

fn parse_pcfg(tokens: &[&str]) -> PCfg {
    let mut c = PCfg {
        codec: VideoCodec::H264,
        w: 640,
        h: 480,
        fps: 30.0,
        audio: None,
        fast: true,
        md: false,
        title: None,
        ctime: None,
        lang: None,
        path: "std".into(),
        sink: Policy::default(),
        sinkty: "test".into(),
        novideo: false,
        twin: "none".into(),
        bops: None,
    };
    for t in tokens {
        let (k, v) = t.split_once('=').expect("k=v");
        match k {
            "codec" => c.codec = parse_vcodec(v),
            "w" => c.w = v.parse().unwrap(),
            "h" => c.h = v.parse().unwrap(),
            "fps" => c.fps = f64_of(v),
            "audio" => {
                if v != "none" {
                    let f: Vec<&str> = v.split(':').collect();
                    c.audio = Some((parse_acodec(f[0]), f[1].parse().unwrap(), f[2].parse().unwrap()));
                }
            }
            "fast" => c.fast = v == "1",
            "md" => c.md = v == "1",
            "title" => {
                if v != "~" {
                    c.title = Some(String::from_utf8(unhex(v)).expect("utf8 title"))
                }
            }
            "ctime" => {
                if v != "~" {
                    c.ctime = Some(v.parse().unwrap())
                }
            }
            "lang" => {
                if v != "~" {
                    c.lang = Some(String::from_utf8(unhex(v)).expect("utf8 lang"))
                }
            }
            "path" => c.path = v.to_string(),
            "sink" => c.sink = parse_policy(v),
            "sinkty" => c.sinkty = v.to_string(),
            "novideo" => c.novideo = v == "1",
            "twin" => c.twin = v.to_string(),
            "bops" => c.bops = Some(v.to_string()),
            "grp" => {}
            _ => panic!("cfg key {}", k),
        }
    }
    c
}

fn opt_string(v: &str) -> Option<String> {
    if v == "~" {
        None
    } else {
        Some(String::from_utf8(unhex(v)).expect("utf8"))
    }
}

/// an explicit builder call sequence (`bops=`): calls separated by ',', fields by ':'
fn apply_bops<W>(mut b: MuxerBuilder<W>, bops: &str, fps: f64) -> MuxerBuilder<W> {
    for op in bops.split(',').filter(|s| !s.is_empty()) {
        let f: Vec<&str> = op.split(':').collect();
        b = match f[0] {
            "v" => b.video(parse_vcodec(f[1]), f[2].parse().unwrap(), f[3].parse().unwrap(), fps),
            "sv" => b.set_video_track(parse_vcodec(f[1]), f[2].parse().unwrap(), f[3].parse().unwrap(), fps),
            "a" => b.audio(parse_acodec(f[1]), f[2].parse().unwrap(), f[3].parse().unwrap()),
            "sa" => b.set_audio_track(parse_acodec(f[1]), f[2].parse().unwrap(), f[3].parse().unwrap()),
            "md" => {
                let mut m = Metadata::new();
                if let Some(t) = opt_string(f[1]) {
                    m = m.with_title(t);
                }
                if f[2] != "~" {
                    m = m.with_creation_time(f[2].parse().unwrap());
                }
                if let Some(l) = opt_string(f[3]) {
                    m = m.with_language(l);
                }
                b.with_metadata(m)
            }
            "fs" => b.with_fast_start(f[1] == "1"),
            "sps" => b.with_sps(unhex(f[1])),
            "pps" => b.with_pps(unhex(f[1])),
            "vps" => b.with_vps(unhex(f[1])),
            "av1" => b.with_av1_sequence_header(unhex(f[1])),
            "vp9" => {
                let x: Vec<u32> = f[1].split('.').map(|x| x.parse().unwrap()).collect();
                b.with_vp9_config(Vp9Config {
                    width: x[0],
                    height: x[1],
                    profile: x[2] as u8,
                    bit_depth: x[3] as u8,
                    color_space: x[4] as u8,
                    transfer_function: x[5] as u8,
                    matrix_coefficients: x[6] as u8,
                    level: x[7] as u8,
                    full_range_flag: x[8] as u8,
                })
            }
            "ct" => b.set_create_time(f[1].parse().unwrap()),
            "lg" => b.set_language(opt_string(f[1]).unwrap_or_default()),
            other => panic!("bop {}", other),
        };
    }
    b
}

fn build_muxer<W: Write>(c: &PCfg, w: W) -> Result<Muxer<W>, MuxerError> {
    if let Some(bops) = &c.bops {
        return apply_bops(MuxerBuilder::new(w), bops, c.fps).build();
    }
    let mut b = MuxerBuilder::new(w);
    let set = c.path == "set" || c.path == "setonly" || c.path == "setrev";
    if !c.novideo {
        b = if set { b.set_video_track(c.codec, c.w, c.h, c.fps) } else { b.video(c.codec, c.w, c.h, c.fps) };
    }
    if let Some((ac, r, ch)) = c.audio {
        b = if set { b.set_audio_track(ac, r, ch) } else { b.audio(ac, r, ch) };
    }
    b = b.with_fast_start(c.fast);
    // "setonly" / "setrev": metadata configured through the builder's setters alone (no `with_metadata`
    // call unless a title has to be installed), in either order
    let setonly = c.path == "setonly" || c.path == "setrev";
    if c.md && setonly {
        if let Some(t) = &c.title {
            b = b.with_metadata(Metadata::new().with_title(t.clone()));
        }
        if c.path == "setrev" {
            if let Some(l) = &c.lang {
                b = b.set_language(l.clone());
            }
            if let Some(t) = c.ctime {
                b = b.set_create_time(t);
            }
        } else {
            if let Some(t) = c.ctime {
                b = b.set_create_time(t);
            }
            if let Some(l) = &c.lang {
                b = b.set_language(l.clone());
            }
        }
        return b.build();
    }
    if c.md {
        let mut m = Metadata::new();
        if let Some(t) = &c.title {
            m = m.with_title(t.clone());
        }
        if !set {
            if let Some(t) = c.ctime {
                m = m.with_creation_time(t);
            }
            if let Some(l) = &c.lang {
                m = m.with_language(l.clone());
            }
        }
        b = b.with_metadata(m);
        if set {
            if let Some(t) = c.ctime {
                b = b.set_create_time(t);
            }
            if let Some(l) = &c.lang {
                b = b.set_language(l.clone());
            }
        }
    }
    b.build()
}

/// run the op list on a muxer whose sink's accepted length can be observed through `len`
fn run_ops<W: Write>(mut mux: Option<Muxer<W>>, ops: &[&str], len: &dyn Fn() -> usize) -> Vec<String> {
    let mut out = Vec::new();
    for (opi, op) in ops.iter().enumerate() {
        let t: Vec<&str> = op.split_whitespace().collect();
        if t.is_empty() {
            continue;
        }
        let before = len();
        let r: Result<String, ()> = {
            let res = catch_unwind(AssertUnwindSafe(|| -> String {
                match t[0] {
                    "wv" => unit_reply(mux.as_mut().unwrap().write_video(f64_of(t[1]), placed(t[2], opi).s(), t[3] == "1")),
                    "wvd" => unit_reply(mux.as_mut().unwrap().write_video_with_dts(
                        f64_of(t[1]),
                        f64_of(t[2]),
                        placed(t[3], opi).s(),
                        t[4] == "1",
                    )),
                    "wa" => unit_reply(mux.as_mut().unwrap().write_audio(f64_of(t[1]), placed(t[2], opi).s())),
                    "ev" => unit_reply(mux.as_mut().unwrap().encode_video(placed(t[1], opi).s(), t[2].parse().unwrap())),
                    "ea" => unit_reply(mux.as_mut().unwrap().encode_audio(placed(t[1], opi).s(), t[2].parse().unwrap())),
                    "fin" => unit_reply(mux.as_mut().unwrap().finish_in_place()),
                    "fins" => stats_reply(mux.as_mut().unwrap().finish_in_place_with_stats()),
                    "finish" => unit_reply(mux.take().unwrap().finish()),
                    "finishs" => stats_reply(mux.take().unwrap().finish_with_stats()),
                    "flush" => unit_reply(mux.take().unwrap().flush()),
                    _ => panic!("bad op {}", t[0]),
                }
            }));
            res.map_err(|_| ())
        };
        let after = len();
        match r {
            Ok(s) => out.push(format!("{}+{}", s, after - before)),
            Err(()) => {
                out.push(format!("panic+{}", after - before));
                break; // state after a panic is unspecified
            }
        }
        if mux.is_none() {
            break;
        }
    }
    out
}

fn run_once_test(cfg: &PCfg, ops: &[&str]) -> (Vec<String>, Vec<u8>) {
    let st = Arc::new(Mutex::new(SinkState { policy: cfg.sink.clone(), ..Default::default() }));
    let sink = TestSink(st.clone());
    let built = catch_unwind(AssertUnwindSafe(|| build_muxer(cfg, sink)));
    let st2 = st.clone();
    let len = move || st2.lock().unwrap().data.len();
    let replies = match built {
        Err(_) => vec!["buildpanic+0".to_string()],
        Ok(Err(e)) => vec![format!("build{}+0", err_reply(&e))],
        Ok(Ok(m)) => run_ops(Some(m), ops, &len),
    };
    let data = st.lock().unwrap().data.clone();
    (replies, data)
}

fn run_p(rest: &str) -> String {
    let (cfg_s, ops_s) = rest.split_once('|').unwrap_or((rest, ""));
    let cfg = parse_pcfg(&cfg_s.split_whitespace().collect::<Vec<_>>());
    let ops: Vec<&str> = ops_s.split(';').map(|s| s.trim()).filter(|s| !s.is_empty()).collect();
    match cfg.sinkty.as_str() {
        "test" => {
            let (replies, data) = run_once_test(&cfg, &ops);
            let first = format!("{} | file={}", replies.join(" ; "), hex(&data));
            match cfg.twin.as_str() {
                "none" => first,
                "fast" => {
                    let mut c2 = parse_pcfg(&cfg_s.split_whitespace().collect::<Vec<_>>());
                    c2.fast = !cfg.fast;
                    let (r2, d2) = run_once_test(&c2, &ops);
                    format!("{} || {} | file={}", first, r2.join(" ; "), hex(&d2))
                }
                "nofault" => {
                    let mut c2 = parse_pcfg(&cfg_s.split_whitespace().collect::<Vec<_>>());
                    c2.sink = Policy::default();
                    let (r2, d2) = run_once_test(&c2, &ops);
                    format!("{} || {} | file={}", first, r2.join(" ; "), hex(&d2))
                }
                "nometa" => {
                    let mut c2 = parse_pcfg(&cfg_s.split_whitespace().collect::<Vec<_>>());
                    c2.md = false;
                    let (r2, d2) = run_once_test(&c2, &ops);
                    format!("{} || {} | file={}", first, r2.join(" ; "), hex(&d2))
                }
                "filter" | "filter1" => {
                    // the same history with the rejected frame-writing calls removed (`filter1`: only the first of
                    // them, so that a refusal which makes a LATER call be refused too is not filtered away with it)
                    let mut ops2: Vec<&str> = Vec::new();
                    let mut removed = 0usize;
                    for (i, op) in ops.iter().enumerate() {
                        let rejected = replies.get(i).map(|r| r.starts_with("err:")).unwrap_or(false);
                        let is_write = ["wv ", "wvd ", "wa ", "ev ", "ea "].iter().any(|p| op.starts_with(p));
                        if rejected && is_write && (cfg.twin == "filter" || removed == 0) {
                            removed += 1;
                        } else {
                            ops2.push(op);
                        }
                    }
                    let (r2, d2) = run_once_test(&cfg, &ops2);
                    format!("{} || {} | file={}", first, r2.join(" ; "), hex(&d2))
                }
                other => panic!("twin {}", other),
            }
        }
        "vec" => {
            let mut v: Vec<u8> = Vec::new();
            let p: *const Vec<u8> = &v;
            let replies = {
                let built = build_muxer(&cfg, &mut v);
                // the sink is exclusively borrowed by the muxer; its length is only read between calls
                let len = move || unsafe { (*p).len() };
                match built {
                    Err(e) => vec![format!("build{}+0", err_reply(&e))],
                    Ok(m) => run_ops(Some(m), &ops, &len),
                }
            };
            format!("{} | file={}", replies.join(" ; "), hex(&v))
        }
        "cursor" => {
            let mut v: Vec<u8> = Vec::new();
            let p: *const Vec<u8> = &v;
            let replies = {
                let built = build_muxer(&cfg, io::Cursor::new(&mut v));
                let len = move || unsafe { (*p).len() };
                match built {
                    Err(e) => vec![format!("build{}+0", err_reply(&e))],
                    Ok(m) => run_ops(Some(m), &ops, &len),
                }
            };
            format!("{} | file={}", replies.join(" ; "), hex(&v))
        }
        "file" => {
            let dir = std::env::var("VERIF_TMP").unwrap_or_else(|_| "/verif/.cache/tmp".to_string());
            let _ = std::fs::create_dir_all(&dir);
            let path = format!("{}/h-{}-{:?}.mp4", dir, std::process::id(), std::thread::current().id());
            let f = std::fs::File::create(&path).expect("tmp file");
            let path2 = path.clone();
            let len = move || std::fs::metadata(&path2).map(|m| m.len() as usize).unwrap_or(0);
            let replies = match build_muxer(&cfg, f) {
                Err(e) => vec![format!("build{}+0", err_reply(&e))],
                Ok(m) => run_ops(Some(m), &ops, &len),
            };
            let data = std::fs::read(&path).unwrap_or_default();
            let _ = std::fs::remove_file(&path);
            format!("{} | file={}", replies.join(" ; "), hex(&data))
        }
        other => panic!("sinkty {}", other),
    }
}

// ---------------------------------------------------------------------------------------------
// fragmented cases
// ---------------------------------------------------------------------------------------------

fn parse_fcfg(tokens: &[&str]) -> (Option<FragmentConfig>, Option<FragmentedMuxer>, String) {
    // via=direct : FragmentConfig literal + FragmentedMuxer::new ; via=builder : MuxerBuilder::new_with_fragment
    let mut w = 1920u32;
    let mut h = 1080u32;
    let mut ts = 90000u32;
    let mut fd = 2000u32;
    let mut sps: Option<Vec<u8>> = None;
    let mut pps: Option<Vec<u8>> = None;
    let mut vps: Option<Vec<u8>> = None;
    let mut av1: Option<Vec<u8>> = None;
    let mut vp9: Option<Vp9Config> = None;
    let mut via = "direct".to_string();
    let mut codec = VideoCodec::H264;
    let mut bops = String::new();
    for t in tokens {
        let (k, v) = t.split_once('=').expect("k=v");
        match k {
            "w" => w = v.parse().unwrap(),
            "h" => h = v.parse().unwrap(),
            "ts" => ts = v.parse().unwrap(),
            "fd" => fd = v.parse().unwrap(),
            "sps" => sps = if v == "~" { None } else { Some(unhex(v)) },
            "pps" => pps = if v == "~" { None } else { Some(unhex(v)) },
            "vps" => vps = if v == "~" { None } else { Some(unhex(v)) },
            "av1" => av1 = if v == "~" { None } else { Some(unhex(v)) },
            "vp9" => {
                if v != "~" {
                    let f: Vec<u32> = v.split(':').map(|x| x.parse().unwrap()).collect();
                    vp9 = Some(Vp9Config {
                        width: f[0],
                        height: f[1],
                        profile: f[2] as u8,
                        bit_depth: f[3] as u8,
                        color_space: f[4] as u8,
                        transfer_function: f[5] as u8,
                        matrix_coefficients: f[6] as u8,
                        level: f[7] as u8,
                        full_range_flag: f[8] as u8,
                    })
                }
            }
            "via" => via = v.to_string(),
            "bops" => bops = v.to_string(),
            "codec" => codec = parse_vcodec(v),
            _ => panic!("fcfg key {}", k),
        }
    }
    if via == "bops" {
        return match apply_bops(MuxerBuilder::new(Vec::<u8>::new()), &bops, 30.0).new_with_fragment() {
            Ok(m) => (None, Some(m), String::new()),
            Err(e) => (None, None, err_reply(&e)),
        };
    }
    if via == "default" {
        return (Some(FragmentConfig::default()), None, String::new());
    }
    if via == "builder" {
        let mut b = MuxerBuilder::new(Vec::<u8>::new()).video(codec, w, h, 30.0);
        if let Some(x) = sps {
            b = b.with_sps(x);
        }
        if let Some(x) = pps {
            b = b.with_pps(x);
        }
        if let Some(x) = vps {
            b = b.with_vps(x);
        }
        if let Some(x) = av1 {
            b = b.with_av1_sequence_header(x);
        }
        if let Some(x) = vp9 {
            b = b.with_vp9_config(x);
        }
        match b.new_with_fragment() {
            Ok(m) => (None, Some(m), String::new()),
            Err(e) => (None, None, err_reply(&e)),
        }
    } else {
        let cfg = FragmentConfig {
            width: w,
            height: h,
            timescale: ts,
            fragment_duration_ms: fd,
            sps: sps.unwrap_or_default(),
            pps: pps.unwrap_or_default(),
            vps,
            av1_sequence_header: av1,
            vp9_config: vp9,
        };
        (Some(cfg), None, String::new())
    }
}

fn build_f(cfg_s: &str) -> Result<FragmentedMuxer, String> {
    let (cfg, built, err) = parse_fcfg(&cfg_s.split_whitespace().collect::<Vec<_>>());
    match (cfg, built) {
        (Some(c), _) => Ok(FragmentedMuxer::new(c)),
        (None, Some(m)) => Ok(m),
        (None, None) => Err(format!("build{}", err)),
    }
}

fn run_f(rest: &str) -> String {
    let (cfg_s, ops_s) = rest.split_once('|').unwrap_or((rest, ""));
    let mut m = match build_f(cfg_s) {
        Ok(m) => m,
        Err(e) => return e,
    };
    let ops: Vec<&str> = ops_s.split(';').map(|s| s.trim()).filter(|s| !s.is_empty()).collect();
    let mut out = Vec::new();
    for (opi, op) in ops.into_iter().enumerate() {
        let t: Vec<&str> = op.split_whitespace().collect();
        let r = catch_unwind(AssertUnwindSafe(|| -> String {
            match t[0] {
                "fw" => match m.write_video(t[1].parse().unwrap(), t[2].parse().unwrap(), placed(t[3], opi).s(), t[4] == "1") {
                    Ok(()) => "ok".into(),
                    Err(e) => {
                        let _ = format!("{} {:?}", e, e);
                        "err".into()
                    }
                },
                "fflush" => match m.flush_segment() {
                    Some(s) => format!("seg:{}", hex(&s)),
                    None => "none".into(),
                },
                "fready" => format!("b:{}", if m.ready_to_flush() { 1 } else { 0 }),
                "fdur" => format!("n:{}", m.current_fragment_duration_ms()),
                "finit" => format!("init:{}", hex(&m.init_segment())),
                // the init segment of a NEW muxer with the same configuration, requested at this moment
                "finitfresh" => match build_f(cfg_s) {
                    Ok(mut fresh) => format!("init:{}", hex(&fresh.init_segment())),
                    Err(e) => e,
                },
                _ => panic!("bad fop"),
            }
        }));
        match r {
            Ok(s) => out.push(s),
            Err(_) => {
                out.push("panic".into());
                break;
            }
        }
    }
    out.join(" ; ")
}

// ---------------------------------------------------------------------------------------------

fn run_case(line: &str) -> String {
    let line = line.trim();
    let (kind, rest) = line.split_once(' ').unwrap_or((line, ""));
    let (id, rest) = rest.split_once(' ').unwrap_or((rest, ""));
    let body = match kind {
        "P" => run_p(rest),
        "F" => run_f(rest),
        "L" => cli::run_l(rest),
        "X" => match catch_unwind(AssertUnwindSafe(|| purefn::run_x(rest))) {
            Ok(s) => s,
            Err(_) => "panic".to_string(),
        },
        _ => "badcase".to_string(),
    };
    format!("{} {}", id, body)
}

fn read_cases(path: &str) -> Vec<String> {
    let f = std::fs::File::open(path).expect("case file");
    io::BufReader::new(f)
        .lines()
        .map(|l| l.unwrap())
        .filter(|l| !l.trim().is_empty() && !l.starts_with('#'))
        .collect()
}

fn main() {
    std::panic::set_hook(Box::new(|_| {}));
    let args: Vec<String> = std::env::args().collect();
    let stdout = io::stdout();
    match args.get(1).map(|s| s.as_str()) {
        Some("run") => {
            let skip: usize = args.get(3).and_then(|s| s.parse().ok()).unwrap_or(0);
            for line in read_cases(&args[2]).iter().skip(skip) {
                let r = run_case(line);
                let mut o = stdout.lock();
                writeln!(o, "{}", r).unwrap();
                o.flush().unwrap();
            }
        }
        Some("runthread") => {
            for line in read_cases(&args[2]) {
                let r = std::thread::spawn(move || run_case(&line)).join().unwrap_or_else(|_| "? threadpanic".into());
                println!("{}", r);
            }
        }
        Some("runpar") => {
            let n: usize = args[2].parse().unwrap();
            let cases = Arc::new(read_cases(&args[3]));
            let results = Arc::new(Mutex::new(vec![String::new(); cases.len()]));
            let next = Arc::new(std::sync::atomic::AtomicUsize::new(0));
            let mut hs = Vec::new();
            for _ in 0..n {
                let (cases, results, next) = (cases.clone(), results.clone(), next.clone());
                hs.push(std::thread::spawn(move || {
                    // touch the thread-local invariant log first so that it is non-empty
                    let _ = muxide::codec::h264::extract_avc_config(&[0, 0, 1, 0x67, 1, 0, 0, 1, 0x68, 2]);
                    loop {
                        let i = next.fetch_add(1, std::sync::atomic::Ordering::SeqCst);
                        if i >= cases.len() {
                            break;
                        }
                        let r = run_case(&cases[i]);
                        results.lock().unwrap()[i] = r;
                    }
                }));
            }
            for h in hs {
                h.join().unwrap();
            }
            for r in results.lock().unwrap().iter() {
                println!("{}", r);
            }
        }
        _ => {
            eprintln!("usage: harness run|runthread|runpar ...");
            std::process::exit(2);
        }
    }
}
