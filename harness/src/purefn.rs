//! X cases: pure public functions of muxide::codec::* and muxide::validation.

use crate::{hex, unhex};
use muxide::api::{AacProfile, AudioCodec, VideoCodec};
use muxide::codec::av1;
use muxide::codec::common::{find_start_code, AnnexBNalIter};
use muxide::codec::h264;
use muxide::codec::h265;
use muxide::codec::opus;
use muxide::codec::vp9;
use muxide::validation;

fn b(x: bool) -> String {
    if x { "1".into() } else { "0".into() }
}

fn vcodec(s: &str) -> VideoCodec {
    match s {
        "h264" => VideoCodec::H264,
        "h265" => VideoCodec::H265,
        "av1" => VideoCodec::Av1,
        "vp9" => VideoCodec::Vp9,
        _ => panic!("codec"),
    }
}

fn acodec(s: &str) -> AudioCodec {
    match s {
        "aac-lc" => AudioCodec::Aac(AacProfile::Lc),
        "aac-main" => AudioCodec::Aac(AacProfile::Main),
        "aac-ssr" => AudioCodec::Aac(AacProfile::Ssr),
        "aac-ltp" => AudioCodec::Aac(AacProfile::Ltp),
        "aac-he" => AudioCodec::Aac(AacProfile::He),
        "aac-hev2" => AudioCodec::Aac(AacProfile::Hev2),
        "opus" => AudioCodec::Opus,
        "cnone" => AudioCodec::None,
        _ => panic!("acodec"),
    }
}

pub fn run_x(rest: &str) -> String {
    let t: Vec<&str> = rest.split_whitespace().collect();
    let arg = |i: usize| -> Vec<u8> { unhex(t.get(i).copied().unwrap_or("-")) };
    match t[0] {
        "annexb_to_avcc" => hex(&h264::annexb_to_avcc(&arg(1))),
        "hevc_annexb_to_hvcc" => hex(&h265::hevc_annexb_to_hvcc(&arg(1))),
        "nals" => {
            let d = arg(1);
            let v: Vec<String> = AnnexBNalIter::new(&d).map(hex).collect();
            format!("n:{}", v.join(","))
        }
        "find_start_code" => {
            let d = arg(1);
            match find_start_code(&d, t[2].parse().unwrap()) {
                None => "none".into(),
                Some((p, l)) => format!("{}:{}", p, l),
            }
        }
        "extract_avc" => match h264::extract_avc_config(&arg(1)) {
            None => "none".into(),
            Some(c) => {
                let _ = (c.profile_idc(), c.profile_compatibility(), c.level_idc());
                format!("{}/{}", hex(&c.sps), hex(&c.pps))
            }
        },
        "extract_hevc" => match h265::extract_hevc_config(&arg(1)) {
            None => "none".into(),
            Some(c) => {
                let _ = (c.general_profile_space(), c.general_tier_flag(), c.general_profile_idc(), c.general_level_idc());
                format!("{}/{}/{}", hex(&c.vps), hex(&c.sps), hex(&c.pps))
            }
        },
        "extract_av1" => match av1::extract_av1_config(&arg(1)) {
            None => "none".into(),
            Some(c) => format!(
                "{}/{}/{}/{}/{}/{}/{}/{}/{}/{}",
                hex(&c.sequence_header),
                c.seq_profile,
                c.seq_level_idx,
                c.seq_tier,
                b(c.high_bitdepth),
                b(c.twelve_bit),
                b(c.monochrome),
                b(c.chroma_subsampling_x),
                b(c.chroma_subsampling_y),
                c.chroma_sample_position
            ),
        },
        "extract_vp9" => match vp9::extract_vp9_config(&arg(1)) {
            None => "none".into(),
            Some(c) => format!(
                "{}/{}/{}/{}/{}/{}/{}/{}/{}",
                c.width, c.height, c.profile, c.bit_depth, c.color_space, c.transfer_function, c.matrix_coefficients, c.level, c.full_range_flag
            ),
        },
        "is_h264_key" => b(h264::is_h264_keyframe(&arg(1))),
        "is_hevc_key" => b(h265::is_hevc_keyframe(&arg(1))),
        "is_av1_key" => b(av1::is_av1_keyframe(&arg(1))),
        "is_vp9_key" => match vp9::is_vp9_keyframe(&arg(1)) {
            Ok(x) => b(x),
            Err(vp9::Vp9Error::FrameTooShort) => "short".into(),
            Err(vp9::Vp9Error::InvalidFrameMarker) => "marker".into(),
            Err(e) => format!("other:{}", e),
        },
        "is_valid_vp9" => b(vp9::is_valid_vp9_frame(&arg(1))),
        "hevc_nal_type" => format!("{}", h265::hevc_nal_type(&arg(1))),
        "is_hevc_key_type" => b(h265::is_hevc_keyframe_nal_type(t[1].parse().unwrap())),
        "leb128" => match av1::read_leb128(&arg(1)) {
            None => "none".into(),
            Some((v, n)) => format!("{}:{}", v, n),
        },
        "obu_header" => match av1::parse_obu_header(&arg(1)) {
            None => "none".into(),
            Some(i) => {
                assert_eq!(i.total_size, i.header_size + i.payload_size);
                format!("{}/{}/{}/{}", i.obu_type, b(i.has_extension), i.header_size, i.payload_size)
            }
        },
        "obus" => {
            let d = arg(1);
            let v: Vec<String> = av1::ObuIter::new(&d)
                .map(|(i, o)| format!("{}/{}/{}/{}", i.obu_type, i.header_size, i.payload_size, hex(o)))
                .collect();
            format!("o:{}", v.join(","))
        }
        "obu_bits" => {
            let x: u8 = t[1].parse().unwrap();
            format!("{}/{}/{}", av1::obu_type(x), b(av1::obu_has_extension(x)), b(av1::obu_has_size(x)))
        }
        "opus_samples" => match opus::opus_packet_samples(&arg(1)) {
            None => "none".into(),
            Some(n) => format!("{}", n),
        },
        "opus_valid" => b(opus::is_valid_opus_packet(&arg(1))),
        "opus_count" => match opus::opus_frame_count(&arg(1)) {
            None => "none".into(),
            Some((n, v)) => format!("{}/{}", n, b(v)),
        },
        "opus_dur" => match opus::opus_frame_duration_from_toc(t[1].parse().unwrap()) {
            None => "none".into(),
            Some(d) => {
                let _ = d.seconds();
                format!("{}", d.samples())
            }
        },
        "opus_cfg" => {
            let ch: u8 = t[1].parse().unwrap();
            let c = opus::OpusConfig::default().with_channels(ch).with_pre_skip(t[2].parse().unwrap());
            let _ = (opus::OpusConfig::mono(), opus::OpusConfig::stereo());
            format!("{}/{}/{}", c.output_channel_count, c.channel_mapping_family, c.pre_skip)
        }
        "validate_video_config" => {
            let r = validation::validate_video_config(
                vcodec(t[1]),
                t[2].parse().unwrap(),
                t[3].parse().unwrap(),
                f64::from_bits(u64::from_str_radix(t[4], 16).unwrap()),
            );
            b(r.is_valid)
        }
        "validate_audio_config" => {
            let r = validation::validate_audio_config(acodec(t[1]), t[2].parse().unwrap(), t[3].parse().unwrap());
            b(r.is_valid)
        }
        "validate_video_frame" => b(validation::validate_video_frame(vcodec(t[1]), &arg(2), t[3] == "1").is_valid),
        "validate_audio_frame" => b(validation::validate_audio_frame(acodec(t[1]), &arg(2)).is_valid),
        "validate_muxing" => {
            let vc = validation::VideoValidationConfig {
                codec: if t[1] == "~" { None } else { Some(vcodec(t[1])) },
                width: if t[2] == "~" { None } else { Some(t[2].parse().unwrap()) },
                height: if t[3] == "~" { None } else { Some(t[3].parse().unwrap()) },
                framerate: if t[4] == "~" { None } else { Some(f64::from_bits(u64::from_str_radix(t[4], 16).unwrap())) },
                sample_frame: if t[5] == "~" { None } else { Some((unhex(t[5]), t[6] == "1")) },
            };
            let ac = validation::AudioValidationConfig {
                codec: if t[7] == "~" { None } else { Some(acodec(t[7])) },
                sample_rate: if t[8] == "~" { None } else { Some(t[8].parse().unwrap()) },
                channels: if t[9] == "~" { None } else { Some(t[9].parse().unwrap()) },
                sample_frame: if t[10] == "~" { None } else { Some(unhex(t[10])) },
            };
            b(validation::validate_muxing_config(vc, ac).is_valid)
        }
        "vcodec_str" => {
            let s = String::from_utf8(unhex(t[1])).unwrap_or_default();
            match s.parse::<VideoCodec>() {
                Ok(c) => format!("{}", c).replace(' ', "_"),
                Err(_) => "err".into(),
            }
        }
        "acodec_str" => {
            let s = String::from_utf8(unhex(t[1])).unwrap_or_default();
            match s.parse::<AudioCodec>() {
                Ok(c) => format!("{}", c).replace(' ', "_"),
                Err(_) => "err".into(),
            }
        }
        _ => "badfn".into(),
    }
}
