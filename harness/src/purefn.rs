//! X cases: pure public functions of muxide::codec::* and muxide::validation.

use crate::{hex, unhex};
use muxide::api::{AacProfile, AudioCodec, VideoCodec};
use muxide::codec::av1;
use muxide::codec::common::{find_start_code, AnnexBNalIter};
use muxide::codec::h264;
use muxide::codec::h265;
use muxide::codec::opus;
use muxide::codec::vp9;
use muxide::validation;

fn b(x: bool) -> String {
    if x { "1".into() } else { "0".into() }
}

fn vcodec(s: &str) -> VideoCodec {
    match s {
        "h264" => VideoCodec::H264,
        "h265" => VideoCodec::H265,
        "av1" => VideoCodec::Av1,
        "vp9" => VideoCodec::Vp9,
        _ => panic!("codec"),
    }
}

fn acodec(s: &str) -> AudioCodec {
    match s {
        "aac-lc" => AudioCodec::Aac(AacProfile::Lc),
        "aac-main" => AudioCodec::Aac(AacProfile::Main),
        "aac-ssr" => AudioCodec::Aac(AacProfile::Ssr),
        "aac-ltp" => AudioCodec::Aac(AacProfile::Ltp),
        "aac-he" => AudioCodec::Aac(AacProfile::He),
        "aac-hev2" => AudioCodec::Aac(AacProfile::Hev2),
        "opus" => AudioCodec::Opus,
        "cnone" => AudioCodec::None,
        _ => panic!("acodec"),
    }
}

fn vres(r: &validation::ValidationResult) -> String {
    let _ = format!("{:?}", r.clone());
    format!("{}/{}/{}", if r.is_valid { 1 } else { 0 }, r.messages.len(), r.errors.len())
}

pub fn run_x(rest: &str) -> String {
    let t: Vec<&str> = rest.split_whitespace().collect();
    let arg = |i: usize| -> crate::Placed { crate::placed(t.get(i).copied().unwrap_or("-"), i) };
    match t[0] {
        "annexb_to_avcc" => hex(&h264::annexb_to_avcc(&arg(1))),
        "hevc_annexb_to_hvcc" => hex(&h265::hevc_annexb_to_hvcc(&arg(1))),
        "nals" => {
            let d = arg(1);
            let v: Vec<String> = AnnexBNalIter::new(&d).map(hex).collect();
            format!("n:{}", v.join(","))
        }
        "find_start_code" => {
            let d = arg(1);
            match find_start_code(&d, t[2].parse().unwrap()) {
                None => "none".into(),
                Some((p, l)) => format!("{}:{}", p, l),
            }
        }
        "extract_avc" => match h264::extract_avc_config(&arg(1)) {
            None => "none".into(),
            Some(c) => {
                let _ = (c.profile_idc(), c.profile_compatibility(), c.level_idc());
                format!("{}/{}", hex(&c.sps), hex(&c.pps))
            }
        },
        "extract_hevc" => match h265::extract_hevc_config(&arg(1)) {
            None => "none".into(),
            Some(c) => {
                let _ = (c.general_profile_space(), c.general_tier_flag(), c.general_profile_idc(), c.general_level_idc());
                format!("{}/{}/{}", hex(&c.vps), hex(&c.sps), hex(&c.pps))
            }
        },
        "extract_av1" => match av1::extract_av1_config(&arg(1)) {
            None => "none".into(),
            Some(c) => format!(
                "{}/{}/{}/{}/{}/{}/{}/{}/{}/{}",
                hex(&c.sequence_header),
                c.seq_profile,
                c.seq_level_idx,
                c.seq_tier,
                b(c.high_bitdepth),
                b(c.twelve_bit),
                b(c.monochrome),
                b(c.chroma_subsampling_x),
                b(c.chroma_subsampling_y),
                c.chroma_sample_position
            ),
        },
        "extract_vp9" => match vp9::extract_vp9_config(&arg(1)) {
            None => "none".into(),
            Some(c) => format!(
                "{}/{}/{}/{}/{}/{}/{}/{}/{}",
                c.width, c.height, c.profile, c.bit_depth, c.color_space, c.transfer_function, c.matrix_coefficients, c.level, c.full_range_flag
            ),
        },
        "is_h264_key" => b(h264::is_h264_keyframe(&arg(1))),
        "is_hevc_key" => b(h265::is_hevc_keyframe(&arg(1))),
        "is_av1_key" => b(av1::is_av1_keyframe(&arg(1))),
        "is_vp9_key" => match vp9::is_vp9_keyframe(&arg(1)) {
            Ok(x) => b(x),
            Err(vp9::Vp9Error::FrameTooShort) => "short".into(),
            Err(vp9::Vp9Error::InvalidFrameMarker) => "marker".into(),
            Err(e) => format!("other:{}", e),
        },
        "is_valid_vp9" => b(vp9::is_valid_vp9_frame(&arg(1))),
        "hevc_nal_type" => format!("{}", h265::hevc_nal_type(&arg(1))),
        "is_hevc_key_type" => b(h265::is_hevc_keyframe_nal_type(t[1].parse().unwrap())),
        "leb128" => match av1::read_leb128(&arg(1)) {
            None => "none".into(),
            Some((v, n)) => format!("{}:{}", v, n),
        },
        "obu_header" => match av1::parse_obu_header(&arg(1)) {
            None => "none".into(),
            Some(i) => {
                assert_eq!(i.total_size, i.header_size + i.payload_size);
                format!("{}/{}/{}/{}", i.obu_type, b(i.has_extension), i.header_size, i.payload_size)
            }
        },
        "obus" => {
            let d = arg(1);
            let v: Vec<String> = av1::ObuIter::new(&d)
                .map(|(i, o)| format!("{}/{}/{}/{}", i.obu_type, i.header_size, i.payload_size, hex(o)))
                .collect();
            format!("o:{}", v.join(","))
        }
        "obu_bits" => {
            let x: u8 = t[1].parse().unwrap();
            format!("{}/{}/{}", av1::obu_type(x), b(av1::obu_has_extension(x)), b(av1::obu_has_size(x)))
        }
        "opus_samples" => match opus::opus_packet_samples(&arg(1)) {
            None => "none".into(),
            Some(n) => format!("{}", n),
        },
        "opus_valid" => b(opus::is_valid_opus_packet(&arg(1))),
        "opus_count" => match opus::opus_frame_count(&arg(1)) {
            None => "none".into(),
            Some((n, v)) => format!("{}/{}", n, b(v)),
        },
        "opus_dur" => match opus::opus_frame_duration_from_toc(t[1].parse().unwrap()) {
            None => "none".into(),
            Some(d) => {
                let _ = d.seconds();
                format!("{}", d.samples())
            }
        },
        "opus_cfg" => {
            let ch: u8 = t[1].parse().unwrap();
            let c = opus::OpusConfig::default().with_channels(ch).with_pre_skip(t[2].parse().unwrap());
            let _ = (opus::OpusConfig::mono(), opus::OpusConfig::stereo());
            format!("{}/{}/{}", c.output_channel_count, c.channel_mapping_family, c.pre_skip)
        }
        "validate_video_config" => {
            let r = validation::validate_video_config(
                vcodec(t[1]),
                t[2].parse().unwrap(),
                t[3].parse().unwrap(),
                f64::from_bits(u64::from_str_radix(t[4], 16).unwrap()),
            );
            vres(&r)
        }
        "validate_audio_config" => {
            let r = validation::validate_audio_config(acodec(t[1]), t[2].parse().unwrap(), t[3].parse().unwrap());
            vres(&r)
        }
        "validate_video_frame" => vres(&validation::validate_video_frame(vcodec(t[1]), &arg(2), t[3] == "1")),
        "validate_audio_frame" => vres(&validation::validate_audio_frame(acodec(t[1]), &arg(2))),
        "validate_muxing" => {
            let vc = validation::VideoValidationConfig {
                codec: if t[1] == "~" { None } else { Some(vcodec(t[1])) },
                width: if t[2] == "~" { None } else { Some(t[2].parse().unwrap()) },
                height: if t[3] == "~" { None } else { Some(t[3].parse().unwrap()) },
                framerate: if t[4] == "~" { None } else { Some(f64::from_bits(u64::from_str_radix(t[4], 16).unwrap())) },
                sample_frame: if t[5] == "~" { None } else { Some((unhex(t[5]), t[6] == "1")) },
            };
            let ac = validation::AudioValidationConfig {
                codec: if t[7] == "~" { None } else { Some(acodec(t[7])) },
                sample_rate: if t[8] == "~" { None } else { Some(t[8].parse().unwrap()) },
                channels: if t[9] == "~" { None } else { Some(t[9].parse().unwrap()) },
                sample_frame: if t[10] == "~" { None } else { Some(unhex(t[10])) },
            };
            vres(&validation::validate_muxing_config(vc, ac))
        }
        "muxer_config" => {
            // MuxerConfig: plain data built by fluent calls
            let mut c = muxide::api::MuxerConfig::new(
                t[1].parse().unwrap(),
                t[2].parse().unwrap(),
                f64::from_bits(u64::from_str_radix(t[3], 16).unwrap()),
            );
            if t[4] != "~" {
                c = c.with_audio(acodec(t[4]), t[5].parse().unwrap(), t[6].parse().unwrap());
            }
            c = c.with_fast_start(t[7] == "1");
            if t[8] == "1" {
                c = c.with_metadata(muxide::api::Metadata::new().with_title("t"));
            }
            let _ = format!("{:?}", c.clone());
            let a = match &c.audio {
                None => "none".to_string(),
                Some(a) => format!("{}:{}:{}", t[4], a.sample_rate, a.channels),
            };
            format!(
                "{}/{}/{:016x}/{}/{}/{}",
                c.width,
                c.height,
                c.framerate.to_bits(),
                a,
                if c.fast_start { 1 } else { 0 },
                if c.metadata.is_some() { 1 } else { 0 }
            )
        }
        "plain_ctors" => {
            // public constructors / accessors of the plain configuration records
            let a = h264::AvcConfig::new(arg(1).to_vec(), arg(2).to_vec());
            let b2 = h265::HevcConfig::new(arg(2).to_vec(), arg(1).to_vec(), arg(2).to_vec());
            let v = validation::ValidationResult::invalid(vec!["e".to_string()]);
            let _ = format!("{:?} {:?} {:?}", a.clone(), b2.clone(), v.clone().with_message("m".into()));
            format!(
                "{}/{}/{}/{}/{}/{}/{}/{}/{}/{}",
                hex(&a.sps),
                hex(&b2.pps),
                if v.is_valid { 1 } else { 0 },
                a.profile_idc(),
                a.profile_compatibility(),
                a.level_idc(),
                b2.general_profile_space(),
                if b2.general_tier_flag() { 1 } else { 0 },
                b2.general_profile_idc(),
                b2.general_level_idc()
            )
        }
        "metadata_now" => {
            // reads the wall clock by design; only "a time after 2020 was stored" is observed
            let m = muxide::api::Metadata::new().with_current_time();
            match m.creation_time {
                Some(x) if x > 1_577_836_800 => "some".into(),
                _ => "none".into(),
            }
        }
        "error_display" => {
            // Display/Debug of every public error variant with extreme field values (C12)
            use muxide::api::MuxerError as E;
            let x = f64::from_bits(u64::from_str_radix(t[1], 16).unwrap());
            let n = x.to_bits();
            let es = vec![
                E::MissingVideoConfig,
                E::AlreadyFinished,
                E::NegativeVideoPts { pts: x, frame_index: n },
                E::NegativeVideoDts { dts: x, frame_index: n },
                E::InvalidVideoPts { pts: x, frame_index: n },
                E::InvalidVideoDts { dts: x, frame_index: n },
                E::NegativeAudioPts { pts: x, frame_index: n },
                E::InvalidAudioPts { pts: x, frame_index: n },
                E::AudioNotConfigured,
                E::EmptyAudioFrame { frame_index: n },
                E::EmptyVideoFrame { frame_index: n },
                E::NonIncreasingVideoPts { prev_pts: x, curr_pts: -x, frame_index: n },
                E::DecreasingAudioPts { prev_pts: x, curr_pts: -x, frame_index: n },
                E::AudioBeforeFirstVideo { audio_pts: x, first_video_pts: Some(x) },
                E::AudioBeforeFirstVideo { audio_pts: x, first_video_pts: None },
                E::FirstVideoFrameMustBeKeyframe,
                E::FirstVideoFrameMissingSpsPps,
                E::FirstAv1FrameMissingSequenceHeader,
                E::FirstVp9FrameMissingSequenceHeader,
                E::InvalidAdts { frame_index: n },
                E::InvalidOpusPacket { frame_index: n },
                E::NonIncreasingDts { prev_dts: x, curr_dts: -x, frame_index: n },
                E::from(std::io::Error::new(std::io::ErrorKind::Other, "x")),
            ];
            let mut total = 0usize;
            for e in &es {
                total += format!("{} {:?}", e, e).len();
                let _ = std::error::Error::source(e);
            }
            use muxide::codec::vp9::Vp9Error as V;
            for e in [V::FrameTooShort, V::InvalidFrameMarker, V::UnsupportedProfile(n as u8), V::InvalidBitDepth(n as u8), V::ParseError("p".into())] {
                total += format!("{} {:?}", e, e).len();
            }
            if total > 0 { "ok".into() } else { "empty".into() }
        }
        "vcodec_str" => {
            let s = String::from_utf8(unhex(t[1])).unwrap_or_default();
            match s.parse::<VideoCodec>() {
                Ok(c) => format!("{}", c).replace(' ', "_"),
                Err(_) => "err".into(),
            }
        }
        "acodec_str" => {
            let s = String::from_utf8(unhex(t[1])).unwrap_or_default();
            match s.parse::<AudioCodec>() {
                Ok(c) => format!("{}", c).replace(' ', "_"),
                Err(_) => "err".into(),
            }
        }
        _ => "badfn".into(),
    }
}
