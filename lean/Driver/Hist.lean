import Driver.Judge
import Muxide.Spec.Expect
import Muxide.Spec.Contract
/-
  Driver.Hist — oracles and projections for the properties that read a finished progressive
  file back: C01, C02, C03, C06, C08, C09, C15, C16, C18.
-/
namespace Driver
open Muxide Muxide.Spec

structure VF where
  pts : F64
  dts : F64
  tp : Nat
  td : Nat
  data : Bytes
  key : Bool

structure AF where
  pts : F64
  tp : Nat
  data : Bytes

/-- accepted video frames in submission order (from the replies of the run being judged) -/
def accV (ops : List (List String)) (o : PObs) : List VF :=
  (List.zip ops o.replies).filterMap fun (op, r) =>
    if !opAccepted r then none else
    match op with
    | ["wv", p, d, k] => let x := f64Tok p; some ⟨x, x, x.ticks, x.ticks, unhex d, k == "1"⟩
    | ["wvd", p, t, d, k] => let x := f64Tok p; let y := f64Tok t; some ⟨x, y, x.ticks, y.ticks, unhex d, k == "1"⟩
    | _ => none

def accA (ops : List (List String)) (o : PObs) : List AF :=
  (List.zip ops o.replies).filterMap fun (op, r) =>
    if !opAccepted r then none else
    match op with
    | ["wa", p, d] => let x := f64Tok p; some ⟨x, x.ticks, unhex d⟩
    | _ => none

/-- key-frame detection of the convenience form `encode_video`, read off the property's vocabulary:
    an IDR unit (H.264 type 5, H.265 types 19..21), the first video frame (AV1), a VP9 key frame header -/
def autoKeyOf (codec : VCodec) (firstVideo : Bool) (d : Bytes) : Bool :=
  match codec with
  | .h264 => (nalTypesH264 d).contains 5
  | .h265 => (nalTypesH265 d).any fun t => 19 ≤ t && t ≤ 21
  | .av1 => firstVideo
  | .vp9 => (match isVp9Keyframe d with | .ok b => b | _ => false)

/-- the history with the convenience calls written out as explicit-timestamp calls, for the oracles:
    `encode_video(data, ms)` is `write_video(clock_v, data, detected key flag)` and advances `clock_v` by
    `ms / 1000` when it was accepted; `encode_audio(data, n)` is `write_audio(clock_a, data)` and advances
    `clock_a` by `n / sample_rate` when it was accepted (f64 arithmetic).  Replies stay aligned 1:1. -/
def explicitOps (c : PCase) (o : PObs) : List (List String) :=
  let rate := (c.cfg.audio.map (·.sampleRate)).getD 0
  let step (acc : List (List String) × F64 × F64 × Bool) (x : List String × Option (PR × Nat)) :=
    let (out, cv, ca, seenV) := acc
    let (op, r?) := x
    let accepted := match r? with | some r => opAccepted r | none => false
    match op with
    | ["ev", d, ms] =>
      let key := autoKeyOf c.cfg.codec (!seenV) (unhex d)
      (out ++ [["wv", hex16 cv.toBits, d, if key then "1" else "0"]],
       (if accepted then F64.add cv (F64.div (F64.ofNat ms.toNat!) (F64.ofNat 1000)) else cv), ca, seenV || accepted)
    | ["ea", d, n] =>
      (out ++ [["wa", hex16 ca.toBits, d]], cv,
       (if accepted then F64.add ca (F64.div (F64.ofNat n.toNat!) (F64.ofNat rate)) else ca), seenV)
    | ["wv", _, _, _] => (out ++ [op], cv, ca, seenV || accepted)
    | ["wvd", _, _, _, _] => (out ++ [op], cv, ca, seenV || accepted)
    | _ => (out ++ [op], cv, ca, seenV)
  let rs : List (Option (PR × Nat)) := (List.range c.ops.length).map fun i => o.replies[i]?
  ((List.zip c.ops rs).foldl step ([], F64.zero, F64.zero, false)).1

def isAnnexB (c : PCase) : Bool := c.cfg.codec == .h264 || c.cfg.codec == .h265
def isAdts (c : PCase) : Bool := match c.cfg.audio with | some a => (match a.codec with | .aac _ => true | _ => false) | none => false
def audioConfigured (c : PCase) : Bool := match c.cfg.audio with | some a => a.codec != .none | none => false

def finishOkOps (ops : List (List String)) (o : PObs) : Bool :=
  (List.zip ops o.replies).any fun (op, r) => isFinishOp op && isFinishOk r.1

/-! ### C01 -/
/-- all ranges (both tracks) tile the mdat payload exactly: sorted by offset they are contiguous
    from the payload start to its end -/
def tiles (ranges : List (Nat × Nat)) (start len : Nat) : Bool :=
  let sorted := ranges.mergeSort (fun a b => a.1 ≤ b.1)
  let rec go : List (Nat × Nat) → Nat → Bool
    | [], cur => cur == start + len
    | (o, s) :: r, cur => o == cur && s > 0 && go r (cur + s)
  go sorted start

def oracleC01 (c : PCase) (ops : List (List String)) (o : PObs) : Bool :=
  if !finishOkOps ops o then true else
  match parseMovie o.file with
  | none => false
  | some m =>
    let vs := accV ops o
    let aus := accA ops o
    match videoTrack? m with
    | none => false
    | some vt =>
      let vsamples := vt.samples o.file
      let vok := vsamples.map (fun s => (s.1, s.2.1)) == vs.map (fun f => (mp4PayloadFast (isAnnexB c) f.data, f.key))
      let (aok, aranges) := match audioTrack? m with
        | none => (aus.isEmpty && !audioConfigured c, [])
        | some at_ => ((at_.samples o.file).map (·.1) == aus.map (fun f => audioPayload (isAdts c) f.data), at_.ranges)
      let ranges := vt.ranges ++ aranges
      let tok := match mdatRange m.top with
        | none => ranges.isEmpty
        | some (st, len) => tiles ranges st len
      vok && aok && tok

def projSamples (file : Bytes) : String :=
  match parseMovie file with
  | none => "unreadable"
  | some m =>
    let tr (t : Option Track) : String := match t with
      | none => "-"
      | some t => ",".intercalate ((t.samples file).map fun (b, k, o, s) => s!"{hex b}:{b01 k}:{o}:{s}")
    let md := match mdatRange m.top with | some (a, b) => s!"{a}+{b}" | none => "nomdat"
    s!"V[{tr (videoTrack? m)}] A[{tr (audioTrack? m)}] {md}"

def acceptPattern (o : PObs) : String := "".intercalate (o.replies.map fun r => b01 (opAccepted r || isFinishOk r.1))

/-- does any accepted video frame have pts ≠ dts on the media clock -/
def reordered (vs : List VF) : Bool := vs.any fun f => f.tp != f.td

/-! ### C02 (progressive part) -/
def tableCounts (t : Track) : Bool :=
  let n := t.sizes.length
  let sttsN := (t.stts.map (·.1)).sum
  let cttsOk := match t.ctts with | none => true | some es => (es.map (·.1)).sum == n
  let stssOk := match t.stss with
    | none => true
    | some ks => ks.all (fun k => 1 ≤ k && k ≤ n) && (List.zip ks (ks.drop 1)).all (fun (a, b) => a < b)
  -- every chunk holds ≥ 1 sample and the chunks account for exactly n samples
  let perChunk := (List.range t.stco.length).map fun i => spcOfChunk t.stsc (i + 1)
  let chunksOk := perChunk.all (· > 0) && perChunk.sum == n && t.ranges.length == n
  sttsN == n && cttsOk && stssOk && chunksOk

def oracleC02P (c : PCase) (ops : List (List String)) (o : PObs) : Bool :=
  if !finishOkOps ops o then true else
  match parseMovie o.file with
  | none => false
  | some m =>
    let types := m.top.map (·.typ)
    let topOk := types.head? == some (tag "ftyp") && (types.filter (· == tag "moov")).length == 1 &&
      (types.filter (· == tag "mdat")).length ≤ 1 && types.all (fun t => t == tag "ftyp" || t == tag "moov" || t == tag "mdat")
    let nTracks := 1 + (if audioConfigured c then 1 else 0)
    let moovOk := (children "mvhd" m.moov.kids).length == 1 && m.tracks.length == nTracks &&
      (children "trak" m.moov.kids).length == nTracks
    let trackOk (t : Track) : Bool :=
      tableCounts t &&
      (if hdlrType t == tag "vide" then t.mediaHeaderType == tag "vmhd" else t.mediaHeaderType == tag "smhd") &&
      t.stblTypes.head? == some (tag "stsd") && t.stsd.kids.length == 1
    topOk && moovOk && m.tracks.all trackOk &&
      (videoTrack? m).isSome && ((audioTrack? m).isSome == audioConfigured c)

def showTree : Box → String
  | .mk t p ks => hex t ++ ":" ++ toString p.length ++ "[" ++ showTrees ks ++ "]"
where showTrees : List Box → String
  | [] => ""
  | b :: bs => showTree b ++ showTrees bs

def projTree (file : Bytes) : String :=
  match parseFileTree file with
  | none => "unreadable"
  | some top => showTree.showTrees top

/-! ### C03 -/
def expectedDurations (ts : List Nat) : Option (List Nat) :=
  match ts with
  | [] => some []
  | [_] => none            -- a lone sample's duration is not specified by the property
  | _ =>
    let ds := (List.zip ts (ts.drop 1)).map fun (a, b) => b - a
    some (ds ++ [ds.getLastD 0])

def mdhdDuration (t : Track) : Nat := match readU32 (t.mdhd.drop 16) with | some (d, _) => d | none => 0
def mdhdTimescale (t : Track) : Nat := match readU32 (t.mdhd.drop 12) with | some (d, _) => d | none => 0
def mdhdLang (t : Track) : Nat := match readU16 (t.mdhd.drop 20) with | some (d, _) => d | none => 0

def oracleC03 (c : PCase) (ops : List (List String)) (o : PObs) : Bool :=
  if !finishOkOps ops o then true else
  match parseMovie o.file with
  | none => false
  | some m =>
    let vs := accV ops o
    let aus := accA ops o
    let trackOk (t : Option Track) (ts : List Nat) (ctos : Option (List Int)) : Bool :=
      match t with
      | none => ts.isEmpty
      | some t =>
        let durs := expandRuns t.stts
        let dOk := match expectedDurations ts with
          | some e => durs == e
          | none => durs.length == 1
        let sumOk := mdhdDuration t == durs.sum
        let cOk := match ctos with
          | none => true
          | some cs =>
            if cs.all (· == 0) then t.ctts.isNone
            else match t.ctts with
              | none => false
              | some es => expandRuns es == cs
        dOk && sumOk && cOk
    trackOk (videoTrack? m) (vs.map (·.td)) (some (vs.map fun f => (f.tp : Int) - (f.td : Int))) &&
    (if audioConfigured c then trackOk (audioTrack? m) (aus.map (·.tp)) none else true)

def projTiming (file : Bytes) : String :=
  match parseMovie file with
  | none => "unreadable"
  | some m =>
    let tr (t : Option Track) : String := match t with
      | none => "-"
      | some t => s!"stts={expandRuns t.stts} ctts={(t.ctts.map expandRuns)} mdhd={mdhdDuration t}"
    s!"V[{tr (videoTrack? m)}] A[{tr (audioTrack? m)}]"

/-! ### C15 -/
def oracleC15 (c : PCase) (ops : List (List String)) (o : PObs) : Bool :=
  if !finishOkOps ops o || !audioConfigured c then true else
  match parseMovie o.file with
  | none => false
  | some m =>
    let vs := accV ops o
    let aus := accA ops o
    let voffs := ((videoTrack? m).map (·.ranges)).getD [] |>.map (·.1)
    let aoffs := ((audioTrack? m).map (·.ranges)).getD [] |>.map (·.1)
    let incr (l : List Nat) : Bool := (List.zip l (l.drop 1)).all fun (a, b) => a < b
    -- "stored in sample order": the k-th table entry of a track addresses the k-th accepted frame's
    -- bytes (otherwise increasing offsets say nothing about where the samples are stored) …
    let stored :=
      ((videoTrack? m).map fun vt => (vt.samples o.file).map (·.1) == vs.map (fun f => mp4PayloadFast (isAnnexB c) f.data)).getD vs.isEmpty &&
      ((audioTrack? m).map fun at_ => (at_.samples o.file).map (·.1) == aus.map (fun f => audioPayload (isAdts c) f.data)).getD aus.isEmpty
    -- … at increasing positions
    let perTrack := stored && incr voffs && incr aoffs && voffs.length == vs.length && aoffs.length == aus.length
    let merged :=
      if reordered vs then true else
      -- storage order = merge by (timestamp, video first)
      let ents := (List.zip voffs (vs.map (·.tp))).map (fun (o, t) => (o, t, 0)) ++
                  (List.zip aoffs (aus.map (·.tp))).map (fun (o, t) => (o, t, 1))
      let sorted := ents.mergeSort (fun a b => a.1 ≤ b.1)
      (List.zip sorted (sorted.drop 1)).all fun (a, b) => a.2.1 < b.2.1 || (a.2.1 == b.2.1 && a.2.2 ≤ b.2.2)
    perTrack && merged

def projOffsets (file : Bytes) : String :=
  match parseMovie file with
  | none => "unreadable"
  | some m =>
    let f (t : Option Track) := ((t.map (·.ranges)).getD []).map (·.1)
    s!"V{f (videoTrack? m)} A{f (audioTrack? m)}"

/-! ### C18 -/
def udtaItems (m : Movie) : Option (List (Bytes × Bytes)) :=
  match m.udta with
  | none => some []
  | some u =>
    match path? ["meta", "ilst"] u.kids with
    | none => none
    | some ilst => some (ilst.kids.map fun it => (it.typ, ((it.kids.head?.map (·.pre)).getD [])))

def stringBytes (s : String) : Bytes := s.toUTF8.toList

def digitsVal (d : Bytes) : Option Nat :=
  if d ≠ [] ∧ d.all (fun b => 48 ≤ b.toNat ∧ b.toNat ≤ 57) then some (d.foldl (fun a b => a * 10 + (b.toNat - 48)) 0) else none

/-- the text is `Y…Y-MM-DDThh:mm:ssZ` (year at least 4 digits, zero padded) and denotes the Unix
    second `secs` in the proleptic Gregorian calendar *defined by* `daysFromCivil` (evaluated through its
    closed form `daysFromCivilClosed`, equal to it by `C18_daysFromCivil_closed`) -/
def isoDenotes (txt : Bytes) (secs : Nat) : Bool :=
  let n := txt.length
  if n < 20 then false else
  let ylen := n - 16
  let y := digitsVal (txt.take ylen)
  let r := txt.drop ylen
  let sep (i : Nat) (c : Nat) : Bool := (r[i]?.map (·.toNat)) == some c
  let fld (i : Nat) : Option Nat := digitsVal ((r.drop i).take 2)
  match y, fld 1, fld 4, fld 7, fld 10, fld 13 with
  | some y, some mo, some d, some hh, some mi, some ss =>
    sep 0 45 && sep 3 45 && sep 6 84 && sep 9 58 && sep 12 58 && sep 15 90 &&
    (ylen == 4 || (txt.headD 0).toNat != 48) &&
    validCivil y mo d && hh < 24 && mi < 60 && ss < 60 &&
    daysFromCivilClosed y mo d * 86400 + hh * 3600 + mi * 60 + ss == secs   -- = daysFromCivil: validCivil gives y ≥ 1970
  | _, _, _, _, _, _ => false

def isLowerCode (l : List Nat) : Bool := l.length == 3 && l.all fun c => 97 ≤ c && c ≤ 122

def oracleC18 (c : PCase) (ops : List (List String)) (o : PObs) : Bool :=
  if !finishOkOps ops o then true else
  match parseMovie o.file with
  | none => false
  | some m =>
    let md := c.cfg.md.getD {}
    let itemsOk := match udtaItems m with
      | none => false
      | some items =>
        let nam := items.filter (·.1 == namType)
        let day := items.filter (·.1 == dayType)
        let titleOk := match md.title with
          | some t => nam.length == 1 && nam.all (fun it => it.2 == [0, 0, 0, 1, 0, 0, 0, 0] ++ t)
          | none => nam.isEmpty
        let dayOk := match md.ctime with
          | some s => day.length == 1 && day.all (fun it => it.2.take 8 == [0, 0, 0, 1, 0, 0, 0, 0] && isoDenotes (it.2.drop 8) s)
          | none => day.isEmpty
        titleOk && dayOk && items.length == nam.length + day.length
    let noUdta := if md.title.isNone && md.ctime.isNone then m.udta.isNone else m.udta.isSome
    let langOk := m.tracks.all fun t =>
      match md.language with
      | none => unpackLang (mdhdLang t) == [117, 110, 100]
      | some l => if isLowerCode l then unpackLang (mdhdLang t) == l else true
    itemsOk && noUdta && langOk

def projMeta (file : Bytes) : String :=
  match parseMovie file with
  | none => "unreadable"
  | some m =>
    let u := match m.udta with | some u => showTree u ++ hex (Box.ser u) | none => "noudta"
    s!"{u} lang={m.tracks.map mdhdLang}"

/-- everything a movie says except chunk offsets, top-level order, udta and language -/
def movieOf (file : Bytes) (dropMeta : Bool) : String :=
  match parseMovie file with
  | none => "unreadable"
  | some m =>
    let tr (t : Track) : String :=
      let mdhd := if dropMeta then t.mdhd.take 20 ++ t.mdhd.drop 22 else t.mdhd
      s!"tkhd={hex t.tkhd} mdhd={hex mdhd} hdlr={hex t.hdlr} stsd={hex t.stsd.ser} stts={t.stts} ctts={t.ctts} " ++
      s!"sizes={t.sizes} stss={t.stss} samples={(t.samples file).map (fun s => hex s.1)} elst={t.elst.map hex}"
    let u := if dropMeta then "" else match m.udta with | some u => hex u.ser | none => "noudta"
    s!"mvhd={hex m.mvhd} tracks={m.tracks.map tr} {u}"

/-! ### C06 -/
/-- |x·90000 − n| ≤ 1 for the finite non-negative double `x`, exactly -/
def oracleC06 (c : PCase) (ops : List (List String)) (o : PObs) : Bool :=
  let zr := List.zip ops o.replies
  -- index of the first successful finish
  let firstFin := (List.range zr.length).find? fun i =>
    match zr[i]? with | some (op, r) => isFinishOp op && isFinishOk r.1 | none => false
  let silentBefore := (List.range zr.length).all fun i =>
    match zr[i]? with
    | some (op, r) => if isFinishOp op then true else r.2 == 0
    | none => true
  match firstFin with
  | none =>
    -- no successful finish: only finish attempts may have written
    silentBefore
  | some i =>
    let before := (zr.take i).all fun (_, r) => r.2 == 0
    let after := (zr.drop (i + 1)).all fun (_, r) => r.2 == 0 && !(opAccepted r || isFinishOk r.1)
    let vs := accV (ops.take i) { o with replies := o.replies.take i }
    let aus := accA (ops.take i) { o with replies := o.replies.take i }
    let statsOk := match zr[i]? with
      | some (_, (.stats v a d b, n)) =>
        -- expected largest presentation end over all accepted samples
        let vdur := (expectedDurations (vs.map (·.td))).getD (vs.map fun _ => 0)
        let adur := (expectedDurations (aus.map (·.tp))).getD (aus.map fun _ => 0)
        let ends := (List.zip vs vdur).map (fun (f, d) => f.tp + d) ++ (List.zip aus adur).map (fun (f, d) => f.tp + d)
        let maxEnd := ends.foldl max 0
        v == vs.length && a == aus.length && b == o.file.length && n == o.file.length &&
          within1Tick (F64.ofBits d) maxEnd
      | some (_, (.ok, n)) => n == o.file.length
      | _ => false
    let _ := c
    -- "a successful finish writes the complete file": what the sink holds is one well-formed file
    -- (top-level boxes tile it exactly) with its ftyp and moov, whatever the sink did with the writes
    let complete := match parseFileTree o.file with
      | some top => (child? "ftyp" top).isSome && (child? "moov" top).isSome
      | none => false
    before && after && statsOk && complete

def projC06 (o : PObs) : String :=
  " ".intercalate (o.replies.map fun (r, n) =>
    (match r with | .stats v a d b => s!"stats:{v}:{a}:{hex16 d}:{b}" | .ok => "ok" | .err .. => "err" | .panic => "panic" | .other s => s) ++ s!"+{n}")

/-! ### C09 -/
/-- presentation time (in media ticks) of sample k of a track, honouring a leading edit list:
    empty edits delay the track (movie timescale 1000 → ×90), the first media edit starts at media_time -/
def elstShift (t : Track) : Int :=
  match t.elst with
  | none => 0
  | some p =>
    match fullBox p with
    | none => 0
    | some (_, _, r) =>
      match readU32 r with
      | none => 0
      | some (n, r) =>
        match readTriples n r with
        | none => 0
        | some (es, _) =>
          -- entries (segment_duration, media_time, rate)
          es.foldl (fun (acc : Int × Bool) (sd, mt, _) =>
            if acc.2 then acc
            else if mt == 0xFFFFFFFF then (acc.1 + (sd : Int) * 90, false)
            else (acc.1 - (toI32 mt), true)) (0, false) |>.1

def presentationTimes (t : Track) : List Int :=
  let durs := expandRuns t.stts
  let ctos : List Int := match t.ctts with | some es => expandRuns es | none => durs.map fun _ => 0
  let dts := (durs.foldl (fun (acc : List Nat × Nat) d => (acc.1 ++ [acc.2], acc.2 + d)) ([], 0)).1
  (List.zip dts ctos).map fun (d, c) => (d : Int) + c + elstShift t

def oracleC09 (c : PCase) (ops : List (List String)) (o : PObs) : Bool :=
  if !finishOkOps ops o || !audioConfigured c then true else
  match parseMovie o.file with
  | none => false
  | some m =>
    let vs := accV ops o
    let aus := accA ops o
    match videoTrack? m, audioTrack? m, vs.head? with
    | some vt, some at_, some v0 =>
      let vp0 := (presentationTimes vt).headD 0
      let aps := presentationTimes at_
      aps.length == aus.length &&
      (List.zip aps aus).all fun (ap, f) =>
        let got := ap - vp0
        let want := (f.tp : Int) - (v0.tp : Int)
        (got - want).natAbs ≤ 1
    | _, _, _ => aus.isEmpty

def projC09 (file : Bytes) : String :=
  match parseMovie file with
  | none => "unreadable"
  | some m => s!"{m.tracks.map presentationTimes}"

end Driver
