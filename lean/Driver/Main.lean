import Driver.Dispatch
open Driver

def splitCase (line : String) : String × String × String :=
  match (trim line).splitOn " " with
  | k :: id :: rest => (k, id, " ".intercalate rest)
  | [k] => (k, "", "")
  | [] => ("", "", "")

def modelLine (line : String) : String :=
  let (k, id, rest) := splitCase line
  let body := match k with
    | "P" =>
      let c := parsePCase id rest
      let o := runP c
      (match runPTwin c o with
       | some o2 => o.show ++ " || " ++ o2.show
       | none => o.show)
    | "F" => let c := parseFCase id rest; showF c (runF c)
    | "X" => runX (toks rest)
    | "L" => "cli"
    | _ => "badcase"
  s!"{id} {body}"

def readLines (p : String) : IO (Array String) := do
  let s ← IO.FS.readFile p
  return ((s.splitOn "\n").filter (fun l => l.trimAscii.toString ≠ "" ∧ !l.startsWith "#")).toArray

def main (args : List String) : IO UInt32 := do
  let out ← IO.getStdout
  match args with
  | ["model", cases] =>
    for l in (← readLines cases) do
      out.putStrLn (modelLine l)
    return 0
  | ["judge", prop, cases, implPath] =>
    let cs ← readLines cases
    let im ← readLines implPath
    for i in [0:cs.size] do
      let (k, id, rest) := splitCase cs[i]!
      let implLine := if i < im.size then im[i]! else s!"{id} missing"
      let (iid, ibody) := match (trim implLine).splitOn " " with
        | a :: r => (a, " ".intercalate r)
        | [] => ("", "")
      if iid ≠ id then
        out.putStrLn (Verdict.show id { corr := false, oi := false, om := false, note := "id mismatch " ++ iid })
      else if ibody == "timeout" then
        out.putStrLn (Verdict.show id { corr := false, oi := false, om := true, note := "timeout" })
      else
        out.putStrLn (Verdict.show id (judge prop k id rest ibody))
    return 0
  | _ =>
    IO.eprintln "usage: driver model <cases> | judge <prop> <cases> <impl.out>"
    return 2
