import Muxide.Model.Api
import Muxide.Model.Frag
import Muxide.Model.Builder
import Muxide.Spec.BuilderSpec
/-
  Driver.Proto — the line protocol shared with /verif/harness: parsing of cases, parsing of
  implementation replies, printing of model replies in the same canonical form.
-/
namespace Driver
open Muxide

def hexDigit (c : Char) : Option Nat :=
  if '0' ≤ c ∧ c ≤ '9' then some (c.toNat - '0'.toNat)
  else if 'a' ≤ c ∧ c ≤ 'f' then some (c.toNat - 'a'.toNat + 10)
  else if 'A' ≤ c ∧ c ≤ 'F' then some (c.toNat - 'A'.toNat + 10)
  else none

partial def unhexAux : List Char → List UInt8 → Option Bytes
  | [], acc => some acc.reverse
  | [_], _ => none
  | a :: b :: r, acc =>
    match hexDigit a, hexDigit b with
    | some x, some y => unhexAux r (UInt8.ofNat (x * 16 + y) :: acc)
    | _, _ => none

def unhex (s : String) : Bytes :=
  if s == "-" || s == "~" then [] else (unhexAux s.toList []).getD []

def hexChars : Array Char := "0123456789abcdef".toList.toArray

def hex (b : Bytes) : String :=
  if b.isEmpty then "-" else
  String.ofList (b.foldr (fun x acc => hexChars[x.toNat / 16]! :: hexChars[x.toNat % 16]! :: acc) [])

def hexNat (s : String) : Nat :=
  s.toList.foldl (fun acc c => acc * 16 + (hexDigit c).getD 0) 0

def hex16 (n : Nat) : String :=
  String.ofList ((List.range 16).map fun i => hexChars[n / 16 ^ (15 - i) % 16]!)

def toks (s : String) : List String := (s.splitOn " ").filter (· ≠ "")

def trim (s : String) : String := s.trimAscii.toString

def splitTrim (s : String) (sep : String) : List String := (s.splitOn sep).map trim |>.filter (· ≠ "")

/-- key=value lookup -/
def kv (ts : List String) (k : String) : Option String :=
  ts.findSome? fun t => match t.splitOn "=" with
    | [a, b] => if a == k then some b else none
    | _ => none

/-! ### UTF-8 → scalar values (language codes) -/
partial def utf8Decode : Bytes → List Nat
  | [] => []
  | b :: r =>
    let n := b.toNat
    if n < 0x80 then n :: utf8Decode r
    else if n < 0xE0 then
      match r with
      | c :: r' => ((n % 32) * 64 + c.toNat % 64) :: utf8Decode r'
      | _ => []
    else if n < 0xF0 then
      match r with
      | c :: d :: r' => ((n % 16) * 4096 + (c.toNat % 64) * 64 + d.toNat % 64) :: utf8Decode r'
      | _ => []
    else
      match r with
      | c :: d :: e :: r' => ((n % 8) * 262144 + (c.toNat % 64) * 4096 + (d.toNat % 64) * 64 + e.toNat % 64) :: utf8Decode r'
      | _ => []

/-! ### configuration -/
def parseVCodec : String → VCodec
  | "h265" => .h265 | "av1" => .av1 | "vp9" => .vp9 | _ => .h264

def parseACodec : String → ACodec
  | "aac-lc" => .aac .lc | "aac-main" => .aac .main | "aac-ssr" => .aac .ssr | "aac-ltp" => .aac .ltp
  | "aac-he" => .aac .he | "aac-hev2" => .aac .hev2 | "opus" => .opus | _ => .none

/-- sink policy (offset-indexed) and call script, as in the harness -/
structure Policy where
  failAt : Option (Nat × Nat) := none
  failOnce : Bool := false
  zeroAt : Option Nat := none
  cap : Option Nat := none
  intr : List Nat := []
  script : List Resp := []
deriving Repr

def parsePolicy (s : String) : Policy :=
  if s == "ok" then {} else
  (s.splitOn "+").foldl (fun p part =>
    match part.splitOn ":" with
    | ["failat", k, kind] => { p with failAt := some (k.toNat!, kind.toNat!) }
    | ["failonce", k, kind] => { p with failAt := some (k.toNat!, kind.toNat!), failOnce := true }
    | ["zeroat", k] => { p with zeroAt := some k.toNat! }
    | ["cap", c] => { p with cap := some c.toNat! }
    | ["intr", l] => { p with intr := ((l.splitOn ",").filter (· ≠ "")).map (·.toNat!) }
    | ["script", l] => { p with script := ((l.splitOn ",").filter (· ≠ "")).map fun x =>
        let c := x.take 1 |>.toString
        let r := (x.drop 1).toString
        if c == "a" then Resp.accept r.toNat! else if c == "i" then Resp.interrupted
        else if c == "f" then Resp.fail r.toNat! else Resp.accept 0 }
    | _ => p) {}

/-- no fault, no cap, no interruption, no script: every `write` takes the whole buffer -/
def Policy.reliable (p : Policy) : Bool :=
  p.failAt.isNone && p.zeroAt.isNone && p.cap.isNone && p.intr.isEmpty && p.script.isEmpty

structure PSinkState where
  off : Nat := 0
  fired : List Nat := []
  failSpent : Bool := false
  script : List Resp

/-- the harness's `TestSink::write`, as a `Respond` function -/
def policyRespond (p : Policy) : Respond PSinkState := fun st buf =>
  match st.script with
  | r :: rs =>
    let n := match r with | .accept n => min n buf.length | _ => 0
    ({ st with script := rs, off := st.off + n }, r)
  | [] =>
    let off := st.off
    if p.intr.contains off && !st.fired.contains off then ({ st with fired := off :: st.fired }, .interrupted) else
    if (match p.failAt with | some (k, _) => k == off && !(p.failOnce && st.failSpent) | none => false) then
      ({ st with failSpent := true }, .fail ((p.failAt.map (·.2)).getD 0)) else
    if p.zeroAt == some off then (st, .accept 0) else
    let n0 := buf.length
    let n1 := match p.cap with | some c => min n0 (max c 1) | none => n0
    let stop (n : Nat) (q : Nat) : Nat := if q > off ∧ q < off + n then q - off else n
    let n2 := match p.failAt with | some (k, _) => if p.failOnce && st.failSpent then n1 else stop n1 k | none => n1
    let n3 := match p.zeroAt with | some k => stop n2 k | none => n2
    let n4 := (p.intr.filter (fun q => !st.fired.contains q)).foldl stop n3
    ({ st with off := off + n4 }, .accept n4)

structure PCase where
  id : String
  cfgToks : List String
  cfg : Config
  policy : Policy
  novideo : Bool
  twin : String
  ops : List (List String)
  bops : Option (List BOp) := none      -- explicit builder call sequence (`bops=`), oldest first

def parseMetadata (ts : List String) : Option Metadata :=
  if kv ts "md" != some "1" then none else
  let opt (k : String) : Option String := (kv ts k).bind fun v => if v == "~" then none else some v
  some { title := (opt "title").map unhex,
         ctime := (opt "ctime").map (·.toNat!),
         language := (opt "lang").map fun h => utf8Decode (unhex h) }

def parseConfig (ts : List String) : Config :=
  let audio : Option AudioTrack := match kv ts "audio" with
    | none => none
    | some "none" => none
    | some v => match v.splitOn ":" with
      | [c, r, ch] => some ⟨r.toNat!, ch.toNat!, parseACodec c⟩
      | _ => none
  { codec := parseVCodec ((kv ts "codec").getD "h264"),
    width := ((kv ts "w").getD "640").toNat!, height := ((kv ts "h").getD "480").toNat!,
    audio := audio, md := parseMetadata ts, fast := (kv ts "fast").getD "1" == "1" }

def parseVp9Dots (v : String) : Option Vp9Config :=
  match (v.splitOn ".").map (·.toNat!) with
  | [w, h, p, bd, cs, tf, mc, l, fr] => some ⟨w, h, p, bd, cs, tf, mc, l, fr⟩
  | _ => none

/-- one builder call of a `bops=` list (fields separated by ':'; `~` = absent) -/
def parseBOp (t : String) : Option BOp :=
  let optHex (v : String) : Option Bytes := if v == "~" then none else some (unhex v)
  match t.splitOn ":" with
  | ["v", c, w, h] => some (.video (parseVCodec c) w.toNat! h.toNat!)
  | ["sv", c, w, h] => some (.setVideoTrack (parseVCodec c) w.toNat! h.toNat!)
  | ["a", c, r, ch] => some (.audio ⟨r.toNat!, ch.toNat!, parseACodec c⟩)
  | ["sa", c, r, ch] => some (.setAudioTrack ⟨r.toNat!, ch.toNat!, parseACodec c⟩)
  | ["md", t, c, l] => some (.withMetadata { title := optHex t, ctime := (if c == "~" then none else some c.toNat!),
                                               language := (optHex l).map utf8Decode })
  | ["fs", b] => some (.withFastStart (b == "1"))
  | ["sps", x] => some (.withSps (unhex x))
  | ["pps", x] => some (.withPps (unhex x))
  | ["vps", x] => some (.withVps (unhex x))
  | ["av1", x] => some (.withAv1 (unhex x))
  | ["vp9", x] => (parseVp9Dots x).map .withVp9
  | ["ct", t] => some (.setCreateTime t.toNat!)
  | ["lg", l] => some (.setLanguage (utf8Decode (unhex l)))
  | _ => none

def parseBOps (ts : List String) : Option (List BOp) :=
  (kv ts "bops").map fun v => ((v.splitOn ",").filter (· ≠ "")).filterMap parseBOp

def parsePCase (id rest : String) : PCase :=
  let (cfgS, opsS) := match rest.splitOn "|" with
    | [a, b] => (a, b)
    | [a] => (a, "")
    | a :: bs => (a, "|".intercalate bs)
    | [] => ("", "")
  let ts := toks cfgS
  let bops := parseBOps ts
  -- with an explicit builder call sequence the oracles read the configuration off its declarative
  -- meaning (Spec.effectiveConfig), never off the builder model
  let eff := bops.map Spec.effectiveConfig
  { id := id, cfgToks := ts,
    cfg := match eff with | some (some c) => c | _ => parseConfig ts,
    policy := parsePolicy ((kv ts "sink").getD "ok"),
    novideo := match eff with | some none => true | _ => kv ts "novideo" == some "1",
    twin := (kv ts "twin").getD "none",
    ops := (splitTrim opsS ";").map toks, bops := bops }

/-! ### replies of the progressive muxer -/
inductive PR where
  | ok
  | err (variant : String) (idx : String)
  | stats (v a : Nat) (durBits : Nat) (bytes : Nat)
  | panic
  | other (s : String)
deriving Repr, DecidableEq, Inhabited

structure PObs where
  replies : List (PR × Nat)     -- reply and bytes delivered to the sink during the call
  file : Bytes
deriving Repr, Inhabited

def PR.show : PR → String
  | .ok => "ok"
  | .err v i => s!"err:{v}:{i}"
  | .stats v a d b => s!"stats:{v}:{a}:{hex16 d}:{b}"
  | .panic => "panic"
  | .other s => s

def PObs.show (o : PObs) : String :=
  " ; ".intercalate (o.replies.map fun (r, n) => s!"{r.show}+{n}") ++ " | file=" ++ hex o.file

def parsePR (s : String) : PR × Nat :=
  let (body, n) := match s.splitOn "+" with
    | [b, n] => (b, n.toNat!)
    | _ => (s, 0)
  let r := match body.splitOn ":" with
    | ["ok"] => PR.ok
    | ["panic"] => PR.panic
    | ["err", v, i] => PR.err v i
    | ["stats", v, a, d, b] => PR.stats v.toNat! a.toNat! (hexNat d) b.toNat!
    | _ => PR.other body
  (r, n)

def parsePObs (s : String) : PObs :=
  match s.splitOn "| file=" with
  | [rs, f] => { replies := (splitTrim rs ";").map parsePR, file := unhex (trim f) }
  | _ => { replies := [(PR.other s, 0)], file := [] }

def replyPR : Reply → PR
  | .ok => .ok
  | .err e idx => .err e.name (match idx with | some i => toString i | none => "-")
  | .stats s => .stats s.video s.audio s.duration.toBits s.bytes
  | .panic => .panic

def f64Tok (s : String) : F64 := F64.ofBits (hexNat s)

/-- run the model on a progressive case -/
def runPFrom (c : PCase) (start : BuildRes) (ops : List (List String)) : PObs := Id.run do
  let m0 ← match start with
    | .missingVideoConfig => return { replies := [(PR.other "builderr:MissingVideoConfig:-", 0)], file := [] }
    | .io => return { replies := [(PR.other "builderr:Io:-", 0)], file := [] }
    | .ok m => pure m
  let mut m := m0
  let mut sink : Sink PSinkState := { st := { script := c.policy.script } }
  let mut out : Array (PR × Nat) := #[]
  let respond := policyRespond c.policy
  for op in ops do
    let before := sink.got.length
    let mut consumed := false
    let mut reply : Reply := .ok
    match op with
    | ["wv", p, d, k] => let (m', r) := m.writeVideo (f64Tok p) (unhex d) (k == "1"); m := m'; reply := r
    | ["wvd", p, t, d, k] => let (m', r) := m.writeVideoDts (f64Tok p) (f64Tok t) (unhex d) (k == "1"); m := m'; reply := r
    | ["wa", p, d] => let (m', r) := m.writeAudio (f64Tok p) (unhex d); m := m'; reply := r
    | ["ev", d, ms] => let (m', r) := m.encodeVideo (unhex d) ms.toNat!; m := m'; reply := r
    | ["ea", d, n] => let (m', r) := m.encodeAudio (unhex d) n.toNat!; m := m'; reply := r
    | [f] =>
      let withStats := f == "fins" || f == "finishs"
      consumed := f == "finish" || f == "finishs" || f == "flush"
      -- the sink interaction is computed first from the chunk list the model would write
      let (_, out0, _) := m.finishStats deliverAll
      let chunks := if m.finished then [] else out0.chunks
      let fuel := (chunks.map (·.length)).sum + chunks.length + c.policy.script.length + c.policy.intr.length + 4
      -- a reliable sink takes every chunk whole (C13_reliable_sink): one append instead of one per
      -- chunk — `got ++ chunk` per sample is quadratic in the file size on 20000-frame histories
      let total := (chunks.map (·.length)).sum
      let (sink', wr, cnt) :=
        if c.policy.reliable then
          (({ st := { sink.st with off := sink.st.off + total }, got := sink.got ++ chunks.flatten } : Sink PSinkState), Except.ok (), total)
        else writeChunks respond fuel sink chunks 0
      sink := sink'
      let (m', _, r) := if withStats then m.finishStats (fun _ => (wr, cnt)) else m.finish (fun _ => (wr, cnt))
      m := m'; reply := r
    | _ => reply := .panic
    out := out.push (replyPR reply, sink.got.length - before)
    if reply == .panic || consumed then break
  return { replies := out.toList, file := sink.got }

def runPWith (c : PCase) (cfg : Config) (ops : List (List String)) : PObs :=
  runPFrom c (if c.novideo then .missingVideoConfig else match buildChecked cfg with | some m => .ok m | none => .io) ops

/-- the model run: with an explicit builder call sequence the muxer comes from the builder model -/
def runP (c : PCase) : PObs :=
  match c.bops with
  | some b => runPFrom c (Builder.run b).build c.ops
  | none => runPWith c c.cfg c.ops

def isWriteOp (op : List String) : Bool :=
  match op with
  | o :: _ => o == "wv" || o == "wvd" || o == "wa" || o == "ev" || o == "ea"
  | [] => false

def isErrPR : PR → Bool
  | .err .. => true
  | _ => false

/-- ops of the twin run of a `twin=filter` case, given the replies of the first run -/
def filteredOps (ops : List (List String)) (replies : List (PR × Nat)) : List (List String) :=
  (List.zip (List.range ops.length) ops).filterMap fun (i, op) =>
    let rejected := match replies[i]? with | some (r, _) => isErrPR r | none => false
    if rejected && isWriteOp op then none else some op

/-- `twin=filter1`: only the first rejected frame-writing call is removed (a refusal that makes a later call
    be refused as well must not be filtered away together with it) -/
def filteredOps1 (ops : List (List String)) (replies : List (PR × Nat)) : List (List String) :=
  let idx := (List.range ops.length).find? fun i =>
    match ops[i]?, replies[i]? with
    | some op, some (r, _) => isErrPR r && isWriteOp op
    | _, _ => false
  match idx with
  | none => ops
  | some k => (List.zip (List.range ops.length) ops).filterMap fun (i, op) => if i == k then none else some op

/-- the model's twin run (second muxer) for `twin=` cases -/
def runPTwin (c : PCase) (first : PObs) : Option PObs :=
  match c.twin with
  | "fast" => some (runPWith c { c.cfg with fast := !c.cfg.fast } c.ops)
  | "nometa" => some (runPWith c { c.cfg with md := none } c.ops)
  | "nofault" => some (runPWith { c with policy := {} } c.cfg c.ops)
  | "filter" => some (runPWith c c.cfg (filteredOps c.ops first.replies))
  | "filter1" => some (runPWith c c.cfg (filteredOps1 c.ops first.replies))
  | _ => none

/-- parse "obs || obs2" -/
def parsePObs2 (s : String) : PObs × Option PObs :=
  match s.splitOn " || " with
  | [a, b] => (parsePObs a, some (parsePObs b))
  | _ => (parsePObs s, none)

/-! ### fragmented cases -/
structure FCase where
  id : String
  cfgToks : List String
  cfg : Option FragConfig        -- none = builder rejected
  buildErr : String
  ops : List (List String)

def parseVp9Tok (v : String) : Option Vp9Config :=
  match (v.splitOn ":").map (·.toNat!) with
  | [w, h, p, bd, cs, tf, mc, l, fr] => some ⟨w, h, p, bd, cs, tf, mc, l, fr⟩
  | _ => none

def parseFCase (id rest : String) : FCase :=
  let (cfgS, opsS) := match rest.splitOn "|" with
    | [a, b] => (a, b)
    | [a] => (a, "")
    | _ => ("", "")
  let ts := toks cfgS
  let opt (k : String) : Option String := (kv ts k).bind fun v => if v == "~" then none else some v
  let num (k : String) (d : Nat) : Nat := ((kv ts k).map (·.toNat!)).getD d
  let via := (kv ts "via").getD "direct"
  let sps := (opt "sps").map unhex
  let pps := (opt "pps").map unhex
  let vps := (opt "vps").map unhex
  let av1 := (opt "av1").map unhex
  let vp9 := (opt "vp9").bind parseVp9Tok
  let direct : FragConfig := ⟨num "w" 1920, num "h" 1080, num "ts" 90000, num "fd" 2000,
    sps.getD [], pps.getD [], vps, av1, vp9⟩
  let ops := (splitTrim opsS ";").map toks
  if via == "bops" then
    match (Builder.run ((parseBOps ts).getD [])).newWithFragment with
    | .ok c => { id := id, cfgToks := ts, cfg := some c, buildErr := "", ops := ops }
    | .missingVideoConfig => { id := id, cfgToks := ts, cfg := none, buildErr := "builderr:MissingVideoConfig:-", ops := ops }
    | .io => { id := id, cfgToks := ts, cfg := none, buildErr := "builderr:Io:-", ops := ops }
  else if via == "default" then { id := id, cfgToks := ts, cfg := some FragConfig.default, buildErr := "", ops := ops }
  else if via == "builder" then
    -- `MuxerBuilder::new_with_fragment`
    let codec := parseVCodec ((kv ts "codec").getD "h264")
    let mk (s p : Bytes) (v a : Option Bytes) (c : Option Vp9Config) : FragConfig :=
      ⟨num "w" 1920, num "h" 1080, 90000, 2000, s, p, v, a, c⟩
    let r : Option FragConfig := match codec with
      | .h264 => match sps, pps with
        | some s, some p => some (mk s p none none none)
        | _, _ => none
      | .h265 => match vps, sps, pps with
        | some v, some s, some p => some (mk s p (some v) none none)
        | _, _, _ => none
      | .av1 => av1.map fun a => mk [] [] none (some a) none
      | .vp9 => vp9.map fun c => mk [] [] none none (some c)
    { id := id, cfgToks := ts, cfg := r, buildErr := "builderr:Io:-", ops := ops }
  else { id := id, cfgToks := ts, cfg := some direct, buildErr := "", ops := ops }

def FReply.show : FReply → String
  | .ok => "ok" | .errNonMonotonic => "err" | .none => "none" | .seg b => "seg:" ++ hex b
  | .bool b => if b then "b:1" else "b:0" | .num n => s!"n:{n}" | .init b => "init:" ++ hex b
  | .panic => "panic"

def parseFReply (s : String) : FReply :=
  match s.splitOn ":" with
  | ["ok"] => .ok | ["err"] => .errNonMonotonic | ["none"] => .none | ["panic"] => .panic
  | ["seg", h] => .seg (unhex h) | ["b", x] => .bool (x == "1") | ["n", x] => .num x.toNat!
  | ["init", h] => .init (unhex h)
  | _ => .panic

def runF (c : FCase) : List FReply := Id.run do
  match c.cfg with
  | none => return []
  | some cfg =>
    let mut f : Frag := { cfg := cfg }
    let mut out : Array FReply := #[]
    for op in c.ops do
      let mut r : FReply := .panic
      match op with
      | ["fw", p, d, x, s] => let (f', r') := f.write p.toNat! d.toNat! (unhex x) (s == "1"); f := f'; r := r'
      | ["fflush"] => let (f', r') := f.flush; f := f'; r := r'
      | ["fready"] => r := f.ready
      | ["fdur"] => r := f.durMs
      | ["finit"] => let (f', r') := f.init; f := f'; r := r'
      | ["finitfresh"] => r := (({ cfg := cfg } : Frag).init).2
      | _ => r := .panic
      out := out.push r
      if r == .panic then break
    return out.toList

def showF (c : FCase) (rs : List FReply) : String :=
  match c.cfg with
  | none => c.buildErr
  | some _ => " ; ".intercalate (rs.map FReply.show)

end Driver
