import Driver.FragJudge
import Muxide.Spec.Strict
import Muxide.Spec.Contract
import Muxide.Spec.Av1Decode
/- Driver.StrictJudge — C19 (header boxes follow their specifications) and C07 (codec configuration). -/
namespace Driver
open Muxide Muxide.Spec

/-- facets that fail; empty = conformant -/
abbrev Facets := List String

def facet (ok : Bool) (name : String) : Facets := if ok then [] else [name]

def trackHeaderFacets (pfx : String) (t : Track) (isVideo : Bool) (w h : Nat) (mediaTs : Nat) : Facets :=
  (match strictTkhd t.tkhd with
   | none => [pfx ++ "tkhd-layout"]
   | some k =>
     facet (k.flags % 2 = 1) (pfx ++ "tkhd-not-enabled") ++
     facet (k.trackId ≠ 0) (pfx ++ "tkhd-id") ++
     facet (if isVideo then k.width = w * 65536 ∧ k.height = h * 65536 ∧ k.volume = 0 else k.volume = 0x0100 ∧ k.width = 0 ∧ k.height = 0) (pfx ++ "tkhd-dims")) ++
  (match strictMdhd t.mdhd with
   | none => [pfx ++ "mdhd-layout"]
   | some m => facet (m.timescale = mediaTs) (pfx ++ "mdhd-timescale")) ++
  (match strictHdlr t.hdlr with
   | none => [pfx ++ "hdlr-layout"]
   | some ht => facet (ht = (if isVideo then tag "vide" else tag "soun")) (pfx ++ "hdlr-type"))

def trakBoxes (m : Movie) : List Box := children "trak" m.moov.kids

def minfOf (trak : Box) : Option Box := path? ["mdia", "minf"] trak.kids

def mediaHeaderFacets (pfx : String) (trak : Box) (isVideo : Bool) : Facets :=
  match minfOf trak with
  | none => [pfx ++ "minf"]
  | some minf =>
    (if isVideo then
      match child? "vmhd" minf.kids with
      | some b => facet (strictVmhd b.pre) (pfx ++ "vmhd")
      | none => [pfx ++ "vmhd-missing"]
     else
      match child? "smhd" minf.kids with
      | some b => facet (strictSmhd b.pre) (pfx ++ "smhd")
      | none => [pfx ++ "smhd-missing"]) ++
    (match child? "dinf" minf.kids with
     | some b => facet (strictDinf b) (pfx ++ "dinf")
     | none => [pfx ++ "dinf-missing"])

/-- four-character code expected for a codec -/
def entryTag : VCodec → Bytes
  | .h264 => tag "avc1" | .h265 => tag "hvc1" | .av1 => tag "av01" | .vp9 => tag "vp09"

/-- AV1-ISOBMFF 2.3.3: the fields of the configuration record "shall be equal" to those of the Sequence
    Header OBU the record itself carries in configOBUs — a constraint on the record alone (which
    stream it came from is C07's business). The chroma-sample-position of monochrome streams is left
    to C07 (known finding av1C-csp). -/
def av1CSelfConsistent (a : Av1C) : Facets :=
  match (obus a.obus).find? (·.1.obuType = 1) with
  | none => facet a.obus.isEmpty "av1C-vs-configOBUs"
  | some (info, obu) =>
    match Spec.Av1.certifiedSeqHdr (bitsOf (obu.drop info.headerSize)) with
    | none => []
    | some h =>
      let (p, l, ti, cc) := h.fields
      -- monochrome headers are a recorded deviation of the library's parser (it reads two bits of
      -- chroma_sample_position the syntax does not contain: known finding av1C-csp); they get their own facet
      facet (a.profile = p ∧ a.level = l ∧ a.tier = ti ∧ a.highBitdepth = cc.highBitdepth ∧ a.twelveBit = cc.twelveBit ∧
        a.mono = cc.monochrome ∧ a.subX = cc.subX ∧ a.subY = cc.subY)
        (if h.monochrome then "av1C-vs-configOBUs-mono" else "av1C-vs-configOBUs")

def videoEntryFacets (pfx : String) (t : Track) (codecTag : Bytes) (w h : Nat) : Facets :=
  facet (t.stsd.pre == u32be 0 ++ u32be 1) (pfx ++ "stsd-header") ++
  (match t.stsd.kids with
   | [e] =>
     facet (e.typ == codecTag) (pfx ++ "entry-type") ++
     (match strictVisualEntry e.pre with
      | none => [pfx ++ "visual-entry-layout"]
      | some v => facet (v.width = w ∧ v.height = h) (pfx ++ "entry-dims")) ++
     (match e.kids with
      | [cfg] =>
        if cfg.typ == tag "avcC" then facet (strictAvcC cfg.pre).isSome (pfx ++ "avcC")
        else if cfg.typ == tag "hvcC" then facet (strictHvcC cfg.pre).isSome (pfx ++ "hvcC")
        else if cfg.typ == tag "av1C" then
          (match strictAv1C cfg.pre with
           | none => [pfx ++ "av1C"]
           | some a => (av1CSelfConsistent a).map (pfx ++ ·))
        else if cfg.typ == tag "vpcC" then facet (strictVpcC cfg.pre).isSome (pfx ++ "vpcC")
        else [pfx ++ "config-type"]
      | _ => [pfx ++ "config-count"])
   | _ => [pfx ++ "stsd-entries"])

def audioEntryFacets (t : Track) (a : AudioTrack) : Facets :=
  facet (t.stsd.pre == u32be 0 ++ u32be 1) "a-stsd-header" ++
  (match t.stsd.kids with
   | [e] =>
     let isOpus := a.codec == .opus
     facet (e.typ == (if isOpus then tag "Opus" else tag "mp4a")) "a-entry-type" ++
     (match strictAudioEntry e.pre with
      | none => ["audio-entry-layout"]
      | some ae =>
        facet (ae.channels = a.channels ∧ ae.sampleSize = 16) "audio-entry-channels" ++
        facet (ae.rate = (if isOpus then 48000 else a.sampleRate) * 65536) "audio-entry-rate") ++
     (match e.kids with
      | [cfg] =>
        if isOpus then
          (match strictDOps cfg.pre with
           | none => ["dOps-layout"]
           | some d => facet (cfg.typ == tag "dOps" ∧ d.channels = a.channels ∧ d.preSkip = 312 ∧ d.inputRate = 48000 ∧ d.gain = 0 ∧
                         (if a.channels ≤ 2 then d.family = 0 else d.family ≠ 0)) "dOps-fields")
        else
          (match strictEsds cfg.pre with
           | none => ["esds-layout"]
           | some es =>
             facet (cfg.typ == tag "esds" ∧ es.objectType = 0x40 ∧ es.streamType = 0x15) "esds-fields" ++
             (match decodeAsc es.asc with
              | none => ["asc-layout"]
              | some (aot, sfi, ch) =>
                -- claimed only for the 13 standard rates and 1..7 channels
                if ascRates.contains a.sampleRate ∧ 1 ≤ a.channels ∧ a.channels ≤ 7 then
                  facet (aot = 2 ∧ ascRates[sfi]? = some a.sampleRate ∧ ch = a.channels) "asc-fields"
                else []))
      | _ => ["a-config-count"])
   | _ => ["a-stsd-entries"])

def movieHeaderFacets (m : Movie) (movieTs : Nat) : Facets :=
  match strictMvhd m.mvhd with
  | none => ["mvhd-layout"]
  | some mv =>
    let ids := m.tracks.filterMap fun t => (strictTkhd t.tkhd).map (·.trackId)
    let rawIds := m.tracks.map fun t => be t.tkhd 12 4
    facet (mv.timescale = movieTs) "mvhd-timescale" ++
    facet (rawIds.all (fun i => i ≠ 0 ∧ i < mv.nextTrackId) ∧ rawIds.eraseDups.length = rawIds.length) "track-ids" ++
    (let _ := ids; [])

/-- C19 on a finished progressive file -/
def facetsC19P (c : PCase) (file : Bytes) : Facets :=
  match parseMovie file with
  | none => ["unreadable"]
  | some m =>
    let traks := trakBoxes m
    movieHeaderFacets m 1000 ++
    ((List.zip m.tracks traks).flatMap fun (t, tb) =>
      let isV := hdlrType t == tag "vide"
      let pfx := if isV then "v-" else "a-"
      trackHeaderFacets pfx t isV c.cfg.width c.cfg.height 90000 ++ mediaHeaderFacets pfx tb isV ++
      (if isV then
         let tg := match t.stsd.kids with | [e] => e.typ | _ => []
         videoEntryFacets "" t tg c.cfg.width c.cfg.height
       else match c.cfg.audio with
         | some a => audioEntryFacets t a
         | none => ["unexpected-audio-track"]))

/-- C19 on a fragmented init segment -/
def facetsC19Init (w h ts : Nat) (init : Bytes) : Facets :=
  match parseMovie init with
  | none => ["f-unreadable"]
  | some m =>
    movieHeaderFacets m ts ++
    (match path? ["mvex", "trex"] m.moov.kids with
     | some trex => facet ((strictTrex trex.pre) == some 1) "f-trex"
     | none => ["f-trex-missing"]) ++
    ((List.zip m.tracks (trakBoxes m)).flatMap fun (t, tb) =>
      (trackHeaderFacets "f-" t true w h ts ++ mediaHeaderFacets "f-" tb true ++
        videoEntryFacets "f-" t (match t.stsd.kids with | [e] => e.typ | _ => []) w h))

def showFacets (f : Facets) : String := if f.isEmpty then "-" else ",".intercalate f.eraseDups

def judgeC19 (kind id rest impl : String) : Verdict :=
  if kind == "F" then
    let c := parseFCase id rest
    match c.cfg with
    | none => { corr := impl == c.buildErr, oi := true, om := true, nt := false }
    | some cfg =>
      let mo := runF c
      let io := (splitTrim impl ";").map parseFReply
      let inits (rs : List FReply) : List Bytes := rs.filterMap fun r => match r with | .init b => some b | _ => none
      let fac (rs : List FReply) : Facets := (inits rs).flatMap (facetsC19Init cfg.width cfg.height cfg.timescale) ++
        facet (oracleC02F rs) "f-segment-structure"
      let fi := fac io; let fm := fac mo
      { corr := (inits mo) == (inits io) && projC02F mo == projC02F io, oi := fi.isEmpty, om := fm.isEmpty,
        region := showFacets fi, nt := !(inits io).isEmpty,
        note := if fi == fm then "" else "model-predicts:" ++ showFacets fm }
  else
    let c := parsePCase id rest
    let mo := runP c
    let (io, _) := parsePObs2 impl
    let hdr (file : Bytes) : String := match parseMovie file with
      | none => "unreadable"
      | some m => s!"{hex m.mvhd}|{m.tracks.map fun t => hex t.tkhd ++ hex t.mdhd ++ hex t.hdlr ++ hex t.stsd.ser}|{projTree file}"
    let fi := if finishOkOps c.ops io then facetsC19P c io.file else []
    let fm := if finishOkOps c.ops mo then facetsC19P c mo.file else []
    { corr := hdr mo.file == hdr io.file, oi := fi.isEmpty, om := fm.isEmpty, region := showFacets fi,
      nt := finishOkOps c.ops io, note := if fi == fm then "" else "model-predicts:" ++ showFacets fm }

/-! ### C07 -/
def firstOfType (us : List Bytes) (ty : Bytes → Nat) (t : Nat) : Option Bytes := us.find? fun u => ty u = t

/-- the AV1 syntax reading of a sequence header payload (decoder_model_info only inside timing
    info; monochrome: chroma_sample_position = 0) -/
def specAv1Fields (payload : Bytes) : Option (Nat × Nat × Nat × ColorCfg) :=
  -- the certified reader of Spec.Av1Decode: a header whose re-encoding by the syntax-table encoder is a
  -- prefix of these bits (the library's own parser is not consulted)
  (Spec.Av1.certifiedSeqHdr (bitsOf payload)).map (·.fields)

def facetsC07Video (codec : VCodec) (w h : Nat) (t : Track) (key : Bytes) : Facets :=
  match t.stsd.kids with
  | [e] =>
    facet (e.typ == entryTag codec) "entry-type" ++
    facet ((be e.pre 24 2, be e.pre 26 2) == (w, h)) "entry-dims" ++
    (match e.kids with
     | [cfg] =>
       let us := (unitsFast key)
       match codec with
       | .h264 =>
         (match strictAvcC cfg.pre with
          | none => ["avcC-layout"]
          | some a =>
            let sps := firstOfType us (fun u => (u.headD 0).toNat % 32) 7
            let pps := firstOfType us (fun u => (u.headD 0).toNat % 32) 8
            facet (a.sps == sps.toList ∧ a.pps == pps.toList) "avcC-sets")
       | .h265 =>
         (match strictHvcC cfg.pre with
          | none => ["hvcC-layout"]
          | some hv =>
            let ty := fun (u : Bytes) => (u.headD 0).toNat / 2 % 64
            let want := [32, 33, 34].map fun tt => (tt, (firstOfType us ty tt).toList)
            facet (hv.arrays == want ∧ hv.lengthSizeMinusOne = 3) "hvcC-sets")
       | .av1 =>
         (match strictAv1C cfg.pre with
          | none => ["av1C-layout"]
          | some a =>
            match (obus key).find? (·.1.obuType = 1) with
            | none => ["av1-no-seqhdr"]
            | some (info, obu) =>
              facet (a.obus == obu) "av1C-obu" ++
              (match specAv1Fields (obu.drop info.headerSize) with
               | none => ["av1-seqhdr-syntax"]
               | some (p, l, ti, cc) =>
                 facet (a.profile = p ∧ a.level = l ∧ a.tier = ti) "av1C-profile-level-tier" ++
                 facet (a.highBitdepth = cc.highBitdepth ∧ a.twelveBit = cc.twelveBit ∧ a.mono = cc.monochrome) "av1C-bitdepth-mono" ++
                 facet (a.subX = cc.subX ∧ a.subY = cc.subY) "av1C-subsampling" ++
                 facet (a.csp = cc.csp) "av1C-csp"))
       | .vp9 =>
         (match strictVpcC cfg.pre, extractVp9 key with
          | some v, some k => facet (v.profile = k.profile ∧ v.bitDepth = k.bitDepth ∧ v.fullRange = k.fullRange ∧
                               v.primaries = k.colorSpace ∧ v.transfer = k.transfer ∧ v.matrix = k.matrix) "vpcC-fields"
          | none, _ => ["vpcC-layout"]
          | _, none => ["vp9-key-form"])
     | _ => ["config-count"])
  | _ => ["stsd-entries"]

def judgeC07 (kind id rest impl : String) : Verdict :=
  if kind == "F" then
    -- fragmented init: builder-supplied parameter sets, byte for byte
    let c := parseFCase id rest
    match c.cfg with
    | none => { corr := impl == c.buildErr, oi := true, om := true, nt := false }
    | some cfg =>
      let mo := runF c
      let io := (splitTrim impl ";").map parseFReply
      let inits (rs : List FReply) : List Bytes := rs.filterMap fun r => match r with | .init b => some b | _ => none
      let fac (b : Bytes) : Facets :=
        match (parseMovie b).bind (fun m => m.tracks.head?) with
        | none => ["f-unreadable"]
        | some t =>
          match t.stsd.kids with
          | [e] =>
            facet ((be e.pre 24 2, be e.pre 26 2) == (cfg.width, cfg.height)) "f-entry-dims" ++
            (match e.kids with
             | [k] =>
               if cfg.av1.isSome then
                 facet (e.typ == tag "av01") "f-entry-type" ++
                 (match strictAv1C k.pre with
                  | none => ["f-av1C-layout"]
                  | some a => facet (some a.obus == cfg.av1) "f-av1C-obu")
               else if cfg.vp9.isSome then
                 facet (e.typ == tag "vp09") "f-entry-type" ++
                 (match strictVpcC k.pre, cfg.vp9 with
                  | some v, some kk => facet (v.profile = kk.profile ∧ v.bitDepth = kk.bitDepth) "f-vpcC-fields"
                  | _, _ => ["f-vpcC-layout"])
               else if cfg.vps.isSome then
                 facet (e.typ == tag "hvc1") "f-entry-type" ++
                 (match strictHvcC k.pre with
                  | none => ["f-hvcC-layout"]
                  | some hv => facet (hv.arrays == [(32, cfg.vps.toList), (33, [cfg.sps]), (34, [cfg.pps])]) "f-hvcC-sets")
               else
                 facet (e.typ == tag "avc1") "f-entry-type" ++
                 (match strictAvcC k.pre with
                  | none => ["f-avcC-layout"]
                  | some a => facet (a.sps == [cfg.sps] ∧ a.pps == [cfg.pps]) "f-avcC-sets")
             | _ => ["f-config-count"])
          | _ => ["f-stsd-entries"]
      let fi := (inits io).flatMap fac; let fm := (inits mo).flatMap fac
      { corr := inits mo == inits io, oi := fi.isEmpty, om := fm.isEmpty, region := showFacets fi, nt := !(inits io).isEmpty,
        note := if fi == fm then "" else "model-predicts:" ++ showFacets fm }
  else
    let c := parsePCase id rest
    let mo := runP c
    let (io, _) := parsePObs2 impl
    let fac (o : PObs) : Facets :=
      if !finishOkOps c.ops o then [] else
      match parseMovie o.file, (accV (explicitOps c o) o).head? with
      | some m, some k =>
        (match videoTrack? m with
         | some vt => facetsC07Video c.cfg.codec c.cfg.width c.cfg.height vt k.data
         | none => ["no-video-track"]) ++
        (match audioTrack? m, c.cfg.audio with
         | some at_, some a => audioEntryFacets at_ a
         | _, _ => [])
      | some _, none => []
      | none, _ => ["unreadable"]
    let stsdOf (o : PObs) : String := match parseMovie o.file with
      | some m => s!"{m.tracks.map fun t => hex t.stsd.ser}"
      | none => "unreadable"
    let fi := fac io; let fm := fac mo
    { corr := stsdOf mo == stsdOf io && acceptPattern mo == acceptPattern io, oi := fi.isEmpty, om := fm.isEmpty,
      region := showFacets fi, nt := finishOkOps c.ops io && !(accV (explicitOps c io) io).isEmpty,
      note := if fi == fm then "" else "model-predicts:" ++ showFacets fm }

end Driver
