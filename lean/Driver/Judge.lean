import Driver.Pure
import Muxide.Spec.Reader
import Muxide.Spec.Framing
import Muxide.Spec.Expect
/-
  Driver.Judge — per-property projection π_P, oracle O_P (evaluated on the implementation's
  output *and* on the model's output) and recorded-region predicates. See DESIGN.md 3.4.
-/
namespace Driver
open Muxide Muxide.Spec

structure Verdict where
  corr : Bool
  oi : Bool           -- oracle on the implementation's output
  om : Bool           -- oracle on the model's output
  region : String := "-"
  nt : Bool := true   -- non-trivial case
  note : String := ""

def Verdict.show (id : String) (v : Verdict) : String :=
  s!"{id} corr={if v.corr then "eq" else "diff"} oi={b01 v.oi} om={b01 v.om} region={v.region} nt={b01 v.nt}" ++
    (if v.note = "" then "" else " note=" ++ v.note.replace " " "_")

/-! ### shared helpers over files -/
def hdlrType (t : Track) : Bytes := (t.hdlr.drop 8).take 4

def videoTrack? (m : Movie) : Option Track := m.tracks.find? (hdlrType · = tag "vide")
def audioTrack? (m : Movie) : Option Track := m.tracks.find? (hdlrType · = tag "soun")

def opAccepted (r : PR × Nat) : Bool := r.1 == PR.ok

/-- did a finish op succeed (ok or stats) -/
def isFinishOk (r : PR) : Bool := match r with | .ok => true | .stats .. => true | _ => false

def isFinishOp (op : List String) : Bool :=
  match op with | [f] => f == "fin" || f == "fins" || f == "finish" || f == "finishs" || f == "flush" | _ => false

/-- (op, reply) pairs, as far as replies exist -/
def zipOps (c : PCase) (o : PObs) : List (List String × (PR × Nat)) := List.zip c.ops o.replies

/-- `Spec.units`, computed through the model's linear-time NAL iterator. Justified by the
    kernel-checked theorem `Muxide.Props.C14.C14_modelUnits : modelUnits d = units d`; the
    declarative `Spec.splitAnnexB` (least-index search with list indexing) is quadratic and is used
    directly only where inputs are small (C14's own oracle). -/
def unitsFast (d : Bytes) : List Bytes :=
  let u := (nals d).filter (· ≠ [])
  if u = [] ∧ d ≠ [] then [d] else u

def mp4PayloadFast (annexB : Bool) (data : Bytes) : Bytes :=
  if annexB then lengthPrefixed (unitsFast data) else data

/-! ### C14 -/
def oracleC14X (input out : Bytes) : Bool := parseLengthPrefixed out == some (units input)

/-- audio frames accepted in a history, in order -/
def acceptedAudioFrames (c : PCase) (o : PObs) : List Bytes :=
  (zipOps c o).filterMap fun (op, r) =>
    match op with
    | ["wa", _, d] => if opAccepted r then some (unhex d) else none
    | ["ea", d, _] => if opAccepted r then some (unhex d) else none
    | _ => none

def audioSampleBytes (file : Bytes) : Option (List Bytes) :=
  (parseMovie file).bind fun m => (audioTrack? m).map fun t => (t.samples file).map (·.1)

def finishedOk (c : PCase) (o : PObs) : Bool :=
  (zipOps c o).any fun (op, r) => isFinishOp op && isFinishOk r.1

def oracleC14P (c : PCase) (o : PObs) : Bool :=
  if !finishedOk c o then true else
  let frames := acceptedAudioFrames c o
  if frames.isEmpty then true else
  match audioSampleBytes o.file with
  | none => false
  | some ss => ss == frames.map adtsPayload

def projC14P (c : PCase) (o : PObs) : String :=
  let acc := (zipOps c o).map fun (_, r) => b01 (opAccepted r)
  let ss := match audioSampleBytes o.file with
    | some ss => ",".intercalate (ss.map hex)
    | none => "unreadable"
  "".intercalate acc ++ "|" ++ ss

def hasStartCode (d : Bytes) : Bool := (findSC d).isSome

def judgeC14 (kind : String) (rest : String) (id : String) (impl : String) : Verdict :=
  if kind == "X" then
    match toks rest with
    | [fn, d] =>
      let input := unhex d
      let modelOut := toAvcc input
      if fn == "annexb_to_avcc" || fn == "hevc_annexb_to_hvcc" then
        if impl == "panic" then { corr := false, oi := false, om := oracleC14X input modelOut, note := "panic" } else
        let implOut := unhex impl
        { corr := implOut == modelOut, oi := oracleC14X input implOut, om := oracleC14X input modelOut,
          nt := hasStartCode input }
      else { corr := runX [fn, d] == impl, oi := true, om := true, nt := false }
    | ts => { corr := runX ts == impl, oi := true, om := true, nt := false }
  else
    let c := parsePCase id rest
    let mo := runP c
    let io := parsePObs impl
    { corr := projC14P c mo == projC14P c io, oi := oracleC14P c io, om := oracleC14P c mo,
      nt := !(acceptedAudioFrames c io).isEmpty }

end Driver
