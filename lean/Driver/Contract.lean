import Driver.Hist
import Muxide.Spec.Contract
/- Driver.Contract — C04 (contract) and C05 (rejected calls leave no trace) judges. -/
namespace Driver
open Muxide Muxide.Spec

def specCodec : VCodec → VCodecS
  | .h264 => .h264 | .h265 => .h265 | .av1 => .av1 | .vp9 => .vp9

def specAudio (c : PCase) : Option ACodecS :=
  match c.cfg.audio with
  | some a => (match a.codec with | .aac _ => some .aac | .opus => some .opus | .none => none)
  | none => none

structure C04State where
  h : AbsHist
  curV : F64 := F64.zero
  curA : F64 := F64.zero
  ok : Bool := true
  note : String := ""

def autoKey (codec : VCodecS) (h : AbsHist) (d : Bytes) : Bool :=
  autoKeyOf (match codec with | .h264 => .h264 | .h265 => .h265 | .av1 => .av1 | .vp9 => .vp9) h.video.isEmpty d

def checkReply (viol : List Violation) (r : PR) (isFinish : Bool) : Bool × String :=
  match r with
  | .ok => (viol.isEmpty, if viol.isEmpty then "" else s!"accepted although {repr viol}")
  | .stats .. => (isFinish && viol.isEmpty, "stats")
  | .err v _ =>
    if viol.isEmpty then (false, s!"rejected ({v}) although legal")
    else ((explains v).any (viol.contains ·), s!"error {v} does not name one of {repr viol}")
  | .panic => (false, "panic")
  | .other s => (false, s)

def stepC04 (c : PCase) (st : C04State) (op : List String) (r : PR) : C04State :=
  let h := st.h
  let fail (b : Bool) (n : String) (st' : C04State) : C04State :=
    if b then st' else { st' with ok := false, note := if st.note = "" then n else st.note }
  let accepted := r == PR.ok || (match r with | .stats .. => true | _ => false)
  match op with
  | ["wv", p, d, k] =>
    let pts := f64Tok p
    let (good, n) := checkReply (videoViolations h true pts pts (unhex d) (k == "1")) r false
    fail good n { st with h := if accepted then { h with video := h.video ++ [⟨pts, pts⟩] } else h }
  | ["wvd", p, t, d, k] =>
    let pts := f64Tok p; let dts := f64Tok t
    let (good, n) := checkReply (videoViolations h false pts dts (unhex d) (k == "1")) r false
    fail good n { st with h := if accepted then { h with video := h.video ++ [⟨pts, dts⟩] } else h }
  | ["wa", p, d] =>
    let pts := f64Tok p
    let (good, n) := checkReply (audioViolations h pts (unhex d)) r false
    fail good n { st with h := if accepted then { h with audioPts := h.audioPts ++ [pts] } else h }
  | ["ev", d, ms] =>
    let data := unhex d
    let pts := st.curV
    let key := autoKey h.codec h data
    let (good, n) := checkReply (videoViolations h true pts pts data key) r false
    fail good n { st with h := if accepted then { h with video := h.video ++ [⟨pts, pts⟩] } else h,
                          curV := if accepted then F64.add st.curV (F64.div (F64.ofNat ms.toNat!) (F64.ofNat 1000)) else st.curV }
  | ["ea", d, n_] =>
    let data := unhex d
    let pts := st.curA
    let rate := (c.cfg.audio.map (·.sampleRate)).getD 0
    let (good, n) := checkReply (audioViolations h pts data) r false
    fail good n { st with h := if accepted then { h with audioPts := h.audioPts ++ [pts] } else h,
                          curA := if accepted then F64.add st.curA (F64.div (F64.ofNat n_.toNat!) (F64.ofNat rate)) else st.curA }
  | [_] =>
    let (good, n) := checkReply (finishViolations h) r true
    fail good n { st with h := { h with finishAttempted := true } }
  | _ => { st with ok := false, note := "bad op" }

/-- what `build` must answer for this case: with an explicit builder call sequence from its declarative
    reading (`Spec.buildAccepts`: video configured by some call, no Opus track above 255 channels) -/
def expectedBuild (c : PCase) : String :=
  let missing := match c.bops with | some b => (Spec.lastSome Spec.videoOf b).isNone | none => c.novideo
  let accepts := match c.bops with
    | some b => Spec.buildAccepts b
    | none => !c.novideo && (match c.cfg.audio with | some a => !(a.codec == .opus && a.channels > 255) | none => true)
  if missing then "builderr:MissingVideoConfig:-" else if !accepts then "builderr:Io:-" else "built"

def oracleC04 (c : PCase) (o : PObs) : Bool × String :=
  let buildReply : String := match o.replies with
    | [(PR.other s, _)] => if s.startsWith "builderr" then s else "built"
    | _ => "built"
  if buildReply != expectedBuild c then (false, s!"build: {buildReply}, the call sequence asks for {expectedBuild c}") else
  if buildReply != "built" then (true, "") else
  let st0 : C04State := { h := { codec := specCodec c.cfg.codec, audio := specAudio c, width := c.cfg.width, height := c.cfg.height } }
  let st := (List.zip c.ops o.replies).foldl (fun st (op, r) => stepC04 c st op r.1) st0
  (st.ok && o.replies.length == c.ops.length || (st.ok && (o.replies.getLast?.map (·.1)) != some PR.panic &&
     -- a consuming finish ends the case early
     (match c.ops[o.replies.length - 1]? with | some [f] => f == "finish" || f == "finishs" || f == "flush" | _ => false)),
   st.note)

def judgeC04 (id rest impl : String) : Verdict :=
  let c := parsePCase id rest
  let mo := runP c
  let (io, _) := parsePObs2 impl
  let (oi, ni) := oracleC04 c io
  let (om, _) := oracleC04 c mo
  { corr := acceptPattern mo == acceptPattern io, oi := oi, om := om, note := ni,
    nt := io.replies.any (fun r => opAccepted r) && io.replies.any (fun r => isErrPR r.1) }

/-- C05: the twin run (rejected frame-writing calls removed) behaves identically -/
def oracleC05 (c : PCase) (a : PObs) (b? : Option PObs) : Bool :=
  match b? with
  | none => false
  | some b =>
    let keep := if c.twin == "filter1" then
        -- every call but the first refused one must be answered exactly as in the history without it
        (let k := (List.range c.ops.length).find? fun i =>
           match c.ops[i]?, a.replies[i]? with
           | some op, some r => isErrPR r.1 && isWriteOp op
           | _, _ => false
         (List.zip (List.range c.ops.length) (List.zip c.ops a.replies)).filterMap fun (i, x) => if some i == k then none else some x)
      else (List.zip c.ops a.replies).filter fun (op, r) => !(isErrPR r.1 && isWriteOp op)
    (keep.map (·.2)) == b.replies && a.file == b.file &&
      !(a.replies.any fun r => r.1 == PR.panic)

def judgeC05 (id rest impl : String) : Verdict :=
  let c := parsePCase id rest
  let mo := runP c
  let mo2 := runPTwin c mo
  let (io, io2?) := parsePObs2 impl
  let proj (a : PObs) (b? : Option PObs) : String := a.show ++ "##" ++ ((b?.map (·.show)).getD "none")
  { corr := proj mo mo2 == proj io io2?, oi := oracleC05 c io io2?, om := oracleC05 c mo mo2,
    nt := io.replies.any (fun r => isErrPR r.1) && io.replies.any (fun r => opAccepted r) }

end Driver
