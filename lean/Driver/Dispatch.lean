import Driver.Hist
import Driver.Contract
import Driver.FragJudge
import Driver.StrictJudge
import Driver.Numeric
import Driver.CliJudge
/- Driver.Dispatch — property id → judge. -/
namespace Driver
open Muxide Muxide.Spec

/-- generic judge for a progressive history: projection, oracle, region, non-triviality -/
def judgeHist (id rest impl : String)
    (proj : PCase → PObs → String)
    (oracle : PCase → List (List String) → PObs → Bool)
    (region : PCase → PObs → String := fun _ _ => "-")
    (nt : PCase → PObs → Bool := fun c o => finishOkOps c.ops o && (accV c.ops o).length + (accA c.ops o).length ≥ 2) : Verdict :=
  let c := parsePCase id rest
  let mo := runP c
  let (io, _) := parsePObs2 impl
  -- the oracles read the convenience calls as the explicit-timestamp calls they stand for
  let ci := { c with ops := explicitOps c io }
  let cm := { c with ops := explicitOps c mo }
  { corr := proj c mo == proj c io, oi := oracle ci ci.ops io, om := oracle cm cm.ops mo,
    region := region ci io, nt := nt ci io }

def regionAvReordered (c : PCase) (o : PObs) : String :=
  if audioConfigured c && reordered (accV c.ops o) && !(accA c.ops o).isEmpty then "av-reordered" else "-"

def judgeC08 (id rest impl : String) : Verdict :=
  let c := parsePCase id rest
  let mo := runP c
  let mo2 := (runPTwin c mo).getD mo
  let (io, io2?) := parsePObs2 impl
  let io2 := io2?.getD { replies := [], file := [] }
  let fastFile (a b : PObs) : PObs × PObs := if c.cfg.fast then (a, b) else (b, a)
  let oracle (a b : PObs) : Bool :=
    if !finishOkOps c.ops a then !finishOkOps c.ops b else
    let (f, s) := fastFile a b
    let order (x : PObs) : List Bytes := ((parseFileTree x.file).getD []).map (·.typ)
    let fo := order f
    let so := order s
    (fo == [tag "ftyp", tag "moov", tag "mdat"]) &&
    (so == [tag "ftyp", tag "mdat", tag "moov"] || so == [tag "ftyp", tag "moov"]) &&
    movieOf a.file false == movieOf b.file false &&
    oracleC01 c (explicitOps c a) a && oracleC01 c (explicitOps c b) b && acceptPattern a == acceptPattern b
  let proj (a b : PObs) : String := movieOf a.file false ++ "##" ++ movieOf b.file false ++ "##" ++ projOffsets a.file ++ projOffsets b.file
  { corr := proj mo mo2 == proj io io2, oi := oracle io io2, om := oracle mo mo2,
    region := regionAvReordered { c with ops := explicitOps c io } io,
    nt := finishOkOps c.ops io && (accV (explicitOps c io) io).length + (accA (explicitOps c io) io).length ≥ 2 }

def judgeC18 (id rest impl : String) : Verdict :=
  let c := parsePCase id rest
  let mo := runP c
  let (io, io2?) := parsePObs2 impl
  let inert (a : PObs) (b? : Option PObs) : Bool :=
    match b? with
    | none => true
    | some b => movieOf a.file true == movieOf b.file true && acceptPattern a == acceptPattern b
  let mo2 := runPTwin c mo
  { corr := projMeta mo.file == projMeta io.file && (mo2.map (movieOf ·.file true)) == (io2?.map (movieOf ·.file true)),
    oi := oracleC18 c (explicitOps c io) io && inert io io2?, om := oracleC18 c (explicitOps c mo) mo && inert mo mo2,
    nt := finishOkOps c.ops io && c.cfg.md.isSome }

/-- the sink answers every write with a positive count or `Interrupted`: no write ever fails -/
def neverFails (p : Policy) : Bool :=
  p.failAt.isNone && p.zeroAt.isNone && p.script.all fun r => match r with
    | .accept n => n > 0
    | .interrupted => true
    | .fail _ => false

/-- C13: prefix, error iff a write failed, silence afterwards, transparency -/
def oracleC13 (c : PCase) (a : PObs) (clean? : Option PObs) : Bool :=
  match clean? with
  | none => false
  | some clean =>
    let full := clean.file
    let isPrefix := a.file.length ≤ full.length && full.take a.file.length == a.file
    let noPanic := !(a.replies.any fun r => r.1 == PR.panic)
    let zr := List.zip c.ops a.replies
    -- first finish attempt
    let fi := (List.range zr.length).find? fun i => match zr[i]? with | some (op, _) => isFinishOp op | none => false
    let finOk := match fi with
      | none => a.file.isEmpty
      | some i =>
        match zr[i]?, clean.replies[i]? with
        | some (_, (r, n)), some (cr, _) =>
          let cleanOk := isFinishOk cr
          let delivered := a.file == full
          -- a write failed iff not everything was delivered (given the fault-free run succeeds)
          (if cleanOk then (isFinishOk r == delivered) else !isFinishOk r) &&
          -- a sink that never fails a write (it only shortens or interrupts them) must be transparent: the finish
          -- succeeds and delivers everything, however many interruptions there were
          (!(cleanOk && neverFails c.policy) || (isFinishOk r && delivered)) &&
          n == a.file.length &&
          (match r, cr with
           | .stats v au d b, .stats v' au' d' b' => v == v' && au == au' && d == d' && b == b' && b == full.length
           | _, _ => true) &&
          (zr.drop (i + 1)).all (fun (_, (r', n')) => n' == 0 && !(opAccepted (r', n') || isFinishOk r'))
        | _, _ => false
    isPrefix && noPanic && finOk

def judgeC13 (id rest impl : String) : Verdict :=
  let c := parsePCase id rest
  let mo := runP c
  let mo2 := runPTwin c mo
  let (io, io2?) := parsePObs2 impl
  let proj (a : PObs) : String := " ".intercalate (a.replies.map fun (r, n) =>
    (match r with | .ok => "ok" | .stats .. => "ok" | .err v _ => "err:" ++ v | .panic => "panic" | .other s => s) ++ s!"+{n}") ++ "|" ++ hex a.file
  { corr := proj mo == proj io && (mo2.map proj) == (io2?.map proj), oi := oracleC13 c io io2?, om := oracleC13 c mo mo2,
    nt := match io2? with | some cl => io.file.length < cl.file.length || c.policy.cap.isSome || !c.policy.intr.isEmpty || !c.policy.script.isEmpty | none => false }

/-- C12: outcome classes only -/
def classesP (o : PObs) : String :=
  " ".intercalate (o.replies.map fun (r, _) => match r with
    | .ok => "ok" | .stats .. => "ok" | .err .. => "err" | .panic => "panic" | .other s => if s.startsWith "builderr" then "builderr" else s)

def judgeC12 (kind id rest impl : String) : Verdict :=
  let bad (s : String) : Bool := (s.splitOn "panic").length > 1 || s == "timeout" || s == "abort"
  if kind == "X" then
    let m := runX (toks rest)
    let implPanic := impl == "panic" || impl == "timeout" || impl == "abort"
    { corr := if m == "unmodelled" then true else (m == "panic") == implPanic && (implPanic || m == impl),
      oi := !implPanic, om := m != "panic", nt := true }
  else if kind == "F" then
    let c := parseFCase id rest
    match c.cfg with
    | none => { corr := impl == c.buildErr, oi := !bad impl, om := true, nt := false }
    | some _ =>
      let mo := runF c
      let io := (splitTrim impl ";").map parseFReply
      let cls (rs : List FReply) : String := " ".intercalate (rs.map fun r => match r with
        | .seg _ => "seg" | .init _ => "init" | .bool _ => "b" | .num _ => "n" | r => Driver.FReply.show r)
      { corr := cls mo == cls io, oi := !(io.any (· == .panic)) && !bad impl, om := !(mo.any (· == .panic)), nt := true }
  else
    let c := parsePCase id rest
    let mo := runP c
    let (io, _) := parsePObs2 impl
    { corr := classesP mo == classesP io, oi := !(io.replies.any fun r => r.1 == PR.panic) && !bad impl,
      om := !(mo.replies.any fun r => r.1 == PR.panic), nt := true }

def regionC06 (c : PCase) (o : PObs) : String :=
  -- a double holds whole ticks exactly only below 2^53: beyond that `duration_secs` (an f64 number of
  -- seconds) cannot be within one tick of the exact end time, whatever the code does
  if ((accV c.ops o).map (·.tp) ++ (accA c.ops o).map (·.tp)).any (· ≥ 2 ^ 53) then "stats-duration-f64-precision"
  else if reordered (accV c.ops o) then "reordered-duration" else "-"

def regionC09 (c : PCase) (o : PObs) : String :=
  match (accV c.ops o).head?, (accA c.ops o).head? with
  | some v, some a => if a.tp != v.td || v.tp != v.td then "no-edit-list" else "-"
  | _, _ => "-"

def judge (prop kind id rest impl : String) : Verdict :=
  match prop with
  | "C14" => judgeC14 kind rest id impl
  | "C01" => judgeHist id rest impl (fun _ o => acceptPattern o ++ projSamples o.file) oracleC01 regionAvReordered
  | "C02" =>
    if kind == "F" then judgeFrag id rest impl projC02F (fun _ rs => oracleC02F rs)
    else judgeHist id rest impl (fun _ o => acceptPattern o ++ projTree o.file) oracleC02P
               (nt := fun c o => finishOkOps c.ops o)
  | "C03" => judgeHist id rest impl (fun _ o => acceptPattern o ++ projTiming o.file) oracleC03
  | "C15" => judgeHist id rest impl (fun _ o => acceptPattern o ++ projOffsets o.file) oracleC15 regionAvReordered
               (nt := fun c o => finishOkOps c.ops o && !(accV c.ops o).isEmpty && !(accA c.ops o).isEmpty)
  | "C06" => judgeHist id rest impl (fun _ o => projC06 o) oracleC06 regionC06
               (nt := fun c o => (List.zip c.ops o.replies).any (fun (op, r) => isFinishOp op && isFinishOk r.1) )
  | "C09" => judgeHist id rest impl (fun _ o => acceptPattern o ++ projC09 o.file) oracleC09 regionC09
               (nt := fun c o => finishOkOps c.ops o && !(accA c.ops o).isEmpty)
  | "C08" => judgeC08 id rest impl
  | "C18" => judgeC18 id rest impl
  | "C13" => judgeC13 id rest impl
  | "C12" => judgeC12 kind id rest impl
  | "C20" => if kind == "L" then judgeC20 id rest impl else judgeHist id rest impl (fun _ o => o.show) (fun _ _ _ => true)
  | "C17" =>
    -- byte-exact: every reply, every byte count, the whole file
    if kind == "F" then
      let c := parseFCase id rest
      let mo := showF c (runF c)
      { corr := mo == impl, oi := mo == impl, om := true, nt := true }
    else
      let c := parsePCase id rest
      let mo := (runP c).show
      { corr := mo == impl, oi := mo == impl, om := true,
        nt := finishOkOps c.ops (parsePObs impl), note := if mo == impl then "" else "differs-from-model" }
  | "C10" => judgeFrag id rest impl projC10 oracleC10
  | "C11" => judgeFrag id rest impl projC11 oracleC11
  | "C16" => judgeC16 kind id rest impl
  | "C19" => judgeC19 kind id rest impl
  | "C07" => judgeC07 kind id rest impl
  | "C04" => judgeC04 id rest impl
  | "C05" =>
    -- fragmented: "as if the refused call had never been made" is what C10 (the emitted samples are
    -- exactly the accepted writes; a write is refused iff its dts is below the last ACCEPTED one),
    -- C11 (timeline from the accepted writes only) and C02 (segment structure) say on the outputs;
    -- C05 runs them on refusal-rich sequences. Progressive: twin run with the refused calls removed.
    if kind == "F" then
      judgeFrag id rest impl (fun rs => projC10 rs ++ " " ++ projC11 rs)
        (fun ops rs => oracleC10 ops rs && oracleC11 ops rs && oracleC02F rs)
    else judgeC05 id rest impl
  | _ => { corr := false, oi := false, om := false, note := "unknown property" }

end Driver
