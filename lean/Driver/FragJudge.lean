import Driver.Hist
import Muxide.Spec.FragReader
/- Driver.FragJudge — C10, C11 and the fragmented half of C02. -/
namespace Driver
open Muxide Muxide.Spec

structure FW where
  pts : Nat
  dts : Nat
  data : Bytes
  sync : Bool
deriving DecidableEq

/-- accepted writes, per emitted segment, according to the replies being judged:
    returns (segments as lists of writes paired with their bytes, writes still queued) -/
def replaySegments (ops : List (List String)) (rs : List FReply) : List (List FW × Bytes) × List FW :=
  let (segs, q) := (List.zip ops rs).foldl (fun (acc : List (List FW × Bytes) × List FW) (op, r) =>
    match op, r with
    | ["fw", p, d, x, s], .ok => (acc.1, acc.2 ++ [⟨p.toNat!, d.toNat!, unhex x, s == "1"⟩])
    | ["fflush"], .seg b => (acc.1 ++ [(acc.2, b)], [])
    | _, _ => acc) ([], [])
  (segs, q)

/-- decode times a segment describes: `tfdt`, then each sample's time is the previous one plus the
    previous sample's duration -/
def describedDts (tfdt : Nat) (durs : List Nat) : List Nat :=
  (durs.foldl (fun (acc : List Nat × Nat) d => (acc.1 ++ [acc.2], acc.2 + d)) ([], tfdt)).1

def oracleC10 (ops : List (List String)) (rs : List FReply) : Bool :=
  if rs.any (· == .panic) || rs.length != ops.length then false else
  let (segs, _) := replaySegments ops rs
  -- every segment parses, its samples are exactly the queued writes, sequence numbers 1,2,3..
  let segOk := (List.zip (List.range segs.length) segs).all fun (i, (ws, b)) =>
    match parseSegment b with
    | none => false
    | some s => s.seq == i + 1 && s.sampleBytes b == some (ws.map (·.data)) && !ws.isEmpty &&
        -- "none ... altered": the decode and presentation time each sample is described with are the submitted ones
        describedDts s.tfdt (s.rows.map fun r => r.duration.getD 0) == ws.map (·.dts) &&
        (s.rows.map (·.cto)) == ws.map (fun w => some ((w.pts : Int) - (w.dts : Int))) &&
        -- ... and so is the sync flag it was submitted with (also for a segment without any key frame)
        (s.rows.map fun r => r.flags.map nonSync) == ws.map (fun w => some (!w.sync))
  -- replies: write rejected iff dts < last accepted; flush with nothing queued yields none
  let walk := (List.zip ops rs).foldl (fun (acc : Bool × Option Nat × Nat) (op, r) =>
    let (ok, last, queued) := acc
    match op with
    | ["fw", _, d, _, _] =>
      let dts := d.toNat!
      let legal := match last with | some l => dts ≥ l | none => true
      (ok && (r == .ok) == legal && (r == .ok || r == .errNonMonotonic), if r == .ok then some dts else last,
       if r == .ok then queued + 1 else queued)
    | ["fflush"] =>
      (ok && (if queued == 0 then r == .none else (match r with | .seg _ => true | _ => false)), last, 0)
    | _ => acc) (true, none, 0)
  segOk && walk.1

def projC10 (rs : List FReply) : String :=
  " ".intercalate (rs.map fun r => match r with
    | .seg b => (match parseSegment b with
        | some s => s!"seg{s.seq}:{(s.sampleBytes b).map (·.map hex)}:{s.rows.map fun r => r.flags.map nonSync}"
        | none => "seg:unreadable")
    | .init _ => "init"
    | .bool _ => "b" | .num _ => "n"
    | r => Driver.FReply.show r)

def oracleC11 (ops : List (List String)) (rs : List FReply) : Bool :=
  if rs.any (· == .panic) || rs.length != ops.length then false else
  let (segs, _) := replaySegments ops rs
  let parsed := segs.map fun (ws, b) => (ws, parseSegment b)
  let within := parsed.all fun (ws, s?) =>
    match s? with
    | none => false
    | some s =>
      s.rows.length == ws.length &&
      -- consecutive decode-time differences
      (List.zip s.rows (List.zip ws (ws.drop 1))).all (fun (r, (a, b)) => r.duration == some (b.dts - a.dts)) &&
      (List.zip s.rows ws).all (fun (r, w) => r.cto == some ((w.pts : Int) - (w.dts : Int)) &&
        (r.flags.map nonSync) == some (!w.sync))
  -- across segments: tfdt monotone and ≥ file decode time of the previous segment's last sample
  let infos := parsed.filterMap fun (ws, s?) => s?.map fun s =>
    (s.tfdt, s.tfdt + ((s.rows.dropLast.map fun r => r.duration.getD 0).sum), ws)
  let across := (List.zip infos (infos.drop 1)).all fun ((t1, lastDt1, _), (t2, _, _)) => t1 ≤ t2 && lastDt1 ≤ t2
  -- constant-interval clause: every segment ≥ 2 samples and all gaps of the whole stream equal
  let allW := infos.flatMap (·.2.2)
  let gaps := (List.zip allW (allW.drop 1)).map fun (a, b) => b.dts - a.dts
  let constant := !gaps.isEmpty && gaps.all (· == gaps.headD 0) && infos.all (fun i => i.2.2.length ≥ 2)
  let constOk := if !constant then true else
    match infos with
    | [] => true
    | (t0, _, ws0) :: _ =>
      let c : Int := ((ws0.headD ⟨0, 0, [], true⟩).dts : Int) - (t0 : Int)
      infos.all fun (t, _, ws) => ((ws.headD ⟨0, 0, [], true⟩).dts : Int) - (t : Int) == c
  -- init segment identical on every request
  let inits := rs.filterMap fun r => match r with | .init b => some b | _ => none
  let initOk := inits.all (· == inits.headD [])
  within && across && constOk && initOk

def projC11 (rs : List FReply) : String :=
  " ".intercalate (rs.map fun r => match r with
    | .seg b => (match parseSegment b with
        | some s => s!"seg(tfdt={s.tfdt},rows={s.rows.map fun r => (r.duration, r.flags, r.cto)})"
        | none => "seg:unreadable")
    | .init b => "init:" ++ hex b
    | .bool _ => "b" | .num _ => "n"
    | r => Driver.FReply.show r)

/-- C02 on fragmented streams: init = ftyp moov[mvhd mvex[trex] trak[...]], segment = moof[mfhd traf[tfhd tfdt trun]] mdat -/
def oracleC02F (rs : List FReply) : Bool :=
  rs.all fun r => match r with
    | .init b =>
      (match parseMovie b with
       | none => false
       | some m =>
         m.top.map (·.typ) == [tag "ftyp", tag "moov"] &&
         (children "mvhd" m.moov.kids).length == 1 && m.tracks.length == 1 &&
         (path? ["mvex", "trex"] m.moov.kids).isSome &&
         m.tracks.all (fun t => tableCounts t && t.mediaHeaderType == tag "vmhd" && t.stsd.kids.length == 1))
    | .seg b =>
      (match parseSegment b with
       | none => false
       | some s =>
         s.top.map (·.typ) == [tag "moof", tag "mdat"] &&
         (match child? "moof" s.top with
          | some moof => moof.kids.map (·.typ) == [tag "mfhd", tag "traf"] &&
              ((child? "traf" moof.kids).map (·.kids.map (·.typ))) == some [tag "tfhd", tag "tfdt", tag "trun"]
          | none => false) &&
         (s.sampleBytes b).isSome &&
         -- mdat payload = sum of sample sizes
         ((mdatRange s.top).map (·.2)) == some ((s.rows.map fun r => r.size.getD 0).sum))
    | .panic => false
    | _ => true

def projC02F (rs : List FReply) : String :=
  " ".intercalate (rs.map fun r => match r with
    | .seg b => "seg:" ++ projTree b
    | .init b => "init:" ++ projTree b
    | .bool _ => "b" | .num _ => "n"
    | r => Driver.FReply.show r)

def judgeFrag (id rest impl : String) (proj : List FReply → String)
    (oracle : List (List String) → List FReply → Bool)
    (region : List (List String) → List FReply → String := fun _ _ => "-") : Verdict :=
  let c := parseFCase id rest
  match c.cfg with
  | none => { corr := impl == c.buildErr, oi := true, om := true, nt := false }
  | some _ =>
    let mo := runF c
    let io := (splitTrim impl ";").map parseFReply
    { corr := proj mo == proj io, oi := oracle c.ops io, om := oracle c.ops mo, region := region c.ops io,
      nt := (io.filter fun r => match r with | .seg _ => true | _ => false).length ≥ 2 }

end Driver
