import Driver.Proto
import Muxide.Model.Validation
/- Driver.Pure — model side of the X cases (pure public functions). -/
namespace Driver
open Muxide

def b01 (b : Bool) : String := if b then "1" else "0"

def showV (r : VRes) : String := s!"{b01 r.valid}/{r.msgs}/{r.errs}"

def optTok (s : String) : Option String := if s == "~" then none else some s

def runX (ts : List String) : String :=
  match ts with
  | ["annexb_to_avcc", d] => hex (toAvcc (unhex d))
  | ["annexb_to_avcc"] => hex (toAvcc [])
  | ["hevc_annexb_to_hvcc", d] => hex (toAvcc (unhex d))
  | ["nals", d] => "n:" ++ ",".intercalate ((nals (unhex d)).map hex)
  | ["find_start_code", d, f] =>
    let data := unhex d
    let from_ := f.toNat!
    (match findSC (data.drop from_) with
     | some (p, l) => s!"{p + from_}:{l}"
     | none => "none")
  | ["extract_avc", d] => (match extractAvc (unhex d) with
    | some c => s!"{hex c.sps}/{hex c.pps}" | none => "none")
  | ["extract_hevc", d] => (match extractHevc (unhex d) with
    | some c => s!"{hex c.vps}/{hex c.sps}/{hex c.pps}" | none => "none")
  | ["extract_av1", d] => (match extractAv1 (unhex d) with
    | .some c => s!"{hex c.sequenceHeader}/{c.seqProfile}/{c.seqLevelIdx}/{c.seqTier}/{b01 c.highBitdepth}/{b01 c.twelveBit}/{b01 c.monochrome}/{b01 c.subX}/{b01 c.subY}/{c.csp}"
    | .none => "none")
  | ["extract_vp9", d] => (match extractVp9 (unhex d) with
    | some c => s!"{c.width}/{c.height}/{c.profile}/{c.bitDepth}/{c.colorSpace}/{c.transfer}/{c.matrix}/{c.level}/{c.fullRange}"
    | none => "none")
  | ["is_h264_key", d] => b01 (isH264Keyframe (unhex d))
  | ["is_hevc_key", d] => b01 (detectKeyframe .h265 (unhex d))
  | ["is_av1_key", d] => b01 (isAv1Keyframe (unhex d))
  | ["is_vp9_key", d] => (match isVp9Keyframe (unhex d) with
    | .ok b => b01 b | .tooShort => "short" | .badMarker => "marker")
  | ["is_valid_vp9", d] => b01 (isValidVp9Frame (unhex d))
  | ["hevc_nal_type", d] => toString (hevcNalType (unhex d))
  | ["is_hevc_key_type", n] => b01 (isHevcKeyNalType n.toNat!)
  | ["leb128", d] => (match readLeb128 (unhex d) with | some (v, n) => s!"{v}:{n}" | none => "none")
  | ["obu_header", d] => (match parseObuHeader (unhex d) with
    | some i => s!"{i.obuType}/{b01 i.hasExt}/{i.headerSize}/{i.payloadSize}" | none => "none")
  | ["obus", d] => "o:" ++ ",".intercalate ((obus (unhex d)).map fun (i, o) =>
      s!"{i.obuType}/{i.headerSize}/{i.payloadSize}/{hex o}")
  | ["obu_bits", x] => let h := x.toNat!; s!"{h / 8 % 16}/{b01 (h / 4 % 2 == 1)}/{b01 (h / 2 % 2 == 1)}"
  | ["opus_samples", d] => (match opusPacketSamples (unhex d) with | some n => toString n | none => "none")
  | ["opus_valid", d] => b01 (isValidOpus (unhex d))
  | ["opus_count", d] => (match opusFrameCount (unhex d) with | some (n, v) => s!"{n}/{b01 v}" | none => "none")
  | ["opus_dur", t] => toString (opusTocSamples t.toNat!)
  | ["opus_cfg", ch, ps] => let c := ch.toNat!; s!"{c}/{if c > 2 then 1 else 0}/{ps}"
  | ["validate_video_config", _, w, h, fps] => showV (validateVideoConfig w.toNat! h.toNat! (f64Tok fps))
  | ["validate_audio_config", c, r, ch] => showV (validateAudioConfig (parseACodec c) r.toNat! ch.toNat!)
  | ["validate_video_frame", c, d, k] => showV (validateVideoFrame (parseVCodec c) (unhex d) (k == "1"))
  | ["validate_audio_frame", c, d] => showV (validateAudioFrame (parseACodec c) (unhex d))
  | ["validate_muxing", vc, w, h, fps, vf, vk, ac, sr, ch, af] =>
    showV (validateMuxingConfig
      ⟨(optTok vc).map parseVCodec, (optTok w).map (·.toNat!), (optTok h).map (·.toNat!), (optTok fps).map f64Tok,
       (optTok vf).map fun d => (unhex d, vk == "1")⟩
      ⟨(optTok ac).map parseACodec, (optTok sr).map (·.toNat!), (optTok ch).map (·.toNat!), (optTok af).map unhex⟩)
  -- plain data builders and formatting: the model is the identity / a constant
  | ["muxer_config", w, h, fps, ac, r, ch, fast, md] => s!"{w}/{h}/{fps}/{if ac == "cnone" || ac == "~" then "none" else ac ++ ":" ++ r ++ ":" ++ ch}/{fast}/{md}"
  | ["metadata_now"] => "some"
  | ["plain_ctors", a, b] =>
    -- `AvcConfig::new(a, b)` / `HevcConfig::new(b, a, b)` and their accessors (`get(i)` with a default)
    let sps := unhex a
    let g (i dflt : Nat) : Nat := match sps[i]? with | some x => x.toNat | none => dflt
    let b3 : Option Nat := (sps[3]?).map (·.toNat)
    s!"{hex sps}/{hex (unhex b)}/0/{g 1 66}/{g 2 0}/{g 3 31}/{(b3.map (· / 64 % 4)).getD 0}/{(b3.map (· / 32 % 2)).getD 0}/{(b3.map (· % 32)).getD 1}/{g 14 93}"
  | ["error_display", _] => "ok"
  | _ => "unmodelled"

end Driver
