import Driver.Proto
/- Driver.Pure — model side of the X cases (pure public functions). -/
namespace Driver
open Muxide

def b01 (b : Bool) : String := if b then "1" else "0"

/-- `validate_video_config(..).is_valid` -/
def validVideoConfig (w h : Nat) (fps : F64) : Bool :=
  let dimsOk := ¬ (w = 0 ∨ h = 0) ∧ ¬ (w > 4096 ∨ h > 2160) ∧ ¬ (w < 320 ∨ h < 240)
  let fpsBad := F64.le fps F64.zero || F64.lt (F64.ofNat 120) fps
  dimsOk && !fpsBad

def validAudioConfig (c : ACodec) (rate ch : Nat) : Bool :=
  match c with
  | .none => true
  | _ => ¬ (rate = 0 ∨ rate > 192000) ∧ ¬ (ch = 0 ∨ ch > 8)

/-- `is_hevc_keyframe` -/
def isHevcKeyframeChecked (d : Bytes) : Option Bool :=
  some ((nals d).any (fun n => n ≠ [] && isHevcKeyNalType (hevcNalType n)))

def validVideoFrame (c : VCodec) (d : Bytes) (key : Bool) : Option Bool :=
  if d = [] then some false else
  let det : Option Bool := match c with
    | .h264 => some (isH264Keyframe d)
    | .h265 => isHevcKeyframeChecked d
    | .av1 => some (isAv1Keyframe d)
    | .vp9 => some (match isVp9Keyframe d with | .ok b => b | _ => false)
  det.map fun k => !(key && !k)

def validAudioFrame (c : ACodec) (d : Bytes) : Bool :=
  if d = [] then false else
  match c with
  | .aac _ => ¬ (d.length < 7) ∧ ¬ (byteAt d 0 ≠ 0xFF ∨ byteAt d 1 / 16 ≠ 0xF)
  | .opus => isValidOpus d
  | .none => false

def runX (ts : List String) : String :=
  match ts with
  | ["annexb_to_avcc", d] => hex (toAvcc (unhex d))
  | ["annexb_to_avcc"] => hex (toAvcc [])
  | ["hevc_annexb_to_hvcc", d] => hex (toAvcc (unhex d))
  | ["nals", d] => "n:" ++ ",".intercalate ((nals (unhex d)).map hex)
  | ["find_start_code", d, f] =>
    let data := unhex d
    let from_ := f.toNat!
    (match findSC (data.drop from_) with
     | some (p, l) => s!"{p + from_}:{l}"
     | none => "none")
  | ["extract_avc", d] => (match extractAvc (unhex d) with
    | some c => s!"{hex c.sps}/{hex c.pps}" | none => "none")
  | ["extract_hevc", d] => (match extractHevc (unhex d) with
    | some c => s!"{hex c.vps}/{hex c.sps}/{hex c.pps}" | none => "none")
  | ["extract_av1", d] => (match extractAv1 (unhex d) with
    | .some c => s!"{hex c.sequenceHeader}/{c.seqProfile}/{c.seqLevelIdx}/{c.seqTier}/{b01 c.highBitdepth}/{b01 c.twelveBit}/{b01 c.monochrome}/{b01 c.subX}/{b01 c.subY}/{c.csp}"
    | .none => "none")
  | ["extract_vp9", d] => (match extractVp9 (unhex d) with
    | some c => s!"{c.width}/{c.height}/{c.profile}/{c.bitDepth}/{c.colorSpace}/{c.transfer}/{c.matrix}/{c.level}/{c.fullRange}"
    | none => "none")
  | ["is_h264_key", d] => b01 (isH264Keyframe (unhex d))
  | ["is_hevc_key", d] => (match isHevcKeyframeChecked (unhex d) with | some b => b01 b | none => "panic")
  | ["is_av1_key", d] => b01 (isAv1Keyframe (unhex d))
  | ["is_vp9_key", d] => (match isVp9Keyframe (unhex d) with
    | .ok b => b01 b | .tooShort => "short" | .badMarker => "marker")
  | ["is_valid_vp9", d] => b01 (isValidVp9Frame (unhex d))
  | ["hevc_nal_type", d] => toString (hevcNalType (unhex d))
  | ["is_hevc_key_type", n] => b01 (isHevcKeyNalType n.toNat!)
  | ["leb128", d] => (match readLeb128 (unhex d) with | some (v, n) => s!"{v}:{n}" | none => "none")
  | ["obu_header", d] => (match parseObuHeader (unhex d) with
    | some i => s!"{i.obuType}/{b01 i.hasExt}/{i.headerSize}/{i.payloadSize}" | none => "none")
  | ["obus", d] => "o:" ++ ",".intercalate ((obus (unhex d)).map fun (i, o) =>
      s!"{i.obuType}/{i.headerSize}/{i.payloadSize}/{hex o}")
  | ["obu_bits", x] => let h := x.toNat!; s!"{h / 8 % 16}/{b01 (h / 4 % 2 == 1)}/{b01 (h / 2 % 2 == 1)}"
  | ["opus_samples", d] => (match opusPacketSamples (unhex d) with | some n => toString n | none => "none")
  | ["opus_valid", d] => b01 (isValidOpus (unhex d))
  | ["opus_count", d] => (match opusFrameCount (unhex d) with | some (n, v) => s!"{n}/{b01 v}" | none => "none")
  | ["opus_dur", t] => toString (opusTocSamples t.toNat!)
  | ["opus_cfg", ch, ps] => let c := ch.toNat!; s!"{c}/{if c > 2 then 1 else 0}/{ps}"
  | ["validate_video_config", _, w, h, fps] => b01 (validVideoConfig w.toNat! h.toNat! (f64Tok fps))
  | ["validate_audio_config", c, r, ch] => b01 (validAudioConfig (parseACodec c) r.toNat! ch.toNat!)
  | ["validate_video_frame", c, d, k] => (match validVideoFrame (parseVCodec c) (unhex d) (k == "1") with
    | some b => b01 b | none => "panic")
  | ["validate_audio_frame", c, d] => b01 (validAudioFrame (parseACodec c) (unhex d))
  | _ => "unmodelled"

end Driver
