import Driver.StrictJudge
import Driver.Contract
import Muxide.Model.Cli
/- Driver.CliJudge — C20: the CLI writes what the library writes and fails loudly otherwise. -/
namespace Driver
open Muxide Muxide.Spec

structure LCase where
  toks : List String
  files : List (String × Option Bytes)     -- v / a / i  (none = path does not exist)

def parseLCase (rest : String) : LCase :=
  let (a, b) := match rest.splitOn "|" with
    | [a, b] => (a, b)
    | [a] => (a, "")
    | _ => ("", "")
  { toks := toks a,
    files := (toks b).filterMap fun f => match f.splitOn "=" with
      | [n, c] => if n == "g" then none else some (n, if c == "~" then none else some (unhex c))
      | _ => none }

def LCase.file (c : LCase) (n : String) : Option Bytes := (c.files.find? (·.1 == n)).bind (·.2)

/-- value following an option name -/
def optVal (ts : List String) (name : String) : Option String :=
  match ts with
  | a :: b :: r => if a == name then some b else optVal (b :: r) name
  | _ => none

def hasFlag (ts : List String) (name : String) : Bool := ts.contains name

def strArg (s : String) : String := if s.startsWith "x:" then (String.fromUTF8? (ByteArray.mk (unhex (s.drop 2).toString).toArray)).getD "" else s

/-- decimal string → (numerator, denominator) if well formed and non-negative -/
def parseDecimal (s : String) : Option (Nat × Nat) :=
  match s.splitOn "." with
  | [a] => if a.isNat then some (a.toNat!, 1) else none
  | [a, b] => if a.isNat ∧ b.isNat then some (a.toNat! * 10 ^ b.length + b.toNat!, 10 ^ b.length) else none
  | _ => none

structure ImplL where
  exit : String
  out : Option Bytes      -- contents of the output file, if it exists (possibly empty)
  stdout : String
  rep : Option Bytes

def parseImplL (s : String) : ImplL :=
  let ts := toks s
  let out := match kv ts "out" with | some "~" => none | some "empty" => some [] | some h => some (unhex h) | none => none
  let so := (String.fromUTF8? (ByteArray.mk (unhex ((kv ts "stdout").getD "-")).toArray)).getD "<non-utf8>"
  { exit := (kv ts "exit").getD "?", out := out, stdout := so,
    rep := match kv ts "rep" with | some "~" => none | some h => some (unhex h) | none => none }

def contains (s sub : String) : Bool := (s.splitOn sub).length > 1

def vcodecOfCli (s : String) : Option VCodec :=
  match s.toLower with
  | "h264" | "h.264" | "avc" => some .h264 | "h265" | "h.265" | "hevc" => some .h265
  | "av1" => some .av1 | "vp9" => some .vp9 | _ => none

def acodecOfCli (s : String) : Option ACodec :=
  match s.toLower with
  | "aac" | "aac-lc" => some (.aac .lc) | "aac-main" => some (.aac .main) | "aac-ssr" => some (.aac .ssr)
  | "aac-ltp" => some (.aac .ltp) | "aac-he" => some (.aac .he) | "aac-hev2" => some (.aac .hev2)
  | "opus" => some .opus | "none" => some .none | _ => none

/-- the property's reading of "valid hexadecimal text" (independent of the tool's decoder): UTF-8
    text whose non-whitespace characters are hex digits, an even, non-zero number of them -/
def isHexDigitChar (c : Nat) : Bool := (48 ≤ c && c ≤ 57) || (65 ≤ c && c ≤ 70) || (97 ≤ c && c ≤ 102)
def hexDigitValue (c : Nat) : Nat := if c ≤ 57 then c - 48 else if c ≤ 70 then c - 55 else c - 87
def hexTextBytes : List Nat → Bytes
  | a :: b :: r => u8 (hexDigitValue a * 16 + hexDigitValue b) :: hexTextBytes r
  | _ => []

/-- input file → frame bytes: exists, UTF-8, non-empty even-length hex text -/
def inputFrame (content : Option Bytes) : Option Bytes :=
  match content with
  | none => none
  | some b => match utf8Strict b with
    | none => none
    | some chars =>
      let hexs := chars.filter (fun c => !isRustWhitespace c)
      if !hexs.isEmpty && hexs.length % 2 == 0 && hexs.all isHexDigitChar then some (hexTextBytes hexs) else none

structure MuxExpect where
  valid : Bool
  video : Nat
  audio : Nat
  cfg : Option PCase        -- the library call sequence for the same input and settings

/-- the specification's reading of a `mux` invocation -/
def muxExpect (c : LCase) : MuxExpect :=
  let ts := c.toks
  let num (n : String) : Option Nat := (optVal ts n).bind fun s => if s.isNat then some s.toNat! else none
  let vGiven := (optVal ts "--video").isSome
  let aGiven := (optVal ts "--audio").isSome
  let vFrame := inputFrame (c.file "v")
  let aFrame := inputFrame (c.file "a")
  let w := num "--width"; let h := num "--height"
  let fps := (optVal ts "--fps").bind parseDecimal
  let vc := match optVal ts "--video-codec" with | some s => vcodecOfCli s | none => some .h264
  let ac := match optVal ts "--audio-codec" with | some s => acodecOfCli s | none => some (.aac .lc)
  let rate := num "--sample-rate"; let ch := num "--channels"
  let dims := match w, h with | some w, some h => 320 ≤ w ∧ w ≤ 4096 ∧ 240 ≤ h ∧ h ≤ 2160 | _, _ => false
  let fpsOk := match fps with | some (n, d) => 0 < n ∧ n ≤ 120 * d | none => false
  let audioOk := !aGiven || (aFrame.isSome && (match rate, ch with | some r, some c => 0 < r ∧ r ≤ 192000 ∧ 1 ≤ c ∧ c ≤ 8 | _, _ => false) &&
      (match ac with | some .none => false | some _ => true | none => false))
  let paramsOk := vGiven && vFrame.isSome && dims && fpsOk && vc.isSome && audioOk &&
    !hasFlag ts "--dry-run" && !hasFlag ts "--fragmented"
  if !paramsOk then { valid := false, video := 0, audio := 0, cfg := none } else
  -- the library's own contract for the single frame at t = 0 (Spec.Contract, not the model)
  let codec := vc.getD .h264
  let acodec : Option ACodecS := if aGiven then (match ac with | some (.aac _) => some .aac | some .opus => some .opus | _ => none) else none
  let h0 : AbsHist := { codec := specCodec codec, audio := acodec, width := w.getD 0, height := h.getD 0 }
  let vdata := vFrame.getD []
  let vOk := (videoViolations h0 true F64.zero F64.zero vdata true).isEmpty
  let h1 : AbsHist := { h0 with video := [⟨F64.zero, F64.zero⟩] }
  let aOk := !aGiven || (audioViolations h1 F64.zero (aFrame.getD [])).isEmpty
  let title := (optVal ts "--title").map strArg
  let lang := (optVal ts "--language").map strArg
  let md : Option Metadata := if title.isSome || lang.isSome then
      some { title := title.map stringBytes, language := lang.map fun l => (l.toList.map (·.toNat)) } else none
  let audioCfg : Option AudioTrack := if aGiven then some ⟨rate.getD 0, ch.getD 0, ac.getD .none⟩ else none
  let cfg : Config := ⟨codec, w.getD 0, h.getD 0, audioCfg, md, true⟩
  let ops := [["wv", "0000000000000000", hex vdata, "1"]] ++ (if aGiven then [["wa", "0000000000000000", hex (aFrame.getD [])]] else []) ++ [["finish"]]
  { valid := vOk && aOk, video := 1, audio := if aGiven then 1 else 0,
    cfg := some { id := "", cfgToks := [], cfg := cfg, policy := {}, novideo := false, twin := "none", ops := ops } }

def reportedCounts (so : String) : Option (Nat × Nat) :=
  let grab (key : String) : Option Nat :=
    match so.splitOn key with
    | _ :: r :: _ => some ((r.toList.dropWhile (fun c => !c.isDigit)).takeWhile (·.isDigit) |> String.ofList |>.toNat!)
    | _ => none
  match grab "ideo frames", grab "udio frames" with
  | some v, some a => some (v, a)
  | _, _ => match grab "video_frames", grab "audio_frames" with
    | some v, some a => some (v, a)
    | _, _ => none

def judgeC20 (id rest impl : String) : Verdict :=
  let _ := id
  let c := parseLCase rest
  let r := parseImplL impl
  let cmd := (c.toks.find? fun t => ["mux", "m", "validate", "v", "info", "i"].contains t).getD "?"
  let noHang := r.exit != "timeout" && r.exit != "signal"
  if cmd == "mux" || cmd == "m" then
    let e := muxExpect c
    let completed := contains r.stdout "Muxing complete" || (contains r.stdout "video_frames" && r.exit == "0")
    if hasFlag c.toks "--dry-run" then
      -- dry run: must not create/complete a mux; verdict must reflect the inputs
      let inputsOk := ((optVal c.toks "--video").isNone || (inputFrame (c.file "v")).isSome) &&
                      ((optVal c.toks "--audio").isNone || (inputFrame (c.file "a")).isSome) &&
                      ((optVal c.toks "--video").isSome || (optVal c.toks "--audio").isSome)
      let saysValid := contains r.stdout "inputs are valid" || contains r.stdout "\"valid\": true"
      let ok := noHang && !completed && (if inputsOk then true else !(saysValid && r.exit == "0"))
      { corr := true, oi := ok, om := ok, region := if ok then "-" else "dry-run-no-validation", nt := true }
    else
    let modelFile : Option Bytes := e.cfg.map fun pc => (runP pc).file
    let oi :=
      if e.valid then
        r.exit == "0" && completed && reportedCounts r.stdout == some (e.video, e.audio) && r.out.isSome && r.out != some []
      else r.exit != "0" && !completed && noHang
    { corr := if e.valid then r.out == modelFile else true, oi := oi, om := true,
      nt := true, note := if oi then "" else s!"valid={e.valid} exit={r.exit}" }
  else if cmd == "validate" || cmd == "v" then
    let vG := (optVal c.toks "--video").isSome; let aG := (optVal c.toks "--audio").isSome
    -- the property's own reading (`inputFrame`); `C20_validate_char` proves the model's `hexFileValid` is this
    let specValid := (vG || aG) && (!vG || (inputFrame (c.file "v")).isSome) && (!aG || (inputFrame (c.file "a")).isSome)
    let modelValid := (vG || aG) && (!vG || ((c.file "v").map hexFileValid).getD false) && (!aG || ((c.file "a").map hexFileValid).getD false)
    let text := match r.rep with | some b => (String.fromUTF8? (ByteArray.mk b.toArray)).getD "" | none => r.stdout
    let saysValid := contains text "\"valid\":true" || contains text "\"valid\": true" || contains text "Validation successful"
    let saysInvalid := contains text "\"valid\":false" || contains text "\"valid\": false" || contains text "Validation failed"
    let oi := noHang && r.exit == "0" && (saysValid == specValid) && (saysInvalid == !specValid)
    { corr := saysValid == modelValid, oi := oi, om := modelValid == specValid, nt := true, note := if oi then "" else s!"spec={specValid} exit={r.exit}" }
  else
    -- info
    match c.file "i" with
    | none => { corr := true, oi := r.exit != "0" && noHang, om := true, nt := false }
    | some buf =>
      let entries := if buf.length < 8 then [] else infoBoxes buf
      let wellFormed := (parseFileTree buf).isSome && buf.length ≥ 8
      let listedText : List (String × Nat) := (r.stdout.splitOn "\n").filterMap fun l =>
        if l.startsWith "  " ∧ l.endsWith " bytes" then
          match (l.drop 2).toString.splitOn ": " with
          | [t, s] => some (t, ((s.splitOn " ").headD "0").toNat!)
          | _ => none
        else none
      -- JSON mode: objects with "size": N and "type": "T" (keys in alphabetical order)
      let listedJson : List (String × Nat) :=
        ((r.stdout.splitOn "\"size\": ").drop 1).map fun chunk =>
          let sz := (String.ofList (chunk.toList.takeWhile (·.isDigit))).toNat!
          let ty := match chunk.splitOn "\"type\": \"" with
            | _ :: t :: _ => String.ofList (t.toList.takeWhile (· != '"'))
            | _ => "?"
          (ty, sz)
      let listed := if contains r.stdout "\"boxes\"" then listedJson else listedText
      let expectList : List (String × Nat) := entries.map fun e =>
        (if e.invalid then "invalid" else (String.fromUTF8? (ByteArray.mk e.typ.toArray)).getD "????", e.size)
      let oi := noHang && (r.exit == "0" || r.exit == "1") &&
        (if wellFormed then r.exit == "0" && listed == ((parseFileTree buf).getD []).map (fun b =>
            ((String.fromUTF8? (ByteArray.mk b.typ.toArray)).getD "????", b.size)) else true)
      { corr := if buf.length < 8 then r.exit == "1" else (r.exit == "0" && (listed == expectList || expectList.any (fun e => contains e.1 "\n" || contains e.1 ": "))),
        oi := oi, om := true, nt := wellFormed }

end Driver
