import Driver.StrictJudge
/- Driver.Numeric — C16: every fixed-width numeric field holds the exact mathematical value. -/
namespace Driver
open Muxide Muxide.Spec

/-- expected per-sample durations incl. the lone-sample case (the muxer writes 1 tick) -/
def expDurs (ts : List Nat) : List Nat :=
  match expectedDurations ts with
  | some d => d
  | none => ts.map fun _ => 1

def facetsC16P (c : PCase) (ops : List (List String)) (o : PObs) : Facets :=
  if !finishOkOps ops o then [] else
  match parseMovie o.file with
  | none => ["unreadable"]
  | some m =>
    let vs := accV ops o
    let aus := accA ops o
    let vdur := (expDurs (vs.map (·.td))).sum
    let adur := (expDurs (aus.map (·.tp))).sum
    let ms (x : Nat) : Nat := x * 1000 / 90000
    let trackFacets (t : Option Track) (total : Nat) (pfx : String) : Facets :=
      match t with
      | none => []
      | some t =>
        facet (mdhdDuration t == total) (pfx ++ "mdhd-duration") ++
        -- tkhd.duration sits at payload offset 20 in both the standard and the muxer's layout
        facet (be t.tkhd 20 4 == ms total) (pfx ++ "tkhd-duration")
    let mvhdDur := be m.mvhd 16 4
    facet (oracleC03 c ops o) "sample-timing" ++
    facet (oracleC01 c ops o) "sample-placement" ++
    trackFacets (videoTrack? m) vdur "v-" ++
    (if audioConfigured c then trackFacets (audioTrack? m) adur "a-" else []) ++
    facet (mvhdDur == max (ms vdur) (if audioConfigured c then ms adur else 0)) "mvhd-duration" ++
    (match videoTrack? m, vs.head? with
     | some vt, some k =>
       let f := facetsC07Video c.cfg.codec c.cfg.width c.cfg.height vt k.data
       let us := unitsFast k.data
       let big := us.any fun u => u.length ≥ 65536
       f.filterMap fun x =>
         if x == "avcC-sets" || x == "hvcC-sets" || x == "avcC-layout" || x == "hvcC-layout" then
           some (if big then "param-set-length" else x)
         else if x == "entry-dims" then some x else none
     | _, _ => []) ++
    (match audioTrack? m, c.cfg.audio with
     | some at_, some a => (audioEntryFacets at_ a).filter fun x => x == "audio-entry-rate" || x == "audio-entry-channels" || x == "dOps-fields"
     | _, _ => [])

def facetsC16F (ops : List (List String)) (rs : List FReply) : Facets :=
  if rs.any (· == .panic) then ["panic"] else
  let (segs, _) := replaySegments ops rs
  segs.flatMap fun (ws, b) =>
    match parseSegment b with
    | none => ["f-unreadable"]
    | some s =>
      facet (s.tfdt == (ws.headD ⟨0, 0, [], true⟩).dts) "f-tfdt" ++
      facet ((List.zip s.rows (List.zip ws (ws.drop 1))).all (fun (r, (a, b)) => r.duration == some (b.dts - a.dts))) "f-trun-duration" ++
      facet ((List.zip s.rows ws).all (fun (r, w) => r.cto == some ((w.pts : Int) - (w.dts : Int)))) "f-trun-cts" ++
      facet ((List.zip s.rows ws).all (fun (r, w) => r.size == some w.data.length)) "f-trun-size" ++
      facet (s.rows.length == ws.length) "f-trun-count"

def judgeC16 (kind id rest impl : String) : Verdict :=
  if kind == "F" then
    let c := parseFCase id rest
    match c.cfg with
    | none => { corr := impl == c.buildErr, oi := true, om := true, nt := false }
    | some cfg =>
      let mo := runF c
      let io := (splitTrim impl ";").map parseFReply
      -- init segment: builder-supplied parameter-set lengths
      let initFacets (rs : List FReply) : Facets :=
        if cfg.sps.length ≥ 65536 || cfg.pps.length ≥ 65536 || ((cfg.vps.map (·.length)).getD 0) ≥ 65536 then
          (rs.filterMap fun r => match r with | .init b => some b | _ => none).flatMap fun b =>
            match (parseMovie b).bind (fun m => m.tracks.head?) with
            | some t => (match t.stsd.kids with
                | [e] => (match e.kids with
                    | [k] => facet ((strictAvcC k.pre).isSome || (strictHvcC k.pre).isSome || cfg.av1.isSome || cfg.vp9.isSome) "f-param-set-length"
                    | _ => ["f-param-set-length"])
                | _ => ["f-param-set-length"])
            | none => ["f-param-set-length"]
        else []
      let fi := facetsC16F c.ops io ++ initFacets io; let fm := facetsC16F c.ops mo ++ initFacets mo
      { corr := projC11 mo == projC11 io, oi := fi.isEmpty, om := fm.isEmpty, region := showFacets fi,
        nt := io.any (fun r => match r with | .seg _ => true | _ => false),
        note := if fi == fm then "" else "model-predicts:" ++ showFacets fm }
  else
    let c := parsePCase id rest
    let mo := runP c
    let (io, _) := parsePObs2 impl
    let fi := facetsC16P c (explicitOps c io) io; let fm := facetsC16P c (explicitOps c mo) mo
    let proj (o : PObs) : String := acceptPattern o ++ projTiming o.file ++ projOffsets o.file ++
      (match parseMovie o.file with
       | some m => s!"{hex m.mvhd}{m.tracks.map fun t => hex t.tkhd ++ hex t.stsd.ser}"
       | none => "unreadable")
    { corr := proj mo == proj io, oi := fi.isEmpty, om := fm.isEmpty, region := showFacets fi,
      nt := finishOkOps c.ops io || io.replies.any (fun r => isErrPR r.1),
      note := if fi == fm then "" else "model-predicts:" ++ showFacets fm }

end Driver
