import Muxide.Spec.Framing
import Muxide.Spec.Reader
import Muxide.Model.F64
/-
  Muxide.Spec.Expect — what the properties expect of a file, computed from the *submitted*
  input only (never from the model): MP4 framing of a frame, civil calendar, language unpacking,
  presentation timelines.
-/
namespace Muxide.Spec
open Muxide

def lengthPrefixed (us : List Bytes) : Bytes := us.flatMap fun u => u32be u.length ++ u

/-- payload of a video frame in MP4 framing: `annexB = true` for H.264/H.265 -/
def mp4Payload (annexB : Bool) (data : Bytes) : Bytes :=
  if annexB then lengthPrefixed (units data) else data

/-- payload of an audio frame: `adts = true` for AAC -/
def audioPayload (adts : Bool) (data : Bytes) : Bytes :=
  if adts then adtsPayload data else data

/-! ### civil calendar (days since 1970-01-01 → y-m-d), closed form, independent of the
    year-by-year loop in the muxer -/
def civilFromDays (z0 : Nat) : Nat × Nat × Nat :=
  let z := z0 + 719468
  let era := z / 146097
  let doe := z - era * 146097
  let yoe := (doe - doe / 1460 + doe / 36524 - doe / 146096) / 365
  let y := yoe + era * 400
  let doy := doe - (365 * yoe + yoe / 4 - yoe / 100)
  let mp := (5 * doy + 2) / 153
  let d := doy - (153 * mp + 2) / 5 + 1
  let m := if mp < 10 then mp + 3 else mp - 9
  (if m ≤ 2 then y + 1 else y, m, d)

def isLeapYear (y : Nat) : Bool := (y % 4 = 0 ∧ y % 100 ≠ 0) ∨ y % 400 = 0

def daysInMonth (y m : Nat) : Nat :=
  if m = 2 then (if isLeapYear y then 29 else 28)
  else if m = 4 ∨ m = 6 ∨ m = 9 ∨ m = 11 then 30 else 31

/-- days from 1970-01-01 to y-m-d (y ≥ 1970), by summation — the *definition* of the calendar -/
def daysFromCivil (y m d : Nat) : Nat :=
  ((List.range (y - 1970)).map fun i => if isLeapYear (1970 + i) then 366 else 365).sum +
  ((List.range (m - 1)).map fun i => daysInMonth y (i + 1)).sum + (d - 1)

/-- the same day number with the year sum in closed form (365 days per year plus the leap days of the
    years 1970 … y-1: multiples of 4, minus those of 100, plus those of 400); equal to `daysFromCivil` for
    every y ≥ 1970 (`C18_daysFromCivil_closed`) and computable for years far beyond the reach of a summation -/
def daysFromCivilClosed (y m d : Nat) : Nat :=
  365 * (y - 1970) + ((y - 1) / 4 - (y - 1) / 100 + (y - 1) / 400) - 477 +
  ((List.range (m - 1)).map fun i => daysInMonth y (i + 1)).sum + (d - 1)

def validCivil (y m d : Nat) : Bool := 1970 ≤ y ∧ 1 ≤ m ∧ m ≤ 12 ∧ 1 ≤ d ∧ d ≤ daysInMonth y m

def pad (w n : Nat) : String :=
  let s := toString n
  String.ofList (List.replicate (w - s.length) '0') ++ s

/-- ISO-8601 UTC date-time of a Unix second -/
def isoOfUnix (secs : Nat) : String :=
  let (y, m, d) := civilFromDays (secs / 86400)
  let r := secs % 86400
  s!"{pad 4 y}-{pad 2 m}-{pad 2 d}T{pad 2 (r / 3600)}:{pad 2 (r % 3600 / 60)}:{pad 2 (r % 60)}Z"

/-- ISO-639-2/T unpacking of the 15-bit mdhd language field -/
def unpackLang (n : Nat) : List Nat := [n / 1024 % 32 + 0x60, n / 32 % 32 + 0x60, n % 32 + 0x60]

/-- C06: the double `x` (a number of seconds) is within one tick of `n` ticks of the 90 kHz clock, exactly:
    `x = a/b`, and `|a·90000/b − n| ≤ 1  ⇔  |a·90000 − n·b| ≤ b` -/
def within1Tick (x : Muxide.F64) (n : Nat) : Bool :=
  match x with
  | Muxide.F64.fin false mant e =>
    let (a, b) := F64.frac mant e
    let l := a * 90000
    let r := n * b
    (if l ≥ r then l - r else r - l) ≤ b
  | _ => false

end Muxide.Spec
