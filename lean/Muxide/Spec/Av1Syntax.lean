import Muxide.Model.Av1
/-
  Muxide.Spec.Av1Syntax — the bitstream syntax of `sequence_header_obu()` (AV1 specification,
  section 5.5.1 / 5.5.2 `color_config()` / 5.5.3 `timing_info()` / 5.5.4 `decoder_model_info()` /
  5.5.5 `operating_parameters_info()` and 4.10.3 `uvlc()`), written as an ENCODER from the syntax
  tables, branch by branch.  It is independent of the model's parser (`Muxide.parseSeqHdrBits`):
  only the types `Bits` (= `List Bool`) and `ColorCfg` (the result record) are shared.

  A `SeqHdr` holds every syntax element.  Elements that the syntax codes conditionally are either
  `Option`s (present = the corresponding `*_present_flag` is 1) or plain fields whose value is
  pinned by `SeqHdr.WF` to the value the specification infers when they are not coded.
-/
namespace Muxide.Spec.Av1
open Muxide

/-- `f(w)`: the `w` low bits of `v`, most significant first -/
def natToBits : Nat → Nat → Bits
  | 0, _ => []
  | w + 1, v => decide (v / 2 ^ w % 2 = 1) :: natToBits w v

/-- `uvlc()`: `z` leading zero bits, a one bit, then (if `z < 32`) `z` value bits `x`;
    the decoded value is `x + 2^z − 1` (and `2^32 − 1` when `z ≥ 32`). -/
structure Uvlc where
  z : Nat
  x : Nat
deriving Repr, DecidableEq

def Uvlc.value (u : Uvlc) : Nat := if u.z < 32 then u.x + 2 ^ u.z - 1 else 2 ^ 32 - 1

def encodeUvlc (u : Uvlc) : Bits :=
  List.replicate u.z false ++ [true] ++ (if u.z < 32 then natToBits u.z u.x else [])

/-- `timing_info()` -/
structure TimingInfo where
  numUnitsInDisplayTick : Nat
  timeScale : Nat
  /-- `equal_picture_interval` = `isSome`; the value is `num_ticks_per_picture_minus_1` -/
  numTicksPerPictureMinus1 : Option Uvlc
deriving Repr, DecidableEq

/-- `decoder_model_info()` -/
structure DecoderModelInfo where
  bufferDelayLengthMinus1 : Nat
  numUnitsInDecodingTick : Nat
  bufferRemovalTimeLengthMinus1 : Nat
  framePresentationTimeLengthMinus1 : Nat
deriving Repr, DecidableEq

/-- `operating_parameters_info(op)` -/
structure OpParams where
  decoderBufferDelay : Nat
  encoderBufferDelay : Nat
  lowDelayModeFlag : Bool
deriving Repr, DecidableEq

/-- one iteration of the operating-point loop -/
structure OpPoint where
  operatingPointIdc : Nat
  seqLevelIdx : Nat
  /-- coded only when `seq_level_idx > 7`, otherwise 0 -/
  seqTier : Bool
  /-- `decoder_model_present_for_this_op` = `isSome` -/
  decoderModel : Option OpParams
  /-- `initial_display_delay_present_for_this_op` = `isSome` -/
  initialDisplayDelayMinus1 : Option Nat
deriving Repr, DecidableEq

structure FrameIdInfo where
  deltaFrameIdLengthMinus2 : Nat
  additionalFrameIdLengthMinus1 : Nat
deriving Repr, DecidableEq

/-- the elements coded only when `enable_order_hint` = 1 -/
structure OrderHintInfo where
  enableJntComp : Bool
  enableRefFrameMvs : Bool
  orderHintBitsMinus1 : Nat
deriving Repr, DecidableEq

structure ColorDescription where
  colorPrimaries : Nat
  transferCharacteristics : Nat
  matrixCoefficients : Nat
deriving Repr, DecidableEq

/-- `color_config()` -/
structure ColorConfig where
  highBitdepth : Bool
  /-- coded only when `seq_profile == 2 && high_bitdepth`, otherwise 0 -/
  twelveBit : Bool
  /-- coded unless `seq_profile == 1`, otherwise 0 -/
  monoChrome : Bool
  /-- `color_description_present_flag` = `isSome` -/
  colorDescription : Option ColorDescription
  colorRange : Bool
  subsamplingX : Bool
  subsamplingY : Bool
  chromaSamplePosition : Nat
  separateUvDeltaQ : Bool
deriving Repr, DecidableEq

def ColorConfig.colorPrimaries (c : ColorConfig) : Nat :=
  match c.colorDescription with | some d => d.colorPrimaries | none => 2
def ColorConfig.transferCharacteristics (c : ColorConfig) : Nat :=
  match c.colorDescription with | some d => d.transferCharacteristics | none => 2
def ColorConfig.matrixCoefficients (c : ColorConfig) : Nat :=
  match c.colorDescription with | some d => d.matrixCoefficients | none => 2

/-- `BitDepth` -/
def ColorConfig.bitDepth (profile : Nat) (c : ColorConfig) : Nat :=
  if profile = 2 ∧ c.twelveBit then 12 else if c.highBitdepth then 10 else 8

/-- sRGB / identity: `CP_BT_709, TC_SRGB, MC_IDENTITY` -/
def ColorConfig.isSrgb (c : ColorConfig) : Prop :=
  c.colorPrimaries = 1 ∧ c.transferCharacteristics = 13 ∧ c.matrixCoefficients = 0

instance (c : ColorConfig) : Decidable c.isSrgb := by unfold ColorConfig.isSrgb; infer_instance

/-- `sequence_header_obu()` -/
structure SeqHdr where
  seqProfile : Nat
  stillPicture : Bool
  reducedStillPictureHeader : Bool
  /-- `timing_info_present_flag` = `isSome` -/
  timing : Option TimingInfo
  /-- `decoder_model_info_present_flag` = `isSome` (only inside `timing_info_present_flag`) -/
  decoderModel : Option DecoderModelInfo
  initialDisplayDelayPresentFlag : Bool
  /-- `operating_points_cnt_minus_1 + 1` entries -/
  opPoints : List OpPoint
  frameWidthBitsMinus1 : Nat
  frameHeightBitsMinus1 : Nat
  maxFrameWidthMinus1 : Nat
  maxFrameHeightMinus1 : Nat
  /-- `frame_id_numbers_present_flag` = `isSome` -/
  frameId : Option FrameIdInfo
  use128x128Superblock : Bool
  enableFilterIntra : Bool
  enableIntraEdgeFilter : Bool
  enableInterintraCompound : Bool
  enableMaskedCompound : Bool
  enableWarpedMotion : Bool
  enableDualFilter : Bool
  /-- `enable_order_hint` = `isSome` -/
  orderHint : Option OrderHintInfo
  seqChooseScreenContentTools : Bool
  seqForceScreenContentTools : Nat
  seqChooseIntegerMv : Bool
  seqForceIntegerMv : Nat
  enableSuperres : Bool
  enableCdef : Bool
  enableRestoration : Bool
  color : ColorConfig
  filmGrainParamsPresent : Bool
deriving Repr, DecidableEq

abbrev SeqHdr.monochrome (s : SeqHdr) : Bool := s.color.monoChrome

/-! ### the encoder (the syntax tables) -/

def encodeTimingInfo (t : TimingInfo) : Bits :=
  natToBits 32 t.numUnitsInDisplayTick ++ natToBits 32 t.timeScale ++
  (match t.numTicksPerPictureMinus1 with
   | none => [false]
   | some u => true :: encodeUvlc u)

def encodeDecoderModelInfo (d : DecoderModelInfo) : Bits :=
  natToBits 5 d.bufferDelayLengthMinus1 ++ natToBits 32 d.numUnitsInDecodingTick ++
  natToBits 5 d.bufferRemovalTimeLengthMinus1 ++ natToBits 5 d.framePresentationTimeLengthMinus1

def encodeOpParams (n : Nat) (p : OpParams) : Bits :=
  natToBits n p.decoderBufferDelay ++ natToBits n p.encoderBufferDelay ++ [p.lowDelayModeFlag]

/-- loop body for one operating point; `dm` = the header's `decoder_model_info()` (if present),
    `iddp` = `initial_display_delay_present_flag` -/
def encodeOpPoint (dm : Option DecoderModelInfo) (iddp : Bool) (o : OpPoint) : Bits :=
  natToBits 12 o.operatingPointIdc ++ natToBits 5 o.seqLevelIdx ++
  (if o.seqLevelIdx > 7 then [o.seqTier] else []) ++
  (match dm with
   | none => []
   | some d =>
     match o.decoderModel with
     | none => [false]
     | some p => true :: encodeOpParams (d.bufferDelayLengthMinus1 + 1) p) ++
  (if iddp then
     match o.initialDisplayDelayMinus1 with
     | none => [false]
     | some x => true :: natToBits 4 x
   else [])

/-- `seq_level_idx[0]` -/
def SeqHdr.seqLevelIdx0 (s : SeqHdr) : Nat :=
  match s.opPoints with | o :: _ => o.seqLevelIdx | [] => 0

/-- `seq_tier[0]` -/
def SeqHdr.seqTier0 (s : SeqHdr) : Nat :=
  match s.opPoints with | o :: _ => b2n o.seqTier | [] => 0

/-- the `else` branch of `if (reduced_still_picture_header)`: timing, decoder model,
    operating points -/
def encodeOperatingInfo (s : SeqHdr) : Bits :=
  (match s.timing with
   | none => [false]
   | some t =>
     true :: encodeTimingInfo t ++
     (match s.decoderModel with
      | none => [false]
      | some d => true :: encodeDecoderModelInfo d)) ++
  [s.initialDisplayDelayPresentFlag] ++
  natToBits 5 (s.opPoints.length - 1) ++
  s.opPoints.flatMap (encodeOpPoint s.decoderModel s.initialDisplayDelayPresentFlag)

def encodeFrameSize (s : SeqHdr) : Bits :=
  natToBits 4 s.frameWidthBitsMinus1 ++ natToBits 4 s.frameHeightBitsMinus1 ++
  natToBits (s.frameWidthBitsMinus1 + 1) s.maxFrameWidthMinus1 ++
  natToBits (s.frameHeightBitsMinus1 + 1) s.maxFrameHeightMinus1

def encodeFrameId (s : SeqHdr) : Bits :=
  match s.frameId with
  | none => [false]
  | some f => true :: (natToBits 4 f.deltaFrameIdLengthMinus2 ++ natToBits 3 f.additionalFrameIdLengthMinus1)

/-- the second `if (!reduced_still_picture_header)` block -/
def encodeInterTools (s : SeqHdr) : Bits :=
  [s.enableInterintraCompound, s.enableMaskedCompound, s.enableWarpedMotion, s.enableDualFilter] ++
  (match s.orderHint with
   | none => [false]
   | some oh => [true, oh.enableJntComp, oh.enableRefFrameMvs]) ++
  [s.seqChooseScreenContentTools] ++
  (if s.seqChooseScreenContentTools then [] else natToBits 1 s.seqForceScreenContentTools) ++
  (if s.seqForceScreenContentTools > 0 then
     [s.seqChooseIntegerMv] ++
     (if s.seqChooseIntegerMv then [] else natToBits 1 s.seqForceIntegerMv)
   else []) ++
  (match s.orderHint with
   | none => []
   | some oh => natToBits 3 oh.orderHintBitsMinus1)

def encodeColorConfig (profile : Nat) (c : ColorConfig) : Bits :=
  [c.highBitdepth] ++
  (if profile = 2 ∧ c.highBitdepth then [c.twelveBit] else []) ++
  (if profile ≠ 1 then [c.monoChrome] else []) ++
  (match c.colorDescription with
   | none => [false]
   | some d =>
     true :: (natToBits 8 d.colorPrimaries ++ natToBits 8 d.transferCharacteristics ++
              natToBits 8 d.matrixCoefficients)) ++
  (if c.monoChrome then
     [c.colorRange]                                   -- … and return
   else if c.isSrgb then
     [c.separateUvDeltaQ]
   else
     [c.colorRange] ++
     (if profile = 0 then []
      else if profile = 1 then []
      else if c.bitDepth profile = 12 then
        [c.subsamplingX] ++ (if c.subsamplingX then [c.subsamplingY] else [])
      else []) ++
     (if c.subsamplingX ∧ c.subsamplingY then natToBits 2 c.chromaSamplePosition else []) ++
     [c.separateUvDeltaQ])

/-- `sequence_header_obu()` (without `trailing_bits()`) -/
def encodeSeqHdr (s : SeqHdr) : Bits :=
  natToBits 3 s.seqProfile ++ [s.stillPicture, s.reducedStillPictureHeader] ++
  (if s.reducedStillPictureHeader then natToBits 5 s.seqLevelIdx0 else encodeOperatingInfo s) ++
  encodeFrameSize s ++
  (if s.reducedStillPictureHeader then [] else encodeFrameId s) ++
  [s.use128x128Superblock, s.enableFilterIntra, s.enableIntraEdgeFilter] ++
  (if s.reducedStillPictureHeader then [] else encodeInterTools s) ++
  [s.enableSuperres, s.enableCdef, s.enableRestoration] ++
  encodeColorConfig s.seqProfile s.color ++
  [s.filmGrainParamsPresent]

/-! ### well-formedness: value ranges and the values inferred for elements that are not coded -/

/-- `z ≤ 31` covers exactly the values 0 … 2^32 − 2 (the range the specification's semantics
    allows for `num_ticks_per_picture_minus_1`); `z ≥ 32` decodes to 2^32 − 1 with NO value bits. -/
def Uvlc.WF (u : Uvlc) : Prop := u.z ≤ 31 ∧ u.x < 2 ^ u.z

def TimingInfo.WF (t : TimingInfo) : Prop :=
  t.numUnitsInDisplayTick < 2 ^ 32 ∧ t.timeScale < 2 ^ 32 ∧
  (match t.numTicksPerPictureMinus1 with | none => True | some u => u.WF)

def DecoderModelInfo.WF (d : DecoderModelInfo) : Prop :=
  d.bufferDelayLengthMinus1 < 2 ^ 5 ∧ d.numUnitsInDecodingTick < 2 ^ 32 ∧
  d.bufferRemovalTimeLengthMinus1 < 2 ^ 5 ∧ d.framePresentationTimeLengthMinus1 < 2 ^ 5

def OpPoint.WF (dm : Option DecoderModelInfo) (iddp : Bool) (o : OpPoint) : Prop :=
  o.operatingPointIdc < 2 ^ 12 ∧ o.seqLevelIdx < 2 ^ 5 ∧
  (o.seqLevelIdx ≤ 7 → o.seqTier = false) ∧
  (match dm, o.decoderModel with
   | _, none => True
   | none, some _ => False
   | some d, some p =>
     p.decoderBufferDelay < 2 ^ (d.bufferDelayLengthMinus1 + 1) ∧
     p.encoderBufferDelay < 2 ^ (d.bufferDelayLengthMinus1 + 1)) ∧
  (match o.initialDisplayDelayMinus1 with
   | none => True
   | some x => iddp = true ∧ x < 2 ^ 4)

def ColorConfig.WF (profile : Nat) (c : ColorConfig) : Prop :=
  (c.twelveBit = true → profile = 2 ∧ c.highBitdepth = true) ∧
  (profile = 1 → c.monoChrome = false) ∧
  (match c.colorDescription with
   | none => True
   | some d => d.colorPrimaries < 2 ^ 8 ∧ d.transferCharacteristics < 2 ^ 8 ∧
               d.matrixCoefficients < 2 ^ 8) ∧
  c.chromaSamplePosition < 2 ^ 2 ∧
  (if c.monoChrome then
     c.subsamplingX = true ∧ c.subsamplingY = true ∧ c.chromaSamplePosition = 0 ∧
     c.separateUvDeltaQ = false
   else if c.isSrgb then
     c.colorRange = true ∧ c.subsamplingX = false ∧ c.subsamplingY = false ∧
     c.chromaSamplePosition = 0
   else
     (if profile = 0 then c.subsamplingX = true ∧ c.subsamplingY = true
      else if profile = 1 then c.subsamplingX = false ∧ c.subsamplingY = false
      else if c.bitDepth profile = 12 then (c.subsamplingX = false → c.subsamplingY = false)
      else c.subsamplingX = true ∧ c.subsamplingY = false) ∧
     (¬ (c.subsamplingX = true ∧ c.subsamplingY = true) → c.chromaSamplePosition = 0))

/-- constraints on the elements that `reduced_still_picture_header = 1` leaves uncoded -/
def SeqHdr.ReducedWF (s : SeqHdr) : Prop :=
  s.timing = none ∧ s.decoderModel = none ∧ s.initialDisplayDelayPresentFlag = false ∧
  (∃ l, s.opPoints = [⟨0, l, false, none, none⟩]) ∧
  s.frameId = none ∧
  s.enableInterintraCompound = false ∧ s.enableMaskedCompound = false ∧
  s.enableWarpedMotion = false ∧ s.enableDualFilter = false ∧ s.orderHint = none ∧
  s.seqChooseScreenContentTools = false ∧ s.seqForceScreenContentTools = 2 ∧
  s.seqChooseIntegerMv = false ∧ s.seqForceIntegerMv = 2

/-- constraints on the screen-content / integer-mv elements when they are coded -/
def SeqHdr.ToolsWF (s : SeqHdr) : Prop :=
  (if s.seqChooseScreenContentTools then s.seqForceScreenContentTools = 2
   else s.seqForceScreenContentTools < 2) ∧
  (if s.seqForceScreenContentTools > 0 then
     (if s.seqChooseIntegerMv then s.seqForceIntegerMv = 2 else s.seqForceIntegerMv < 2)
   else s.seqChooseIntegerMv = false ∧ s.seqForceIntegerMv = 2) ∧
  (match s.orderHint with | none => True | some oh => oh.orderHintBitsMinus1 < 2 ^ 3)

def SeqHdr.WF (s : SeqHdr) : Prop :=
  s.seqProfile < 2 ^ 3 ∧
  (match s.timing with | none => s.decoderModel = none | some t => t.WF) ∧
  (match s.decoderModel with | none => True | some d => d.WF) ∧
  1 ≤ s.opPoints.length ∧ s.opPoints.length ≤ 32 ∧
  (∀ o ∈ s.opPoints, o.WF s.decoderModel s.initialDisplayDelayPresentFlag) ∧
  s.frameWidthBitsMinus1 < 2 ^ 4 ∧ s.frameHeightBitsMinus1 < 2 ^ 4 ∧
  s.maxFrameWidthMinus1 < 2 ^ (s.frameWidthBitsMinus1 + 1) ∧
  s.maxFrameHeightMinus1 < 2 ^ (s.frameHeightBitsMinus1 + 1) ∧
  (match s.frameId with
   | none => True
   | some f => f.deltaFrameIdLengthMinus2 < 2 ^ 4 ∧ f.additionalFrameIdLengthMinus1 < 2 ^ 3) ∧
  (if s.reducedStillPictureHeader then s.ReducedWF else s.ToolsWF) ∧
  s.color.WF s.seqProfile

instance (u : Uvlc) : Decidable u.WF := by unfold Uvlc.WF; infer_instance
instance (t : TimingInfo) : Decidable t.WF := by
  unfold TimingInfo.WF; cases t.numTicksPerPictureMinus1 <;> infer_instance
instance (d : DecoderModelInfo) : Decidable d.WF := by unfold DecoderModelInfo.WF; infer_instance
instance (dm : Option DecoderModelInfo) (iddp : Bool) (o : OpPoint) : Decidable (o.WF dm iddp) := by
  unfold OpPoint.WF
  cases dm <;> cases o.decoderModel <;> cases o.initialDisplayDelayMinus1 <;> infer_instance
instance (p : Nat) (c : ColorConfig) : Decidable (c.WF p) := by
  unfold ColorConfig.WF; cases c.colorDescription <;> infer_instance
instance (s : SeqHdr) : Decidable s.ReducedWF := by
  unfold SeqHdr.ReducedWF
  have : Decidable (∃ l, s.opPoints = [⟨0, l, false, none, none⟩]) :=
    match h : s.opPoints with
    | [o] =>
      if h' : o = ⟨0, o.seqLevelIdx, false, none, none⟩ then .isTrue ⟨o.seqLevelIdx, by rw [← h']⟩
      else .isFalse (by rintro ⟨l, hl⟩; cases hl; exact h' rfl)
    | [] => .isFalse (by rintro ⟨l, hl⟩; cases hl)
    | _ :: _ :: _ => .isFalse (by rintro ⟨l, hl⟩; cases hl)
  infer_instance
instance (s : SeqHdr) : Decidable s.ToolsWF := by
  unfold SeqHdr.ToolsWF; cases s.orderHint <;> infer_instance
instance (s : SeqHdr) : Decidable s.WF := by
  unfold SeqHdr.WF
  cases s.timing <;> cases s.decoderModel <;> cases s.frameId <;> infer_instance

/-! ### the fields the muxer needs (for the `av1C` box) -/

/-- the colour configuration as the record type of the model -/
def ColorConfig.toCfg (c : ColorConfig) : ColorCfg :=
  ⟨c.highBitdepth, c.twelveBit, c.monoChrome, c.subsamplingX, c.subsamplingY, c.chromaSamplePosition⟩

/-- (seq_profile, seq_level_idx[0], seq_tier[0], colour configuration) -/
def SeqHdr.fields (s : SeqHdr) : Nat × Nat × Nat × ColorCfg :=
  (s.seqProfile, s.seqLevelIdx0, s.seqTier0, s.color.toCfg)

/-! ### OBU framing (AV1 specification 4.10.5 `leb128()`, 5.3.1 `open_bitstream_unit()`,
     5.3.2 `obu_header()`), low-overhead format (`obu_has_size_field = 1`) -/

/-- `leb128()`: a list of 1..8 seven-bit groups, least significant first; every byte but the
    last carries the continuation bit.  Non-minimal encodings (high groups = 0) are allowed. -/
def lebBytes : List Nat → Bytes
  | [] => []
  | [g] => [UInt8.ofNat g]
  | g :: g' :: gs => UInt8.ofNat (g + 128) :: lebBytes (g' :: gs)

def lebValue : List Nat → Nat
  | [] => 0
  | g :: gs => g + 128 * lebValue gs

def LebWF (gs : List Nat) : Prop := 1 ≤ gs.length ∧ gs.length ≤ 8 ∧ ∀ g ∈ gs, g < 128

instance (gs : List Nat) : Decidable (LebWF gs) := by unfold LebWF; infer_instance

/-- the minimal groups of `n` -/
def leb128Groups (n : Nat) : List Nat :=
  if n < 128 then [n] else (n % 128) :: leb128Groups (n / 128)
decreasing_by omega

/-- the minimal `leb128()` encoding -/
def leb128 (n : Nat) : Bytes := lebBytes (leb128Groups n)

/-- an OBU with `obu_has_size_field = 1` -/
structure Obu where
  obuType : Nat
  /-- `obu_extension_flag` = `isSome`; the byte is `temporal_id(3) spatial_id(2) reserved(3)` -/
  extension : Option UInt8
  /-- `obu_reserved_1bit` -/
  reservedBit : Bool
  /-- the groups of the `obu_size` leb128 -/
  sizeGroups : List Nat
  payload : Bytes
deriving Repr, DecidableEq

/-- `obu_forbidden_bit(1)=0 obu_type(4) obu_extension_flag(1) obu_has_size_field(1)=1
    obu_reserved_1bit(1)` -/
def Obu.headerByte (o : Obu) : UInt8 :=
  UInt8.ofNat (o.obuType * 8 + (if o.extension.isSome then 4 else 0) + 2 + b2n o.reservedBit)

def Obu.bytes (o : Obu) : Bytes :=
  o.headerByte :: (o.extension.toList ++ (lebBytes o.sizeGroups ++ o.payload))

def Obu.WF (o : Obu) : Prop :=
  o.obuType < 16 ∧ LebWF o.sizeGroups ∧ lebValue o.sizeGroups = o.payload.length

instance (o : Obu) : Decidable o.WF := by unfold Obu.WF; infer_instance

/-- `obu_header()` size in bytes -/
def Obu.headerSize (o : Obu) : Nat := (if o.extension.isSome then 2 else 1) + o.sizeGroups.length

end Muxide.Spec.Av1
