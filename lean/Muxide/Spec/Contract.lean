import Muxide.Spec.Framing
import Muxide.Model.F64
import Muxide.Model.Av1
import Muxide.Model.Vp9
import Muxide.Model.Opus
/-
  Muxide.Spec.Contract — the documented input contract (docs/contract.md and property C04) as
  predicates over the *abstract history*: the list of previously accepted calls and whether a
  finish has been attempted. No muxer state appears here.
-/
namespace Muxide.Spec
open Muxide

inductive Violation where
  | finished | empty | nonFinitePts | negativePts | nonFiniteDts | negativeDts
  | videoOrder | gap | firstNotKey | firstNoConfig
  | audioNotConfigured | audioOrder | audioBeforeVideo | badAudioFraming
deriving Repr, DecidableEq

inductive VCodecS where | h264 | h265 | av1 | vp9
deriving Repr, DecidableEq

inductive ACodecS where | aac | opus
deriving Repr, DecidableEq

structure AbsVideo where
  pts : F64
  dts : F64

structure AbsHist where
  codec : VCodecS
  audio : Option ACodecS          -- none = no audio configured
  video : List AbsVideo := []     -- accepted video frames, oldest first
  audioPts : List F64 := []       -- accepted audio frames, oldest first
  finishAttempted : Bool := false
  width : Nat := 0
  height : Nat := 0

def nalTypesH264 (d : Bytes) : List Nat := ((splitAnnexB d).filter (· ≠ [])).map fun u => (u.headD 0).toNat % 32
def nalTypesH265 (d : Bytes) : List Nat := ((splitAnnexB d).filter (· ≠ [])).map fun u => (u.headD 0).toNat / 2 % 64

/-- the frame carries its codec configuration -/
def carriesConfig (codec : VCodecS) (d : Bytes) : Bool :=
  match codec with
  | .h264 => let ts := nalTypesH264 d; ts.contains 7 && ts.contains 8
  | .h265 => let ts := nalTypesH265 d; ts.contains 32 && ts.contains 33 && ts.contains 34
  | .av1 =>
    -- first sequence-header OBU of the temporal unit is syntactically complete (AV1 syntax)
    match (obus d).find? (·.1.obuType = 1) with
    | none => false
    | some (info, obu) =>
      let payload := obu.drop info.headerSize
      payload ≠ [] && (match rbits 3 (bitsOf payload) with | some (p, _) => p ≤ 3 | none => false) &&
        (parseSeqHdrBits av1FixedDmi (bitsOf payload)).isSome
  | .vp9 => (extractVp9 d).isSome

def validAudioFraming (a : ACodecS) (d : Bytes) : Bool :=
  match a with
  | .aac => adtsValid d
  | .opus => isValidOpus d

def u32MaxS : Nat := 2^32 - 1

/-- the timestamp converts to media-clock ticks without saturating 64 bits: exact test on the
    double's rational value, 90000·x rounds to something below 2^64 -/
def tickInRange (x : F64) : Bool :=
  match x with
  | .fin false m e => let (a, b) := F64.frac m e; 2 * a * 90000 + b < 2 * 2^64 * b
  | .fin true _ _ => true
  | _ => false

/-- violated preconditions of a video write. `viaWriteVideo`: the `write_video` entry point, whose
    documented contract additionally demands PTS strictly above the previous frame's PTS. -/
def videoViolations (h : AbsHist) (viaWriteVideo : Bool) (pts dts : F64) (data : Bytes) (key : Bool) : List Violation :=
  let prev := h.video.getLast?
  (if h.finishAttempted then [.finished] else []) ++
  (if data = [] then [.empty] else []) ++
  (if ¬ pts.isFinite then [.nonFinitePts] else if pts.isNeg then [.negativePts]
   else if ¬ tickInRange pts then [.nonFinitePts] else []) ++
  (if ¬ dts.isFinite then [.nonFiniteDts] else if dts.isNeg then [.negativeDts]
   else if ¬ tickInRange dts then [.nonFiniteDts] else []) ++
  (if (pts.ticks : Int) - (dts.ticks : Int) > 2^31 - 1 ∨ (pts.ticks : Int) - (dts.ticks : Int) < -(2^31) then [.gap] else []) ++
  (match prev with
   | some p =>
     (if (viaWriteVideo && F64.le pts p.pts) || dts.ticks ≤ p.dts.ticks then [.videoOrder] else []) ++
     (if dts.ticks - p.dts.ticks > u32MaxS then [.gap] else [])
   | none =>
     (if ¬ key then [.firstNotKey] else []) ++
     (if ¬ carriesConfig h.codec data then [.firstNoConfig] else []))

def audioViolations (h : AbsHist) (pts : F64) (data : Bytes) : List Violation :=
  (if h.finishAttempted then [.finished] else []) ++
  (match h.audio with
   | none => [.audioNotConfigured]
   | some a => if data ≠ [] ∧ ¬ validAudioFraming a data then [.badAudioFraming] else []) ++
  (if ¬ pts.isFinite then [.nonFinitePts] else if pts.isNeg then [.negativePts]
   else if ¬ tickInRange pts then [.nonFinitePts] else []) ++
  (if data = [] then [.empty] else []) ++
  (match h.audioPts.getLast? with
   | some p => (if F64.lt pts p then [.audioOrder] else []) ++
               (if pts.ticks - p.ticks > u32MaxS then [.gap] else [])
   | none => []) ++
  (match h.video.head? with
   | none => [.audioBeforeVideo]
   | some v => if F64.lt pts v.pts then [.audioBeforeVideo] else [])

/-- declared duration of a track whose samples have decode times `ts` (the last sample gets the
    duration of the preceding interval; a lone sample one tick) -/
def trackDuration (ts : List Nat) : Nat :=
  match ts.reverse with
  | [] => 0
  | [_] => 1
  | last :: prev :: _ => (last - ts.headD 0) + (last - prev)

/-- finish: not finished yet, and everything fits the container's fixed-width fields (32-bit
    track durations, 16-bit dimensions) -/
def finishViolations (h : AbsHist) : List Violation :=
  (if h.finishAttempted then [.finished] else []) ++
  (if trackDuration (h.video.map (·.dts.ticks)) > u32MaxS ∨ trackDuration (h.audioPts.map (·.ticks)) > u32MaxS ∨
      h.width > 65535 ∨ h.height > 65535 then [.gap] else [])

/-- which precondition an error variant names -/
def explains (variant : String) : List Violation :=
  match variant with
  | "AlreadyFinished" => [.finished]
  | "Io" => [.gap, .finished]
  | "EmptyVideoFrame" => [.empty] | "EmptyAudioFrame" => [.empty]
  | "InvalidVideoPts" => [.nonFinitePts] | "InvalidAudioPts" => [.nonFinitePts]
  | "NegativeVideoPts" => [.negativePts] | "NegativeAudioPts" => [.negativePts]
  | "InvalidVideoDts" => [.nonFiniteDts] | "NegativeVideoDts" => [.negativeDts]
  | "NonIncreasingVideoPts" => [.videoOrder] | "NonIncreasingDts" => [.videoOrder]
  | "FirstVideoFrameMustBeKeyframe" => [.firstNotKey]
  | "FirstVideoFrameMissingSpsPps" => [.firstNoConfig]
  | "FirstAv1FrameMissingSequenceHeader" => [.firstNoConfig]
  | "FirstVp9FrameMissingSequenceHeader" => [.firstNoConfig]
  | "AudioNotConfigured" => [.audioNotConfigured]
  | "DecreasingAudioPts" => [.audioOrder]
  | "AudioBeforeFirstVideo" => [.audioBeforeVideo]
  | "InvalidAdts" => [.badAudioFraming] | "InvalidAdtsDetailed" => [.badAudioFraming]
  | "InvalidOpusPacket" => [.badAudioFraming]
  | _ => []

end Muxide.Spec
