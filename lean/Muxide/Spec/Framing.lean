import Muxide.Model.Basic
/-
  Muxide.Spec.Framing — what "MP4 framing" means (C14, used by C01):
  * Annex B: the declarative split at start codes, by *least index* search (independent of
    the model's structural scanner);
  * the 4-byte length-prefixed unit parser;
  * ADTS: header fields extracted by bit position from the header's bit string.
-/
namespace Muxide.Spec
open Muxide

/-- length of the start code that begins at index `i` (4-byte form preferred), 0 if none -/
def scLenAt (d : Bytes) (i : Nat) : Nat :=
  if d[i]? = some 0 ∧ d[i+1]? = some 0 ∧ d[i+2]? = some 0 ∧ d[i+3]? = some 1 then 4
  else if d[i]? = some 0 ∧ d[i+1]? = some 0 ∧ d[i+2]? = some 1 then 3
  else 0

/-- least index `i ≥ from` at which a start code begins, with its length -/
def firstSC (d : Bytes) (from_ : Nat) : Option (Nat × Nat) :=
  ((List.range (d.length - from_)).map (· + from_)).findSome? fun i =>
    if scLenAt d i ≠ 0 then some (i, scLenAt d i) else none

/-- the byte runs that follow each start code up to the next start code or the end -/
def splitFrom (d : Bytes) : Nat → Nat → List Bytes
  | 0, _ => []
  | fuel + 1, from_ =>
    match firstSC d from_ with
    | none => []
    | some (p, l) =>
      let start := p + l
      let stop := match firstSC d start with
        | some (q, _) => q
        | none => d.length
      ((d.drop start).take (stop - start)) :: splitFrom d fuel stop

def splitAnnexB (d : Bytes) : List Bytes := splitFrom d (d.length + 1) 0

/-- the units of the property statement: non-empty runs; the whole input when there is none -/
def units (d : Bytes) : List Bytes :=
  let u := (splitAnnexB d).filter (· ≠ [])
  if u = [] ∧ d ≠ [] then [d] else u

/-- parse a sequence of 4-byte big-endian length-prefixed units exactly to its end -/
def parseLP : Nat → Bytes → Option (List Bytes)
  | 0, _ => none
  | fuel + 1, d =>
    if d = [] then some [] else
    match readU32 d with
    | none => none
    | some (n, rest) =>
      if n ≤ rest.length then (parseLP fuel (rest.drop n)).map (rest.take n :: ·) else none

def parseLengthPrefixed (d : Bytes) : Option (List Bytes) := parseLP (d.length + 1) d

/-! ### ADTS header fields by bit position (ISO/IEC 13818-7 / 14496-3 adts_fixed/variable_header)

The first seven bytes are read as one 56-bit big-endian number; a field that starts at bit
`start` (bit 0 = most significant) and is `len` bits wide is `H / 2^(56-start-len) % 2^len`. -/
def headerNat (f : Bytes) : Nat := (f.take 7).foldl (fun acc b => acc * 256 + b.toNat) 0

def bitField (f : Bytes) (start len : Nat) : Nat := headerNat f / 2^(56 - start - len) % 2^len

def adtsProtectionAbsent (f : Bytes) : Bool := bitField f 15 1 = 1
def adtsDeclaredLength (f : Bytes) : Nat := bitField f 30 13
def adtsHeaderBytes (f : Bytes) : Nat := if adtsProtectionAbsent f then 7 else 9

/-- the payload the property demands for an accepted frame -/
def adtsPayload (f : Bytes) : Bytes := (f.take (adtsDeclaredLength f)).drop (adtsHeaderBytes f)

/-- structural validity of an ADTS frame, field by field: syncword, MPEG-4 ID, layer 0, a complete
    header, a defined sampling-frequency index, a non-zero channel configuration, and a declared
    frame length that covers the header plus at least one payload byte and fits the buffer -/
def adtsValid (f : Bytes) : Bool :=
  f.length ≥ 7 ∧ bitField f 0 12 = 0xFFF ∧ bitField f 12 1 = 0 ∧ bitField f 13 2 = 0 ∧
  f.length ≥ adtsHeaderBytes f ∧ bitField f 18 4 ≤ 12 ∧ bitField f 23 3 ≠ 0 ∧
  adtsHeaderBytes f < adtsDeclaredLength f ∧ adtsDeclaredLength f ≤ f.length

end Muxide.Spec
