import Muxide.Spec.Reader
/-
  Muxide.Spec.FragReader — reading a media segment (moof + mdat) and an init segment
  per ISO/IEC 14496-12: tfhd default-base-is-moof, tfdt v0/v1, trun with optional fields.
-/
namespace Muxide.Spec
open Muxide

structure TrunRow where
  duration : Option Nat
  size : Option Nat
  flags : Option Nat
  cto : Option Int
deriving Repr, DecidableEq

structure Segment where
  top : List Box
  seq : Nat
  tfhdFlags : Nat
  trackId : Nat
  tfdt : Nat
  dataOffset : Option Int
  rows : List TrunRow

def readRows (flags : Nat) (version : Nat) : Nat → Bytes → Option (List TrunRow × Bytes)
  | 0, d => some ([], d)
  | n + 1, d => do
    let (dur, d) ← if flags / 0x100 % 2 = 1 then (readU32 d).map (fun (x, r) => (some x, r)) else some (none, d)
    let (sz, d) ← if flags / 0x200 % 2 = 1 then (readU32 d).map (fun (x, r) => (some x, r)) else some (none, d)
    let (fl, d) ← if flags / 0x400 % 2 = 1 then (readU32 d).map (fun (x, r) => (some x, r)) else some (none, d)
    let (cto, d) ← if flags / 0x800 % 2 = 1 then
        (readU32 d).map (fun (x, r) => (some (if version = 0 then (x : Int) else toI32 x), r)) else some (none, d)
    let (rest, d) ← readRows flags version n d
    some (⟨dur, sz, fl, cto⟩ :: rest, d)

def parseSegment (seg : Bytes) : Option Segment := do
  let top ← parseFileTree seg
  let moof ← child? "moof" top
  let mfhd ← child? "mfhd" moof.kids
  let (_, _, r) ← fullBox mfhd.pre
  let (seq, _) ← readU32 r
  let traf ← child? "traf" moof.kids
  let tfhd ← child? "tfhd" traf.kids
  let (_, tfl, r) ← fullBox tfhd.pre
  let (tid, _) ← readU32 r
  let tfdtB ← child? "tfdt" traf.kids
  let (tv, _, r) ← fullBox tfdtB.pre
  let (base, r) ← if tv = 1 then readU64 r else readU32 r
  if r ≠ [] then none
  let trun ← child? "trun" traf.kids
  let (v, fl, r) ← fullBox trun.pre
  let (n, r) ← readU32 r
  let (doff, r) ← if fl % 2 = 1 then (readU32 r).map (fun (x, r) => (some (toI32 x), r)) else some (none, r)
  let (_, r) ← if fl / 4 % 2 = 1 then (readU32 r).map (fun (x, r) => (some x, r)) else some (none, r)
  let (rows, r) ← readRows fl v n r
  if r ≠ [] then none
  some ⟨top, seq, tfl, tid, base, doff, rows⟩

/-- bytes of every sample of the run: data offset is relative to the start of the moof
    (default-base-is-moof); samples are contiguous -/
def Segment.sampleBytes (s : Segment) (seg : Bytes) : Option (List Bytes) :=
  -- position of the moof in the segment
  let moofStart := ((topLayout s.top 0).find? (·.1 = tag "moof")).map (·.2.1)
  match moofStart, s.dataOffset with
  | some ms, some off =>
    if s.tfhdFlags / 0x20000 % 2 = 1 ∧ off ≥ 0 then
      let start := ms + off.toNat
      let sizes := s.rows.map fun r => r.size.getD 0
      let rec go : List Nat → Nat → List Bytes
        | [], _ => []
        | z :: zs, o => slice seg o z :: go zs (o + z)
      if start + sizes.sum ≤ seg.length then some (go sizes start) else none
    else none
  | _, _ => none

/-- is the non-sync bit (bit 16) of the sample flags set -/
def nonSync (flags : Nat) : Bool := flags / 0x10000 % 2 = 1

end Muxide.Spec
