import Muxide.Spec.Reader
/-
  Muxide.Spec.Strict — strict decoders of the fixed-layout header boxes and decoder
  configuration records, written from ISO/IEC 14496 parts 12, 14, 15 and the AV1 / VP9 / Opus
  ISO-BMFF bindings (see DESIGN.md Appendix A): exact size, version/flags, reserved values and
  field positions. Each returns the recovered fields or `none` when the box is not conformant.
-/
namespace Muxide.Spec
open Muxide

def be (d : Bytes) (off len : Nat) : Nat := ((d.drop off).take len).foldl (fun a b => a * 256 + b.toNat) 0
def allZero (d : Bytes) (off len : Nat) : Bool := ((d.drop off).take len).all (· == 0)

def identityMatrix (d : Bytes) (off : Nat) : Bool :=
  (List.range 9).map (fun i => be d (off + 4 * i) 4) == [0x10000, 0, 0, 0, 0x10000, 0, 0, 0, 0x40000000]

structure Mvhd where
  timescale : Nat
  duration : Nat
  nextTrackId : Nat

/-- mvhd v0: 100 payload bytes -/
def strictMvhd (p : Bytes) : Option Mvhd :=
  if p.length = 100 ∧ be p 0 4 = 0 ∧ be p 20 4 = 0x00010000 ∧ be p 24 2 = 0x0100 ∧ allZero p 26 10 ∧
     identityMatrix p 36 ∧ allZero p 72 24 then some ⟨be p 12 4, be p 16 4, be p 96 4⟩ else none

structure Tkhd where
  flags : Nat
  trackId : Nat
  duration : Nat
  volume : Nat
  width : Nat      -- 16.16
  height : Nat

/-- tkhd v0: 84 payload bytes; reserved fields zero; identity matrix -/
def strictTkhd (p : Bytes) : Option Tkhd :=
  if p.length = 84 ∧ be p 0 1 = 0 ∧ allZero p 16 4 ∧ allZero p 24 8 ∧ allZero p 32 4 ∧ allZero p 38 2 ∧
     identityMatrix p 40 then some ⟨be p 1 3, be p 12 4, be p 20 4, be p 36 2, be p 76 4, be p 80 4⟩ else none

structure Mdhd where
  timescale : Nat
  duration : Nat
  language : Nat

def strictMdhd (p : Bytes) : Option Mdhd :=
  if p.length = 24 ∧ be p 0 4 = 0 ∧ be p 20 2 < 2^15 ∧ be p 22 2 = 0 then some ⟨be p 12 4, be p 16 4, be p 20 2⟩ else none

/-- hdlr: handler type; pre_defined and reserved zero; NUL-terminated name -/
def strictHdlr (p : Bytes) : Option Bytes :=
  if p.length ≥ 25 ∧ be p 0 4 = 0 ∧ be p 4 4 = 0 ∧ allZero p 12 12 ∧ p.getLast? = some 0 then some ((p.drop 8).take 4) else none

def strictVmhd (p : Bytes) : Bool := p.length = 12 ∧ be p 0 1 = 0 ∧ be p 1 3 = 1 ∧ allZero p 4 8
def strictSmhd (p : Bytes) : Bool := p.length = 8 ∧ be p 0 4 = 0 ∧ allZero p 4 4

/-- dinf > dref (1 entry) > url (self-contained flag, empty) -/
def strictDinf (dinf : Box) : Bool :=
  match dinf.kids with
  | [dref] => dref.typ == tag "dref" && dref.pre == u32be 0 ++ u32be 1 &&
      (match dref.kids with
       | [url] => url.typ == tag "url " && url.pre == u32be 1 && url.kids.isEmpty
       | _ => false)
  | _ => false

structure VisualEntry where
  width : Nat
  height : Nat

def strictVisualEntry (pre : Bytes) : Option VisualEntry :=
  if pre.length = 78 ∧ allZero pre 0 6 ∧ be pre 6 2 = 1 ∧ allZero pre 8 16 ∧ be pre 28 4 = 0x00480000 ∧
     be pre 32 4 = 0x00480000 ∧ be pre 36 4 = 0 ∧ be pre 40 2 = 1 ∧ be pre 74 2 = 0x0018 ∧ be pre 76 2 = 0xffff
  then some ⟨be pre 24 2, be pre 26 2⟩ else none

structure AudioEntry where
  channels : Nat
  sampleSize : Nat
  rate : Nat      -- 16.16

def strictAudioEntry (pre : Bytes) : Option AudioEntry :=
  if pre.length = 28 ∧ allZero pre 0 6 ∧ be pre 6 2 = 1 ∧ allZero pre 8 8 ∧ be pre 20 4 = 0
  then some ⟨be pre 16 2, be pre 18 2, be pre 24 4⟩ else none

structure AvcC where
  profile : Nat
  compat : Nat
  level : Nat
  sps : List Bytes
  pps : List Bytes

def readSets : Nat → Bytes → Option (List Bytes × Bytes)
  | 0, d => some ([], d)
  | n + 1, d =>
    match readU16 d with
    | none => none
    | some (len, r) =>
      if r.length < len then none else
      match readSets n (r.drop len) with
      | none => none
      | some (xs, r') => some (r.take len :: xs, r')

/-- avcC (ISO/IEC 14496-15 5.3.3.1), without the High-profile extension -/
def strictAvcC (p : Bytes) : Option AvcC := do
  if p.length < 7 ∨ be p 0 1 ≠ 1 ∨ be p 4 1 ≠ 0xff ∨ be p 5 1 / 32 ≠ 7 then none
  let nsps := be p 5 1 % 32
  let (sps, r) ← readSets nsps (p.drop 6)
  let npps ← r.head?
  let (pps, r) ← readSets npps.toNat (r.drop 1)
  if r ≠ [] then none
  some ⟨be p 1 1, be p 2 1, be p 3 1, sps, pps⟩

structure HvcC where
  profileSpace : Nat
  tier : Nat
  profileIdc : Nat
  level : Nat
  lengthSizeMinusOne : Nat
  arrays : List (Nat × List Bytes)     -- (nal_unit_type, units)

def readArrays : Nat → Bytes → Option (List (Nat × List Bytes) × Bytes)
  | 0, d => some ([], d)
  | n + 1, d =>
    match d with
    | [] => none
    | b :: r =>
      -- array_completeness(1) reserved(1)=0 nal_unit_type(6)
      if b.toNat / 64 % 2 ≠ 0 then none else
      match readU16 r with
      | none => none
      | some (cnt, r) =>
        match readSets cnt r with
        | none => none
        | some (units, r) =>
          match readArrays n r with
          | none => none
          | some (xs, r') => some ((b.toNat % 64, units) :: xs, r')

/-- hvcC (ISO/IEC 14496-15 8.3.3.1): reserved bits must be all ones where specified -/
def strictHvcC (p : Bytes) : Option HvcC := do
  if p.length < 23 ∨ be p 0 1 ≠ 1 then none
  if be p 13 1 / 16 ≠ 0xF ∨ be p 15 1 / 4 ≠ 0x3F ∨ be p 16 1 / 4 ≠ 0x3F ∨ be p 17 1 / 8 ≠ 0x1F ∨ be p 18 1 / 8 ≠ 0x1F then none
  let (arrs, r) ← readArrays (be p 22 1) (p.drop 23)
  if r ≠ [] then none
  some ⟨be p 1 1 / 64, be p 1 1 / 32 % 2, be p 1 1 % 32, be p 12 1, be p 21 1 % 4, arrs⟩

structure Av1C where
  profile : Nat
  level : Nat
  tier : Nat
  highBitdepth : Bool
  twelveBit : Bool
  mono : Bool
  subX : Bool
  subY : Bool
  csp : Nat
  obus : Bytes

/-- av1C: marker(1)=1 version(7)=1; reserved(3)=0 in byte 3 -/
def strictAv1C (p : Bytes) : Option Av1C :=
  if p.length < 4 ∨ be p 0 1 ≠ 0x81 ∨ be p 3 1 / 32 ≠ 0 then none else
  let b1 := be p 1 1
  let b2 := be p 2 1
  some ⟨b1 / 32, b1 % 32, b2 / 128, b2 / 64 % 2 = 1, b2 / 32 % 2 = 1, b2 / 16 % 2 = 1, b2 / 8 % 2 = 1, b2 / 4 % 2 = 1, b2 % 4, p.drop 4⟩

structure VpcC where
  profile : Nat
  level : Nat
  bitDepth : Nat
  chroma : Nat
  fullRange : Nat
  primaries : Nat
  transfer : Nat
  matrix : Nat

/-- vpcC: FullBox version 1 flags 0; 8 bytes of fields; codecInitializationDataSize = 0 -/
def strictVpcC (p : Bytes) : Option VpcC :=
  if p.length = 12 ∧ be p 0 4 = 0x01000000 ∧ be p 10 2 = 0 then
    some ⟨be p 4 1, be p 5 1, be p 6 1 / 16, be p 6 1 / 2 % 8, be p 6 1 % 2, be p 7 1, be p 8 1, be p 9 1⟩
  else none

structure Esds where
  objectType : Nat
  streamType : Nat
  asc : Bytes

/-- esds: FullBox 0; ES_Descriptor(3){ES_ID, flags=0, DecoderConfigDescriptor(4){objectType, streamType byte,
    bufferSize, maxBitrate, avgBitrate, DecoderSpecificInfo(5){ASC}}, SLConfigDescriptor(6){2}}; one-byte lengths -/
def strictEsds (p : Bytes) : Option Esds :=
  if be p 0 4 ≠ 0 ∨ be p 4 1 ≠ 3 then none else
  let esLen := be p 5 1
  if p.length ≠ 6 + esLen ∨ be p 8 1 ≠ 0 ∨ be p 9 1 ≠ 4 then none else
  let dcLen := be p 10 1
  if be p 24 1 ≠ 5 then none else
  let ascLen := be p 25 1
  if dcLen ≠ 13 + 2 + ascLen ∨ esLen ≠ 3 + 2 + dcLen + 3 then none else
  if (p.drop (26 + ascLen)) ≠ [6, 1, 2] then none else
  some ⟨be p 11 1, be p 12 1, (p.drop 26).take ascLen⟩

structure DOps where
  channels : Nat
  preSkip : Nat
  inputRate : Nat
  gain : Nat
  family : Nat
  mappingLen : Nat

def strictDOps (p : Bytes) : Option DOps :=
  if p.length < 11 ∨ be p 0 1 ≠ 0 then none else
  let ch := be p 1 1
  let fam := be p 10 1
  if fam = 0 then (if p.length = 11 then some ⟨ch, be p 2 2, be p 4 4, be p 8 2, fam, 0⟩ else none)
  else if p.length = 13 + ch then some ⟨ch, be p 2 2, be p 4 4, be p 8 2, fam, ch⟩ else none

def strictTrex (p : Bytes) : Option Nat := if p.length = 24 ∧ be p 0 4 = 0 then some (be p 4 4) else none

/-- AudioSpecificConfig: audioObjectType(5) samplingFrequencyIndex(4) channelConfiguration(4) GASpecificConfig(3)=0 -/
def decodeAsc (a : Bytes) : Option (Nat × Nat × Nat) :=
  if a.length = 2 ∧ be a 0 2 % 8 = 0 then some (be a 0 2 / 2048, be a 0 2 / 128 % 16, be a 0 2 / 8 % 16) else none

def ascRates : List Nat := [96000, 88200, 64000, 48000, 44100, 32000, 24000, 22050, 16000, 12000, 11025, 8000, 7350]

end Muxide.Spec
