import Muxide.Model.Builder
/-
  Muxide.Spec.BuilderSpec — what a sequence of builder calls *means*, stated without the builder's
  state: "the last call of each kind decides".  Only the call vocabulary (`BOp`) and the record types
  are shared with the model; nothing here folds over `Builder.step`.
-/
namespace Muxide.Spec
open Muxide

def videoOf : BOp → Option (VCodec × Nat × Nat)
  | .video c w h => some (c, w, h)
  | .setVideoTrack c w h => some (c, w, h)
  | _ => none

def audioOf : BOp → Option AudioTrack
  | .audio a => some a
  | .setAudioTrack a => some a
  | _ => none

def fastOf : BOp → Option Bool
  | .withFastStart b => some b
  | _ => none

/-- the last element of `l` on which `f` answers -/
def lastSome {α β : Type} (f : α → Option β) (l : List α) : Option β := l.reverse.findSome? f

/-- metadata after the calls, read backwards: a `with_metadata` replaces everything before it; a setter
    overrides its own field of whatever came before (an empty `Metadata` if nothing did) -/
def effMetadata : List BOp → Option Metadata
  | [] => none
  | op :: before =>   -- `op` is the LAST call (the list is given newest first)
    match op with
    | .withMetadata m => some m
    | .setCreateTime t => some { (effMetadata before).getD {} with ctime := some t }
    | .setLanguage l => some { (effMetadata before).getD {} with language := some l }
    | _ => effMetadata before

/-- the configuration a call sequence (oldest first) denotes; `none` = video never configured -/
def effectiveConfig (ops : List BOp) : Option Config :=
  (lastSome videoOf ops).map fun (c, w, h) =>
    { codec := c, width := w, height := h, audio := lastSome audioOf ops,
      md := effMetadata ops.reverse, fast := (lastSome fastOf ops).getD true }

def spsOf : BOp → Option Bytes | .withSps x => some x | _ => none
def ppsOf : BOp → Option Bytes | .withPps x => some x | _ => none
def vpsOf : BOp → Option Bytes | .withVps x => some x | _ => none
def av1Of : BOp → Option Bytes | .withAv1 x => some x | _ => none
def vp9Of : BOp → Option Vp9Config | .withVp9 c => some c | _ => none

/-- what `new_with_fragment` makes of a call sequence: the last video call chooses the codec and the
    dimensions, the last value supplied for each parameter that codec needs is used, everything else is
    ignored; a missing parameter is an error -/
def effectiveFragConfig (ops : List BOp) : FragBuildRes :=
  match lastSome videoOf ops with
  | none => .missingVideoConfig
  | some (.h264, w, h) =>
    (match lastSome spsOf ops, lastSome ppsOf ops with
     | some s, some p => .ok ⟨w, h, 90000, 2000, s, p, none, none, none⟩
     | _, _ => .io)
  | some (.h265, w, h) =>
    (match lastSome vpsOf ops, lastSome spsOf ops, lastSome ppsOf ops with
     | some v, some s, some p => .ok ⟨w, h, 90000, 2000, s, p, some v, none, none⟩
     | _, _, _ => .io)
  | some (.av1, w, h) =>
    (match lastSome av1Of ops with
     | some a => .ok ⟨w, h, 90000, 2000, [], [], none, some a, none⟩
     | none => .io)
  | some (.vp9, w, h) =>
    (match lastSome vp9Of ops with
     | some c => .ok ⟨w, h, 90000, 2000, [], [], none, none, some c⟩
     | none => .io)

/-- alias-free form of a call -/
def normalize : BOp → BOp
  | .setVideoTrack c w h => .video c w h
  | .setAudioTrack a => .audio a
  | op => op

/-- the contract of `build`: video configured, and an Opus track has at most 255 channels -/
def buildAccepts (ops : List BOp) : Bool :=
  match effectiveConfig ops with
  | none => false
  | some c => match c.audio with
    | some a => !(a.codec = .opus && a.channels > 255)
    | none => true

end Muxide.Spec
