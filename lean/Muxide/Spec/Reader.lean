import Muxide.Model.Box
/-
  Muxide.Spec.Reader — an independent ISO-BMFF reader (ISO/IEC 14496-12): generic box-tree
  parser with a container schema, sample-table decoders and the *generic* chunk walk that
  resolves every sample of a track to (offset, size). Written from the standard, not from the
  muxer; it is the meaning of "reading the file" in the properties.
-/
namespace Muxide.Spec
open Muxide

/-- schema: for container types, the length of the fixed prefix before the children; none = leaf -/
abbrev Schema := Bytes → Option Nat

mutual
def parseBox (sc : Schema) : Nat → Bytes → Option (Box × Bytes)
  | 0, _ => none
  | fuel + 1, d =>
    match readU32 d with
    | none => none
    | some (sz, r1) =>
      if sz < 8 then none else
      if r1.length < sz - 4 then none else
      let t := r1.take 4
      let payload := (r1.drop 4).take (sz - 8)
      let rest := (r1.drop 4).drop (sz - 8)
      match sc t with
      | none => some (Box.mk t payload [], rest)
      | some n =>
        if payload.length < n then none else
        match parseBoxes sc fuel (payload.drop n) with
        | none => none
        | some ks => some (Box.mk t (payload.take n) ks, rest)
def parseBoxes (sc : Schema) : Nat → Bytes → Option (List Box)
  | 0, _ => none
  | fuel + 1, d =>
    if d = [] then some [] else
    match parseBox sc fuel d with
    | none => none
    | some (b, rest) =>
      match parseBoxes sc fuel rest with
      | none => none
      | some bs => some (b :: bs)
end

def tag (s : String) : Bytes := ascii s

/-- all container box types the muxer can emit (and `edts`, so that a repaired muxer that
    writes edit lists is still understood) -/
def isoSchema : Schema := fun t =>
  if t = tag "moov" ∨ t = tag "trak" ∨ t = tag "mdia" ∨ t = tag "minf" ∨ t = tag "dinf" ∨
     t = tag "stbl" ∨ t = tag "udta" ∨ t = tag "ilst" ∨ t = tag "mvex" ∨ t = tag "moof" ∨
     t = tag "traf" ∨ t = tag "edts" ∨ t = [0xa9, 0x6e, 0x61, 0x6d] ∨ t = [0xa9, 0x64, 0x61, 0x79]
  then some 0
  else if t = tag "meta" then some 4
  else if t = tag "dref" ∨ t = tag "stsd" then some 8
  else if t = tag "avc1" ∨ t = tag "hvc1" ∨ t = tag "av01" ∨ t = tag "vp09" then some 78
  else if t = tag "mp4a" ∨ t = tag "Opus" then some 28
  else none

/-- maximal nesting depth the reader accepts -/
def maxDepth : Nat := 16

def parseFileTree (file : Bytes) : Option (List Box) := parseBoxes isoSchema (2 * maxDepth + file.length + 2) file

/-! ### navigation -/
def child? (t : String) (bs : List Box) : Option Box := bs.find? (·.typ = tag t)
def children (t : String) (bs : List Box) : List Box := bs.filter (·.typ = tag t)

def path? : List String → List Box → Option Box
  | [], _ => none
  | [t], bs => child? t bs
  | t :: ts, bs => (child? t bs).bind fun b => path? ts b.kids

/-! ### table decoders -/
def readU32s : Nat → Bytes → Option (List Nat × Bytes)
  | 0, d => some ([], d)
  | n + 1, d =>
    match readU32 d with
    | none => none
    | some (x, r) =>
      match readU32s n r with
      | none => none
      | some (xs, r') => some (x :: xs, r')

def readPairs : Nat → Bytes → Option (List (Nat × Nat) × Bytes)
  | 0, d => some ([], d)
  | n + 1, d =>
    match readU32 d with
    | none => none
    | some (x, r) =>
      match readU32 r with
      | none => none
      | some (y, r') =>
        match readPairs n r' with
        | none => none
        | some (ps, r'') => some ((x, y) :: ps, r'')

def readTriples : Nat → Bytes → Option (List (Nat × Nat × Nat) × Bytes)
  | 0, d => some ([], d)
  | n + 1, d =>
    match readU32 d with
    | none => none
    | some (x, r) =>
      match readU32 r with
      | none => none
      | some (y, r') =>
        match readU32 r' with
        | none => none
        | some (z, r'') =>
          match readTriples n r'' with
          | none => none
          | some (ps, r3) => some ((x, y, z) :: ps, r3)

/-- a FullBox payload: (version, flags, rest) -/
def fullBox (p : Bytes) : Option (Nat × Nat × Bytes) :=
  match readU32 p with
  | none => none
  | some (vf, r) => some (vf / 2^24, vf % 2^24, r)

/-- decode a count-prefixed table that must consume the payload exactly -/
def decodeStts (p : Bytes) : Option (List (Nat × Nat)) := do
  let (_, _, r) ← fullBox p
  let (n, r) ← readU32 r
  let (es, r) ← readPairs n r
  if r = [] then some es else none

/-- ctts: version 0 unsigned, version 1 signed offsets -/
def decodeCtts (p : Bytes) : Option (List (Nat × Int)) := do
  let (v, _, r) ← fullBox p
  let (n, r) ← readU32 r
  let (es, r) ← readPairs n r
  if r = [] then some (es.map fun (c, o) => (c, if v = 0 then (o : Int) else toI32 o)) else none

def decodeStsc (p : Bytes) : Option (List (Nat × Nat × Nat)) := do
  let (_, _, r) ← fullBox p
  let (n, r) ← readU32 r
  let (es, r) ← readTriples n r
  if r = [] then some es else none

/-- stsz: (uniform size, count, per-sample sizes) expanded to one size per sample -/
def decodeStsz (p : Bytes) : Option (List Nat) := do
  let (_, _, r) ← fullBox p
  let (sz, r) ← readU32 r
  let (n, r) ← readU32 r
  if sz = 0 then
    let (es, r) ← readU32s n r
    if r = [] then some es else none
  else if r = [] then some (List.replicate n sz) else none

def decodeU32Table (p : Bytes) : Option (List Nat) := do
  let (_, _, r) ← fullBox p
  let (n, r) ← readU32 r
  let (es, r) ← readU32s n r
  if r = [] then some es else none

def expandRuns {α} (es : List (Nat × α)) : List α := es.flatMap fun (c, x) => List.replicate c x

/-! ### the generic chunk walk -/

/-- samples-per-chunk of chunk number `c` (1-based) under an `stsc` run table: the entry with
    the greatest `first_chunk ≤ c` -/
def spcOfChunk (stsc : List (Nat × Nat × Nat)) (c : Nat) : Nat :=
  stsc.foldl (fun acc (fc, spc, _) => if fc ≤ c then spc else acc) 0

/-- walk the chunks in order; within a chunk samples are contiguous. Returns (offset, size) per
    sample; stops when sizes are exhausted. -/
def walkChunks (stsc : List (Nat × Nat × Nat)) : List Nat → Nat → List Nat → List (Nat × Nat)
  | [], _, _ => []
  | off :: offs, c, sizes =>
    let n := spcOfChunk stsc c
    let here := sizes.take n
    let rec place : List Nat → Nat → List (Nat × Nat)
      | [], _ => []
      | s :: ss, o => (o, s) :: place ss (o + s)
    place here off ++ walkChunks stsc offs (c + 1) (sizes.drop n)

structure Track where
  tkhd : Bytes
  mdhd : Bytes
  hdlr : Bytes
  stsd : Box
  stts : List (Nat × Nat)
  ctts : Option (List (Nat × Int))
  stsc : List (Nat × Nat × Nat)
  sizes : List Nat
  stco : List Nat
  stss : Option (List Nat)
  elst : Option Bytes
  stblTypes : List Bytes
  mediaHeaderType : Bytes

def decodeTrack (trak : Box) : Option Track := do
  let tkhd ← child? "tkhd" trak.kids
  let mdia ← child? "mdia" trak.kids
  let mdhd ← child? "mdhd" mdia.kids
  let hdlr ← child? "hdlr" mdia.kids
  let minf ← child? "minf" mdia.kids
  let mh ← minf.kids.head?
  let _ ← path? ["dinf", "dref", "url "] minf.kids
  let stbl ← child? "stbl" minf.kids
  let stsd ← child? "stsd" stbl.kids
  let stts ← (child? "stts" stbl.kids).bind (decodeStts ·.pre)
  let ctts ← match child? "ctts" stbl.kids with
    | none => some none
    | some b => (decodeCtts b.pre).map some
  let stsc ← (child? "stsc" stbl.kids).bind (decodeStsc ·.pre)
  let sizes ← (child? "stsz" stbl.kids).bind (decodeStsz ·.pre)
  let stco ← (child? "stco" stbl.kids).bind (decodeU32Table ·.pre)
  let stss ← match child? "stss" stbl.kids with
    | none => some none
    | some b => (decodeU32Table b.pre).map some
  let elst := (path? ["edts", "elst"] trak.kids).map (·.pre)
  some ⟨tkhd.pre, mdhd.pre, hdlr.pre, stsd, stts, ctts, stsc, sizes, stco, stss, elst,
    stbl.kids.map (·.typ), mh.typ⟩

structure Movie where
  top : List Box
  moov : Box
  mvhd : Bytes
  tracks : List Track
  udta : Option Box

def parseMovie (file : Bytes) : Option Movie := do
  let top ← parseFileTree file
  let moov ← child? "moov" top
  let mvhd ← child? "mvhd" moov.kids
  let tracks ← (children "trak" moov.kids).mapM decodeTrack
  some ⟨top, moov, mvhd.pre, tracks, child? "udta" moov.kids⟩

/-- (offset, size) of every sample of a track, by the generic chunk walk -/
def Track.ranges (t : Track) : List (Nat × Nat) := walkChunks t.stsc t.stco 1 t.sizes

def slice (file : Bytes) (off size : Nat) : Bytes := (file.drop off).take size

/-- sync flag per sample: absent stss = every sample is a sync sample -/
def Track.syncFlags (t : Track) : List Bool :=
  match t.stss with
  | none => List.replicate t.sizes.length true
  | some ks => (List.range t.sizes.length).map fun i => ks.contains (i + 1)

/-- (bytes, sync, offset, size) of every sample -/
def Track.samples (t : Track) (file : Bytes) : List (Bytes × Bool × Nat × Nat) :=
  (List.zip t.ranges t.syncFlags).map fun ((o, s), k) => (slice file o s, k, o, s)

/-- start offset and size of each top-level box -/
def topLayout : List Box → Nat → List (Bytes × Nat × Nat)
  | [], _ => []
  | b :: bs, o => (b.typ, o, b.size) :: topLayout bs (o + b.size)

/-- payload range (start, length) of the first mdat, if any -/
def mdatRange (top : List Box) : Option (Nat × Nat) :=
  ((topLayout top 0).find? (·.1 = tag "mdat")).map fun (_, o, sz) => (o + 8, sz - 8)

end Muxide.Spec
