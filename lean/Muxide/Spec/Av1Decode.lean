import Muxide.Spec.Av1Syntax
/-
  Muxide.Spec.Av1Decode — a *certifying* reader of `sequence_header_obu()` for the oracles.

  `decodeSeqHdr` reads every syntax element into a `SeqHdr`, written from the syntax tables of the AV1
  specification like the encoder of Spec.Av1Syntax (not from the library's parser: it returns the whole
  header, infers the uncoded elements as the specification does, ends `color_config()` of a monochrome
  stream right after `color_range`, and reads NO value bits after 32 leading zeros of a `uvlc()`).

  It is not trusted on its own: `certifiedSeqHdr` accepts its answer only if re-encoding it with the
  trusted encoder (`encodeSeqHdr`) reproduces a prefix of the input bits and the header is well-formed.
  So whatever the oracle uses as "the fields of this sequence header" is a header `h` with
  `encodeSeqHdr h <+: bits` — the encoder alone defines what the bits mean.
-/
namespace Muxide.Spec.Av1
open Muxide

def decUvlcAux : Nat → Bits → Nat → Option (Uvlc × Bits)
  | 0, _, _ => none
  | fuel + 1, r, z =>
    match rbit r with
    | none => none
    | some (true, r') =>
      if z < 32 then (rbits z r').map fun (x, r'') => (⟨z, x⟩, r'') else some (⟨z, 0⟩, r')
    | some (false, r') => decUvlcAux fuel r' (z + 1)

/-- `uvlc()` -/
def decUvlc (r : Bits) : Option (Uvlc × Bits) := decUvlcAux (r.length + 1) r 0

/-- `timing_info()` -/
def decTimingInfo (r : Bits) : Option (TimingInfo × Bits) := do
  let (n, r) ← rbits 32 r
  let (t, r) ← rbits 32 r
  let (epi, r) ← rbit r
  if epi then do
    let (u, r) ← decUvlc r
    some (⟨n, t, some u⟩, r)
  else some (⟨n, t, none⟩, r)

/-- `decoder_model_info()` -/
def decDecoderModelInfo (r : Bits) : Option (DecoderModelInfo × Bits) := do
  let (a, r) ← rbits 5 r
  let (b, r) ← rbits 32 r
  let (c, r) ← rbits 5 r
  let (d, r) ← rbits 5 r
  some (⟨a, b, c, d⟩, r)

def decOpPoint (dm : Option DecoderModelInfo) (iddp : Bool) (r : Bits) : Option (OpPoint × Bits) := do
  let (idc, r) ← rbits 12 r
  let (lvl, r) ← rbits 5 r
  let (tier, r) ← if lvl > 7 then rbit r else some (false, r)
  let (dmo, r) ← match dm with
    | none => some (none, r)
    | some d => do
      let (p, r) ← rbit r
      if p then do
        let n := d.bufferDelayLengthMinus1 + 1
        let (x, r) ← rbits n r
        let (y, r) ← rbits n r
        let (l, r) ← rbit r
        some (some (⟨x, y, l⟩ : OpParams), r)
      else some (none, r)
  let (idd, r) ← if iddp then do
      let (p, r) ← rbit r
      if p then do
        let (x, r) ← rbits 4 r
        some (some x, r)
      else some (none, r)
    else some (none, r)
  some (⟨idc, lvl, tier, dmo, idd⟩, r)

def decOpPoints (dm : Option DecoderModelInfo) (iddp : Bool) : Nat → Bits → Option (List OpPoint × Bits)
  | 0, r => some ([], r)
  | n + 1, r => do
    let (o, r) ← decOpPoint dm iddp r
    let (os, r) ← decOpPoints dm iddp n r
    some (o :: os, r)

/-- `color_config()` -/
def decColorConfig (profile : Nat) (r : Bits) : Option (ColorConfig × Bits) := do
  let (hbd, r) ← rbit r
  let (tw, r) ← if profile = 2 ∧ hbd then rbit r else some (false, r)
  let (mono, r) ← if profile = 1 then some (false, r) else rbit r
  let (cdp, r) ← rbit r
  let (cd, r) ← if cdp then do
      let (a, r) ← rbits 8 r
      let (b, r) ← rbits 8 r
      let (c, r) ← rbits 8 r
      some (some (⟨a, b, c⟩ : ColorDescription), r)
    else some (none, r)
  let c0 : ColorConfig := ⟨hbd, tw, mono, cd, false, false, false, 0, false⟩
  if mono then do
    let (cr, r) ← rbit r
    some ({ c0 with colorRange := cr, subsamplingX := true, subsamplingY := true }, r)
  else if c0.isSrgb then do
    let (sep, r) ← rbit r
    some ({ c0 with colorRange := true, separateUvDeltaQ := sep }, r)
  else do
    let (cr, r) ← rbit r
    let ((sx, sy), r) ←
      if profile = 0 then some ((true, true), r)
      else if profile = 1 then some ((false, false), r)
      else if c0.bitDepth profile = 12 then do
        let (sx, r) ← rbit r
        let (sy, r) ← if sx then rbit r else some (false, r)
        some ((sx, sy), r)
      else some ((true, false), r)
    let (csp, r) ← if sx ∧ sy then rbits 2 r else some (0, r)
    let (sep, r) ← rbit r
    some ({ c0 with colorRange := cr, subsamplingX := sx, subsamplingY := sy, chromaSamplePosition := csp,
                    separateUvDeltaQ := sep }, r)

/-- `sequence_header_obu()` (without `trailing_bits()`); returns the header and the unread bits -/
def decodeSeqHdr (r : Bits) : Option (SeqHdr × Bits) := do
  let (profile, r) ← rbits 3 r
  let (still, r) ← rbit r
  let (reduced, r) ← rbit r
  let ((timing, dm, iddp, ops), r) ←
    if reduced then do
      let (l, r) ← rbits 5 r
      some ((none, none, false, [(⟨0, l, false, none, none⟩ : OpPoint)]), r)
    else do
      let (tip, r) ← rbit r
      let ((timing, dm), r) ← if tip then do
          let (t, r) ← decTimingInfo r
          let (dmip, r) ← rbit r
          if dmip then do
            let (d, r) ← decDecoderModelInfo r
            some ((some t, some d), r)
          else some ((some t, none), r)
        else some ((none, none), r)
      let (iddp, r) ← rbit r
      let (cnt, r) ← rbits 5 r
      let (ops, r) ← decOpPoints dm iddp (cnt + 1) r
      some ((timing, dm, iddp, ops), r)
  let (fwb, r) ← rbits 4 r
  let (fhb, r) ← rbits 4 r
  let (mw, r) ← rbits (fwb + 1) r
  let (mh, r) ← rbits (fhb + 1) r
  let (fid, r) ← if reduced then some (none, r) else do
      let (p, r) ← rbit r
      if p then do
        let (a, r) ← rbits 4 r
        let (b, r) ← rbits 3 r
        some (some (⟨a, b⟩ : FrameIdInfo), r)
      else some (none, r)
  let (sb, r) ← rbit r
  let (fi, r) ← rbit r
  let (ief, r) ← rbit r
  let ((iic, mc, wm, df, oh, csct, fsct, cimv, fimv), r) ←
    if reduced then some ((false, false, false, false, none, false, 2, false, 2), r)
    else do
      let (iic, r) ← rbit r
      let (mc, r) ← rbit r
      let (wm, r) ← rbit r
      let (df, r) ← rbit r
      let (eoh, r) ← rbit r
      let (jr, r) ← if eoh then do
          let (j, r) ← rbit r
          let (m, r) ← rbit r
          some (some (j, m), r)
        else some (none, r)
      let (csct, r) ← rbit r
      let (fsct, r) ← if csct then some (2, r) else rbits 1 r
      let ((cimv, fimv), r) ← if fsct > 0 then do
          let (c, r) ← rbit r
          if c then some ((true, 2), r) else do
            let (f, r) ← rbits 1 r
            some ((false, f), r)
        else some ((false, 2), r)
      let (oh, r) ← match jr with
        | none => some (none, r)
        | some (j, m) => do
          let (b, r) ← rbits 3 r
          some (some (⟨j, m, b⟩ : OrderHintInfo), r)
      some ((iic, mc, wm, df, oh, csct, fsct, cimv, fimv), r)
  let (sr, r) ← rbit r
  let (cdef, r) ← rbit r
  let (rest, r) ← rbit r
  let (cc, r) ← decColorConfig profile r
  let (fg, r) ← rbit r
  some (⟨profile, still, reduced, timing, dm, iddp, ops, fwb, fhb, mw, mh, fid, sb, fi, ief, iic, mc, wm, df, oh,
         csct, fsct, cimv, fimv, sr, cdef, rest, cc, fg⟩, r)

/-- the header with a `uvlc()` of 32 or more leading zeros replaced by a well-formed one: `SeqHdr.WF`
    asks for `z ≤ 31` (the value range the semantics allow); the syntax itself also admits `z ≥ 32` -/
def SeqHdr.normUvlc (s : SeqHdr) : SeqHdr :=
  { s with timing := s.timing.map fun t =>
      { t with numTicksPerPictureMinus1 := t.numTicksPerPictureMinus1.map fun u => if u.z ≥ 32 then ⟨0, 0⟩ else u } }

def isPrefixOfBits : Bits → Bits → Bool
  | [], _ => true
  | _ :: _, [] => false
  | a :: as, b :: bs => a == b && isPrefixOfBits as bs

/-- the header these bits encode, certified by the encoder: `some h` only if
    `encodeSeqHdr h` is a prefix of `bits` and `h` (with its `uvlc()` normalised) is well-formed -/
def certifiedSeqHdr (bits : Bits) : Option SeqHdr :=
  match decodeSeqHdr bits with
  | none => none
  | some (h, _) => if isPrefixOfBits (encodeSeqHdr h) bits ∧ h.normUvlc.WF then some h else none

theorem isPrefixOfBits_iff (a b : Bits) : isPrefixOfBits a b = true ↔ a <+: b := by
  induction a generalizing b with
  | nil => simp [isPrefixOfBits]
  | cons x a ih =>
    cases b with
    | nil => simp [isPrefixOfBits]
    | cons y b => simp [isPrefixOfBits, ih, List.cons_prefix_cons]

/-- what a certified answer means: the trusted encoder maps it onto the input -/
theorem certifiedSeqHdr_sound (bits : Bits) (h : SeqHdr) (hc : certifiedSeqHdr bits = some h) :
    encodeSeqHdr h <+: bits ∧ h.normUvlc.WF := by
  unfold certifiedSeqHdr at hc
  split at hc
  · cases hc
  · split at hc
    · rename_i hp
      cases hc
      exact ⟨(isPrefixOfBits_iff _ _).mp hp.1, hp.2⟩
    · cases hc

end Muxide.Spec.Av1
