import Muxide.Checked.Core
import Muxide.Lemmas.AnnexB
namespace Muxide.Checked
open Muxide Muxide.Spec

/-- first `if` of the loop body of `find_start_code`:
    `i + 4 <= data.len() && data[i] == 0 && data[i+1] == 0 && data[i+2] == 0 && data[i+3] == 1` -/
def test4 (d : Bytes) (i : Nat) : M Bool :=
  andThen (.ok (decide (i + 4 ≤ d.length)))
    (andThen (eqAt d i 0) (andThen (eqAt d (i + 1) 0) (andThen (eqAt d (i + 2) 0) (eqAt d (i + 3) 1))))

/-- second `if`: `data[i] == 0 && data[i+1] == 0 && data[i+2] == 1` -/
def test3 (d : Bytes) (i : Nat) : M Bool :=
  andThen (eqAt d i 0) (andThen (eqAt d (i + 1) 0) (eqAt d (i + 2) 1))

/-- the `while i + 3 <= data.len()` loop; `fuel` only makes the recursion structural, running out of
    it while the loop condition still holds counts as a failure -/
def fscLoop (d : Bytes) : Nat → Nat → M (Option (Nat × Nat))
  | 0, i => if i + 3 ≤ d.length then .error () else .ok none
  | fuel + 1, i =>
    if i + 3 ≤ d.length then
      match test4 d i with
      | .error e => .error e
      | .ok true => .ok (some (i, 4))
      | .ok false =>
        match test3 d i with
        | .error e => .error e
        | .ok true => .ok (some (i, 3))
        | .ok false => fscLoop d fuel (i + 1)
    else .ok none

/-- `find_start_code(data, from)` -/
def findStartCode (d : Bytes) (from_ : Nat) : M (Option (Nat × Nat)) :=
  if d.length < 3 ∨ from_ ≥ d.length then .ok none else fscLoop d (d.length - from_) from_

theorem test4_ok (d : Bytes) (i : Nat) (h : i + 3 ≤ d.length) :
    test4 d i = .ok (decide (scLenAt d i = 4)) := by
  unfold test4 scLenAt
  by_cases h4 : i + 4 ≤ d.length
  · have e0 := List.getElem?_eq_getElem (l := d) (i := i) (by omega)
    have e1 := List.getElem?_eq_getElem (l := d) (i := i + 1) (by omega)
    have e2 := List.getElem?_eq_getElem (l := d) (i := i + 2) (by omega)
    have e3 := List.getElem?_eq_getElem (l := d) (i := i + 3) (by omega)
    simp only [h4, decide_true, andThen, eqAt, e0, e1, e2, e3, Option.some.injEq]
    by_cases a0 : d[i] = 0 <;> by_cases a1 : d[i+1] = 0 <;> by_cases a2 : d[i+2] = 0 <;> by_cases a3 : d[i+3] = 1 <;>
      simp [a0, a1, a2, a3] <;> split <;> simp_all
  · have e3 : d[i + 3]? = none := by simp; omega
    simp only [h4, decide_false, andThen, e3]
    simp
    split <;> simp

theorem test3_ok (d : Bytes) (i : Nat) (h : i + 3 ≤ d.length) :
    test3 d i = .ok (decide (d[i]? = some 0 ∧ d[i+1]? = some 0 ∧ d[i+2]? = some 1)) := by
  unfold test3
  have e0 := List.getElem?_eq_getElem (l := d) (i := i) (by omega)
  have e1 := List.getElem?_eq_getElem (l := d) (i := i + 1) (by omega)
  have e2 := List.getElem?_eq_getElem (l := d) (i := i + 2) (by omega)
  simp only [andThen, eqAt, e0, e1, e2, Option.some.injEq]
  by_cases a0 : d[i] = 0 <;> by_cases a1 : d[i+1] = 0 <;> by_cases a2 : d[i+2] = 1 <;> simp [a0, a1, a2]

end Muxide.Checked

namespace Muxide.Checked
open Muxide Muxide.Spec

theorem scLenAt_short (d : Bytes) (j : Nat) (h : d.length < j + 3) : scLenAt d j = 0 := by
  have e2 : d[j + 2]? = none := by simp; omega
  unfold scLenAt
  simp [e2]

/-- what `firstSC` looks for at one index -/
def scAt (d : Bytes) (i : Nat) : Option (Nat × Nat) := if scLenAt d i ≠ 0 then some (i, scLenAt d i) else none

theorem findSome_short (d : Bytes) (l : List Nat) (h : ∀ j ∈ l, d.length < j + 3) :
    l.findSome? (scAt d) = none := by
  induction l with
  | nil => rfl
  | cons x l ih =>
    have hx := scLenAt_short d x (h x (by simp))
    simp only [List.findSome?_cons, scAt, hx, ne_eq, not_true_eq_false, if_false]
    exact ih (fun j hj => h j (by simp [hj]))

theorem range_succ_shift (fuel i : Nat) :
    (List.range (fuel + 1)).map (· + i) = i :: (List.range fuel).map (· + (i + 1)) := by
  rw [List.range_succ_eq_map]
  simp [List.map_map, Function.comp_def]
  intro a _
  omega

theorem fscLoop_spec (d : Bytes) : ∀ (fuel i : Nat), i + fuel = d.length →
    fscLoop d fuel i = .ok (((List.range fuel).map (· + i)).findSome? (scAt d)) := by
  intro fuel
  induction fuel with
  | zero =>
    intro i hi
    have : ¬ (i + 3 ≤ d.length) := by omega
    simp [fscLoop, this]
  | succ fuel ih =>
    intro i hi
    rw [range_succ_shift, List.findSome?_cons]
    unfold fscLoop
    by_cases h3 : i + 3 ≤ d.length
    · simp only [h3, if_true, test4_ok d i h3, test3_ok d i h3]
      by_cases c4 : scLenAt d i = 4
      · simp [c4, scAt]
      · simp only [c4, decide_false]
        have h4 : ¬ (d[i]? = some 0 ∧ d[i+1]? = some 0 ∧ d[i+2]? = some 0 ∧ d[i+3]? = some 1) :=
          fun hc => c4 (by unfold scLenAt; rw [if_pos hc])
        by_cases c3 : d[i]? = some 0 ∧ d[i+1]? = some 0 ∧ d[i+2]? = some 1
        · have hl : scLenAt d i = 3 := by unfold scLenAt; rw [if_neg h4, if_pos c3]
          simp [c3, scAt, hl]
        · have hl : scLenAt d i = 0 := by unfold scLenAt; rw [if_neg h4, if_neg c3]
          simp only [c3, decide_false, scAt, hl, ne_eq, not_true_eq_false, if_false]
          exact ih (i + 1) (by omega)
    · simp only [h3, if_false]
      have hi0 : scAt d i = none := by simp [scAt, scLenAt_short d i (by omega)]
      rw [hi0]
      simp only
      rw [findSome_short]
      intro j hj
      simp only [List.mem_map, List.mem_range] at hj
      obtain ⟨a, _, rfl⟩ := hj
      omega

/-- `find_start_code` never indexes out of bounds, terminates within `len - from` iterations, and returns
    the least index at or after `from` at which a start code begins (4-byte form preferred) -/
theorem findStartCode_spec (d : Bytes) (from_ : Nat) : findStartCode d from_ = .ok (firstSC d from_) := by
  unfold findStartCode firstSC
  by_cases h : d.length < 3 ∨ from_ ≥ d.length
  · simp only [h, if_true]
    congr 1
    symm
    apply findSome_short
    intro j hj
    simp only [List.mem_map, List.mem_range] at hj
    obtain ⟨a, ha, rfl⟩ := hj
    omega
  · simp only [h, if_false]
    rw [fscLoop_spec d (d.length - from_) from_ (by omega)]
    rfl

end Muxide.Checked

namespace Muxide.Checked
open Muxide Muxide.Spec

theorem firstSC_bounds {d : Bytes} {k p l : Nat} (h : firstSC d k = some (p, l)) :
    k ≤ p ∧ p + l ≤ d.length ∧ (l = 3 ∨ l = 4) := by
  rw [firstSC_eq_firstFrom, ← findSC_eq_firstFrom] at h
  simp only [Option.map_eq_some_iff, Prod.exists, Prod.mk.injEq] at h
  obtain ⟨p', l', hf, rfl, rfl⟩ := h
  have hb := findSC_bound hf
  have hl : (d.drop k).length = d.length - k := by simp
  by_cases hk : k ≤ d.length
  · omega
  · have : d.drop k = [] := by apply List.drop_eq_nil_of_le; omega
    rw [this] at hf
    simp [findSC] at hf

/-- one `AnnexBNalIter::next`: the unit (a checked slice) and the new cursor -/
def nalIterNext (d : Bytes) (cursor : Nat) : M (Option (Bytes × Nat)) :=
  match findStartCode d cursor with
  | .error e => .error e
  | .ok none => .ok none
  | .ok (some (p, l)) =>
    match addU p l with
    | .error e => .error e
    | .ok start =>
      match findStartCode d start with
      | .error e => .error e
      | .ok r =>
        let stop := match r with | some (q, _) => q | none => d.length
        match slice d start stop with
        | .error e => .error e
        | .ok nal => .ok (some (nal, stop))

/-- the iterator driven to exhaustion (`for nal in AnnexBNalIter::new(data)`); running out of fuel is a failure -/
def collectNals (d : Bytes) : Nat → Nat → M (List Bytes)
  | 0, _ => .error ()
  | fuel + 1, c =>
    match nalIterNext d c with
    | .error e => .error e
    | .ok none => .ok []
    | .ok (some (nal, c')) =>
      match collectNals d fuel c' with
      | .error e => .error e
      | .ok ns => .ok (nal :: ns)

theorem collectNals_spec (d : Bytes) (hd : SliceLen d) : ∀ (fuel c : Nat), c ≤ d.length → d.length - c < fuel →
    collectNals d fuel c = .ok (splitFrom d fuel c) := by
  intro fuel
  induction fuel with
  | zero => intro c _ h; omega
  | succ fuel ih =>
    intro c hc hf
    unfold collectNals nalIterNext splitFrom
    rw [findStartCode_spec]
    cases h1 : firstSC d c with
    | none => rfl
    | some pl =>
      obtain ⟨p, l⟩ := pl
      obtain ⟨b1, b2, b3⟩ := firstSC_bounds h1
      have hadd : addU p l = .ok (p + l) := by
        unfold addU usizeLimit; unfold SliceLen at hd
        rw [if_pos (by omega)]
      simp only [hadd, findStartCode_spec]
      -- the end of the unit
      have hstop : (match firstSC d (p + l) with | some (q, _) => q | none => d.length) ≤ d.length ∧
          p + l ≤ (match firstSC d (p + l) with | some (q, _) => q | none => d.length) := by
        cases h2 : firstSC d (p + l) with
        | none => exact ⟨Nat.le_refl _, b2⟩
        | some ql =>
          obtain ⟨q, l2⟩ := ql
          obtain ⟨c1, c2, _⟩ := firstSC_bounds h2
          exact ⟨by simp only; omega, by simp only; omega⟩
      generalize hs : (match firstSC d (p + l) with | some (q, _) => q | none => d.length) = stop at hstop
      have hslice : slice d (p + l) stop = .ok ((d.drop (p + l)).take (stop - (p + l))) := by
        unfold slice
        rw [if_pos ⟨hstop.2, hstop.1⟩, List.drop_take]
      simp only [hslice]
      rw [ih stop hstop.1 (by omega)]
      cases h2 : firstSC d (p + l) with
      | none => simp only [h2] at hs ⊢; subst hs; rfl
      | some ql => obtain ⟨q, l2⟩ := ql; simp only [h2] at hs ⊢; subst hs; rfl

/-- `AnnexBNalIter` run to the end yields exactly the byte runs between start codes, slicing only inside
    the buffer, in at most `len + 1` calls of `next` -/
theorem collectNals_eq (d : Bytes) (hd : SliceLen d) :
    collectNals d (d.length + 1) 0 = .ok (splitAnnexB d) :=
  collectNals_spec d hd (d.length + 1) 0 (Nat.zero_le _) (by omega)

end Muxide.Checked

namespace Muxide.Checked
open Muxide Muxide.Spec

/-- `for nal in AnnexBNalIter::new(data)` as the list of units (the Rust loops consume the iterator
    lazily and may stop early; a failure of the eager collection covers every lazy prefix) -/
def nalsC (d : Bytes) : M (List Bytes) := collectNals d (d.length + 1) 0

theorem nalsC_eq (d : Bytes) (hd : SliceLen d) : nalsC d = .ok (nals d) := by
  unfold nalsC
  rw [collectNals_eq d hd]
  have := nalsAux_eq_splitFrom d (d.length + 1) 0
  simp only [List.drop_zero] at this
  rw [nals, this, splitAnnexB]

/-- `annexb_to_avcc` / `hevc_annexb_to_hvcc`: no indexing in the loop body; `len as u32` truncates -/
def toAvccC (d : Bytes) : M Bytes :=
  match nalsC d with
  | .error e => .error e
  | .ok ns =>
    let out := (ns.filter (· ≠ [])).flatMap fun n => u32be n.length ++ n
    .ok (if out = [] ∧ d ≠ [] then u32be d.length ++ d else out)

theorem toAvccC_eq (d : Bytes) (hd : SliceLen d) : toAvccC d = .ok (toAvcc d) := by
  unfold toAvccC toAvcc
  rw [nalsC_eq d hd]

/-- `nal[0] & 0x1f` behind the `nal.is_empty()` guard, then `assert_invariant!(nal_type <= 31)` -/
def h264NalTypeC (n : Bytes) : M Nat :=
  match getC n 0 with
  | .error e => .error e
  | .ok b => if b.toNat % 32 ≤ 31 then .ok (b.toNat % 32) else .error ()

theorem h264NalTypeC_eq (n : Bytes) (hn : n ≠ []) : h264NalTypeC n = .ok (h264NalType n) := by
  cases n with
  | nil => exact absurd rfl hn
  | cons b r =>
    have : b.toNat % 32 ≤ 31 := by omega
    simp [h264NalTypeC, getC, h264NalType, this]

/-- the update of (sps, pps) by one non-empty unit of type `t` -/
def avcPick (t : Nat) (n : Bytes) (s p : Option Bytes) : Option Bytes × Option Bytes :=
  if t = 7 ∧ s.isNone then (some n, p)
  else if t = 8 ∧ p.isNone then (s, some n)
  else (s, p)

/-- loop of `extract_avc_config` -/
def avcScanC : List Bytes → Option Bytes → Option Bytes → M (Option Bytes × Option Bytes)
  | [], s, p => .ok (s, p)
  | n :: ns, s, p =>
    if n = [] then avcScanC ns s p else
    match h264NalTypeC n with
    | .error e => .error e
    | .ok t =>
      let q := avcPick t n s p
      if q.1.isSome ∧ q.2.isSome then .ok q else avcScanC ns q.1 q.2

theorem avcScan_cons (n : Bytes) (ns : List Bytes) (s p : Option Bytes) (hn : n ≠ []) :
    avcScan (n :: ns) s p =
      (let q := avcPick (h264NalType n) n s p
       if q.1.isSome ∧ q.2.isSome then q else avcScan ns q.1 q.2) := by
  rw [avcScan]
  simp only [hn, if_false, avcPick]
  split <;> rfl

theorem avcScanC_eq (ns : List Bytes) (s p : Option Bytes) : avcScanC ns s p = .ok (avcScan ns s p) := by
  induction ns generalizing s p with
  | nil => rfl
  | cons n ns ih =>
    by_cases hn : n = []
    · subst hn
      rw [avcScanC, avcScan]
      simp only [if_true]; exact ih s p
    · rw [avcScanC, avcScan_cons n ns s p hn]
      simp only [hn, if_false, h264NalTypeC_eq n hn]
      split
      · rfl
      · exact ih _ _

/-- `extract_avc_config`, including the INV-302 assertion that both parameter sets are non-empty -/
def extractAvcC (d : Bytes) : M (Option AvcConfig) :=
  if d = [] then .ok none else
  match nalsC d with
  | .error e => .error e
  | .ok ns =>
    match avcScanC ns none none with
    | .error e => .error e
    | .ok (some s, some p) => if s ≠ [] ∧ p ≠ [] then .ok (some ⟨s, p⟩) else .error ()
    | .ok _ => .ok none

/-- parameter sets picked by the scan are units it did not skip: non-empty -/
theorem avcScan_nonempty (ns : List Bytes) (s p : Option Bytes)
    (hs : ∀ x, s = some x → x ≠ []) (hp : ∀ x, p = some x → x ≠ []) :
    (∀ x, (avcScan ns s p).1 = some x → x ≠ []) ∧ (∀ x, (avcScan ns s p).2 = some x → x ≠ []) := by
  induction ns generalizing s p with
  | nil => exact ⟨hs, hp⟩
  | cons n ns ih =>
    by_cases hn : n = []
    · subst hn
      rw [avcScan]
      simp only [if_true]; exact ih s p hs hp
    · rw [avcScan_cons n ns s p hn]
      have hq : (∀ x, (avcPick (h264NalType n) n s p).1 = some x → x ≠ []) ∧
                (∀ x, (avcPick (h264NalType n) n s p).2 = some x → x ≠ []) := by
        unfold avcPick
        split
        · exact ⟨by intro x hx; simp at hx; subst hx; exact hn, hp⟩
        · split
          · exact ⟨hs, by intro x hx; simp at hx; subst hx; exact hn⟩
          · exact ⟨hs, hp⟩
      simp only
      split
      · exact hq
      · exact ih _ _ hq.1 hq.2

theorem extractAvcC_eq (d : Bytes) (hd : SliceLen d) : extractAvcC d = .ok (extractAvc d) := by
  unfold extractAvcC extractAvc
  by_cases h : d = []
  · simp [h]
  · simp only [h, if_false, nalsC_eq d hd, avcScanC_eq]
    have hne := avcScan_nonempty (nals d) none none (by simp) (by simp)
    cases hsc : avcScan (nals d) none none with
    | mk s p =>
      rw [hsc] at hne
      cases s <;> cases p <;> simp_all

/-- `is_h264_keyframe` -/
def isH264KeyframeC (d : Bytes) : M Bool :=
  match nalsC d with
  | .error e => .error e
  | .ok ns =>
    ns.foldr (fun n acc =>
      if n = [] then acc else
      match getC n 0 with
      | .error e => .error e
      | .ok b => if b.toNat % 32 = 5 then .ok true else acc) (.ok false)

theorem keyFold_eq (ns : List Bytes) :
    ns.foldr (fun n acc =>
      if n = [] then acc else
      match getC n 0 with
      | .error e => .error e
      | .ok b => if b.toNat % 32 = 5 then .ok true else acc) (.ok false)
    = (.ok (ns.any fun n => n ≠ [] ∧ h264NalType n = 5) : M Bool) := by
  induction ns with
  | nil => rfl
  | cons n ns ih =>
    rw [List.foldr_cons, ih, List.any_cons]
    cases n with
    | nil => simp
    | cons b r =>
      simp only [reduceCtorEq, if_false, getC, List.getElem?_cons_zero, h264NalType, List.headD_cons]
      by_cases h5 : b.toNat % 32 = 5 <;> simp [h5]

theorem isH264KeyframeC_eq (d : Bytes) (hd : SliceLen d) : isH264KeyframeC d = .ok (isH264Keyframe d) := by
  unfold isH264KeyframeC isH264Keyframe
  rw [nalsC_eq d hd]
  exact keyFold_eq (nals d)

end Muxide.Checked
