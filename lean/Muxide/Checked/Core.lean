import Muxide.Model.Basic
/-
  Muxide.Checked.Core — the vocabulary of the *checked* (index-walking) models used for C12.

  The structural models of Muxide.Model cannot panic by construction, so they say nothing about slice
  indexing.  The functions of Muxide.Checked.* mirror the Rust source at the level of its index and
  slice operations instead: `data[i]`, `&data[a..b]`, `a + b` on `usize`, `x as uN` each become an
  operation that *fails* (`.error ()`, the model of a panic) when Rust would panic — an out-of-range
  index, an inverted or overlong slice range, an overflowing addition in a build with overflow checks.
  The theorems of Props/C12Checked.lean then state `Checked.f x = .ok (Model.f x)` for every input:
  the Rust function never panics and computes what the structural model computes.
-/
namespace Muxide.Checked

/-- `Result` with a single failure value: the panic -/
abbrev M := Except Unit

/-- `usize::MAX + 1` on the 64-bit targets the crate is built for -/
def usizeLimit : Nat := 2 ^ 64

/-- slices are at most `isize::MAX` bytes long (guaranteed by Rust's allocation rules) -/
def SliceLen (d : Bytes) : Prop := d.length < 2 ^ 63

/-- `data[i]` -/
def getC (d : Bytes) (i : Nat) : M UInt8 :=
  match d[i]? with
  | some b => .ok b
  | none => .error ()

/-- `data[i] == v` -/
def eqAt (d : Bytes) (i : Nat) (v : UInt8) : M Bool :=
  match d[i]? with
  | some b => .ok (b == v)
  | none => .error ()

/-- Rust's short-circuit `a && b` on possibly panicking operands -/
def andThen (a : M Bool) (b : M Bool) : M Bool :=
  match a with
  | .ok true => b
  | r => r

/-- `&data[from..]` -/
def sliceFrom (d : Bytes) (i : Nat) : M Bytes := if i ≤ d.length then .ok (d.drop i) else .error ()

/-- `&data[..to]` -/
def sliceTo (d : Bytes) (j : Nat) : M Bytes := if j ≤ d.length then .ok (d.take j) else .error ()

/-- `&data[from..to]` -/
def slice (d : Bytes) (i j : Nat) : M Bytes :=
  if i ≤ j ∧ j ≤ d.length then .ok ((d.take j).drop i) else .error ()

/-- `a + b` on `usize` with overflow checks -/
def addU (a b : Nat) : M Nat := if a + b < usizeLimit then .ok (a + b) else .error ()

/-- `a - b` on `usize` with overflow checks -/
def subU (a b : Nat) : M Nat := if b ≤ a then .ok (a - b) else .error ()

theorem eqAt_ok {d : Bytes} {i : Nat} (h : i < d.length) (v : UInt8) : eqAt d i v = .ok (d[i] == v) := by
  simp [eqAt, List.getElem?_eq_getElem h]

theorem getC_ok {d : Bytes} {i : Nat} (h : i < d.length) : getC d i = .ok d[i] := by
  simp [getC, List.getElem?_eq_getElem h]

theorem addU_ok {a b : Nat} (h : a + b < 2 ^ 64) : addU a b = .ok (a + b) := by
  unfold addU usizeLimit; rw [if_pos h]

theorem subU_ok {a b : Nat} (h : b ≤ a) : subU a b = .ok (a - b) := by
  unfold subU; rw [if_pos h]

theorem sliceFrom_ok {d : Bytes} {i : Nat} (h : i ≤ d.length) : sliceFrom d i = .ok (d.drop i) := by
  unfold sliceFrom; rw [if_pos h]

theorem sliceTo_ok {d : Bytes} {j : Nat} (h : j ≤ d.length) : sliceTo d j = .ok (d.take j) := by
  unfold sliceTo; rw [if_pos h]

theorem slice_ok {d : Bytes} {i j : Nat} (h1 : i ≤ j) (h2 : j ≤ d.length) :
    slice d i j = .ok ((d.take j).drop i) := by
  unfold slice; rw [if_pos ⟨h1, h2⟩]

end Muxide.Checked
