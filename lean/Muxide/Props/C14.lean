import Muxide.Lemmas.Framing
import Muxide.Lemmas.AnnexB
/-
  C14 — Re-framing (Annex B → length-prefixed NALs, ADTS → raw AAC) is exact.
  Property theorems only; helper lemmas live in Muxide/Lemmas/.
-/
namespace Muxide.Props.C14
open Muxide Muxide.Spec

/-- the units the *model* emits: the non-empty NALs of the iterator, or the whole input -/
def modelUnits (d : Bytes) : List Bytes :=
  let u := (nals d).filter (· ≠ [])
  if u = [] ∧ d ≠ [] then [d] else u

/-- The converted access unit parses, as 4-byte big-endian length-prefixed units, exactly to its
    end, and the payloads are the model's units in order and unmodified — for every byte string
    whose units are shorter than 2^32 bytes (the width of the length field). -/
theorem C14_frame_roundtrip (d : Bytes) (h : ∀ u ∈ modelUnits d, u.length < 2^32) :
    parseLengthPrefixed (toAvcc d) = some (modelUnits d) := by
  unfold parseLengthPrefixed
  by_cases hc : ((nals d).filter (· ≠ [])) = [] ∧ d ≠ []
  · have hm : modelUnits d = [d] := by
      simp only [modelUnits]; rw [if_pos hc]
    have ht : toAvcc d = [d].flatMap (fun n => u32be n.length ++ n) := by
      simp only [toAvcc]; rw [hc.1]; simp [hc.2]
    rw [ht, hm]
    apply parseLP_flatMap
    · intro x hx; exact h x (by rw [hm]; exact hx)
    · simp; omega
  · have hm : modelUnits d = (nals d).filter (· ≠ []) := by
      simp only [modelUnits]; rw [if_neg hc]
    have ht : toAvcc d = ((nals d).filter (· ≠ [])).flatMap (fun n => u32be n.length ++ n) := by
      simp only [toAvcc]
      split
      · next hh =>
        exfalso; apply hc
        refine ⟨?_, hh.2⟩
        have := hh.1
        cases hf : (nals d).filter (· ≠ []) with
        | nil => rfl
        | cons x xs => rw [hf] at this; simp [u32be] at this
      · rfl
    rw [ht, hm]
    apply parseLP_flatMap
    · intro x hx; exact h x (by rw [hm]; exact hx)
    · have := length_le_sum_lp ((nals d).filter (· ≠ []))
      rw [← flatMap_lp_length] at this
      exact Nat.lt_succ_of_le this

/-- Every unit the model emits is non-empty (empty runs between adjacent start codes are skipped). -/
theorem C14_units_nonempty (d : Bytes) : ∀ u ∈ modelUnits d, u ≠ [] := by
  intro u hu
  simp only [modelUnits] at hu
  split at hu
  · next hc => simp at hu; rw [hu]; exact hc.2
  · simp at hu; exact hu.2

/-- ADTS: the model accepts a frame exactly when it is structurally valid (field by field, by
    bit position), and the stored sample is then exactly the bytes between the 7- or 9-byte
    header (per the protection flag, bit 15) and the declared 13-bit frame length (bits 30‥42). -/
theorem C14_adts (f : Bytes) :
    (∀ r, adtsToRaw f = .ok r → r = adtsPayload f) ∧
    ((∃ r, adtsToRaw f = .ok r) ↔ adtsValid f = true) := by
  by_cases h7 : 7 ≤ f.length
  · obtain ⟨b0, b1, b2, b3, b4, b5, b6, rest, rfl⟩ := exists_seven f h7
    obtain ⟨eHL, eFL, eSync, eId, eLayer, eSfi, eCh⟩ := adts_fields b0 b1 b2 b3 b4 b5 b6 rest
    constructor
    · intro r hr
      rw [adtsToRaw_ok_iff] at hr
      rw [hr.2, adtsPayload, eHL, eFL]
    · constructor
      · rintro ⟨r, hr⟩
        rw [adtsToRaw_ok_iff] at hr
        obtain ⟨⟨g1, g2, g3, g4, g5, g6, g7, g8, g9⟩, _⟩ := hr
        simp only [adtsValid, eHL, eFL, eId, eLayer, eSfi, eCh, decide_eq_true_eq]
        exact ⟨g1, eSync.mpr g2, g3, g4, g5, g6, g7.1, g8, g9⟩
      · intro hv
        simp only [adtsValid, eHL, eFL, eId, eLayer, eSfi, eCh, decide_eq_true_eq] at hv
        obtain ⟨v1, v2, v3, v4, v5, v6, v7, v8, v9⟩ := hv
        refine ⟨_, (adtsToRaw_ok_iff _ _).mpr ⟨⟨v1, eSync.mp v2, v3, v4, v5, v6, ⟨v7, ?_⟩, v8, v9⟩, rfl⟩⟩
        have l2 := b2.toNat_lt; have l3 := b3.toNat_lt
        simp only [adtsChannelConfig, byteAt]; simp; omega
  · constructor
    · intro r hr
      rw [adtsToRaw_ok_iff] at hr
      exact absurd hr.1.1 h7
    · constructor
      · rintro ⟨r, hr⟩
        rw [adtsToRaw_ok_iff] at hr
        exact absurd hr.1.1 h7
      · intro hv
        simp only [adtsValid, decide_eq_true_eq] at hv
        exact absurd hv.1 h7

/-- non-vacuity: a concrete protected (9-byte header) frame is valid and yields its 2 payload bytes -/
example : adtsToRaw [0xFF, 0xF0, 0x4C, 0x80, 0x01, 0x7F, 0xFC, 0xAA, 0xBB, 0x11, 0x22, 0x99] = .ok [0x11, 0x22] := by
  simp [adtsToRaw, byteAt, adtsHeaderLen, adtsFrameLength, adtsChannelConfig]

/-! ### The structural scanner and iterator against the least-index specification -/

/-- The model's start-code scanner, run on the suffix at `from_`, finds exactly the least index
    `≥ from_` at which a start code begins, with the right length (4-byte form preferred). -/
theorem C14_scan (d : Bytes) (from_ : Nat) :
    (findSC (d.drop from_)).map (fun (p, l) => (p + from_, l)) = firstSC d from_ := by
  rw [firstSC_eq_firstFrom, findSC_eq_firstFrom]

/-- The NAL iterator yields exactly the byte runs between the end of one start code and the
    beginning of the next (or the end of input). -/
theorem C14_split (d : Bytes) : nals d = splitAnnexB d := by
  have := nalsAux_eq_splitFrom d (d.length + 1) 0
  simpa [nals, splitAnnexB] using this

/-- hence the units the model emits are the units of the specification -/
theorem C14_modelUnits (d : Bytes) : modelUnits d = units d := by
  simp only [modelUnits, units, C14_split]

/-- every unit is a contiguous piece of the input -/
theorem C14_units_infix (d : Bytes) : ∀ u ∈ units d, u <:+: d := by
  intro u hu
  simp only [units] at hu
  split at hu
  · simp at hu; subst hu; exact List.infix_refl _
  · simp only [List.mem_filter] at hu
    exact splitFrom_infix d _ _ u hu.1

/-- The converted access unit parses, as 4-byte big-endian length-prefixed units, exactly to its
    end, and the payloads are the specification's units (the non-empty runs between start codes,
    or the whole input when there is none), in order and unmodified. -/
theorem C14_frame (d : Bytes) (h : d.length < 2^32) :
    parseLengthPrefixed (toAvcc d) = some (units d) := by
  rw [← C14_modelUnits]
  apply C14_frame_roundtrip
  intro u hu
  rw [C14_modelUnits] at hu
  exact Nat.lt_of_le_of_lt (C14_units_infix d u hu).length_le h

/-! ### Units joined by arbitrary start codes split back into exactly those units -/

/-- a unit that can be framed by start codes without ambiguity: no start code begins anywhere
    inside it, and it does not end in a zero byte (a trailing zero would be absorbed by a
    following `00 00 01`, read as `00 00 00 01`). Empty units are allowed. -/
def WellFormed (n : Bytes) : Prop := n.getLast? ≠ some 0 ∧ ∀ i, scLenAt n i = 0

private theorem zip_props (cs ns : List Bytes)
    (hcs : ∀ c ∈ cs, c = [0, 0, 1] ∨ c = [0, 0, 0, 1]) (hns : ∀ n ∈ ns, WellFormed n) :
    ∀ q ∈ List.zip cs ns, IsSC q.1 ∧ q.2.getLast? ≠ some 0 ∧ findSC q.2 = none := by
  intro q hq
  obtain ⟨c, n⟩ := q
  obtain ⟨h1, h2⟩ := List.of_mem_zip hq
  exact ⟨hcs c h1, (hns n h2).1, (noSC_iff n).mp (hns n h2).2⟩

/-- All lists of well-formed units, each preceded by an arbitrary 3- or 4-byte start code, split
    back into exactly those units. -/
theorem C14_construct (cs ns : List Bytes) (hlen : cs.length = ns.length)
    (hcs : ∀ c ∈ cs, c = [0, 0, 1] ∨ c = [0, 0, 0, 1]) (hns : ∀ n ∈ ns, WellFormed n) :
    splitAnnexB ((List.zip cs ns).flatMap (fun (c, n) => c ++ n)) = ns := by
  have e : (List.zip cs ns).flatMap (fun (c, n) => c ++ n) = joinSC (List.zip cs ns) := rfl
  have hj := nalsAux_join (List.zip cs ns) [] ((joinSC (List.zip cs ns)).length + 1)
    (zip_props cs ns hcs hns) (Or.inl rfl)
  rw [List.append_nil, nalsAux_nil, List.append_nil, List.map_snd_zip (by omega)] at hj
  rw [← C14_split, nals, e, nalsAux_fuel _ _
    ((List.zip cs ns).length + ((joinSC (List.zip cs ns)).length + 1)) (Nat.lt_succ_self _) (by omega), hj]

/-- The same with any number of zero bytes before the first start code and after the last unit:
    the leading zeros are skipped, the trailing zeros are appended to the last unit. The last
    unit need only be free of start codes. -/
theorem C14_construct_padded (z t : Nat) (cs ns : List Bytes) (c n : Bytes)
    (hlen : cs.length = ns.length)
    (hcs : ∀ c ∈ cs, c = [0, 0, 1] ∨ c = [0, 0, 0, 1]) (hns : ∀ n ∈ ns, WellFormed n)
    (hc : c = [0, 0, 1] ∨ c = [0, 0, 0, 1]) (hn : ∀ i, scLenAt n i = 0) :
    splitAnnexB (List.replicate z 0 ++ (List.zip cs ns).flatMap (fun (c, n) => c ++ n) ++ c ++ n
        ++ List.replicate t 0) = ns ++ [n ++ List.replicate t 0] := by
  have hm : findSC (n ++ List.replicate t 0) = none :=
    findSC_append_zeros n t ((noSC_iff n).mp hn)
  have hps := zip_props cs ns hcs hns
  -- the data after the leading zeros
  have hj := nalsAux_join (List.zip cs ns) (c ++ (n ++ List.replicate t 0))
    ((joinSC (List.zip cs ns) ++ (c ++ (n ++ List.replicate t 0))).length + 1) hps
    (Or.inr (by rw [IsSC.headLen hc]; have := IsSC.length hc; omega))
  rw [nalsAux_last _ c _ hc hm, List.map_snd_zip (by omega)] at hj
  -- it begins with a start code
  have hhead := joinSC_append_head (List.zip cs ns) c (n ++ List.replicate t 0)
    (fun q hq => (hps q hq).1) hc
  obtain ⟨c0, x, hc0, hx⟩ := hhead
  rw [← C14_split, nals]
  have hd : List.replicate z 0 ++ (List.zip cs ns).flatMap (fun (c, n) => c ++ n) ++ c ++ n
      ++ List.replicate t 0 = List.replicate z 0 ++ (c0 ++ x) := by
    rw [← hx]; simp [joinSC]
  rw [hd, nalsAux_leading_zeros _ z c0 x hc0,
    nalsAux_fuel (c0 ++ x) _ ((List.zip cs ns).length + ((c0 ++ x).length + 1))
      (by simp; omega) (by omega), ← hx, hj]

/-- a byte string of zeros contains no unit -/
theorem C14_zeros (z : Nat) : splitAnnexB (List.replicate z 0) = [] := by
  rw [← C14_split, nals, nalsAux, findSC_zeros]

/-- End to end: non-empty well-formed units joined by arbitrary start codes are converted to
    exactly those units, each behind its 4-byte big-endian length. -/
theorem C14_construct_frame (cs ns : List Bytes) (hlen : cs.length = ns.length)
    (hcs : ∀ c ∈ cs, c = [0, 0, 1] ∨ c = [0, 0, 0, 1])
    (hns : ∀ n ∈ ns, WellFormed n ∧ n ≠ [])
    (hsz : ((List.zip cs ns).flatMap (fun (c, n) => c ++ n)).length < 2^32) :
    parseLengthPrefixed (toAvcc ((List.zip cs ns).flatMap (fun (c, n) => c ++ n))) = some ns := by
  rw [C14_frame _ hsz]
  have hs := C14_construct cs ns hlen hcs (fun n hn => (hns n hn).1)
  have hf : ns.filter (· ≠ []) = ns := by
    rw [List.filter_eq_self]; intro n hn; simpa using (hns n hn).2
  simp only [units, hs, hf]
  split
  · next h =>
    obtain ⟨h1, h2⟩ := h
    subst h1
    simp at h2
  · rfl

/-- The fuel of the specification's split (and hence of the model's iterator) never truncates:
    any fuel above the remaining length gives the same runs. -/
theorem C14_split_fuel (d : Bytes) (k f1 f2 : Nat) (h1 : d.length - k < f1) (h2 : d.length - k < f2) :
    splitFrom d f1 k = splitFrom d f2 k := by
  rw [← nalsAux_eq_splitFrom, ← nalsAux_eq_splitFrom]
  exact nalsAux_fuel _ _ _ (by simpa using h1) (by simpa using h2)

/-- non-vacuity: concrete well-formed units (one containing `00 00 03`, one containing `00 01`) -/
example : WellFormed [0x67, 0x00, 0x00, 0x03, 0x01] ∧ WellFormed [0x68, 0x00, 0x01, 0x80] ∧
    WellFormed [] :=
  ⟨⟨by simp, (noSC_iff _).mpr (by simp [findSC])⟩, ⟨by simp, (noSC_iff _).mpr (by simp [findSC])⟩,
    ⟨by simp, (noSC_iff _).mpr (by simp [findSC])⟩⟩

/-- the trailing-zero condition is needed: `[5, 0]` followed by `00 00 01` loses its last byte -/
example : splitAnnexB ([0, 0, 1] ++ [5, 0] ++ [0, 0, 1] ++ [6]) = [[5], [6]] := by
  simp [splitAnnexB, splitFrom, firstSC, scLenAt, List.range_succ]

/-- non-vacuity of `C14_construct`: mixed 3- and 4-byte start codes -/
example : splitAnnexB ([0, 0, 1] ++ [0x67, 0x00, 0x00, 0x03, 0x01] ++ ([0, 0, 0, 1] ++ [0x68, 0x00, 0x01, 0x80]))
    = [[0x67, 0x00, 0x00, 0x03, 0x01], [0x68, 0x00, 0x01, 0x80]] := by
  have := C14_construct [[0, 0, 1], [0, 0, 0, 1]] [[0x67, 0x00, 0x00, 0x03, 0x01], [0x68, 0x00, 0x01, 0x80]]
    rfl (by simp)
    (by
      intro n hn
      simp only [List.mem_cons, List.not_mem_nil, or_false] at hn
      rcases hn with rfl | rfl
      · exact ⟨by simp, (noSC_iff _).mpr (by simp [findSC])⟩
      · exact ⟨by simp, (noSC_iff _).mpr (by simp [findSC])⟩)
  simpa using this

/-! ### Scanner cost (used by C12): the iterator examines at most one position per input byte -/

/-- number of positions the scanner examines (calls of `findSC` on a non-empty suffix; an upper
    bound on the iterations of the `while` loop of `find_start_code`) -/
def scanSteps : Bytes → Nat
  | [] => 0
  | b :: rest =>
    match b, rest with
    | 0, 0 :: 0 :: 1 :: _ => 1
    | 0, 0 :: 1 :: _ => 1
    | _, _ => scanSteps rest + 1

/-- total number of positions examined by all `find_start_code` calls of the iterator -/
def iterSteps : Nat → Bytes → Nat
  | 0, _ => 0
  | fuel + 1, d =>
    scanSteps d +
    match findSC d with
    | none => 0
    | some (p, l) => scanSteps (d.drop (p + l)) + iterSteps fuel (takeNal (d.drop (p + l))).2

theorem C14_scan_steps (e : Bytes) :
    scanSteps e = match findSC e with
      | some (p, _) => p + 1
      | none => e.length := by
  fun_induction findSC e
  · simp [scanSteps]
  · simp [scanSteps]
  · simp [scanSteps]
  · next b rest h1 h2 ih =>
    rw [scanSteps.eq_4 b rest h1 h2, ih]
    cases findSC rest with
    | none => simp
    | some pl => simp

theorem C14_iter_steps (fuel : Nat) (d : Bytes) : iterSteps fuel d ≤ d.length := by
  induction fuel generalizing d with
  | zero => simp [iterSteps]
  | succ fuel ih =>
    rw [iterSteps, C14_scan_steps d]
    cases h : findSC d with
    | none => simp
    | some pl =>
      obtain ⟨p, l⟩ := pl
      have hb := findSC_bound h
      simp only
      rw [C14_scan_steps (d.drop (p + l))]
      have ihr := ih (takeNal (d.drop (p + l))).2
      unfold takeNal at ihr ⊢
      cases h2 : findSC (d.drop (p + l)) with
      | none =>
        rw [h2] at ihr
        simp at ihr ⊢
        omega
      | some ql =>
        obtain ⟨q, l'⟩ := ql
        have hb2 := findSC_bound h2
        rw [h2] at ihr
        simp at ihr hb2 ⊢
        omega

theorem C14_nals_count (d : Bytes) : 3 * (nals d).length ≤ d.length := by
  suffices h : ∀ fuel e, 3 * (nalsAux fuel e).length ≤ e.length from h _ _
  intro fuel
  induction fuel with
  | zero => simp [nalsAux]
  | succ fuel ih =>
    intro e
    rw [nalsAux]
    cases h : findSC e with
    | none => simp
    | some pl =>
      obtain ⟨p, l⟩ := pl
      have hb := findSC_bound h
      have ht := takeNal_snd_length (e.drop (p + l))
      have := ih (takeNal (e.drop (p + l))).2
      simp at ht ⊢
      omega

end Muxide.Props.C14
