import Muxide.Lemmas.Framing
/-
  C14 — Re-framing (Annex B → length-prefixed NALs, ADTS → raw AAC) is exact.
  Property theorems only; helper lemmas live in Muxide/Lemmas/.
-/
namespace Muxide.Props.C14
open Muxide Muxide.Spec

/-- the units the *model* emits: the non-empty NALs of the iterator, or the whole input -/
def modelUnits (d : Bytes) : List Bytes :=
  let u := (nals d).filter (· ≠ [])
  if u = [] ∧ d ≠ [] then [d] else u

/-- The converted access unit parses, as 4-byte big-endian length-prefixed units, exactly to its
    end, and the payloads are the model's units in order and unmodified — for every byte string
    whose units are shorter than 2^32 bytes (the width of the length field). -/
theorem C14_frame_roundtrip (d : Bytes) (h : ∀ u ∈ modelUnits d, u.length < 2^32) :
    parseLengthPrefixed (toAvcc d) = some (modelUnits d) := by
  unfold parseLengthPrefixed
  by_cases hc : ((nals d).filter (· ≠ [])) = [] ∧ d ≠ []
  · have hm : modelUnits d = [d] := by
      simp only [modelUnits]; rw [if_pos hc]
    have ht : toAvcc d = [d].flatMap (fun n => u32be n.length ++ n) := by
      simp only [toAvcc]; rw [hc.1]; simp [hc.2]
    rw [ht, hm]
    apply parseLP_flatMap
    · intro x hx; exact h x (by rw [hm]; exact hx)
    · simp; omega
  · have hm : modelUnits d = (nals d).filter (· ≠ []) := by
      simp only [modelUnits]; rw [if_neg hc]
    have ht : toAvcc d = ((nals d).filter (· ≠ [])).flatMap (fun n => u32be n.length ++ n) := by
      simp only [toAvcc]
      split
      · next hh =>
        exfalso; apply hc
        refine ⟨?_, hh.2⟩
        have := hh.1
        cases hf : (nals d).filter (· ≠ []) with
        | nil => rfl
        | cons x xs => rw [hf] at this; simp [u32be] at this
      · rfl
    rw [ht, hm]
    apply parseLP_flatMap
    · intro x hx; exact h x (by rw [hm]; exact hx)
    · have := length_le_sum_lp ((nals d).filter (· ≠ []))
      rw [← flatMap_lp_length] at this
      exact Nat.lt_succ_of_le this

/-- Every unit the model emits is non-empty (empty runs between adjacent start codes are skipped). -/
theorem C14_units_nonempty (d : Bytes) : ∀ u ∈ modelUnits d, u ≠ [] := by
  intro u hu
  simp only [modelUnits] at hu
  split at hu
  · next hc => simp at hu; rw [hu]; exact hc.2
  · simp at hu; exact hu.2

/-- ADTS: the model accepts a frame exactly when it is structurally valid (field by field, by
    bit position), and the stored sample is then exactly the bytes between the 7- or 9-byte
    header (per the protection flag, bit 15) and the declared 13-bit frame length (bits 30‥42). -/
theorem C14_adts (f : Bytes) :
    (∀ r, adtsToRaw f = .ok r → r = adtsPayload f) ∧
    ((∃ r, adtsToRaw f = .ok r) ↔ adtsValid f = true) := by
  by_cases h7 : 7 ≤ f.length
  · obtain ⟨b0, b1, b2, b3, b4, b5, b6, rest, rfl⟩ := exists_seven f h7
    obtain ⟨eHL, eFL, eSync, eId, eLayer, eSfi, eCh⟩ := adts_fields b0 b1 b2 b3 b4 b5 b6 rest
    constructor
    · intro r hr
      rw [adtsToRaw_ok_iff] at hr
      rw [hr.2, adtsPayload, eHL, eFL]
    · constructor
      · rintro ⟨r, hr⟩
        rw [adtsToRaw_ok_iff] at hr
        obtain ⟨⟨g1, g2, g3, g4, g5, g6, g7, g8, g9⟩, _⟩ := hr
        simp only [adtsValid, eHL, eFL, eId, eLayer, eSfi, eCh, decide_eq_true_eq]
        exact ⟨g1, eSync.mpr g2, g3, g4, g5, g6, g7.1, g8, g9⟩
      · intro hv
        simp only [adtsValid, eHL, eFL, eId, eLayer, eSfi, eCh, decide_eq_true_eq] at hv
        obtain ⟨v1, v2, v3, v4, v5, v6, v7, v8, v9⟩ := hv
        refine ⟨_, (adtsToRaw_ok_iff _ _).mpr ⟨⟨v1, eSync.mp v2, v3, v4, v5, v6, ⟨v7, ?_⟩, v8, v9⟩, rfl⟩⟩
        have l2 := b2.toNat_lt; have l3 := b3.toNat_lt
        simp only [adtsChannelConfig, byteAt]; simp; omega
  · constructor
    · intro r hr
      rw [adtsToRaw_ok_iff] at hr
      exact absurd hr.1.1 h7
    · constructor
      · rintro ⟨r, hr⟩
        rw [adtsToRaw_ok_iff] at hr
        exact absurd hr.1.1 h7
      · intro hv
        simp only [adtsValid, decide_eq_true_eq] at hv
        exact absurd hv.1 h7

/-- non-vacuity: a concrete protected (9-byte header) frame is valid and yields its 2 payload bytes -/
example : adtsToRaw [0xFF, 0xF0, 0x4C, 0x80, 0x01, 0x7F, 0xFC, 0xAA, 0xBB, 0x11, 0x22, 0x99] = .ok [0x11, 0x22] := by
  simp [adtsToRaw, byteAt, adtsHeaderLen, adtsFrameLength, adtsChannelConfig]

end Muxide.Props.C14
