import Muxide.Lemmas.Records
/-
  C19 — every fixed-layout header box and decoder-configuration record the library emits has the
  size, version, reserved-bit values and field positions prescribed by its defining specification:
  the strict decoders of Muxide.Spec.Strict (written from ISO/IEC 14496-12) recover the configured
  values from the builders' payloads.  Two recorded non-conformances of the progressive writer
  (`tkhd` has a stray 32-bit word, `vmhd` has flags 0) are stated as counterexample theorems with
  the part of the layout that IS correct.
  (The decoder-configuration records avcC / hvcC / av1C / vpcC / esds / dOps are in Props/C07.lean.)
  Property theorems only; helper lemmas live in Muxide/Lemmas/Records.lean.
-/
namespace Muxide.Props.C19
open Muxide Muxide.Spec Box

/-! ## 1. movie header -/

/-- progressive writer: timescale 1000, the given duration and next-track id -/
theorem C19_mvhd (d n : Nat) (hd : d < 2^32) (hn : n < 2^32) :
    strictMvhd (bMvhd d n).pre = some ⟨1000, d, n⟩ := by
  simp [bMvhd, leaf, Box.pre, u32be, u16be, u64be, zeros, matrixBytes, List.replicate, strictMvhd, be,
    allZero, identityMatrix, u8, UInt8.toNat_ofNat', List.range, List.range.loop]
  omega

/-- without range hypotheses the layout is still conformant; the two fields hold the values mod 2^32 -/
theorem C19_mvhd_wrap (d n : Nat) :
    strictMvhd (bMvhd d n).pre = some ⟨1000, d % 2^32, n % 2^32⟩ := by
  simp [bMvhd, leaf, Box.pre, u32be, u16be, u64be, zeros, matrixBytes, List.replicate, strictMvhd, be,
    allZero, identityMatrix, u8, UInt8.toNat_ofNat', List.range, List.range.loop]
  omega

/-- fragmented muxer: the configured timescale, duration 0, next-track id 2 -/
theorem C19_fmvhd (ts : Nat) (h : ts < 2^32) : strictMvhd (fMvhd ts).pre = some ⟨ts, 0, 2⟩ := by
  simp [fMvhd, leaf, Box.pre, u32be, u16be, zeros, List.replicate, strictMvhd, be,
    allZero, identityMatrix, u8, UInt8.toNat_ofNat', List.range, List.range.loop]
  omega

/-! ## 2. media header -/

theorem C19_mdhd (ts dur : Nat) (lang : Option (List Nat)) (h1 : ts < 2^32) (h2 : dur < 2^32) :
    strictMdhd (bMdhd ts dur lang).pre = some ⟨ts, dur, langCode (lang.getD [117, 110, 100])⟩ := by
  have hl := langCode_lt15 (lang.getD [117, 110, 100])
  unfold bMdhd
  generalize langCode (lang.getD [117, 110, 100]) = l at *
  simp [leaf, Box.pre, u32be, u16be, strictMdhd, be, u8, UInt8.toNat_ofNat']
  omega

/-- the tracks of the progressive writer: media timescale 90 000 -/
theorem C19_mdhd_90k (dur : Nat) (lang : Option (List Nat)) (h : dur < 2^32) :
    strictMdhd (bMdhd 90000 dur lang).pre = some ⟨90000, dur, langCode (lang.getD [117, 110, 100])⟩ :=
  C19_mdhd 90000 dur lang (by omega) h

/-- default language: "und" = 0x55C4 -/
example : langCode [117, 110, 100] = 0x55C4 := by decide

/-! ## 3. handler, media-information headers, data information, fragmented tkhd / trex -/

theorem C19_hdlr :
    strictHdlr (bHdlr "vide" "VideoHandler").pre = some (tag "vide") ∧
    strictHdlr (bHdlr "soun" "SoundHandler").pre = some (tag "soun") := by
  constructor <;> decide

theorem C19_smhd : strictSmhd bSmhd.pre = true := by decide

theorem C19_dinf : strictDinf bDinf = true := by decide

theorem C19_fdinf : strictDinf fDinf = true := by decide

theorem C19_fvmhd : strictVmhd fVmhd.pre = true := by decide

/-- fragmented tkhd: flags 3 (enabled | in_movie), track id 1, duration 0, volume 0, identity
    matrix, 16.16 width and height -/
theorem C19_ftkhd_wrap (c : FragConfig) :
    strictTkhd (fTkhd c).pre = some ⟨3, 1, 0, 0, c.width * 2^16 % 2^32, c.height * 2^16 % 2^32⟩ := by
  simp [fTkhd, leaf, Box.pre, u32be, u16be, zeros, List.replicate, strictTkhd, be, allZero,
    identityMatrix, u8, UInt8.toNat_ofNat', List.range, List.range.loop]
  omega

/-- for dimensions that fit 16 bits the 16.16 values are exact -/
theorem C19_ftkhd (c : FragConfig) (hw : c.width < 2^16) (hh : c.height < 2^16) :
    strictTkhd (fTkhd c).pre = some ⟨3, 1, 0, 0, c.width * 65536, c.height * 65536⟩ := by
  rw [C19_ftkhd_wrap, fixed16_exact _ hw, fixed16_exact _ hh]

theorem C19_trex : strictTrex fTrex.pre = some 1 := by decide

/-! ## 4. sample entries -/

theorem C19_visual_entry (w h : Nat) (hw : w < 2^16) (hh : h < 2^16) :
    strictVisualEntry (visualEntryPrefix w h) = some ⟨w, h⟩ := by
  simp [visualEntryPrefix, u32be, u16be, zeros, List.replicate, strictVisualEntry, be, allZero, u8,
    UInt8.toNat_ofNat']
  omega

theorem C19_fvisual_entry (c : FragConfig) (hw : c.width < 2^16) (hh : c.height < 2^16) :
    strictVisualEntry (fEntryPrefix c) = some ⟨c.width, c.height⟩ := by
  simp [fEntryPrefix, u32be, u16be, zeros, List.replicate, strictVisualEntry, be, allZero, u8,
    UInt8.toNat_ofNat']
  omega

/-- every video sample entry of either muxer carries this prefix -/
theorem C19_video_entry_pre (w h : Nat) (vc : VideoConfig) (c : FragConfig) :
    (bVideoEntry w h vc).pre = visualEntryPrefix w h ∧ (fSampleEntry c).pre = fEntryPrefix c := by
  constructor
  · cases vc <;> rfl
  · unfold fSampleEntry
    split
    · rfl
    · split
      · rfl
      · split <;> rfl

theorem C19_audio_entry (ch r : Nat) (hc : ch < 2^16) (hr : r < 2^32) :
    strictAudioEntry (audioEntryPrefix ch r) = some ⟨ch, 16, r⟩ := by
  simp [audioEntryPrefix, u32be, u16be, zeros, List.replicate, strictAudioEntry, be, allZero, u8,
    UInt8.toNat_ofNat']
  omega

/-! ## 5. recorded non-conformances of the progressive writer -/

/-- FINDING (pinned by the repository's golden test): the progressive `tkhd` payload has 88 bytes —
    a stray 32-bit zero after the duration — so no strict reader accepts it, whatever the inputs -/
theorem C19_tkhd_counterexample (id vol w h dur : Nat) :
    strictTkhd (bTkhd id vol w h dur).pre = none := by
  simp [bTkhd, leaf, Box.pre, strictTkhd, matrixBytes]

/-- what the progressive `tkhd` does place correctly: version 0, track id at 12, duration at 20;
    and, displaced by 4 bytes from their standard offsets, volume at 40, the identity matrix at 44,
    16.16 width at 80 and height at 84; everything else zero. Its flags are 0 (the standard asks
    for track_enabled | track_in_movie = 3 — second part of the finding). -/
theorem C19_tkhd_partial (id vol w h dur : Nat) (hid : id < 2^32) (hvol : vol < 2^16)
    (hw : w < 2^16) (hh : h < 2^16) (hdur : dur < 2^32) :
    let p := (bTkhd id vol w h dur).pre
    p.length = 88 ∧ be p 0 1 = 0 ∧ be p 1 3 = 0 ∧ allZero p 4 8 = true ∧ be p 12 4 = id ∧
    allZero p 16 4 = true ∧ be p 20 4 = dur ∧ allZero p 24 16 = true ∧ be p 40 2 = vol ∧
    allZero p 42 2 = true ∧ identityMatrix p 44 = true ∧ be p 80 4 = w * 65536 ∧ be p 84 4 = h * 65536 := by
  simp [bTkhd, leaf, Box.pre, u32be, u16be, u64be, matrixBytes, be, allZero,
    identityMatrix, u8, UInt8.toNat_ofNat', List.range, List.range.loop]
  omega

/-- FINDING: the progressive `vmhd` has flags 0; ISO/IEC 14496-12 12.1.2 requires flags = 1 -/
theorem C19_vmhd_counterexample : strictVmhd bVmhd.pre = false := by decide

/-- the rest of the progressive `vmhd` is as prescribed: 12 bytes, version 0, graphicsmode and
    opcolor zero; only the flags differ (0 instead of 1) -/
theorem C19_vmhd_partial :
    bVmhd.pre.length = 12 ∧ be bVmhd.pre 0 1 = 0 ∧ be bVmhd.pre 1 3 = 0 ∧ allZero bVmhd.pre 4 8 = true := by
  decide

/-! ## 6. track ids -/

/-- In the movie box of the progressive writer: the (first) `mvhd` child is `bMvhd` with next-track
    id 3 when an audio track is present and 2 otherwise; the `trak` children are the video track
    with track id 1 and — if present — the audio track with id 2 (ids read at offset 12 of the
    first `tkhd` child). So the ids are distinct, non-zero and below the next-track id. -/
theorem C19_track_ids (width height : Nat) (vt : Tables) (audio : Option (AudioTrack × Tables))
    (vc : VideoConfig) (md : Option Metadata) :
    let moov := bMoov width height vt audio vc md
    let durMs := max (toMs vt.totalDuration)
      (match audio with | some (_, at_) => toMs at_.totalDuration | none => 0)
    child? "mvhd" moov.kids = some (bMvhd durMs (if audio.isSome then 3 else 2)) ∧
    be (bMvhd durMs (if audio.isSome then 3 else 2)).pre 96 4 = (if audio.isSome then 3 else 2) ∧
    (children "trak" moov.kids).map (fun t => (child? "tkhd" t.kids).map (fun k => be k.pre 12 4)) =
      (if audio.isSome then [some 1, some 2] else [some 1]) := by
  have hmv : ∀ d n, (bMvhd d n).typ = tag "mvhd" := fun _ _ => rfl
  have hmt : ¬ tag "mvhd" = tag "trak" := by decide
  have hut : ¬ ascii "udta" = tag "trak" := by decide
  have htk : ∀ a b c d e, be (bTkhd a b c d e).pre 12 4 = a % 2^32 := by
    intro a b c d e
    simp [bTkhd, leaf, Box.pre, u32be, be, u8, UInt8.toNat_ofNat']
    omega
  have hvt : ∀ w h t v l, (bVideoTrak w h t v l).typ = tag "trak" := fun _ _ _ _ _ => rfl
  have hat : ∀ a t l, (bAudioTrak a t l).typ = tag "trak" := fun _ _ _ => rfl
  have hvk : ∀ w h t v l, child? "tkhd" (bVideoTrak w h t v l).kids = some (bTkhd 1 0 w h (toMs t.totalDuration)) :=
    fun _ _ _ _ _ => by simp [bVideoTrak, node, Box.kids, child?, bTkhd, leaf, Box.typ, tag]
  have hak : ∀ a t l, child? "tkhd" (bAudioTrak a t l).kids = some (bTkhd 2 0x0100 0 0 (toMs t.totalDuration)) :=
    fun _ _ _ => by simp [bAudioTrak, node, Box.kids, child?, bTkhd, leaf, Box.typ, tag]
  have hnx : ∀ d n, be (bMvhd d n).pre 96 4 = n % 2^32 := by
    intro d n
    simp [bMvhd, leaf, Box.pre, u32be, u16be, u64be, zeros, matrixBytes, List.replicate, be, u8,
      UInt8.toNat_ofNat']
    omega
  intro moov durMs
  have hk : moov.kids = [bMvhd durMs (if audio.isSome then 3 else 2),
      bVideoTrak width height vt vc (md.bind (·.language))] ++
      (match audio with | some (a, at_) => [bAudioTrak a at_ (md.bind (·.language))] | none => []) ++
      (match md.bind bUdta with | some u => [u] | none => []) := rfl
  rw [hk]
  refine ⟨?_, ?_, ?_⟩
  · simp [child?, hmv]
  · rw [hnx]; split <;> rfl
  · cases audio with
    | none =>
      cases hu : md.bind bUdta with
      | none => simp [children, hmv, hmt, hvt, hvk, htk]
      | some u =>
        have : u.typ = ascii "udta" := by
          cases md with
          | none => simp at hu
          | some m => exact bUdta_typ m u (by simpa using hu)
        simp [children, hmv, hmt, hvt, hvk, htk, this, hut]
    | some at_ =>
      obtain ⟨a, at_⟩ := at_
      cases hu : md.bind bUdta with
      | none => simp [children, hmv, hmt, hvt, hvk, htk, hat, hak]
      | some u =>
        have : u.typ = ascii "udta" := by
          cases md with
          | none => simp at hu
          | some m => exact bUdta_typ m u (by simpa using hu)
        simp [children, hmv, hmt, hvt, hvk, htk, hat, hak, this, hut]

/-- the fragmented muxer has the single track 1 and next-track id 2 (see `C19_ftkhd`, `C19_fmvhd`),
    and `trex` refers to track 1 -/
theorem C19_ftrack_ids (c : FragConfig) :
    (fMoov c).kids = [fMvhd c.timescale, fMvex, fTrak c] ∧ fMvex.kids = [fTrex] ∧
    (fTrak c).kids.head? = some (fTkhd c) := ⟨rfl, rfl, rfl⟩

/-! ## non-vacuity -/
example : strictMvhd (bMvhd 5000 3).pre = some ⟨1000, 5000, 3⟩ := C19_mvhd 5000 3 (by omega) (by omega)
example : strictVisualEntry (visualEntryPrefix 1920 1080) = some ⟨1920, 1080⟩ :=
  C19_visual_entry 1920 1080 (by omega) (by omega)
example : strictAudioEntry (audioEntryPrefix 2 (48000 * 65536)) = some ⟨2, 16, 48000 * 65536⟩ :=
  C19_audio_entry 2 _ (by omega) (by omega)

end Muxide.Props.C19
