import Muxide.Props.C01History
import Muxide.Props.C03E2E
/-
  C03 (history form) — C03_e2e_* speak about the queues of a reachable writer state.  Composed with
  `C01History.wrun_fresh` (the queues of the writer a history leads to are the accepted calls, with the
  timestamps that were submitted) they become statements about every sequence of write calls: the timing read
  back from the finished file is the submitted timing of the accepted calls.
-/
namespace Muxide.Props.C03History
open Muxide Muxide.Spec Muxide.Props.C01E2E Muxide.Props.C03E2E Muxide.Props.C01History

/-- **C03 for every history (video).** In the finished file, the decode time of the i-th video sample, read
    from the sample-to-time table, is the *submitted* decode time of the i-th accepted call minus that of the
    first, exactly, and its composition offset is submitted pts minus submitted dts — for histories of any length. -/
theorem C03_history_video (codec : VCodec) (a : Option AudioTrack) (cs : List WCall)
    (width height : Nat) (md : Option Metadata) (fast : Bool) :
    let w0 : Writer := { codec := codec, audio := a }
    let r := wrun w0 cs
    (r.1.finalize width height md fast).2.res = .ok →
    MoovFits r.1 width height md fast →
    let file := (r.1.finalize width height md fast).2.chunks.flatten
    ∀ mv, parseMovie file = some mv → ∀ t, mv.tracks[0]? = some t →
      ∀ i p0 pi, (acceptedVideo codec cs r.2)[0]? = some p0 → (acceptedVideo codec cs r.2)[i]? = some pi →
        ((expandRuns t.stts).take i).sum = pi.2.1 - p0.2.1 ∧ p0.2.1 ≤ pi.2.1 ∧
        ctsAt t i = (pi.1 : Int) - pi.2.1 := by
  intro w0 r hok hfit file mv hmv t ht i p0 pi h0 hi
  obtain ⟨q1, -, -, hreach⟩ := wrun_fresh codec a cs
  have q1' : acceptedVideo codec cs r.2 = r.1.vsRev.reverse.map vproj := q1.symm
  rw [q1', List.getElem?_map] at h0 hi
  obtain ⟨s0, hs0, e0⟩ := Option.map_eq_some_iff.mp h0
  obtain ⟨si, hsi, ei⟩ := Option.map_eq_some_iff.mp hi
  obtain ⟨d1, d2⟩ := Muxide.Props.C03E2E.C03_e2e_video_dts r.1 hreach width height md fast hok hfit mv hmv t ht i s0 si hs0 hsi
  have dc := Muxide.Props.C03E2E.C03_e2e_video_cts r.1 hreach width height md fast hok hfit mv hmv t ht i si hsi
  subst e0 ei
  exact ⟨d1, d2, dc⟩

/-- **C03 for every history (audio).** The decode time of the i-th audio sample is the submitted time of the
    i-th accepted audio call minus that of the first; audio carries no composition offsets. -/
theorem C03_history_audio (codec : VCodec) (tr : AudioTrack) (cs : List WCall)
    (width height : Nat) (md : Option Metadata) (fast : Bool) :
    let w0 : Writer := { codec := codec, audio := some tr }
    let r := wrun w0 cs
    (r.1.finalize width height md fast).2.res = .ok →
    MoovFits r.1 width height md fast →
    let file := (r.1.finalize width height md fast).2.chunks.flatten
    ∀ mv, parseMovie file = some mv → ∀ t, mv.tracks[1]? = some t →
      t.ctts = none ∧
      ∀ i p0 pi, (acceptedAudio (some tr) cs r.2)[0]? = some p0 → (acceptedAudio (some tr) cs r.2)[i]? = some pi →
        ((expandRuns t.stts).take i).sum = pi.1 - p0.1 ∧ p0.1 ≤ pi.1 := by
  intro w0 r hok hfit file mv hmv t ht
  obtain ⟨-, q2, q4, hreach⟩ := wrun_fresh codec (some tr) cs
  refine ⟨Muxide.Props.C03E2E.C03_e2e_audio_no_ctts r.1 hreach width height md fast hok hfit tr q4 mv hmv t ht, ?_⟩
  intro i p0 pi h0 hi
  have q2' : acceptedAudio (some tr) cs r.2 = r.1.asRev.reverse.map aproj := q2.symm
  rw [q2', List.getElem?_map] at h0 hi
  obtain ⟨s0, hs0, e0⟩ := Option.map_eq_some_iff.mp h0
  obtain ⟨si, hsi, ei⟩ := Option.map_eq_some_iff.mp hi
  have := Muxide.Props.C03E2E.C03_e2e_audio_dts r.1 hreach width height md fast hok hfit tr q4 mv hmv t ht i s0 si hs0 hsi
  subst e0 ei
  exact this

end Muxide.Props.C03History
