import Muxide.Lemmas.Timing
/-
  C06 — nothing reaches the sink before finish; a successful finish writes the file once, after
  which every write / finish attempt is an error and writes nothing; the returned statistics are
  the frame counts, the exact byte count and the largest presentation end time.
  Property theorems only; helper lemmas live in Muxide/Lemmas/Timing.lean.

  In the model only `Muxer.finishStats` (and `Muxer.finish`, its wrapper) returns a `FinOut`
  (the chunks handed to the sink); the write calls return a state and a reply and have no way to
  emit bytes.
-/
namespace Muxide.Props.C06
open Muxide

/-! ## 6. finish happens once -/

/-- from any state whose writer is finalized (in particular after a successful finish, or after a
    failed one), `finishStats` replies an error and hands nothing to the sink, for every sink -/
theorem C06_once_finalized (m : Muxer) (d : Deliver) (h : m.w.finalized = true) :
    (m.finishStats d).2.1.chunks = [] ∧ ∃ e, (m.finishStats d).2.2 = .err e none := by
  unfold Muxer.finishStats
  by_cases hf : m.finished = true
  · simp [hf]
  · simp only [hf, Bool.false_eq_true, if_false]
    rw [finalize_of_finalized _ _ _ _ _ h]
    simp only []
    generalize d [] = dr
    obtain ⟨wr, cnt⟩ := dr
    cases wr with
    | error e => exact ⟨rfl, _, rfl⟩
    | ok u => exact ⟨rfl, _, rfl⟩

/-- a successful finish (reply `.stats _`), with any sink behaviour `d`, leaves the muxer finished
    and the writer finalized -/
theorem C06_once_finished (m m' : Muxer) (d : Deliver) (out : FinOut) (st : Stats)
    (h : m.finishStats d = (m', out, .stats st)) :
    m'.finished = true ∧ m'.w.finalized = true ∧ m.finished = false ∧ m.w.finalized = false := by
  unfold Muxer.finishStats at h
  by_cases hf : m.finished = true
  · simp [hf] at h
  · simp only [hf] at h
    by_cases hw : m.w.finalized = true
    · obtain ⟨e, he⟩ := (C06_once_finalized m d hw).2
      unfold Muxer.finishStats at he
      simp only [hf] at he
      rw [h] at he
      simp at he
    · revert h
      simp only [Bool.false_eq_true, if_false]
      generalize hfin : m.w.finalize m.width m.height m.md m.fast = fin
      have h1 := finalize_fst m.w m.width m.height m.md m.fast
      rw [hfin] at h1
      obtain ⟨w', o⟩ := fin
      simp only [] at h1 ⊢
      subst h1
      generalize d o.chunks = dr
      obtain ⟨wr, cnt⟩ := dr
      simp only []
      intro h
      split at h
      · simp at h
      · split at h
        · simp at h
        · simp at h
        · simp only [Prod.mk.injEq, Reply.stats.injEq] at h
          obtain ⟨rfl, -, -⟩ := h
          simp at hf hw
          simp [hf, hw]

/-- once the muxer is finished, `finishStats` replies `AlreadyFinished`, hands nothing to the
    sink (whatever the sink is) and leaves the state unchanged -/
theorem C06_once_finish_again (m : Muxer) (d : Deliver) (h : m.finished = true) :
    m.finishStats d = (m, ⟨[], .ok⟩, .err .alreadyFinished none) := by
  simp [Muxer.finishStats, h]

/-- `finish` likewise -/
theorem C06_once_finish_again' (m : Muxer) (d : Deliver) (h : m.finished = true) :
    m.finish d = (m, ⟨[], .ok⟩, .err .alreadyFinished none) := by
  simp [Muxer.finish, C06_once_finish_again m d h]

/-- the finalized writer hands no chunk to the sink -/
theorem C06_once_writer (w : Writer) (width height : Nat) (md : Option Metadata) (fast : Bool)
    (h : w.finalized = true) :
    (w.finalize width height md fast).1 = w ∧ (w.finalize width height md fast).2.chunks = [] ∧
    ∃ msg, (w.finalize width height md fast).2.res = .ioErr msg := by
  rw [finalize_of_finalized _ _ _ _ _ h]; exact ⟨rfl, rfl, _, rfl⟩

/-! ### writes after finalize -/

theorem writer_writeVideo_finalized (w : Writer) (pts dts : Nat) (data : Bytes) (key : Bool)
    (h : w.finalized = true) : w.writeVideo pts dts data key = (w, .err .alreadyFinalized) := by
  simp [Writer.writeVideo, h]

theorem writer_writeAudio_finalized (w : Writer) (pts : Nat) (data : Bytes)
    (h : w.finalized = true) : w.writeAudio pts data = (w, .err .alreadyFinalized) := by
  simp [Writer.writeAudio, h]

/-- a reply that is an error (not `.ok`, `.stats`, or `.panic`) -/
def IsErr (r : Reply) : Prop := ∃ e i, r = .err e i

theorem C06_once_writeVideo (m : Muxer) (pts : F64) (data : Bytes) (key : Bool)
    (h : m.w.finalized = true) :
    IsErr (m.writeVideo pts data key).2 ∧ (m.writeVideo pts data key).1 = m := by
  unfold Muxer.writeVideo
  simp only [writer_writeVideo_finalized _ _ _ _ _ h]
  repeat' split
  all_goals first | exact ⟨⟨_, _, rfl⟩, rfl⟩ | simp_all [wresReply, convertErr, IsErr]

theorem C06_once_writeVideoDts (m : Muxer) (pts dts : F64) (data : Bytes) (key : Bool)
    (h : m.w.finalized = true) :
    IsErr (m.writeVideoDts pts dts data key).2 ∧ (m.writeVideoDts pts dts data key).1 = m := by
  unfold Muxer.writeVideoDts
  simp only [writer_writeVideo_finalized _ _ _ _ _ h]
  repeat' split
  all_goals first | exact ⟨⟨_, _, rfl⟩, rfl⟩ | simp_all [wresReply, convertErr, IsErr]

theorem C06_once_writeAudio (m : Muxer) (pts : F64) (data : Bytes)
    (h : m.w.finalized = true) :
    IsErr (m.writeAudio pts data).2 ∧ (m.writeAudio pts data).1 = m := by
  unfold Muxer.writeAudio
  simp only [writer_writeAudio_finalized _ _ _ h]
  repeat' split
  all_goals first | exact ⟨⟨_, _, rfl⟩, rfl⟩ | simp_all [wresReply, convertErr, IsErr]

theorem C06_once_encodeVideo (m : Muxer) (data : Bytes) (durMs : Nat)
    (h : m.w.finalized = true) :
    IsErr (m.encodeVideo data durMs).2 ∧ (m.encodeVideo data durMs).1 = m := by
  obtain ⟨⟨e, i, he⟩, hm⟩ := C06_once_writeVideo m m.curV data (m.isKeyframe data) h
  unfold Muxer.encodeVideo
  generalize m.writeVideo m.curV data (m.isKeyframe data) = r at he hm
  obtain ⟨m1, r1⟩ := r
  simp only [] at he hm ⊢
  subst he hm
  exact ⟨⟨_, _, rfl⟩, rfl⟩

theorem C06_once_encodeAudio (m : Muxer) (data : Bytes) (samples : Nat)
    (h : m.w.finalized = true) :
    IsErr (m.encodeAudio data samples).2 ∧ (m.encodeAudio data samples).1 = m := by
  unfold Muxer.encodeAudio
  cases m.audioTrack with
  | none => exact ⟨⟨_, _, rfl⟩, rfl⟩
  | some a =>
    obtain ⟨⟨e, i, he⟩, hm⟩ := C06_once_writeAudio m m.curA data h
    generalize m.writeAudio m.curA data = r at he hm
    obtain ⟨m1, r1⟩ := r
    simp only [] at he hm ⊢
    subst he hm
    exact ⟨⟨_, _, rfl⟩, rfl⟩

/-! ## 7. the statistics -/

/-- the statistics of a successful finish (any sink behaviour `d`; `(d out.chunks).2` is the number
    of bytes counted as delivered): frame counts are the lengths of the sample queues, the
    duration is `maxEndPts / 90000` in binary64 -/
theorem C06_stats_gen (m m' : Muxer) (d : Deliver) (out : FinOut) (st : Stats)
    (h : m.finishStats d = (m', out, .stats st)) :
    st.video = m.w.vsRev.length ∧ st.audio = m.w.asRev.length ∧
    st.bytes = min (m.w.bytesWritten + (d out.chunks).2) u64Max ∧
    st.duration = F64.div (F64.ofNat (m.w.maxEndPts.getD 0)) (F64.ofNat 90000) ∧
    out = (m.w.finalize m.width m.height m.md m.fast).2 ∧ out.res = .ok ∧ (d out.chunks).1 = .ok () := by
  unfold Muxer.finishStats at h
  by_cases hf : m.finished = true
  · simp [hf] at h
  · revert h
    simp only [hf, Bool.false_eq_true, if_false]
    generalize hfin : m.w.finalize m.width m.height m.md m.fast = fin
    have h1 := finalize_fst m.w m.width m.height m.md m.fast
    rw [hfin] at h1
    obtain ⟨w', o⟩ := fin
    simp only [] at h1 ⊢
    subst h1
    generalize hd : d o.chunks = dr
    obtain ⟨wr, cnt⟩ := dr
    simp only []
    intro h
    split at h
    · simp at h
    · split at h
      · simp at h
      · simp at h
      · next hres =>
        simp only [Prod.mk.injEq, Reply.stats.injEq] at h
        obtain ⟨-, rfl, rfl⟩ := h
        rw [hd]
        refine ⟨rfl, rfl, rfl, ?_, rfl, hres, rfl⟩
        exact congrArg (fun x : Option Nat => F64.div (F64.ofNat (x.getD 0)) (F64.ofNat 90000))
          (maxEndPts_congr _ _ rfl rfl rfl rfl)

/-- with the fault-free sink: `bytes` is exactly the number of bytes delivered (saturating at
    u64::MAX), added to the writer's counter -/
theorem C06_stats (m m' : Muxer) (out : FinOut) (st : Stats)
    (h : m.finishStats deliverAll = (m', out, .stats st)) :
    st.video = m.w.vsRev.length ∧ st.audio = m.w.asRev.length ∧
    st.bytes = min (m.w.bytesWritten + (out.chunks.map (·.length)).sum) (2^64 - 1) ∧
    st.duration = F64.div (F64.ofNat (m.w.maxEndPts.getD 0)) (F64.ofNat 90000) := by
  obtain ⟨a, b, c, e, -⟩ := C06_stats_gen m m' deliverAll out st h
  exact ⟨a, b, c, e⟩

/-- no write call changes the writer's byte counter: before finish it is still 0 for a muxer made
    by `build`, so `bytes` above is exactly the size of the file -/
theorem C06_bytes_unchanged (w : Writer) (pts dts : Nat) (data : Bytes) (key : Bool) :
    (w.writeVideo pts dts data key).1.bytesWritten = w.bytesWritten ∧
    (w.writeAudio pts data).1.bytesWritten = w.bytesWritten := by
  constructor
  · rcases writeVideo_cases w pts dts data key with h' | ⟨_, _, _, _, ⟨_, c, e⟩ | ⟨prev, _, _, _, e⟩⟩
    · rw [h'.1]
    · rw [e]
    · rw [e]
  · rcases writeAudio_cases w pts data with h' | ⟨_, _, sd, ⟨_, e⟩ | ⟨prev, _, _, _, e⟩⟩
    · rw [h'.1]
    · rw [e]
    · rw [e]

theorem C06_bytes_initial (c : Config) : (build c).w.bytesWritten = 0 := rfl

/-! ## 8. `maxEndPts` is the largest presentation end over all accepted samples -/

/-- per track (`trackEnds`: the list of `min (pts + duration) u64::MAX` over the samples) -/
theorem C06_trackEnd {strict : Bool} {rev : List Sample} {prev ld : Option Nat}
    (h : TrackInv strict rev prev ld) :
    (rev = [] → trackEnd rev ld = none) ∧
    (rev ≠ [] → ∃ m, trackEnd rev ld = some m ∧ m ∈ trackEnds rev ld ∧ ∀ e ∈ trackEnds rev ld, e ≤ m) :=
  trackEnd_spec h

/-- the durations entering the presentation ends are the file's sample durations (C03) when the
    track has two or more samples; a lone sample counts with duration 0 (the file gives it 1) -/
theorem C06_trackEnds_durations {strict : Bool} {rev : List Sample} {prev ld : Option Nat}
    (h : TrackInv strict rev prev ld) :
    (2 ≤ rev.length → trackEnds rev ld =
      List.zipWith (fun s d => min (s.pts + d) u64Max) rev.reverse (durationsOf rev.reverse ld)) ∧
    (∀ s, rev = [s] → trackEnds rev ld = [min (s.pts + 0) u64Max]) :=
  trackEnds_durations h

/-- both tracks: `maxEndPts` is `none` iff nothing was accepted; otherwise it is the maximum of the
    presentation ends of all samples of both tracks, in ticks, exactly -/
theorem C06_maxend (w : Writer) (hv : VInv w) (ha : AInv w) :
    (w.vsRev = [] ∧ w.asRev = [] → w.maxEndPts = none) ∧
    (¬ (w.vsRev = [] ∧ w.asRev = []) → ∃ m, w.maxEndPts = some m ∧
      m ∈ trackEnds w.vsRev w.vLastDelta ++ trackEnds w.asRev w.aLastDelta ∧
      ∀ e ∈ trackEnds w.vsRev w.vLastDelta ++ trackEnds w.asRev w.aLastDelta, e ≤ m) := by
  obtain ⟨v0, v1⟩ := trackEnd_spec hv
  obtain ⟨a0, a1⟩ := trackEnd_spec ha.1
  have tn : ∀ ld, trackEnds [] ld = [] := fun ld => by simp [trackEnds]
  constructor
  · rintro ⟨h1, h2⟩
    simp only [Writer.maxEndPts, v0 h1, a0 h2]
  · intro hne
    by_cases h1 : w.vsRev = [] <;> by_cases h2 : w.asRev = []
    · exact absurd ⟨h1, h2⟩ hne
    · obtain ⟨m, e, hm, hle⟩ := a1 h2
      refine ⟨m, by simp only [Writer.maxEndPts, v0 h1, e], ?_, ?_⟩
      · rw [h1, tn]; simpa using hm
      · rw [h1, tn]; simpa using hle
    · obtain ⟨m, e, hm, hle⟩ := v1 h1
      refine ⟨m, by simp only [Writer.maxEndPts, a0 h2, e], ?_, ?_⟩
      · rw [h2, tn]; simpa using hm
      · rw [h2, tn]; simpa using hle
    · obtain ⟨m, e, hm, hle⟩ := v1 h1
      obtain ⟨m', e', hm', hle'⟩ := a1 h2
      refine ⟨max m m', by simp only [Writer.maxEndPts, e, e'], ?_, ?_⟩
      · rw [List.mem_append]
        by_cases hc : m ≤ m'
        · right; rw [Nat.max_eq_right hc]; exact hm'
        · left; rw [Nat.max_eq_left (by omega)]; exact hm
      · intro x hx
        rcases List.mem_append.mp hx with hx | hx
        · have := hle x hx; omega
        · have := hle' x hx; omega

end Muxide.Props.C06
