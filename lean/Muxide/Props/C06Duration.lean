import Muxide.Lemmas.F64Div
import Muxide.Spec.Expect
/-
  C06 — "… and, to within one media-clock tick, the largest presentation end time, in seconds".
  `C06_stats` (Props/C06.lean) shows the reported value is `maxEnd as f64 / 90000.0` where `maxEnd` is the
  largest presentation end in ticks.  This file proves the rounding clause: for every `maxEnd` below 2^53
  ticks (3170 years of media clock) that double, read back as ticks, is within one tick of `maxEnd` — on
  the soft-float model, for all values at once.  Beyond 2^53 an `f64` cannot hold whole ticks; that range is
  the recorded finding `stats-duration-f64-precision`, shown by the counterexample at the end.
-/
namespace Muxide.Props.C06Duration
open Muxide Muxide.F64 Muxide.Spec

theorem ofNat_90000 : F64.ofNat 90000 = .fin false 6184752906240000 (-36) := by decide +kernel

/-- the duration statistic: `ticks as f64 / 90000.0` -/
def durationOfTicks (m : Nat) : F64 := F64.div (F64.ofNat m) (F64.ofNat 90000)

theorem ofNat_zero : F64.ofNat 0 = .fin false 0 (-1074) := by rfl

theorem C06_duration_zero : within1Tick (durationOfTicks 0) 0 = true := by
  have z1 : durationOfTicks 0 = .fin false 0 (-1074) := by
    unfold durationOfTicks
    rw [ofNat_zero, ofNat_90000]
    simp [F64.div, frac_eq, roundPos]
  rw [z1]
  simp [within1Tick, frac_eq]

/-- for every end time below 2^53 ticks the reported seconds are within one tick of it -/
theorem C06_duration_within_one_tick (m : Nat) (hm : m < 2 ^ 53) :
    within1Tick (durationOfTicks m) m = true := by
  by_cases h0 : m = 0
  · subst h0; exact C06_duration_zero
  obtain ⟨he1, hof⟩ := ofNat_exact m h0 hm
  unfold durationOfTicks
  rw [hof, ofNat_90000]
  have hpw1 : pw (expOf m 1) = 1 := pw_neg _ he1
  -- the division: exact rational N/D, then one rounding
  have hq1 : m * nw (expOf m 1) ≠ 0 := Nat.mul_ne_zero h0 (Nat.pos_iff_ne_zero.mp (nw_pos _))
  unfold F64.div
  simp only [show ((6184752906240000 : Nat) == 0) = false by decide, Bool.false_eq_true, if_false, frac_eq]
  generalize hN : m * nw (expOf m 1) * pw (expOf m 1) * nw (-36) = N
  generalize hD : nw (expOf m 1) * (6184752906240000 * pw (-36)) = D
  have hnw36 : nw (-36) = 2 ^ 36 := by decide
  have hpw36 : pw (-36) = 1 := by decide
  have hN0 : N ≠ 0 := by
    rw [← hN, hpw1, hnw36]
    exact Nat.mul_ne_zero (Nat.mul_ne_zero hq1 (by decide)) (by decide)
  have hD0 : D ≠ 0 := by
    rw [← hD, hpw36]
    exact Nat.mul_ne_zero (Nat.pos_iff_ne_zero.mp (nw_pos _)) (by decide)
  have hND : N * 90000 = m * D := by
    rw [← hN, ← hD, hpw1, hnw36, hpw36]
    ring
  obtain ⟨he, hlo, hhi⟩ := div_tick_core N D m hN0 hD0 hND hm
  have hxor : (false != false) = false := rfl
  rw [hxor, roundPos_eq false N D hN0]
  have hq53 := preQ_le N D hN0 hD0
  unfold preQ at hq53
  generalize expOf N D = e at *
  generalize rne (N * nw e) (D * pw e) = q at *
  have hpwe : pw e = 1 := pw_neg _ (by omega)
  rw [hpwe, Nat.mul_one] at hlo hhi
  exact within_mk m q e he hq53 hlo hhi

set_option maxRecDepth 10000 in
/-- beyond 2^53 ticks the clause cannot hold: at 2^63 + 1025 ticks the reported value reads back more than
    a thousand ticks away (the recorded finding `stats-duration-f64-precision`) -/
theorem C06_duration_f64_precision_counterexample :
    within1Tick (durationOfTicks (2 ^ 63 + 1025)) (2 ^ 63 + 1025) = false := by decide +kernel

end Muxide.Props.C06Duration
