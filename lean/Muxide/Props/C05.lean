import Muxide.Lemmas.Api
/-
  C05 — A rejected frame-writing call leaves no trace: the muxer behaves from then on exactly as
  if the call had never been made (same later accept/reject decisions, same statistics, same file).
  Property theorems only; helper lemmas live in Muxide/Lemmas/Api.lean.
-/
namespace Muxide.Props.C05
open Muxide

/-! ### 1. the writer: any outcome other than `ok` leaves the writer state untouched -/

theorem C05_writer_video (w : Writer) (pts dts : Nat) (d : Bytes) (k : Bool) :
    (w.writeVideo pts dts d k).2 ≠ .ok → (w.writeVideo pts dts d k).1 = w :=
  Writer.writeVideo_not_ok w pts dts d k

theorem C05_writer_audio (w : Writer) (pts : Nat) (d : Bytes) :
    (w.writeAudio pts d).2 ≠ .ok → (w.writeAudio pts d).1 = w :=
  Writer.writeAudio_not_ok w pts d

/-! ### 2. the five API calls: an error reply returns the *same* muxer state -/

theorem C05_step_writeVideo (m : Muxer) (pts : F64) (d : Bytes) (k : Bool) (e : MErr) (i : Option Nat)
    (h : (m.writeVideo pts d k).2 = .err e i) : (m.writeVideo pts d k).1 = m := by
  rw [Muxer.writeVideo_eq] at h ⊢
  cases hp : m.wvPre pts d with
  | some e => rfl
  | none =>
    rw [hp] at h
    cases hv : m.w.videoErr pts.ticks pts.ticks d k with
    | some e => rfl
    | none => rw [hv] at h; simp at h

theorem C05_step_writeVideoDts (m : Muxer) (pts dts : F64) (d : Bytes) (k : Bool) (e : MErr) (i : Option Nat)
    (h : (m.writeVideoDts pts dts d k).2 = .err e i) : (m.writeVideoDts pts dts d k).1 = m := by
  rw [Muxer.writeVideoDts_eq] at h ⊢
  cases hp : m.wvdPre pts dts d with
  | some e => rfl
  | none =>
    rw [hp] at h
    cases hv : m.w.videoErr pts.ticks dts.ticks d k with
    | some e => rfl
    | none => rw [hv] at h; simp at h

theorem C05_step_writeAudio (m : Muxer) (pts : F64) (d : Bytes) (e : MErr) (i : Option Nat)
    (h : (m.writeAudio pts d).2 = .err e i) : (m.writeAudio pts d).1 = m := by
  rw [Muxer.writeAudio_eq] at h ⊢
  cases hp : m.waPre pts d with
  | some e => rfl
  | none =>
    rw [hp] at h
    cases hv : m.w.audioErr pts.ticks d with
    | some e => rfl
    | none => rw [hv] at h; simp at h

/-- `encode_video`: on error neither the muxer nor the running timestamp `curV` moves -/
theorem C05_step_encodeVideo (m : Muxer) (d : Bytes) (ms : Nat) (e : MErr) (i : Option Nat)
    (h : (m.encodeVideo d ms).2 = .err e i) : (m.encodeVideo d ms).1 = m := by
  unfold Muxer.encodeVideo at h ⊢
  cases hr : m.writeVideo m.curV d (m.isKeyframe d) with
  | mk m' r =>
    rw [hr] at h
    cases r with
    | ok => simp at h
    | err e' i' =>
      have := C05_step_writeVideo m m.curV d (m.isKeyframe d) e' i' (by rw [hr])
      rw [hr] at this
      simpa using this
    | stats s => simp at h
    | panic => simp at h

/-- `encode_audio`: on error neither the muxer nor the running timestamp `curA` moves -/
theorem C05_step_encodeAudio (m : Muxer) (d : Bytes) (n : Nat) (e : MErr) (i : Option Nat)
    (h : (m.encodeAudio d n).2 = .err e i) : (m.encodeAudio d n).1 = m := by
  unfold Muxer.encodeAudio at h ⊢
  cases ha : m.audioTrack with
  | none => rfl
  | some a =>
    simp only [ha] at h ⊢
    cases hr : m.writeAudio m.curA d with
    | mk m' r =>
      rw [hr] at h
      cases r with
      | ok => simp at h
      | err e' i' =>
        have := C05_step_writeAudio m m.curA d e' i' (by rw [hr])
        rw [hr] at this
        simpa using this
      | stats s => simp at h
      | panic => simp at h

/-! ### 3. whole call sequences -/

/-- one call of the progressive API -/
inductive Call where
  | wv (pts : F64) (d : Bytes) (k : Bool)
  | wvd (pts dts : F64) (d : Bytes) (k : Bool)
  | wa (pts : F64) (d : Bytes)
  | ev (d : Bytes) (ms : Nat)
  | ea (d : Bytes) (n : Nat)
  | fin
  | fins

/-- is this a frame-writing call (video, audio, or a convenience form)? -/
def Call.isWrite : Call → Bool
  | .fin | .fins => false
  | _ => true

/-- one call against a fault-free sink -/
def step (m : Muxer) : Call → Muxer × Reply
  | .wv pts d k => m.writeVideo pts d k
  | .wvd pts dts d k => m.writeVideoDts pts dts d k
  | .wa pts d => m.writeAudio pts d
  | .ev d ms => m.encodeVideo d ms
  | .ea d n => m.encodeAudio d n
  | .fin => let r := m.finish deliverAll; (r.1, r.2.2)
  | .fins => let r := m.finishStats deliverAll; (r.1, r.2.2)

def run : Muxer → List Call → Muxer × List Reply
  | m, [] => (m, [])
  | m, c :: cs =>
    let (m', r) := step m c
    let (m'', rs) := run m' cs
    (m'', r :: rs)

def Reply.isErr : Reply → Bool
  | .err _ _ => true
  | _ => false

/-- a *rejected frame-writing call*: a write call whose reply is an error.
    (A `panic` reply is not an error: such calls are kept. In this model no frame-writing call
    ever replies `panic` — see `C05_write_no_panic` — so nothing is lost by that choice.) -/
def rejected (c : Call) (r : Reply) : Bool := c.isWrite && Reply.isErr r

/-- calls (paired with the reply they got) that were not rejected frame writes -/
def keptPairs (cs : List Call) (rs : List Reply) : List (Call × Reply) :=
  (cs.zip rs).filter fun p => !rejected p.1 p.2

def kept (cs : List Call) (rs : List Reply) : List Call := (keptPairs cs rs).map (·.1)
def keptReplies (cs : List Call) (rs : List Reply) : List Reply := (keptPairs cs rs).map (·.2)

theorem C05_step (m : Muxer) (c : Call) (h : rejected c (step m c).2 = true) : (step m c).1 = m := by
  cases c with
  | wv pts d k =>
    simp only [step] at h ⊢
    cases hr : (m.writeVideo pts d k).2 with
    | err e i => exact C05_step_writeVideo m pts d k e i hr
    | _ => simp [rejected, Reply.isErr, hr] at h
  | wvd pts dts d k =>
    simp only [step] at h ⊢
    cases hr : (m.writeVideoDts pts dts d k).2 with
    | err e i => exact C05_step_writeVideoDts m pts dts d k e i hr
    | _ => simp [rejected, Reply.isErr, hr] at h
  | wa pts d =>
    simp only [step] at h ⊢
    cases hr : (m.writeAudio pts d).2 with
    | err e i => exact C05_step_writeAudio m pts d e i hr
    | _ => simp [rejected, Reply.isErr, hr] at h
  | ev d ms =>
    simp only [step] at h ⊢
    cases hr : (m.encodeVideo d ms).2 with
    | err e i => exact C05_step_encodeVideo m d ms e i hr
    | _ => simp [rejected, Reply.isErr, hr] at h
  | ea d n =>
    simp only [step] at h ⊢
    cases hr : (m.encodeAudio d n).2 with
    | err e i => exact C05_step_encodeAudio m d n e i hr
    | _ => simp [rejected, Reply.isErr, hr] at h
  | fin => simp [rejected, Call.isWrite] at h
  | fins => simp [rejected, Call.isWrite] at h

/-- **C05.** Run any call sequence `cs` from any muxer state `m`; drop every frame-writing call
    that was rejected. Running the remaining calls from the same state ends in the *same muxer
    state* and produces *exactly the replies* the kept calls received in the original run. Since
    the finished file, the statistics and every later accept/reject decision are functions of the
    state, none of them can tell whether the rejected calls were ever made. -/
theorem C05 (m : Muxer) (cs : List Call) :
    (run m (kept cs (run m cs).2)).1 = (run m cs).1 ∧
    (run m (kept cs (run m cs).2)).2 = keptReplies cs (run m cs).2 := by
  induction cs generalizing m with
  | nil => simp [run, kept, keptReplies, keptPairs]
  | cons c cs ih =>
    cases hs : step m c with
    | mk m' r =>
      have hrun : run m (c :: cs) = ((run m' cs).1, r :: (run m' cs).2) := by
        simp only [run, hs]
      rw [hrun]
      by_cases hrej : rejected c r = true
      · have hm : m' = m := by
          have := C05_step m c (by rw [hs]; exact hrej)
          rw [hs] at this; exact this
        subst hm
        have hk : kept (c :: cs) (r :: (run m' cs).2) = kept cs (run m' cs).2 := by
          simp [kept, keptPairs, hrej]
        have hkr : keptReplies (c :: cs) (r :: (run m' cs).2) = keptReplies cs (run m' cs).2 := by
          simp [keptReplies, keptPairs, hrej]
        simp only [hk, hkr]
        exact ih m'
      · have hk : kept (c :: cs) (r :: (run m' cs).2) = c :: kept cs (run m' cs).2 := by
          simp [kept, keptPairs, hrej]
        have hkr : keptReplies (c :: cs) (r :: (run m' cs).2) = r :: keptReplies cs (run m' cs).2 := by
          simp [keptReplies, keptPairs, hrej]
        simp only [hk, hkr]
        have := ih m'
        simp only [run, hs]
        exact ⟨this.1, by rw [this.2]⟩

/-- the statistics and every byte handed to the sink by a subsequent finish are identical -/
theorem C05_file (m : Muxer) (cs : List Call) (deliver : Deliver) :
    (run m (kept cs (run m cs).2)).1.finishStats deliver = (run m cs).1.finishStats deliver := by
  rw [(C05 m cs).1]

/-- no frame-writing call ever replies `panic` in this model, so "not an error" = "accepted" for
    frame writes: the kept frame writes are exactly the accepted ones -/
theorem C05_write_no_panic (m : Muxer) (c : Call) (hc : c.isWrite = true) : (step m c).2 ≠ .panic := by
  have hv : ∀ pts d k, (m.writeVideo pts d k).2 ≠ .panic := by
    intro pts d k
    rw [Muxer.writeVideo_eq]
    cases m.wvPre pts d with
    | some e => simp
    | none =>
      cases m.w.videoErr pts.ticks pts.ticks d k with
      | some e => cases e <;> simp [convertErr]
      | none => simp
  have ha : ∀ pts d, (m.writeAudio pts d).2 ≠ .panic := by
    intro pts d
    rw [Muxer.writeAudio_eq]
    cases m.waPre pts d with
    | some e => simp
    | none =>
      cases m.w.audioErr pts.ticks d with
      | some e => cases e <;> simp [convertErr]
      | none => simp
  cases c with
  | wv pts d k => exact hv pts d k
  | wvd pts dts d k =>
    simp only [step]
    rw [Muxer.writeVideoDts_eq]
    cases m.wvdPre pts dts d with
    | some e => simp
    | none =>
      cases m.w.videoErr pts.ticks dts.ticks d k with
      | some e => cases e <;> simp [convertErr]
      | none => simp
  | wa pts d => exact ha pts d
  | ev d ms =>
    simp only [step, Muxer.encodeVideo]
    have := hv m.curV d (m.isKeyframe d)
    cases hr : m.writeVideo m.curV d (m.isKeyframe d) with
    | mk m' r => rw [hr] at this; cases r <;> simp_all
  | ea d n =>
    simp only [step, Muxer.encodeAudio]
    cases m.audioTrack with
    | none => simp
    | some a =>
      have := ha m.curA d
      cases hr : m.writeAudio m.curA d with
      | mk m' r => rw [hr] at this; cases r <;> simp_all
  | fin => simp [Call.isWrite] at hc
  | fins => simp [Call.isWrite] at hc

/-- non-vacuity: a rejected write (empty payload), an accepted key frame, a rejected non-increasing
    frame, then finish — exactly the two rejected writes are dropped, and the finish still succeeds -/
example :
    let m := build ⟨.vp9, 640, 480, none, none, false⟩
    let fr : Bytes := [0x49, 0x83, 0x42, 0, 0, 1, 1, 0]
    let cs := [Call.wv F64.zero [] true, .wv F64.zero fr true, .wv F64.zero fr false, .fin]
    (run m cs).2 = [.err .emptyVideoFrame (some 0), .ok, .err .nonIncreasingVideoPts (some 1), .ok] ∧
    (kept cs (run m cs).2).length = 2 := by decide +kernel

end Muxide.Props.C05
