import Muxide.Lemmas.E2E2
import Muxide.Props.C19
/-
  C03 (end to end) — the TIMING a reader sees. The independent reader `Spec.parseMovie`, applied to
  the very bytes `Writer.finalize` hands to the sink, returns tracks whose decoded `stts` / `ctts`
  tables and `mdhd` payload carry exactly the timing of the accepted frames:
  * the run-length expanded `stts` is the list of sample durations `durationsOf …` — the steps of
    the submitted decode timestamps, the last sample repeating the preceding step (1 tick for a
    lone sample; nothing for an empty track);
  * hence the decode time of sample `i` read from the file is `dts_i − dts_0`, with no drift;
  * the video `ctts` is absent exactly when every accepted frame has `pts = dts`, and otherwise its
    expansion is `pts − dts` per frame — for ALL timestamps: no bound on their magnitude is needed
    (the offset is computed in 128 bits; only its `i32` range matters, which the writer checks
    when it accepts the frame and which `Writer.Reachable` therefore implies);
  * the audio track never has a `ctts`;
  * each track's `mdhd` carries timescale 90 000 and, as duration, the sum of that track's sample
    durations as read from its `stts`.
  Same hypotheses as C01E2E: reachable writer, `finalize` returned ok, `MoovFits`.
  Composition of `e2e_tracks` (Lemmas/E2E2.lean) with C03 (`track_nodrift'`, `C03_durations`,
  `tables_ctts`), C16 (value guards) and C19 (`strictMdhd`).
-/
namespace Muxide.Props.C03E2E
open Muxide Muxide.Spec Muxide.Props.C08 Muxide.Props.C01E2E

/-- the composition offset the reader applies to sample `i` of a track: 0 without a `ctts` -/
def ctsAt (t : Track) (i : Nat) : Int :=
  match t.ctts with
  | none => 0
  | some c => (expandRuns c).getD i 0

/-! ## 1. video: decode-time table -/

/-- The first track's `stts`, as decoded by the reader from the file, is the run-length table of
    the writer's per-sample durations; expanded, it is that list, one entry per accepted frame. -/
theorem C03_e2e_video_stts (w : Writer) (hr : w.Reachable) (width height : Nat) (md : Option Metadata)
    (fast : Bool) (hok : (w.finalize width height md fast).2.res = .ok)
    (hfit : MoovFits w width height md fast) :
    let file := (w.finalize width height md fast).2.chunks.flatten
    ∀ mv, parseMovie file = some mv → ∀ t, mv.tracks[0]? = some t →
      t.stts = rle (durationsOf w.vsRev.reverse w.vLastDelta) ∧
      expandRuns t.stts = durationsOf w.vsRev.reverse w.vLastDelta ∧
      (expandRuns t.stts).length = w.vsRev.length := by
  intro file mv hmv t ht
  obtain ⟨-, hv, -⟩ := e2e_tracks w hr width height md fast hok hfit mv hmv
  have e : t.stts = rle (durationsOf w.vsRev.reverse w.vLastDelta) := by rw [hv t ht]; rfl
  rw [e, expandRuns_rle, durationsOf_length]
  exact ⟨rfl, rfl, by simp⟩

/-- … in closed form: no entry for an empty track, one tick for a lone frame, and otherwise the
    steps of the decode timestamps followed by a repetition of the last step (`s` the newest,
    `t'` the second newest accepted frame). -/
theorem C03_e2e_video_durations (w : Writer) (hr : w.Reachable) (width height : Nat) (md : Option Metadata)
    (fast : Bool) (hok : (w.finalize width height md fast).2.res = .ok)
    (hfit : MoovFits w width height md fast) :
    let file := (w.finalize width height md fast).2.chunks.flatten
    ∀ mv, parseMovie file = some mv → ∀ t, mv.tracks[0]? = some t →
      (w.vsRev = [] → expandRuns t.stts = []) ∧
      (∀ s, w.vsRev = [s] → expandRuns t.stts = [1]) ∧
      (∀ s t' r, w.vsRev = s :: t' :: r →
        expandRuns t.stts =
          List.zipWith (· - ·) (dtsOf w.vsRev).tail (dtsOf w.vsRev) ++ [s.dts - t'.dts]) := by
  intro file mv hmv t ht
  obtain ⟨-, e, -⟩ := C03_e2e_video_stts w hr width height md fast hok hfit mv hmv t ht
  rw [e]
  exact C03.C03_durations w hr.timing.1

/-- The decode time of sample `i` read from the file — the sum of the first `i` expanded `stts`
    entries — is `dts_i − dts_0` of the accepted frames: exact, no accumulated drift. -/
theorem C03_e2e_video_dts (w : Writer) (hr : w.Reachable) (width height : Nat) (md : Option Metadata)
    (fast : Bool) (hok : (w.finalize width height md fast).2.res = .ok)
    (hfit : MoovFits w width height md fast) :
    let file := (w.finalize width height md fast).2.chunks.flatten
    ∀ mv, parseMovie file = some mv → ∀ t, mv.tracks[0]? = some t →
      ∀ i s0 si, w.vsRev.reverse[0]? = some s0 → w.vsRev.reverse[i]? = some si →
        ((expandRuns t.stts).take i).sum = si.dts - s0.dts ∧ s0.dts ≤ si.dts := by
  intro file mv hmv t ht i s0 si h0 hi
  obtain ⟨-, e, -⟩ := C03_e2e_video_stts w hr width height md fast hok hfit mv hmv t ht
  rw [e]
  have := track_nodrift' hr.timing.1 i s0 si h0 hi
  omega

/-! ## 2. video: composition-time table -/

/-- The first track's `ctts` as decoded by the reader: absent exactly when every accepted video
    frame has `pts = dts`; otherwise it is the run-length table of `pts − dts` per frame, in
    submission order. No hypothesis on the size of the timestamps. -/
theorem C03_e2e_video_ctts (w : Writer) (hr : w.Reachable) (width height : Nat) (md : Option Metadata)
    (fast : Bool) (hok : (w.finalize width height md fast).2.res = .ok)
    (hfit : MoovFits w width height md fast) :
    let file := (w.finalize width height md fast).2.chunks.flatten
    ∀ mv, parseMovie file = some mv → ∀ t, mv.tracks[0]? = some t →
      (t.ctts = none ↔ ∀ s ∈ w.vsRev, s.pts = s.dts) ∧
      (∀ c, t.ctts = some c →
        c = rle (w.vsRev.reverse.map fun s => (s.pts : Int) - s.dts) ∧
        expandRuns c = w.vsRev.reverse.map fun s => (s.pts : Int) - s.dts) := by
  intro file mv hmv t ht
  obtain ⟨-, hv, -⟩ := e2e_tracks w hr width height md fast hok hfit mv hmv
  obtain ⟨hc, hb⟩ := vTablesOf_cts w hr.timing.1 (offsetsAt w (mediaStart w width height md fast))
  have e : t.ctts = if (vTablesOf w (offsetsAt w (mediaStart w width height md fast))).hasBframes
      then some (rle (vTablesOf w (offsetsAt w (mediaStart w width height md fast))).ctsOffsets) else none := by
    rw [hv t ht]; rfl
  rw [hc] at e
  by_cases hB : (vTablesOf w (offsetsAt w (mediaStart w width height md fast))).hasBframes = true
  · rw [if_pos hB] at e
    obtain ⟨s, hs, hne⟩ := hb.mp hB
    refine ⟨⟨fun h => (by rw [e] at h; cases h), fun h => absurd (h s (by simpa using hs)) hne⟩, ?_⟩
    intro c hc'
    rw [e] at hc'
    cases hc'
    exact ⟨rfl, expandRuns_rle _⟩
  · rw [if_neg hB] at e
    refine ⟨⟨fun _ s hs => ?_, fun _ => e⟩, fun c hc' => (by rw [e] at hc'; cases hc')⟩
    apply Classical.byContradiction
    intro hne
    exact hB (hb.mpr ⟨s, by simpa using hs, hne⟩)

/-- The composition offset the reader applies to sample `i` of the first track (0 without a
    `ctts`) is `pts_i − dts_i` of the `i`-th accepted frame … -/
theorem C03_e2e_video_cts (w : Writer) (hr : w.Reachable) (width height : Nat) (md : Option Metadata)
    (fast : Bool) (hok : (w.finalize width height md fast).2.res = .ok)
    (hfit : MoovFits w width height md fast) :
    let file := (w.finalize width height md fast).2.chunks.flatten
    ∀ mv, parseMovie file = some mv → ∀ t, mv.tracks[0]? = some t →
      ∀ i si, w.vsRev.reverse[i]? = some si → ctsAt t i = (si.pts : Int) - si.dts := by
  intro file mv hmv t ht i si hi
  obtain ⟨h1, h2⟩ := C03_e2e_video_ctts w hr width height md fast hok hfit mv hmv t ht
  unfold ctsAt
  cases hc : t.ctts with
  | none =>
    have := (h1.mp hc) si (by
      have := List.mem_of_getElem? hi
      simpa using this)
    simp only []
    omega
  | some c =>
    simp only []
    rw [(h2 c hc).2, List.getD_eq_getElem?_getD, List.getElem?_map, hi]
    rfl

/-- … hence the presentation time of sample `i` read from the file (decode time plus composition
    offset), counted from the first decode timestamp, is the submitted `pts_i`. -/
theorem C03_e2e_video_pts (w : Writer) (hr : w.Reachable) (width height : Nat) (md : Option Metadata)
    (fast : Bool) (hok : (w.finalize width height md fast).2.res = .ok)
    (hfit : MoovFits w width height md fast) :
    let file := (w.finalize width height md fast).2.chunks.flatten
    ∀ mv, parseMovie file = some mv → ∀ t, mv.tracks[0]? = some t →
      ∀ i s0 si, w.vsRev.reverse[0]? = some s0 → w.vsRev.reverse[i]? = some si →
        (s0.dts : Int) + (((expandRuns t.stts).take i).sum : Nat) + ctsAt t i = si.pts := by
  intro file mv hmv t ht i s0 si h0 hi
  obtain ⟨h1, h2⟩ := C03_e2e_video_dts w hr width height md fast hok hfit mv hmv t ht i s0 si h0 hi
  rw [C03_e2e_video_cts w hr width height md fast hok hfit mv hmv t ht i si hi, h1]
  omega

/-! ## 3. audio -/

/-- The second track's decoded `stts`, when an audio track is configured: the run-length table of
    the audio durations; expanded, one entry per accepted audio frame (none for an audio track
    without frames). -/
theorem C03_e2e_audio_stts (w : Writer) (hr : w.Reachable) (width height : Nat) (md : Option Metadata)
    (fast : Bool) (hok : (w.finalize width height md fast).2.res = .ok)
    (hfit : MoovFits w width height md fast) (tr : AudioTrack) (hau : w.audio = some tr) :
    let file := (w.finalize width height md fast).2.chunks.flatten
    ∀ mv, parseMovie file = some mv → ∀ t, mv.tracks[1]? = some t →
      t.stts = rle (durationsOf w.asRev.reverse w.aLastDelta) ∧
      expandRuns t.stts = durationsOf w.asRev.reverse w.aLastDelta ∧
      (expandRuns t.stts).length = w.asRev.length := by
  intro file mv hmv t ht
  obtain ⟨-, -, ha⟩ := e2e_tracks w hr width height md fast hok hfit mv hmv
  have e : t.stts = rle (durationsOf w.asRev.reverse w.aLastDelta) := by rw [ha tr hau t ht]; rfl
  rw [e, expandRuns_rle, durationsOf_length]
  exact ⟨rfl, rfl, by simp⟩

/-- closed form of the audio durations (steps of the non-decreasing audio timestamps, the last
    step repeated; one tick for a lone frame) -/
theorem C03_e2e_audio_durations (w : Writer) (hr : w.Reachable) (width height : Nat) (md : Option Metadata)
    (fast : Bool) (hok : (w.finalize width height md fast).2.res = .ok)
    (hfit : MoovFits w width height md fast) (tr : AudioTrack) (hau : w.audio = some tr) :
    let file := (w.finalize width height md fast).2.chunks.flatten
    ∀ mv, parseMovie file = some mv → ∀ t, mv.tracks[1]? = some t →
      (w.asRev = [] → expandRuns t.stts = []) ∧
      (∀ s, w.asRev = [s] → expandRuns t.stts = [1]) ∧
      (∀ s t' r, w.asRev = s :: t' :: r →
        expandRuns t.stts =
          List.zipWith (· - ·) (dtsOf w.asRev).tail (dtsOf w.asRev) ++ [s.dts - t'.dts]) := by
  intro file mv hmv t ht
  obtain ⟨-, e, -⟩ := C03_e2e_audio_stts w hr width height md fast hok hfit tr hau mv hmv t ht
  rw [e]
  exact C03.C03_durations_audio w hr.timing.2

/-- decode (= presentation) time of audio sample `i` read from the file: `pts_i − pts_0` -/
theorem C03_e2e_audio_dts (w : Writer) (hr : w.Reachable) (width height : Nat) (md : Option Metadata)
    (fast : Bool) (hok : (w.finalize width height md fast).2.res = .ok)
    (hfit : MoovFits w width height md fast) (tr : AudioTrack) (hau : w.audio = some tr) :
    let file := (w.finalize width height md fast).2.chunks.flatten
    ∀ mv, parseMovie file = some mv → ∀ t, mv.tracks[1]? = some t →
      ∀ i s0 si, w.asRev.reverse[0]? = some s0 → w.asRev.reverse[i]? = some si →
        ((expandRuns t.stts).take i).sum = si.pts - s0.pts ∧ s0.pts ≤ si.pts := by
  intro file mv hmv t ht i s0 si h0 hi
  obtain ⟨-, e, -⟩ := C03_e2e_audio_stts w hr width height md fast hok hfit tr hau mv hmv t ht
  rw [e]
  have := track_nodrift' hr.timing.2.1 i s0 si h0 hi
  have e0 := hr.timing.2.2 s0 (by have := List.mem_of_getElem? h0; simpa using this)
  have ei := hr.timing.2.2 si (by have := List.mem_of_getElem? hi; simpa using this)
  omega

/-- the audio track has no composition-time table: presentation time = decode time -/
theorem C03_e2e_audio_no_ctts (w : Writer) (hr : w.Reachable) (width height : Nat) (md : Option Metadata)
    (fast : Bool) (hok : (w.finalize width height md fast).2.res = .ok)
    (hfit : MoovFits w width height md fast) (tr : AudioTrack) (hau : w.audio = some tr) :
    let file := (w.finalize width height md fast).2.chunks.flatten
    ∀ mv, parseMovie file = some mv → ∀ t, mv.tracks[1]? = some t → t.ctts = none := by
  intro file mv hmv t ht
  obtain ⟨-, -, ha⟩ := e2e_tracks w hr width height md fast hok hfit mv hmv
  rw [ha tr hau t ht]; rfl

/-! ## 4. media headers -/

/-- Each decoded track's `mdhd` payload, read with the strict ISO decoder: timescale 90 000, and
    as duration the sum of that track's sample durations as read from its own `stts` (which is
    the sum of the writer's durations); the 32-bit fields are also given as raw reads at payload
    offsets 12 and 16. Video track (index 0) and, when configured, audio track (index 1). -/
theorem C03_e2e_mdhd_duration (w : Writer) (hr : w.Reachable) (width height : Nat) (md : Option Metadata)
    (fast : Bool) (hok : (w.finalize width height md fast).2.res = .ok)
    (hfit : MoovFits w width height md fast) :
    let file := (w.finalize width height md fast).2.chunks.flatten
    ∀ mv, parseMovie file = some mv →
      (∀ t, mv.tracks[0]? = some t →
        (expandRuns t.stts).sum = (durationsOf w.vsRev.reverse w.vLastDelta).sum ∧
        (strictMdhd t.mdhd).map (fun m => (m.timescale, m.duration)) = some (90000, (expandRuns t.stts).sum) ∧
        be t.mdhd 12 4 = 90000 ∧ be t.mdhd 16 4 = (expandRuns t.stts).sum ∧
        ∃ rest, readU32 (t.mdhd.drop 16) = some ((expandRuns t.stts).sum, rest)) ∧
      (∀ tr, w.audio = some tr → ∀ t, mv.tracks[1]? = some t →
        (expandRuns t.stts).sum = (durationsOf w.asRev.reverse w.aLastDelta).sum ∧
        (strictMdhd t.mdhd).map (fun m => (m.timescale, m.duration)) = some (90000, (expandRuns t.stts).sum) ∧
        be t.mdhd 12 4 = 90000 ∧ be t.mdhd 16 4 = (expandRuns t.stts).sum ∧
        ∃ rest, readU32 (t.mdhd.drop 16) = some ((expandRuns t.stts).sum, rest)) := by
  intro file mv hmv
  obtain ⟨-, hv, ha⟩ := e2e_tracks w hr width height md fast hok hfit mv hmv
  obtain ⟨-, -, s1, s2, -⟩ := C16.C16_finalize_values w hr width height md fast hok
  obtain ⟨r1, r2⟩ := C16.C16_finalize_mdhd w width height md fast (md.bind (·.language)) hok
  have key : ∀ (dur : Nat) (lang : Option (List Nat)), dur < 2^32 →
      (strictMdhd (bMdhd 90000 dur lang).pre).map (fun m => (m.timescale, m.duration)) = some (90000, dur) ∧
      be (bMdhd 90000 dur lang).pre 12 4 = 90000 ∧ be (bMdhd 90000 dur lang).pre 16 4 = dur := by
    intro dur lang hd
    have h := C19.C19_mdhd_90k dur lang hd
    refine ⟨by rw [h]; rfl, ?_, ?_⟩
    · unfold strictMdhd at h
      split at h
      · have := congrArg (Option.map (·.timescale)) h; simpa using this
      · cases h
    · unfold strictMdhd at h
      split at h
      · have := congrArg (Option.map (·.duration)) h; simpa using this
      · cases h
  constructor
  · intro t ht
    obtain ⟨-, e, -⟩ := C03_e2e_video_stts w hr width height md fast hok hfit mv hmv t ht
    have em : t.mdhd = (bMdhd 90000 (durationsOf w.vsRev.reverse w.vLastDelta).sum (md.bind (·.language))).pre := by
      rw [hv t ht]; rfl
    rw [e, em]
    obtain ⟨k1, k2, k3⟩ := key _ (md.bind (·.language)) s1
    exact ⟨rfl, k1, k2, k3, r1⟩
  · intro tr hau t ht
    obtain ⟨-, e, -⟩ := C03_e2e_audio_stts w hr width height md fast hok hfit tr hau mv hmv t ht
    have em : t.mdhd = (bMdhd 90000 (durationsOf w.asRev.reverse w.aLastDelta).sum (md.bind (·.language))).pre := by
      rw [ha tr hau t ht]; rfl
    rw [e, em]
    obtain ⟨k1, k2, k3⟩ := key _ (md.bind (·.language)) s2
    exact ⟨rfl, k1, k2, k3, r2⟩

/-! ## The corner cases, by evaluation

  None of the statements above excludes a corner: an empty video track (audio only, or nothing at
  all) reads back an empty `stts` and an `mdhd` duration 0; a lone frame reads back one run
  `(1, 1)` — the writer's one-tick default, there being no step to repeat; an audio track that is
  configured but received no frame reads back empty tables. -/

/-- a fresh writer (no frame at all), finalised: the file parses, the video track's timing tables
    are empty and its `mdhd` duration is 0 -/
theorem C03_e2e_empty_track :
    let w : Writer := { codec := .h264 }
    let file := (w.finalize 16 16 none false).2.chunks.flatten
    (parseMovie file).map (fun mv => mv.tracks.map (·.stts)) = some [[]] ∧
    (parseMovie file).map (fun mv => mv.tracks.map (·.ctts)) = some [none] ∧
    (parseMovie file).map (fun mv => mv.tracks.map fun t => (be t.mdhd 12 4, be t.mdhd 16 4)) = some [(90000, 0)] := by
  decide +kernel

/-- a lone key frame: one run of one sample lasting the default 1 tick, `mdhd` duration 1 -/
theorem C03_e2e_single_sample_default :
    let w : Writer := { codec := .vp9, vsRev := [⟨7, 5, [1, 2], true, none⟩], vPrev := some 5 }
    let file := (w.finalize 16 16 none false).2.chunks.flatten
    (parseMovie file).map (fun mv => mv.tracks.map (·.stts)) = some [[(1, 1)]] ∧
    (parseMovie file).map (fun mv => mv.tracks.map (·.ctts)) = some [some [(1, 2)]] ∧
    (parseMovie file).map (fun mv => mv.tracks.map fun t => (be t.mdhd 12 4, be t.mdhd 16 4)) = some [(90000, 1)] := by
  decide +kernel

/-! ## Non-vacuity -/
namespace Example
open Muxide.Props.C01E2E.Example

theorem wE_durations : durationsOf wE.vsRev.reverse wE.vLastDelta = [3000, 3000] := by
  rw [wE_eq]; decide

/-- for the example writer of C01E2E (two video frames at 0 and 3000 ticks, one audio packet),
    both layouts: the file parses, the video track's expanded `stts` is `[3000, 3000]`, it has no
    `ctts`, the second sample's decode time is 3000, and the `mdhd` duration field holds 6000 -/
example (fast : Bool) : ∃ mv vt at_, parseMovie (wE.finalize 640 480 none fast).2.chunks.flatten = some mv ∧
    mv.tracks[0]? = some vt ∧ mv.tracks[1]? = some at_ ∧
    expandRuns vt.stts = [3000, 3000] ∧ vt.ctts = none ∧ ((expandRuns vt.stts).take 1).sum = 3000 ∧
    be vt.mdhd 12 4 = 90000 ∧ be vt.mdhd 16 4 = 6000 ∧ expandRuns at_.stts = [1] ∧ at_.ctts = none := by
  obtain ⟨mv, hmv, hd⟩ := e2e_full wE wE_reachable 640 480 none fast (wE_ok fast) (wE_fits fast)
  have hau : wE.audio = some tr0 := by rw [wE_eq]; rfl
  have h0 : mv.tracks[0]? = some (mv.tracks[0]'(by rw [hd.tracks]; simp [tracksOf])) := List.getElem?_eq_getElem _
  have h1 : mv.tracks[1]? = some (mv.tracks[1]'(by rw [hd.tracks]; simp [tracksOf, hau])) := List.getElem?_eq_getElem _
  obtain ⟨-, e, -⟩ := C03_e2e_video_stts wE wE_reachable 640 480 none fast (wE_ok fast) (wE_fits fast) mv hmv _ h0
  obtain ⟨c1, -⟩ := C03_e2e_video_ctts wE wE_reachable 640 480 none fast (wE_ok fast) (wE_fits fast) mv hmv _ h0
  obtain ⟨hvm, -⟩ :=
    C03_e2e_mdhd_duration wE wE_reachable 640 480 none fast (wE_ok fast) (wE_fits fast) mv hmv
  obtain ⟨-, -, m1, m2, -⟩ := hvm _ h0
  obtain ⟨-, ea, -⟩ := C03_e2e_audio_stts wE wE_reachable 640 480 none fast (wE_ok fast) (wE_fits fast) tr0 hau mv hmv _ h1
  have na := C03_e2e_audio_no_ctts wE wE_reachable 640 480 none fast (wE_ok fast) (wE_fits fast) tr0 hau mv hmv _ h1
  rw [wE_durations] at e
  refine ⟨mv, _, _, hmv, h0, h1, e, ?_, by rw [e]; rfl, m1, by rw [m2, e]; rfl, ?_, na⟩
  · apply c1.mpr
    rw [wE_eq]; decide
  · rw [ea, wE_eq]; decide
end Example

end Muxide.Props.C03E2E
