import Muxide.Props.C01Api
import Muxide.Props.C03History
/-
  C03 (API form) — the timing read back from the finished file, in terms of the calls of the public API:
  for every sequence of frame-writing API calls on a freshly built muxer, the decode time of the i-th video
  sample (from the sample-to-time table) is the tick value of the decode time submitted with the i-th call
  answered `ok`, minus that of the first, and its composition offset is ticks(pts) − ticks(dts); likewise for
  audio.  `ticks` is `F64.ticks`, the round-to-nearest of secs·90000 (`C03_api_ticks_*` in Props/C03.lean).
-/
namespace Muxide.Props.C03Api
open Muxide Muxide.Spec Muxide.Props.C05 Muxide.Props.C01E2E Muxide.Props.C03E2E Muxide.Props.C01History
  Muxide.Props.C01Api Muxide.Props.C03History

theorem C03_api_history_video (c : Config) (cs : List Call) (hall : ∀ x ∈ cs, x.isWrite = true) (st : Stats) :
    let m0 := build c
    let m := (run m0 cs).1
    (m.finishStats deliverAll).2.2 = .stats st →
    MoovFits m.w m.width m.height m.md m.fast →
    let file := (m.finishStats deliverAll).2.1.chunks.flatten
    let acc := (apiAccepted m0 cs).filterMap (vrec c.codec)
    ∀ mv, parseMovie file = some mv → ∀ t, mv.tracks[0]? = some t →
      ∀ i p0 pi, acc[0]? = some p0 → acc[i]? = some pi →
        ((expandRuns t.stts).take i).sum = pi.2.1 - p0.2.1 ∧ p0.2.1 ≤ pi.2.1 ∧ ctsAt t i = (pi.1 : Int) - pi.2.1 := by
  intro m0 m hst hfit file acc mv hmv t ht i p0 pi h0 hi
  obtain ⟨hout, hres⟩ := finishStats_stats m st hst
  obtain ⟨hw, hv, -⟩ := run_w cs hall m0 c.codec m0.w.audio
  have hw' : m.w = (wrun m0.w (wcalls m0 cs)).1 := hw
  have h0' : m0.w = { codec := c.codec, audio := m0.w.audio } := rfl
  have key := C03_history_video c.codec m0.w.audio (wcalls m0 cs) m.width m.height m.md m.fast
  simp only at key
  rw [← h0', ← hw'] at key
  have hfile : file = (m.w.finalize m.width m.height m.md m.fast).2.chunks.flatten := by
    show (m.finishStats deliverAll).2.1.chunks.flatten = _
    rw [hout]
  rw [hfile] at hmv
  have hacc : acc = acceptedVideo c.codec (wcalls m0 cs) (wrun m0.w (wcalls m0 cs)).2 := hv.symm
  rw [hacc] at h0 hi
  exact key hres hfit mv hmv t ht i p0 pi h0 hi

theorem C03_api_history_audio (c : Config) (cs : List Call) (hall : ∀ x ∈ cs, x.isWrite = true) (st : Stats)
    (tr : AudioTrack) :
    let m0 := build c
    let m := (run m0 cs).1
    m0.w.audio = some tr →
    (m.finishStats deliverAll).2.2 = .stats st →
    MoovFits m.w m.width m.height m.md m.fast →
    let file := (m.finishStats deliverAll).2.1.chunks.flatten
    let acc := (apiAccepted m0 cs).filterMap (arec (some tr))
    ∀ mv, parseMovie file = some mv → ∀ t, mv.tracks[1]? = some t →
      t.ctts = none ∧
      ∀ i p0 pi, acc[0]? = some p0 → acc[i]? = some pi →
        ((expandRuns t.stts).take i).sum = pi.1 - p0.1 ∧ p0.1 ≤ pi.1 := by
  intro m0 m hau hst hfit file acc mv hmv t ht
  obtain ⟨hout, hres⟩ := finishStats_stats m st hst
  obtain ⟨hw, -, ha⟩ := run_w cs hall m0 c.codec (some tr)
  have hw' : m.w = (wrun m0.w (wcalls m0 cs)).1 := hw
  have h0' : m0.w = { codec := c.codec, audio := some tr } := by
    have e : m0.w = { codec := c.codec, audio := m0.w.audio } := rfl
    rw [e, hau]
  have key := C03_history_audio c.codec tr (wcalls m0 cs) m.width m.height m.md m.fast
  simp only at key
  rw [← h0', ← hw'] at key
  have hfile : file = (m.w.finalize m.width m.height m.md m.fast).2.chunks.flatten := by
    show (m.finishStats deliverAll).2.1.chunks.flatten = _
    rw [hout]
  rw [hfile] at hmv
  obtain ⟨k1, k2⟩ := key hres hfit mv hmv t ht
  refine ⟨k1, ?_⟩
  intro i p0 pi h0 hi
  have hacc : acc = acceptedAudio (some tr) (wcalls m0 cs) (wrun m0.w (wcalls m0 cs)).2 := ha.symm
  rw [hacc] at h0 hi
  exact k2 i p0 pi h0 hi

end Muxide.Props.C03Api
