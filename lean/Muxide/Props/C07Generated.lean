import Muxide.Generated.Nal
import Muxide.Model.Validation
/-
  C07 (mechanical tie) — Muxide.Generated.Nal is produced by tools/rs2lean_nal.py from the Rust source of
  `extract_avc_config`, `extract_hevc_config`, `is_h264_keyframe`, `is_hevc_keyframe`, `hevc_nal_type` and
  `is_hevc_keyframe_nal_type` (src/codec/h264.rs, src/codec/h265.rs) on every check run.  Each theorem states
  that the translated function is the model's, for every byte string: which parameter sets are taken from the
  first key frame ("the first SPS / PPS / VPS of the stream", C07) and which access units count as key frames.
-/
namespace Muxide.Props.C07Generated
open Muxide Muxide.Generated.Nal

theorem and_31 (n : Nat) : n &&& 31 = n % 32 := Nat.and_two_pow_sub_one_eq_mod n 5
theorem and_63 (n : Nat) : n &&& 63 = n % 64 := Nat.and_two_pow_sub_one_eq_mod n 6

theorem h264_type (nal : Bytes) : ((nal.getD 0 0).toNat &&& 31) = h264NalType nal := by
  unfold h264NalType
  rw [and_31]
  cases nal <;> rfl

theorem C07_gen_hevc_nal_type (nal : Bytes) : H265.hevc_nal_type nal = hevcNalType nal := by
  unfold H265.hevc_nal_type hevcNalType
  cases nal with
  | nil => rfl
  | cons b r => simp [and_63]

theorem C07_gen_hevc_key_type (t : Nat) : H265.is_hevc_keyframe_nal_type t = isHevcKeyNalType t := by
  unfold H265.is_hevc_keyframe_nal_type isHevcKeyNalType
  apply decide_eq_decide.mpr
  omega

theorem avc_loop (ns : List Bytes) : ∀ s p, H264.extract_avc_config.loop ns s p = avcScan ns s p := by
  induction ns with
  | nil => intro s p; rfl
  | cons n ns ih =>
    intro s p
    unfold H264.extract_avc_config.loop avcScan
    by_cases hn : n = []
    · simp only [hn, if_true]; exact ih s p
    · simp only [hn, if_false, h264_type]
      split <;> rename_i h1
      · split <;> rename_i h2 <;> simp only [h1, if_true] at * <;> first | rfl | exact ih _ _
      · split <;> rename_i h2
        · split <;> rename_i h3 <;> simp only [h1, h2, if_true, if_false] at * <;> first | rfl | exact ih _ _
        · split <;> rename_i h3 <;> simp only [h1, h2, if_false] at * <;> first | rfl | exact ih _ _

/-- `extract_avc_config(data)` = the model's `extractAvc`: the first SPS and the first PPS of the access unit -/
theorem C07_gen_extract_avc (d : Bytes) : H264.extract_avc_config d = extractAvc d := by
  unfold H264.extract_avc_config extractAvc
  rw [avc_loop]
  split
  · rfl
  · cases avcScan (nals d) none none with
    | mk a b => cases a <;> cases b <;> rfl

theorem hevc_loop (ns : List Bytes) : ∀ v s p, H265.extract_hevc_config.loop ns v s p = hevcScan ns v s p := by
  induction ns with
  | nil => intro v s p; rfl
  | cons n ns ih =>
    intro v s p
    unfold H265.extract_hevc_config.loop hevcScan
    by_cases hn : n = []
    · simp only [hn, if_true]; exact ih v s p
    · simp only [hn, if_false, C07_gen_hevc_nal_type]
      repeat' split
      all_goals first | rfl | exact ih _ _ _ | simp_all

/-- `extract_hevc_config(data)` = the model's `extractHevc`: the first VPS, SPS and PPS of the access unit -/
theorem C07_gen_extract_hevc (d : Bytes) : H265.extract_hevc_config d = extractHevc d := by
  unfold H265.extract_hevc_config extractHevc
  rw [hevc_loop]
  split
  · rfl
  · cases hevcScan (nals d) none none none with
    | mk a bc => cases bc with
      | mk b c => cases a <;> cases b <;> cases c <;> rfl

theorem h264_key_loop (ns : List Bytes) :
    H264.is_h264_keyframe.loop ns = ns.any fun n => decide (n ≠ [] ∧ h264NalType n = 5) := by
  induction ns with
  | nil => rfl
  | cons n ns ih =>
    unfold H264.is_h264_keyframe.loop
    by_cases hn : n = []
    · simp [hn, ih]
    · simp only [hn, if_false, h264_type]
      by_cases hk : h264NalType n = 5 <;> simp [hn, hk, ih]

/-- `is_h264_keyframe(data)` = the model's `isH264Keyframe`: some non-empty unit is an IDR slice -/
theorem C07_gen_is_h264_keyframe (d : Bytes) : H264.is_h264_keyframe d = isH264Keyframe d := by
  unfold H264.is_h264_keyframe isH264Keyframe
  exact h264_key_loop (nals d)

theorem hevc_key_loop (ns : List Bytes) :
    H265.is_hevc_keyframe.loop ns = ns.any fun n => n ≠ [] && isHevcKeyNalType (hevcNalType n) := by
  induction ns with
  | nil => rfl
  | cons n ns ih =>
    unfold H265.is_hevc_keyframe.loop
    by_cases hn : n = []
    · simp [hn, ih]
    · simp only [hn, if_false, C07_gen_hevc_nal_type, C07_gen_hevc_key_type]
      by_cases hk : isHevcKeyNalType (hevcNalType n) = true <;> simp [hn, hk, ih]

/-- `is_hevc_keyframe(data)`: some non-empty unit has an IRAP type (16–21); empty input has none -/
theorem C07_gen_is_hevc_keyframe (d : Bytes) :
    H265.is_hevc_keyframe d = (decide (d ≠ []) && (nals d).any fun n => n ≠ [] && isHevcKeyNalType (hevcNalType n)) := by
  unfold H265.is_hevc_keyframe
  rw [hevc_key_loop]
  by_cases h : d = [] <;> simp [h]

end Muxide.Props.C07Generated
