import Muxide.Lemmas.Offsets
/-
  C01 (placement part) — reading each track's sample tables yields, in submission order, exactly
  one sample per accepted frame whose bytes equal that frame's payload; all sample byte ranges lie
  inside the media-data box, are pairwise disjoint and together cover its payload exactly.

  `sched`, `entData`, `entSize`, `assignOffsets` are the model's (Muxide/Model/Mp4.lean);
  `walkChunks` and `slice` are the independent reader's (Muxide/Spec/Reader.lean).
  Property theorems only; helper lemmas live in Muxide/Lemmas/Offsets.lean, Schedule.lean.
-/
namespace Muxide.Props.C01
open Muxide Muxide.Spec

/-- 4. The cursor walk: the offset assigned to the j-th schedule entry is
    `start + Σ_{i<j} step sched[i]`; the video vector lists the offsets of the kind-0 entries in
    schedule order and the audio vector those of the other entries. -/
theorem assignOffsets_spec (step : Ent → Nat) (sched : List Ent) (start : Nat) :
    let offs := (List.range sched.length).map fun j => start + ((sched.take j).map step).sum
    (assignOffsets step sched start).1 = ((sched.zip offs).filter (fun p => p.1.kind = 0)).map (·.2) ∧
    (assignOffsets step sched start).2 = ((sched.zip offs).filter (fun p => ¬ p.1.kind = 0)).map (·.2) ∧
    (assignOffsets step sched start).1.length = (sched.filter (fun e => e.kind = 0)).length ∧
    (assignOffsets step sched start).2.length = (sched.filter (fun e => ¬ e.kind = 0)).length := by
  intro offs
  have ho : offs = cursors step sched start := (cursors_eq_range step sched start).symm
  rw [assignOffsets_eq, ho]
  refine ⟨rfl, ?_, ?_, ?_⟩
  · simp
  · rw [← filter_zip_map_fst (fun e => decide (e.kind = 0)) sched (cursors step sched start) (by simp)]
    simp
  · rw [← filter_zip_map_fst (fun e => decide (¬ e.kind = 0)) sched (cursors step sched start) (by simp)]
    simp

/-- the offsets of the model for media data that starts at file position `start` -/
abbrev videoOffsets (vs aus : List Sample) (start : Nat) : List Nat :=
  (assignOffsets (entSize vs aus) (schedule vs aus) start).1
abbrev audioOffsets (vs aus : List Sample) (start : Nat) : List Nat :=
  (assignOffsets (entSize vs aus) (schedule vs aus) start).2
/-- the media data: the frames in schedule order -/
abbrev mediaData (vs aus : List Sample) : Bytes :=
  ((schedule vs aus).map (entData vs aus)).flatten

/-- 5. Every table entry i points at frame i's bytes: in any file in which the media data is
    preceded by `pre.length` bytes (the value the cursor starts from), the i-th video chunk offset
    with the i-th video sample size is exactly the i-th video frame's payload, likewise audio;
    and there is exactly one offset per frame. -/
theorem C01_av_resolves (vs aus : List Sample) (pre post : Bytes)
    (hv : vs.Pairwise (fun a b => a.dts < b.dts)) (ha : aus.Pairwise (fun a b => a.dts ≤ b.dts)) :
    let file := pre ++ mediaData vs aus ++ post
    let vo := videoOffsets vs aus pre.length
    let ao := audioOffsets vs aus pre.length
    vo.length = vs.length ∧ ao.length = aus.length ∧
    (∀ i (hi : i < vs.length) (h' : i < vo.length), slice file vo[i] vs[i].data.length = vs[i].data) ∧
    (∀ i (hi : i < aus.length) (h' : i < ao.length), slice file ao[i] aus[i].data.length = aus[i].data) := by
  intro file vo ao
  have hV := track_offsets_resolve vs aus pre post (fun e => decide (e.kind = 0)) 0 vs
    (schedule_filter_video vs aus (pairwise_lt_le hv))
    (fun i h => entData_video vs aus _ i h) vo
    (by simp only [vo, videoOffsets]; rw [assignOffsets_eq])
  have hA := track_offsets_resolve vs aus pre post (fun e => !decide (e.kind = 0)) 1 aus
    ((schedule_filter_not_video vs aus).trans (schedule_filter_audio vs aus ha))
    (fun i h => entData_audio vs aus _ i h) ao
    (by simp only [ao, audioOffsets]; rw [assignOffsets_eq])
  exact ⟨hV.1, hA.1, hV.2, hA.2⟩

/-- 6. The sample ranges (chunk offset, sample size) of both tracks are, up to order, exactly the
    consecutive pieces of the media data: there is an arrangement `P` of them in which piece j
    starts at `start + Σ_{i<j} |P_i|`. Hence they are pairwise disjoint, lie inside
    `[start, start + |data|)`, and their sizes add up to `|data|` — they tile the mdat payload. -/
theorem C01_tiling (vs aus : List Sample) (start : Nat)
    (hv : vs.Pairwise (fun a b => a.dts < b.dts)) (ha : aus.Pairwise (fun a b => a.dts ≤ b.dts)) :
    let ranges := List.zip (videoOffsets vs aus start) (vs.map (·.data.length)) ++
                  List.zip (audioOffsets vs aus start) (aus.map (·.data.length))
    let dataLen := (mediaData vs aus).length
    (∃ P : List (Nat × Nat), ranges.Perm P ∧
        ∀ j (h : j < P.length), P[j].1 = start + ((P.take j).map (·.2)).sum) ∧
    ranges.Pairwise (fun a b => a.1 + a.2 ≤ b.1 ∨ b.1 + b.2 ≤ a.1) ∧
    (∀ r ∈ ranges, start ≤ r.1 ∧ r.1 + r.2 ≤ start + dataLen) ∧
    (ranges.map (·.2)).sum = dataLen := by
  intro ranges dataLen
  have hperm : ranges.Perm (pieces (entSize vs aus) (schedule vs aus) start) := by
    simp only [ranges, videoOffsets, audioOffsets]
    rw [assignOffsets_eq]
    simp only []
    rw [track_ranges_eq vs aus start (fun e => decide (e.kind = 0)) 0 vs
          (schedule_filter_video vs aus (pairwise_lt_le hv)) (entsOf_map_entSize_video vs aus),
        track_ranges_eq vs aus start (fun e => !decide (e.kind = 0)) 1 aus
          ((schedule_filter_not_video vs aus).trans (schedule_filter_audio vs aus ha))
          (entsOf_map_entSize_audio vs aus),
        ← List.map_append, ← zip_map_pieces]
    exact (List.filter_append_perm _ _).map _
  have hlen : dataLen = ((schedule vs aus).map (entSize vs aus)).sum := by
    simp only [dataLen, mediaData]
    rw [sum_map_flatten_length, entSize_fun]
  refine ⟨⟨_, hperm, fun j h => pieces_closed _ _ _ j h⟩, ?_, ?_, ?_⟩
  · exact (pieces_disjoint _ _ _).perm hperm.symm (fun h => RangesDisjoint.symm h)
  · intro r hr
    have hr' := hperm.mem_iff.mp hr
    have h1 := pieces_lower _ _ _ r hr'
    have h2 := pieces_upper _ _ _ r hr'
    rw [hlen]; exact ⟨h1, h2⟩
  · rw [(hperm.map (·.2)).sum_nat, pieces_sizes, hlen]

/-- 7a. Video-only layout: one chunk holding all n samples (`stsc` = one run with
    samples_per_chunk = n, one chunk offset). The reader's generic chunk walk resolves sample i
    to `off + Σ_{j<i} size_j`. -/
theorem C01_single_chunk (n off : Nat) (sizes : List Nat) (h : sizes.length = n) :
    walkChunks [(1, n, 1)] [off] 1 sizes =
      (List.range n).map fun i => (off + (sizes.take i).sum, sizes.getD i 0) := by
  rw [walkChunks_single_chunk n off sizes (by omega), cursors_eq_range]
  subst h
  apply List.ext_getElem (by simp)
  intro i h1 h2
  have hi : i < sizes.length := by simpa using h2
  simp [hi]

/-- 7b. A/V layout: one sample per chunk (`stsc` = one run with samples_per_chunk = 1). The
    reader's generic chunk walk resolves sample i to chunk offset i. -/
theorem C01_one_per_chunk (offs sizes : List Nat) (h : offs.length = sizes.length) :
    walkChunks [(1, 1, 1)] offs 1 sizes = List.zip offs sizes :=
  walkChunks_one_per_chunk offs 1 (Nat.le_refl 1) sizes h

/-- End to end, A/V: walking the tables the model writes (`stsc` [(1,1,1)], `stco` = the model's
    offsets, `stsz` = the payload sizes) and slicing the file yields the frames' payloads, in
    submission order, one per frame. -/
theorem C01_av_samples (vs aus : List Sample) (pre post : Bytes)
    (hv : vs.Pairwise (fun a b => a.dts < b.dts)) (ha : aus.Pairwise (fun a b => a.dts ≤ b.dts)) :
    let file := pre ++ mediaData vs aus ++ post
    (walkChunks [(1, 1, 1)] (videoOffsets vs aus pre.length) 1 (vs.map (·.data.length))).map
        (fun r => slice file r.1 r.2) = vs.map (·.data) ∧
    (walkChunks [(1, 1, 1)] (audioOffsets vs aus pre.length) 1 (aus.map (·.data.length))).map
        (fun r => slice file r.1 r.2) = aus.map (·.data) := by
  intro file
  obtain ⟨lv, la, rv, ra⟩ := C01_av_resolves vs aus pre post hv ha
  constructor
  · rw [C01_one_per_chunk _ _ (by simpa using lv)]
    apply List.ext_getElem (by simp; omega)
    intro i h1 h2
    have hi : i < vs.length := by simpa using h2
    simp only [List.getElem_map, List.getElem_zip]
    exact rv i hi (by omega)
  · rw [C01_one_per_chunk _ _ (by simpa using la)]
    apply List.ext_getElem (by simp; omega)
    intro i h1 h2
    have hi : i < aus.length := by simpa using h2
    simp only [List.getElem_map, List.getElem_zip]
    exact ra i hi (by omega)

/-- End to end, video only: the media data is the frames in order, the single chunk offset is the
    position of the media data; the chunk walk and slicing yield the frames' payloads in order. -/
theorem C01_video_only_samples (vs : List Sample) (pre post : Bytes) :
    let file := pre ++ (vs.map (·.data)).flatten ++ post
    (walkChunks [(1, vs.length, 1)] [pre.length] 1 (vs.map (·.data.length))).map
        (fun r => slice file r.1 r.2) = vs.map (·.data) := by
  intro file
  rw [walkChunks_single_chunk _ _ _ (by simp), cursors_map]
  apply List.ext_getElem (by simp)
  intro i h1 h2
  have hi : i < vs.length := by simpa using h2
  simp only [List.getElem_map, List.getElem_zip]
  have hm : (vs[i], (cursors (fun s : Sample => s.data.length) vs pre.length)[i]'(by simpa using hi)) ∈
      vs.zip (cursors (fun s : Sample => s.data.length) vs pre.length) := by
    rw [← List.getElem_zip (h := by simpa using hi)]
    exact List.getElem_mem _
  exact slice_flatten (fun s : Sample => s.data) vs pre post _ hm

/-- non-vacuity: two video frames (dts 0, 3000) and two audio frames (0, 1000) after a 32-byte
    prefix: storage order V0 A0 A1 V1, video offsets [32, 39], audio offsets [34, 37] -/
example :
    let vs : List Sample := [⟨0, 0, [1, 2], true, none⟩, ⟨3000, 3000, [3], false, none⟩]
    let aus : List Sample := [⟨0, 0, [4, 5, 6], false, none⟩, ⟨1000, 1000, [7, 8], false, none⟩]
    vs.Pairwise (fun a b => a.dts < b.dts) ∧ aus.Pairwise (fun a b => a.dts ≤ b.dts) ∧
    schedule vs aus = [⟨0, 0, 0⟩, ⟨0, 1, 0⟩, ⟨1000, 1, 1⟩, ⟨3000, 0, 1⟩] ∧
    videoOffsets vs aus 32 = [32, 39] ∧ audioOffsets vs aus 32 = [34, 37] := by
  intro vs aus
  have hs : schedule vs aus = [⟨0, 0, 0⟩, ⟨0, 1, 0⟩, ⟨1000, 1, 1⟩, ⟨3000, 0, 1⟩] := by
    apply schedule_unique <;> decide
  refine ⟨by decide, by decide, hs, ?_, ?_⟩
  · simp only [videoOffsets]; rw [hs]; decide
  · simp only [audioOffsets]; rw [hs]; decide

end Muxide.Props.C01
