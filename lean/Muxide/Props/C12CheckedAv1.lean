import Muxide.Checked.Core
import Muxide.Props.C12Parsers
/-
  C12 (checked models, AV1) — `parse_obu_header`, `ObuIter::next`, the payload slices of
  `parse_sequence_header` / `is_av1_keyframe`, and `BitReader::read_bit`, mirrored at the level of
  their index, slice and `usize` operations.  Each theorem states `Checked.f x = .ok (Model.f x)`:
  the Rust function cannot panic on any input of at most `isize::MAX` bytes, and the structural model
  used everywhere else computes the same result.
-/
namespace Muxide.Checked
open Muxide Muxide.Props.C12Parsers

/-- `parse_obu_header` (the body of `read_leb128` has no index or slice operation and shifts by at most 49) -/
def parseObuHeaderC (d : Bytes) : M (Option ObuInfo) :=
  if d = [] then .ok none else
  match getC d 0 with
  | .error e => .error e
  | .ok hb =>
    let h := hb.toNat
    if h ≥ 128 then .ok none else
    let ty := h / 8 % 16
    let ext := h / 4 % 2 = 1
    let hasSize := h / 2 % 2 = 1
    if ext ∧ d.length < 2 then .ok none else
    let hs := if ext then 2 else 1
    if hasSize then
      if d.length ≤ hs then .ok none else
      match sliceFrom d hs with
      | .error e => .error e
      | .ok tail =>
        match readLeb128 tail with
        | none => .ok none
        | some (size, n) =>
          match addU hs n with                       -- header_size += leb_len
          | .error e => .error e
          | .ok hs' =>
            match addU hs' size with                 -- total_size: header_size + payload_size
            | .error e => .error e
            | .ok _ => .ok (some ⟨ty, ext, hs', size⟩)
    else
      match addU hs (d.length - hs) with             -- saturating_sub cannot fail
      | .error e => .error e
      | .ok _ => .ok (some ⟨ty, ext, hs, d.length - hs⟩)

theorem C12_checked_obu_header (d : Bytes) (hd : SliceLen d) : parseObuHeaderC d = .ok (parseObuHeader d) := by
  unfold parseObuHeaderC parseObuHeader
  cases d with
  | nil => rfl
  | cons hb rest =>
    rw [if_neg (by simp)]
    simp only [getC, List.getElem?_cons_zero]
    by_cases h128 : hb.toNat ≥ 128
    · rw [if_pos h128, if_pos h128]
    · rw [if_neg h128, if_neg h128]
      by_cases hext : hb.toNat / 4 % 2 = 1 ∧ (hb :: rest).length < 2
      · rw [if_pos hext, if_pos hext]
      · rw [if_neg hext, if_neg hext]
        by_cases hsz : hb.toNat / 2 % 2 = 1
        · rw [if_pos hsz, if_pos hsz]
          by_cases hle : (hb :: rest).length ≤ (if hb.toNat / 4 % 2 = 1 then 2 else 1)
          · rw [if_pos hle, if_pos hle]
          · rw [if_neg hle, if_neg hle]
            have hs2 : (if hb.toNat / 4 % 2 = 1 then 2 else 1) ≤ 2 := by split <;> omega
            rw [sliceFrom_ok (by omega)]
            simp only
            cases hl : readLeb128 (List.drop (if hb.toNat / 4 % 2 = 1 then 2 else 1) (hb :: rest)) with
            | none => rfl
            | some vn =>
              obtain ⟨v, n⟩ := vn
              obtain ⟨b1, b2, b3, b4⟩ := C12_leb128_bound hl
              unfold SliceLen at hd
              dsimp only
              rw [addU_ok (by omega)]
              dsimp only
              rw [addU_ok (by omega)]
        · rw [if_neg hsz, if_neg hsz]
          unfold SliceLen at hd
          have hs2 : (if hb.toNat / 4 % 2 = 1 then 2 else 1) ≤ 2 := by split <;> omega
          simp only [List.length_cons] at hd ⊢
          rw [addU_ok (by omega)]

/-- one `ObuIter::next` at position `pos`: the item and the new position -/
def obuIterNext (d : Bytes) (pos : Nat) : M (Option ((ObuInfo × Bytes) × Nat)) :=
  if pos ≥ d.length then .ok none else
  match sliceFrom d pos with                          -- &self.data[self.pos..]
  | .error e => .error e
  | .ok remaining =>
    match parseObuHeaderC remaining with
    | .error e => .error e
    | .ok none => .ok none
    | .ok (some info) =>
      match addU pos info.totalSize with              -- self.pos + info.total_size
      | .error e => .error e
      | .ok endPos =>
        if endPos > d.length then .ok none else
        match sliceTo remaining info.totalSize with   -- &remaining[..info.total_size]
        | .error e => .error e
        | .ok obu => .ok (some ((info, obu), endPos))  -- self.pos += info.total_size (same sum)

/-- `for (info, obu) in ObuIter::new(data)`; running out of fuel is a failure -/
def collectObus (d : Bytes) : Nat → Nat → M (List (ObuInfo × Bytes))
  | 0, _ => .error ()
  | fuel + 1, pos =>
    match obuIterNext d pos with
    | .error e => .error e
    | .ok none => .ok []
    | .ok (some (item, pos')) =>
      match collectObus d fuel pos' with
      | .error e => .error e
      | .ok rest => .ok (item :: rest)

theorem collectObus_spec (d : Bytes) (hd : SliceLen d) : ∀ (fuel pos : Nat), pos ≤ d.length → d.length - pos < fuel →
    collectObus d fuel pos = .ok (obusAux fuel (d.drop pos)) := by
  intro fuel
  induction fuel with
  | zero => intro pos _ h; omega
  | succ fuel ih =>
    intro pos hp hf
    unfold collectObus obuIterNext obusAux
    by_cases hge : pos ≥ d.length
    · have : d.drop pos = [] := List.drop_eq_nil_of_le hge
      simp [hge, this]
    · have hne : d.drop pos ≠ [] := by
        intro h; have := congrArg List.length h; simp at this; omega
      have hlen : (d.drop pos).length = d.length - pos := by simp
      have hsl : SliceLen (d.drop pos) := by unfold SliceLen at *; omega
      simp only [hge, if_false, hne]
      rw [sliceFrom_ok hp]
      simp only [C12_checked_obu_header _ hsl]
      cases hh : parseObuHeader (d.drop pos) with
      | none => rfl
      | some info =>
        obtain ⟨c1, c2, c3, c4, c5⟩ := C12_obu_header_bound hh
        unfold SliceLen at hd
        have htot : info.totalSize = info.headerSize + info.payloadSize := rfl
        dsimp only
        rw [addU_ok (by omega)]
        dsimp only
        by_cases hgt : info.totalSize > (d.drop pos).length
        · have : pos + info.totalSize > d.length := by omega
          rw [if_pos this, if_pos hgt]
        · have : ¬ (pos + info.totalSize > d.length) := by omega
          rw [if_neg this, if_neg hgt]
          rw [sliceTo_ok (by omega)]
          dsimp only
          have hprog : 1 ≤ info.totalSize := by unfold ObuInfo.totalSize; omega
          rw [ih (pos + info.totalSize) (by omega) (by omega), List.drop_drop]

/-- `ObuIter` run to the end: every slice is inside the buffer, no `usize` sum overflows, at most
    `len + 1` calls of `next` -/
theorem C12_checked_obu_iter (d : Bytes) (hd : SliceLen d) :
    collectObus d (d.length + 1) 0 = .ok (obus d) := by
  have := collectObus_spec d hd (d.length + 1) 0 (Nat.zero_le _) (by omega)
  simpa [obus] using this

/-- every item of the iterator is at least as long as its header: `&obu_data[info.header_size..]` in
    `parse_sequence_header` (with its INV-202 assertion) and `is_av1_keyframe` is in bounds -/
theorem C12_checked_obu_payload_slice (d : Bytes) (info : ObuInfo) (obu : Bytes)
    (h : (info, obu) ∈ obus d) : sliceFrom obu info.headerSize = .ok (obu.drop info.headerSize) := by
  have key : ∀ (fuel : Nat) (e : Bytes), (info, obu) ∈ obusAux fuel e → info.headerSize ≤ obu.length := by
    intro fuel
    induction fuel with
    | zero => intro e he; simp [obusAux] at he
    | succ fuel ih =>
      intro e he
      unfold obusAux at he
      split at he
      · simp at he
      · split at he
        · simp at he
        · rename_i i hi
          split at he
          · simp at he
          · rename_i hfit
            simp only [List.mem_cons, Prod.mk.injEq] at he
            rcases he with ⟨rfl, rfl⟩ | he
            · simp only [List.length_take]
              unfold ObuInfo.totalSize at hfit ⊢
              omega
            · exact ih _ he
  exact sliceFrom_ok (key _ _ h)

end Muxide.Checked

namespace Muxide.Checked
open Muxide

/-- `BitReader` -/
structure BR where
  data : Bytes
  bytePos : Nat
  bitPos : Nat

/-- the bits a reader has not consumed yet -/
def BR.rest (r : BR) : Bits := (bitsOf r.data).drop (8 * r.bytePos + r.bitPos)

/-- `BitReader::read_bit`: `data[byte_pos] >> (7 - bit_pos)` needs `byte_pos < len` and `bit_pos ≤ 7` -/
def readBitC (r : BR) : M (Option (Bool × BR)) :=
  if r.bytePos ≥ r.data.length then .ok none else
  match getC r.data r.bytePos with
  | .error e => .error e
  | .ok b =>
    match subU 7 r.bitPos with
    | .error e => .error e
    | .ok sh =>
      let bit := b.toNat / 2 ^ sh % 2
      let bp := r.bitPos + 1
      if bp = 8 then .ok (some (bit ≠ 0, { r with bitPos := 0, bytePos := r.bytePos + 1 }))
      else .ok (some (bit ≠ 0, { r with bitPos := bp }))

theorem bitsOf_length (d : Bytes) : (bitsOf d).length = 8 * d.length := by
  induction d with
  | nil => rfl
  | cons b r ih => simp [bitsOf, List.flatMap_cons, byteBits] at ih ⊢; omega

theorem bitsOf_get (d : Bytes) (i j : Nat) (hi : i < d.length) (hj : j < 8) :
    (bitsOf d)[8 * i + j]? = some (decide (d[i].toNat / 2 ^ (7 - j) % 2 = 1)) := by
  induction d generalizing i with
  | nil => simp at hi
  | cons b r ih =>
    cases i with
    | zero =>
      simp only [bitsOf, List.flatMap_cons, byteBits, Nat.mul_zero, Nat.zero_add, List.getElem_cons_zero]
      have : j = 0 ∨ j = 1 ∨ j = 2 ∨ j = 3 ∨ j = 4 ∨ j = 5 ∨ j = 6 ∨ j = 7 := by omega
      rcases this with rfl | rfl | rfl | rfl | rfl | rfl | rfl | rfl <;> simp
    | succ i =>
      have hi' : i < r.length := by simpa using hi
      have := ih i hi'
      simp only [bitsOf, List.flatMap_cons] at this ⊢
      rw [List.getElem?_append_right (by simp [byteBits]; omega)]
      simp only [byteBits, List.length_cons, List.length_nil, List.getElem_cons_succ]
      rw [show 8 * (i + 1) + j - (0 + 1 + 1 + 1 + 1 + 1 + 1 + 1 + 1) = 8 * i + j by omega]
      exact this

/-- `read_bit` never indexes outside the buffer nor underflows `7 - bit_pos` as long as `bit_pos < 8`, keeps
    that invariant, and reads the bits of the buffer most significant first -/
theorem C12_checked_read_bit (r : BR) (hb : r.bitPos < 8) :
    ∃ out, readBitC r = .ok out ∧
      (match out with
       | none => rbit r.rest = none
       | some (b, r') => rbit r.rest = some (b, r'.rest) ∧ r'.bitPos < 8 ∧ r'.data = r.data) := by
  unfold readBitC
  by_cases hge : r.bytePos ≥ r.data.length
  · refine ⟨none, by rw [if_pos hge], ?_⟩
    have : r.rest = [] := by
      unfold BR.rest
      apply List.drop_eq_nil_of_le
      rw [bitsOf_length]; omega
    simp [this, rbit]
  · have hlt : r.bytePos < r.data.length := by omega
    rw [if_neg hge, getC_ok hlt]
    dsimp only
    rw [subU_ok (by omega)]
    dsimp only
    have hget := bitsOf_get r.data r.bytePos r.bitPos hlt hb
    have hrest : r.rest = decide (r.data[r.bytePos].toNat / 2 ^ (7 - r.bitPos) % 2 = 1) ::
        (bitsOf r.data).drop (8 * r.bytePos + r.bitPos + 1) := by
      unfold BR.rest
      have hl : 8 * r.bytePos + r.bitPos < (bitsOf r.data).length := by rw [bitsOf_length]; omega
      rw [List.drop_eq_getElem_cons hl]
      congr 1
      have := List.getElem?_eq_getElem hl
      rw [hget] at this
      exact (Option.some.inj this).symm
    have hbit : (r.data[r.bytePos].toNat / 2 ^ (7 - r.bitPos) % 2 ≠ 0) =
        (r.data[r.bytePos].toNat / 2 ^ (7 - r.bitPos) % 2 = 1) := by
      apply propext; omega
    by_cases h8 : r.bitPos + 1 = 8
    · refine ⟨_, by rw [if_pos h8], ?_⟩
      refine ⟨?_, by simp, rfl⟩
      rw [hrest, rbit]
      simp only [BR.rest, Option.some.injEq, Prod.mk.injEq]
      refine ⟨by simp only [hbit], ?_⟩
      congr 1; omega
    · refine ⟨_, by rw [if_neg h8], ?_⟩
      refine ⟨?_, by simp; omega, rfl⟩
      rw [hrest, rbit]
      simp only [BR.rest, Option.some.injEq, Prod.mk.injEq]
      refine ⟨by simp only [hbit], ?_⟩
      congr 1

end Muxide.Checked
