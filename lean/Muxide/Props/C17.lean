import Muxide.Lemmas.Api
import Muxide.Props.C05
/-
  C17 — Output is a pure function of the call sequence; equivalent API paths agree.

  The model is a function by construction, so "no hidden state" is not a statement about the
  model; it is what the correspondence run checks on the Rust code (same history on a fresh
  instance, on another thread, on 16 concurrent threads, through Vec / Cursor / File / scripted
  sinks, after polluting the thread-local invariant log — all must reproduce the MODEL's bytes;
  the auto-trait clause is decided by rustc on harness-autotraits). What the model carries are the
  path equivalences below.
-/
namespace Muxide.Props.C17
open Muxide Muxide.Props.C05

/-- `finish` ≡ `finish_with_stats` ≡ the in-place forms ≡ `flush`: same state, same chunks handed
    to the sink; only the reply differs (`ok` instead of the statistics) -/
theorem C17_finish_paths (m : Muxer) (d : Deliver) :
    (m.finish d).1 = (m.finishStats d).1 ∧ (m.finish d).2.1 = (m.finishStats d).2.1 ∧
    ((m.finish d).2.2 = .ok ↔ ∃ st, (m.finishStats d).2.2 = .stats st) := by
  unfold Muxer.finish
  split
  · next m' o st h => simp [h]
  · next r hne =>
    refine ⟨rfl, rfl, ?_⟩
    constructor
    · intro hok
      cases hr : (m.finishStats d).2.2 with
      | stats st => exact ⟨st, rfl⟩
      | ok =>
        -- finishStats never replies `.ok`
        exfalso
        unfold Muxer.finishStats at hr
        split at hr
        · simp at hr
        · simp only at hr
          repeat' split at hr
          all_goals simp at hr
      | err e i => rw [hr] at hok; simp at hok
      | panic => rw [hr] at hok; simp at hok
    · rintro ⟨st, hst⟩
      exact absurd hst (by
        intro h
        exact hne (m.finishStats d).1 (m.finishStats d).2.1 st (by
          rw [← h]))

/-- audio codec `None` ≡ no audio configured -/
theorem C17_audio_none (codec : VCodec) (w h rate ch : Nat) (md : Option Metadata) (fast : Bool) :
    build ⟨codec, w, h, some ⟨rate, ch, .none⟩, md, fast⟩ = build ⟨codec, w, h, none, md, fast⟩ := by
  simp [build]

/-- the convenience write is the explicit write at the accumulated timestamp with the detected
    key flag — by definition of the model (mirroring `encode_video` / `encode_audio`) -/
theorem C17_encode_is_write (m : Muxer) (d : Bytes) (ms : Nat) :
    (m.encodeVideo d ms).2 = (m.writeVideo m.curV d (m.isKeyframe d)).2 ∧
    (m.encodeVideo d ms).1.w = (m.writeVideo m.curV d (m.isKeyframe d)).1.w := by
  unfold Muxer.encodeVideo
  cases hr : m.writeVideo m.curV d (m.isKeyframe d) with
  | mk m' r => cases r <;> simp

theorem C17_encode_audio_is_write (m : Muxer) (d : Bytes) (n : Nat) (h : m.audioTrack.isSome) :
    (m.encodeAudio d n).2 = (m.writeAudio m.curA d).2 ∧ (m.encodeAudio d n).1.w = (m.writeAudio m.curA d).1.w := by
  unfold Muxer.encodeAudio
  cases ha : m.audioTrack with
  | none => simp [ha] at h
  | some a =>
    simp only []
    cases hr : m.writeAudio m.curA d with
    | mk m' r => cases r <;> simp

/-- the writer sees timestamps only through the tick conversion: an accepted `write_video` at
    `pts` queues exactly what the inner writer queues for `(pts.ticks, pts.ticks)` -/
theorem C17_ticks_only (m : Muxer) (pts : F64) (d : Bytes) (k : Bool) (h : (m.writeVideo pts d k).2 = .ok) :
    (m.writeVideo pts d k).1.w = (m.w.writeVideo pts.ticks pts.ticks d k).1 := by
  rw [Muxer.writeVideo_eq] at h ⊢
  rw [Writer.writeVideo_eq]
  cases hp : m.wvPre pts d with
  | some e => rw [hp] at h; simp at h
  | none =>
    rw [hp] at h
    simp only at h ⊢
    cases he : m.w.videoErr pts.ticks pts.ticks d k with
    | some e => exact absurd h (by rw [he]; cases e <;> simp [convertErr])
    | none => rfl

/-- the file and the statistics are a function of the writer state and the configuration only:
    two muxers that agree on those produce identical finish results (whatever else differs —
    accumulators, last-timestamp bookkeeping, frame counters) -/
theorem C17_finish_function_of_writer (m m' : Muxer) (d : Deliver)
    (hw : m.w = m'.w) (hwd : m.width = m'.width) (hh : m.height = m'.height) (hmd : m.md = m'.md)
    (hfast : m.fast = m'.fast) (hfin : m.finished = m'.finished) :
    (m.finishStats d).2 = (m'.finishStats d).2 := by
  unfold Muxer.finishStats
  rw [hw, hwd, hh, hmd, hfast, hfin]
  split
  · rfl
  · simp only
    repeat' split
    all_goals rfl

end Muxide.Props.C17
