import Muxide.Generated.Stats
/-
  C06 (mechanical tie) — Muxide.Generated.Stats is produced by tools/rs2lean_stats.py from the Rust source of
  `Mp4Writer::max_end_pts` (with its local `track_end`) on every check run.  The theorems state that the translated
  functions are the model's `trackEnd` and `Writer.maxEndPts` — the largest `pts + duration` over all samples of
  both tracks, the newest sample of a track falling back to the last delta — for every writer state.  C06_stats
  ("duration = maximum end time") and the rounding theorem of Props/C06Duration.lean are thereby about the
  translated source.
-/
namespace Muxide.Props.C06Generated
open Muxide Muxide.Generated.Stats

theorem foldl_max_comm (t : List Nat) : ∀ a b, t.foldl max (max a b) = max (t.foldl max a) b := by
  induction t with
  | nil => intro a b; rfl
  | cons x t ih =>
    intro a b
    simp only [List.foldl_cons]
    rw [← ih (max a x) b]
    congr 1
    omega

theorem max?_snoc (ys : List Nat) (e : Nat) : (ys ++ [e]).max? = some (ys.foldl max e) := by
  cases ys with
  | nil => rfl
  | cons a t =>
    simp only [List.cons_append, List.max?_cons', List.foldl_append, List.foldl_cons, List.foldl_nil]
    rw [Nat.max_comm e a, foldl_max_comm t a e]

theorem foldl_max_reverse (l : List Nat) : ∀ e, l.reverse.foldl max e = l.foldl max e := by
  induction l with
  | nil => intro e; rfl
  | cons a t ih =>
    intro e
    simp only [List.reverse_cons, List.foldl_append, List.foldl_cons, List.foldl_nil]
    rw [ih e, ← foldl_max_comm t e a]

theorem map_zip_range_congr {α β} (l : List α) (n : Nat) (hn : n = l.length) (F : Nat × α → β) (g : α → β)
    (h : ∀ i x, (i, x) ∈ List.zip (List.range n) l → F (i, x) = g x) :
    (List.zip (List.range n) l).map F = l.map g := by
  subst hn
  apply List.ext_getElem
  · simp
  · intro i h1 h2
    have hi : i < l.length := by simpa using h2
    simp only [List.getElem_map, List.getElem_zip, List.getElem_range]
    apply h
    rw [List.mem_iff_getElem]
    exact ⟨i, by simpa using hi, by simp⟩

/-- the translated `track_end` on the samples in submission order is the model's `trackEnd` on the queue (newest first) -/
theorem C06_gen_track_end (rev : List Sample) (ld : Option Nat) : track_end rev.reverse ld = trackEnd rev ld := by
  cases rev with
  | nil => rfl
  | cons s older =>
    unfold track_end trackEnd
    have hlen : (s :: older).reverse.length = older.length + 1 := by simp
    simp only [hlen, Nat.add_one_ne_zero, if_false, Nat.add_sub_cancel]
    have hzip : List.zip (List.range (older.length + 1)) (s :: older).reverse =
        List.zip (List.range older.length) older.reverse ++ [(older.length, s)] := by
      rw [List.range_succ, List.reverse_cons]
      rw [List.zip_append (by simp)]
      rfl
    rw [hzip, List.map_append, List.map_singleton, max?_snoc]
    congr 1
    rw [map_zip_range_congr older.reverse older.length (by simp) _ (fun (x : Sample) => min (x.pts + x.dur.getD 0) u64Max)]
    · rw [List.map_reverse, foldl_max_reverse, List.foldl_map]
      simp only [if_true]
      cases s.dur <;> rfl
    · intro i x hm
      have hi : i < older.length := by
        have := (List.of_mem_zip hm).1
        simpa using this
      cases hd : x.dur with
      | none => simp [hd, Nat.ne_of_lt hi]
      | some d => simp [hd]

/-- `max_end_pts` = the model's `Writer.maxEndPts`, for every writer -/
theorem C06_gen_max_end_pts (w : Writer) :
    max_end_pts w.vsRev.reverse w.asRev.reverse w.vLastDelta w.aLastDelta = w.maxEndPts := by
  unfold max_end_pts Writer.maxEndPts
  rw [C06_gen_track_end, C06_gen_track_end]
  rfl

end Muxide.Props.C06Generated
