import Muxide.Lemmas.Timing
/-
  C09 — audio/video alignment in a finished file with audio.
  Property theorems only; helper lemmas live in Muxide/Lemmas/Timing.lean.

  The model writes no edit list (`C09_no_edit_list`), so both tracks' media timelines start at 0
  of the movie timeline. Presentation times below are the ones a reader derives from the sample
  tables: audio sample k at the sum of the first k stts durations (no ctts on the audio track),
  the first video sample at decode time 0 plus its composition offset. All values are 90 kHz ticks
  (the API applies `F64.ticks` to each absolute timestamp).

  Result: the property as stated is FALSE on the model in general — the file shifts the audio
  track by (first audio timestamp − first video decode timestamp): see `C09_error` and
  `C09_counterexample`. It holds (with error 0) when these two coincide: `C09_partial`.
-/
namespace Muxide.Props.C09
open Muxide

/-- a track box has exactly the children tkhd and mdia: no `edts` -/
theorem C09_no_edit_list (width height : Nat) (t : Tables) (vc : VideoConfig) (a : AudioTrack)
    (lang : Option (List Nat)) :
    (bVideoTrak width height t vc lang).kids.map (·.typ) = [ascii "tkhd", ascii "mdia"] ∧
    (bAudioTrak a t lang).kids.map (·.typ) = [ascii "tkhd", ascii "mdia"] := ⟨rfl, rfl⟩

/-- the audio sample table has no composition-offset table -/
theorem C09_audio_no_ctts (a : AudioTrack) (t : Tables) :
    (bAudioStbl a t).kids.filter (fun b => b.typ = ascii "ctts") = [] := by
  have e1 : (ascii "stsd" = ascii "ctts") = False := by decide
  have e2 : (ascii "stts" = ascii "ctts") = False := by decide
  have e3 : (ascii "stsc" = ascii "ctts") = False := by decide
  have e4 : (ascii "stsz" = ascii "ctts") = False := by decide
  have e5 : (ascii "stco" = ascii "ctts") = False := by decide
  simp [bAudioStbl, node_kids, bStsc_typ, bStsd, bStts, bStsz, bStco, node_typ, leaf_typ, e1, e2, e3, e4, e5]

/-- File timeline. `v0` is the first video sample, `a0` / `ak` the first / k-th audio sample (as
    submitted, in ticks). Hypotheses on `v0` beyond the invariants: u64 timestamps and no overflow
    in the offset computation (true whenever finalize produced a file, see C03). -/
theorem C09_timeline (w : Writer) (hv : VInv w) (ha : AInv w) (offs : List Nat) (spc k : Nat)
    (v0 a0 ak : Sample)
    (hv0 : w.vsRev.reverse[0]? = some v0) (ha0 : w.asRev.reverse[0]? = some a0)
    (hak : w.asRev.reverse[k]? = some ak)
    (h64 : v0.pts < 2^64 ∧ v0.dts < 2^64) (hnp : (ctsOf v0.pts v0.dts).isSome) :
    (fileAudioPT w k : Int) = (ak.pts : Int) - a0.pts ∧
    fileVideoPT0 w offs spc = (v0.pts : Int) - v0.dts ∧
    (fileAudioPT w k : Int) - fileVideoPT0 w offs spc =
      ((ak.pts : Int) - a0.pts) - ((v0.pts : Int) - v0.dts) := by
  have hmem : ∀ {l : List Sample} {i : Nat} {s : Sample}, l.reverse[i]? = some s → s ∈ l := by
    intro l i s h
    have := List.mem_of_getElem? h
    simpa using this
  have h1 := track_nodrift' ha.1 k a0 ak ha0 hak
  rw [← ha.2 a0 (hmem ha0), ← ha.2 ak (hmem hak)] at h1
  have hA : (fileAudioPT w k : Int) = (ak.pts : Int) - a0.pts := by
    unfold fileAudioPT; omega
  have hc := ctsOf_exact_of_isSome _ _ h64.1 h64.2 (hv.cts v0 (hmem hv0)).1 (hv.cts v0 (hmem hv0)).2 hnp
  have hV : fileVideoPT0 w offs spc = (v0.pts : Int) - v0.dts := by
    unfold fileVideoPT0
    cases hr : w.vsRev.reverse with
    | nil => rw [hr] at hv0; simp at hv0
    | cons x r =>
      rw [hr] at hv0
      simp only [List.getElem?_cons_zero, Option.some.injEq] at hv0
      subst hv0
      simp [Tables.ofSamples, hc]
  exact ⟨hA, hV, by rw [hA, hV]⟩

/-- the discrepancy between the file and the submitted timestamps is exactly
    (first video decode timestamp − first audio timestamp), for every audio sample -/
theorem C09_error (w : Writer) (hv : VInv w) (ha : AInv w) (offs : List Nat) (spc k : Nat)
    (v0 a0 ak : Sample)
    (hv0 : w.vsRev.reverse[0]? = some v0) (ha0 : w.asRev.reverse[0]? = some a0)
    (hak : w.asRev.reverse[k]? = some ak)
    (h64 : v0.pts < 2^64 ∧ v0.dts < 2^64) (hnp : (ctsOf v0.pts v0.dts).isSome) :
    ((fileAudioPT w k : Int) - fileVideoPT0 w offs spc) - ((ak.pts : Int) - v0.pts) =
      (v0.dts : Int) - a0.pts := by
  obtain ⟨-, -, h⟩ := C09_timeline w hv ha offs spc k v0 a0 ak hv0 ha0 hak h64 hnp
  omega

/-- if the first audio timestamp equals the first video decode timestamp (in ticks), the
    property's claim holds with error 0 -/
theorem C09_partial (w : Writer) (hv : VInv w) (ha : AInv w) (offs : List Nat) (spc k : Nat)
    (v0 a0 ak : Sample)
    (hv0 : w.vsRev.reverse[0]? = some v0) (ha0 : w.asRev.reverse[0]? = some a0)
    (hak : w.asRev.reverse[k]? = some ak)
    (h64 : v0.pts < 2^64 ∧ v0.dts < 2^64) (hnp : (ctsOf v0.pts v0.dts).isSome)
    (hstart : a0.pts = v0.dts) :
    (fileAudioPT w k : Int) - fileVideoPT0 w offs spc = (ak.pts : Int) - v0.pts := by
  have := C09_error w hv ha offs spc k v0 a0 ak hv0 ha0 hak h64 hnp
  omega

/-- a writer state with one video frame at pts = dts = 0 and one audio frame at 45000 ticks (0.5 s) -/
def cex : Writer :=
  { codec := .h264, audio := some ⟨48000, 2, .opus⟩,
    vsRev := [⟨0, 0, [1], true, none⟩], vPrev := some 0,
    asRev := [⟨45000, 45000, [1], false, none⟩], aPrev := some 45000 }

/-- the state satisfies both invariants -/
theorem cex_inv : VInv cex ∧ AInv cex := by
  refine ⟨⟨trivial, ?_, rfl, rfl, ?_⟩, ⟨trivial, ?_, rfl, rfl, ?_⟩, ?_⟩ <;> simp [cex]

/-- on it the file places the audio sample at the same instant as the first video frame, although
    the submitted timestamps are 0.5 s (45000 ticks) apart -/
theorem C09_counterexample :
    durationsOf cex.asRev.reverse cex.aLastDelta = [1] ∧
    (fileAudioPT cex 0 : Int) - fileVideoPT0 cex [] 0 = 0 ∧
    ((45000 : Int) - 0) - ((fileAudioPT cex 0 : Int) - fileVideoPT0 cex [] 0) = 45000 := by
  have e : fileVideoPT0 cex [] 0 = 0 := by
    simp only [fileVideoPT0, Tables.ofSamples, cex]
    decide
  refine ⟨by decide, ?_, ?_⟩
  · rw [e]; simp [fileAudioPT]
  · rw [e]; simp [fileAudioPT]

/-- API run: 16×16 VP9 + Opus, one key frame at 0.0 s, one Opus packet at 0.5 s, finish -/
def runCfg : Config := ⟨.vp9, 16, 16, some ⟨48000, 2, .opus⟩, none, false⟩
def vp9Key : Bytes := [0x49, 0x83, 0x42, 0x00, 0x00, 0x10, 0x10]
def run1 := (build runCfg).writeVideo (F64.ofBits 0) vp9Key true
def run2 := run1.1.writeAudio (F64.ofBits 0x3FE0000000000000) [0]
def run3 := run2.1.finishStats


def runW : Writer :=
  { codec := .vp9, audio := some ⟨48000, 2, .opus⟩,
    vsRev := [⟨0, 0, vp9Key, true, none⟩], vPrev := some 0,
    vConfig := some (.vp9 ⟨16, 16, 0, 8, 0, 0, 0, 0, 0⟩),
    asRev := [⟨45000, 45000, [0], false, none⟩], aPrev := some 45000 }

/-- the same through the API: both calls are accepted, finish succeeds, the submitted timestamps
    are 0 and 45000 ticks, and the file puts the audio sample at the first video frame's instant -/
theorem C09_counterexample_api :
    run1.2 = .ok ∧ run2.2 = .ok ∧ (∃ st, run3.2.2 = .stats st) ∧ run3.2.1.res = .ok ∧
    (F64.ofBits 0).ticks = 0 ∧ (F64.ofBits 0x3FE0000000000000).ticks = 45000 ∧
    VInv run2.1.w ∧ AInv run2.1.w ∧
    (fileAudioPT run2.1.w 0 : Int) - fileVideoPT0 run2.1.w [] 0 = 0 := by
  have hw : run2.1.w = runW := by decide +kernel
  refine ⟨by decide +kernel, by decide +kernel, ?_, by decide +kernel, by decide +kernel, by decide +kernel, ?_, ?_, ?_⟩
  · have h : (match run3.2.2 with | .stats _ => true | _ => false) = true := by decide +kernel
    revert h
    cases run3.2.2 <;> simp
  · rw [hw]; exact ⟨trivial, by simp [runW], rfl, rfl, by simp [runW]⟩
  · rw [hw]; exact ⟨⟨trivial, by simp [runW], rfl, rfl, by simp [runW]⟩, by simp [runW]⟩
  · rw [hw]; decide +kernel

end Muxide.Props.C09
