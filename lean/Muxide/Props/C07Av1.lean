import Muxide.Lemmas.Av1
/-
  C07 (AV1 part) — the sequence-header parser recovers the fields of EVERY syntactically valid
  `sequence_header_obu()`.

  `Muxide.Spec.Av1Syntax.encodeSeqHdr` is the syntax table of the AV1 specification written as an
  encoder; `SeqHdr.WF` states the value ranges and the inferred values of uncoded elements.
  * `C07_av1_roundtrip`: for every well-formed non-monochrome header (reduced or not; with or
    without timing info, equal-picture-interval `uvlc()`, decoder model, per-operating-point
    decoder-model / display-delay parameters, 1..32 operating points, frame ids, order hint,
    screen-content / integer-mv elements, every `color_config()` branch incl. sRGB and the
    profile-2 12-bit subsampling bits), followed by arbitrary bits, the parser returns exactly
    (seq_profile, seq_level_idx[0], seq_tier[0], colour configuration).
  * monochrome is a DEVIATION of the code: it reads a 2-bit `chroma_sample_position` that the
    syntax does not contain (`C07_av1_mono_partial`, `C07_av1_mono_short`,
    `C07_av1_mono_trailing`, `C07_av1_mono_counterexample`).
-/
namespace Muxide.Props.C07
open Muxide Muxide.Spec.Av1 Muxide.Av1Lemmas

/-- round trip without any assumption on `seq_profile` beyond its 3-bit range (profiles 3..7 are
    reserved; the syntax and the parser treat them like the `else` branch, i.e. like profile 2
    without `twelve_bit`) -/
theorem C07_av1_roundtrip_all_profiles (s : SeqHdr) (pad : List Bool) (h : s.WF)
    (hm : ¬ s.monochrome) :
    parseSeqHdrBits true (encodeSeqHdr s ++ pad) = some s.fields := by
  have hc : s.color.WF s.seqProfile := h.2.2.2.2.2.2.2.2.2.2.2.2
  have hm' : s.color.monoChrome = false := by simpa using hm
  rw [encodeSeqHdr_eq, parseSeqHdrBits_preColor s h, colorTail,
    parseColorConfig_encode _ _ hc hm']
  rfl

/-- **C07 (AV1 round trip)**: every syntactically valid non-monochrome sequence header, followed
    by arbitrary trailing bits, is parsed to exactly its profile, first operating point's level
    and tier, and colour configuration. -/
theorem C07_av1_roundtrip (s : SeqHdr) (pad : List Bool) (h : s.WF) (_hp : s.seqProfile ≤ 2)
    (hm : ¬ s.monochrome) :
    parseSeqHdrBits true (encodeSeqHdr s ++ pad) = some s.fields :=
  C07_av1_roundtrip_all_profiles s pad h hm

/-- what the code returns for a monochrome header: everything as in the header except that `csp`
    is made of the two bits FOLLOWING `color_range` -/
def monoFields (s : SeqHdr) (b : Bool) : Nat × Nat × Nat × ColorCfg :=
  (s.seqProfile, s.seqLevelIdx0, s.seqTier0,
   { s.color.toCfg with csp := 2 * b2n s.filmGrainParamsPresent + b2n b })

/-- **monochrome (known deviation)**: provided at least two more bits follow the header, the parser
    returns the header's profile / level / tier / bit depth / mono / subsampling, but `csp` is
    `film_grain_params_present` and the first padding bit instead of 0. -/
theorem C07_av1_mono_partial (s : SeqHdr) (b0 b1 : Bool) (pad : List Bool) (h : s.WF)
    (hm : s.monochrome) :
    parseSeqHdrBits true (encodeSeqHdr s ++ b0 :: b1 :: pad) = some (monoFields s b0) := by
  have hc : s.color.WF s.seqProfile := h.2.2.2.2.2.2.2.2.2.2.2.2
  have hm' : s.color.monoChrome = true := hm
  rw [encodeSeqHdr_eq, parseSeqHdrBits_preColor s h, colorTail,
    parseColorConfig_mono _ _ hc hm']
  rfl

/-- monochrome, fewer than two bits after the header: the parser fails (the syntax is complete) -/
theorem C07_av1_mono_short (s : SeqHdr) (pad : List Bool) (h : s.WF) (hm : s.monochrome)
    (hp : pad.length < 2) :
    parseSeqHdrBits true (encodeSeqHdr s ++ pad) = none := by
  have hc : s.color.WF s.seqProfile := h.2.2.2.2.2.2.2.2.2.2.2.2
  have hm' : s.color.monoChrome = true := hm
  rw [encodeSeqHdr_eq, parseSeqHdrBits_preColor s h, colorTail]
  match pad, hp with
  | [], _ =>
    rw [parseColorConfig_mono_short _ _ hc hm' _ (by simp)]
    rfl
  | [b], _ =>
    rw [parseColorConfig_mono _ _ hc hm']
    rfl

/-- in an OBU the header is followed by `trailing_bits()` = a one bit and zero bits: for EVERY
    well-formed monochrome header the code then reports `chroma_sample_position` 1 or 3, never
    the 0 (`CSP_UNKNOWN`) the specification prescribes -/
theorem C07_av1_mono_trailing (s : SeqHdr) (b1 : Bool) (pad : List Bool) (h : s.WF)
    (hm : s.monochrome) :
    ∃ r, parseSeqHdrBits true (encodeSeqHdr s ++ true :: b1 :: pad) = some r ∧
      r.2.2.2.csp ≠ 0 ∧ s.fields.2.2.2.csp = 0 := by
  refine ⟨monoFields s true, C07_av1_mono_partial s true b1 pad h hm, ?_, ?_⟩
  · simp [monoFields, b2n]
  · have hc : s.color.WF s.seqProfile := h.2.2.2.2.2.2.2.2.2.2.2.2
    have hm' : s.color.monoChrome = true := hm
    have := hc.2.2.2.2
    simp only [hm', if_true] at this
    exact this.2.2.1

/-- a concrete monochrome header (8-bit 4:0:0 main profile, level 2.0, 64×64, reduced still
    picture header) -/
def monoExample : SeqHdr where
  seqProfile := 0
  stillPicture := true
  reducedStillPictureHeader := true
  timing := none
  decoderModel := none
  initialDisplayDelayPresentFlag := false
  opPoints := [⟨0, 0, false, none, none⟩]
  frameWidthBitsMinus1 := 5
  frameHeightBitsMinus1 := 5
  maxFrameWidthMinus1 := 63
  maxFrameHeightMinus1 := 63
  frameId := none
  use128x128Superblock := false
  enableFilterIntra := false
  enableIntraEdgeFilter := false
  enableInterintraCompound := false
  enableMaskedCompound := false
  enableWarpedMotion := false
  enableDualFilter := false
  orderHint := none
  seqChooseScreenContentTools := false
  seqForceScreenContentTools := 2
  seqChooseIntegerMv := false
  seqForceIntegerMv := 2
  enableSuperres := false
  enableCdef := false
  enableRestoration := false
  color := ⟨false, false, true, none, false, true, true, 0, false⟩
  filmGrainParamsPresent := false

set_option maxRecDepth 4000 in
/-- **counterexample to the full round trip**: a well-formed monochrome header followed by
    `trailing_bits()` (`1 0 0 …`) on which the parser reports `chroma_sample_position = 1`
    although the header's value is 0 -/
theorem C07_av1_mono_counterexample :
    monoExample.WF ∧ monoExample.monochrome = true ∧
    (parseSeqHdrBits true (encodeSeqHdr monoExample ++ [true, false, false])).map (·.2.2.2.csp)
      = some 1 ∧
    monoExample.fields.2.2.2.csp = 0 := by
  decide

/-! ### `uvlc()` outside the well-formed range (32 or more leading zeros, value 2^32 − 1) -/

/-- 32 leading zeros: the syntax has no value bits and the code reads none, so the rest of the header is
    read in place (before the repair in /repo the code skipped 32 further bits: found by the certified
    reader of Spec.Av1Decode through C19's av1C-vs-configOBUs facet) -/
theorem C07_av1_uvlc_z32 (x : Nat) (rest : Bits) :
    skipUvlc (encodeUvlc ⟨32, x⟩ ++ rest) = some rest ∧ encodeUvlc ⟨32, x⟩ =
      List.replicate 32 false ++ [true] := by
  refine ⟨skipUvlc_z32 x rest, ?_⟩
  simp [encodeUvlc]

/-- 33 or more leading zeros: the code rejects -/
theorem C07_av1_uvlc_z33 (z x : Nat) (hz : 33 ≤ z) (rest : Bits) :
    skipUvlc (encodeUvlc ⟨z, x⟩ ++ rest) = none :=
  skipUvlc_z33 z x hz rest

/-! ### the hypotheses are satisfiable; the encoder reproduces a real sequence header -/

/-- a header exercising most optional parts: timing with `uvlc()`, decoder model, two operating
    points (one with tier, operating parameters and display delay), frame ids, order hint -/
def fullExample : SeqHdr where
  seqProfile := 2
  stillPicture := false
  reducedStillPictureHeader := false
  timing := some ⟨1, 30, some ⟨3, 5⟩⟩
  decoderModel := some ⟨9, 7, 3, 4⟩
  initialDisplayDelayPresentFlag := true
  opPoints := [⟨0x101, 9, true, some ⟨5, 6, true⟩, some 3⟩, ⟨1, 4, false, none, none⟩]
  frameWidthBitsMinus1 := 10
  frameHeightBitsMinus1 := 10
  maxFrameWidthMinus1 := 1919
  maxFrameHeightMinus1 := 1079
  frameId := some ⟨3, 2⟩
  use128x128Superblock := true
  enableFilterIntra := true
  enableIntraEdgeFilter := false
  enableInterintraCompound := true
  enableMaskedCompound := false
  enableWarpedMotion := true
  enableDualFilter := false
  orderHint := some ⟨true, false, 6⟩
  seqChooseScreenContentTools := false
  seqForceScreenContentTools := 1
  seqChooseIntegerMv := false
  seqForceIntegerMv := 1
  enableSuperres := false
  enableCdef := true
  enableRestoration := true
  color := ⟨true, true, false, some ⟨9, 16, 9⟩, false, true, true, 2, true⟩
  filmGrainParamsPresent := true

example : fullExample.WF ∧ fullExample.seqProfile ≤ 2 ∧ ¬ fullExample.monochrome := by decide

set_option maxRecDepth 8000 in
example : parseSeqHdrBits true (encodeSeqHdr fullExample ++ [true, false]) =
    some (2, 9, 1, ⟨true, true, false, true, true, 2⟩) := by decide

/-- the sequence header `00 00 00 24 CF 7F 0D BF FF 30 08` (main profile, level 3.0, 960×540,
    8-bit 4:2:0), decoded by hand from the syntax tables -/
def realExample : SeqHdr where
  seqProfile := 0
  stillPicture := false
  reducedStillPictureHeader := false
  timing := none
  decoderModel := none
  initialDisplayDelayPresentFlag := false
  opPoints := [⟨0, 4, false, none, none⟩]
  frameWidthBitsMinus1 := 9
  frameHeightBitsMinus1 := 9
  maxFrameWidthMinus1 := 959
  maxFrameHeightMinus1 := 539
  frameId := none
  use128x128Superblock := true
  enableFilterIntra := true
  enableIntraEdgeFilter := true
  enableInterintraCompound := true
  enableMaskedCompound := true
  enableWarpedMotion := true
  enableDualFilter := true
  orderHint := some ⟨true, true, 6⟩
  seqChooseScreenContentTools := true
  seqForceScreenContentTools := 2
  seqChooseIntegerMv := true
  seqForceIntegerMv := 2
  enableSuperres := false
  enableCdef := true
  enableRestoration := true
  color := ⟨false, false, false, none, false, true, true, 0, false⟩
  filmGrainParamsPresent := false

/-- the syntax encoder reproduces those bytes bit for bit (followed by `trailing_bits()`) -/
example : realExample.WF ∧
    bitsOf [0x00, 0x00, 0x00, 0x24, 0xCF, 0x7F, 0x0D, 0xBF, 0xFF, 0x30, 0x08]
      = encodeSeqHdr realExample ++ [true, false, false, false] := by decide

/-! ### byte level: `parse_sequence_header` -/

theorem rbits3_encode (s : SeqHdr) (h : s.WF) (pad : Bits) :
    ∃ r, rbits 3 (encodeSeqHdr s ++ pad) = some (s.seqProfile, r) := by
  rw [encodeSeqHdr_eq, preColorBits]
  simp only [List.append_assoc]
  exact ⟨_, rbits_natToBits 3 _ h.1 _⟩

theorem bitsOf_ne_nil {d : Bytes} (h : d ≠ []) : bitsOf d ≠ [] := by
  cases d with
  | nil => exact absurd rfl h
  | cons b d => simp [bitsOf, byteBits]

/-- **C07 at the OBU level**: if the payload of a sequence-header OBU (`hs` = OBU header size) is
    the encoding of a well-formed non-monochrome header of profile ≤ 3 followed by any trailing
    bits, `parse_sequence_header` returns the configuration with exactly the header's fields and
    the OBU bytes. -/
theorem C07_av1_parseSequenceHeader (s : SeqHdr) (pad : List Bool) (obu : Bytes) (hs : Nat)
    (h : s.WF) (hp : s.seqProfile ≤ 3) (hm : ¬ s.monochrome)
    (hb : bitsOf (obu.drop hs) = encodeSeqHdr s ++ pad) :
    parseSequenceHeader obu hs =
      .some ⟨obu, s.seqProfile, s.seqLevelIdx0, s.seqTier0, s.color.highBitdepth, s.color.twelveBit,
             s.color.monoChrome, s.color.subsamplingX, s.color.subsamplingY,
             s.color.chromaSamplePosition⟩ := by
  have hne : obu.drop hs ≠ [] := by
    intro h0
    rw [h0] at hb
    obtain ⟨r, hr⟩ := rbits3_encode s h pad
    rw [← hb] at hr
    simp [bitsOf, rbits, rbit] at hr
  obtain ⟨r, hr⟩ := rbits3_encode s h pad
  have hrt := C07_av1_roundtrip_all_profiles s pad h hm
  unfold parseSequenceHeader
  simp only [hne, if_false, hb, hr, av1FixedDmi, hrt, SeqHdr.fields]
  have : ¬ s.seqProfile > 3 := by omega
  simp [this, ColorConfig.toCfg]

/-! ### OBU framing -/

/-- `read_leb128` decodes every 1..8-byte `leb128()` — minimal or padded — to its value and
    byte count -/
theorem C07_av1_readLeb128 (gs : List Nat) (h : LebWF gs) (rest : Bytes) :
    readLeb128 (lebBytes gs ++ rest) = some (lebValue gs, gs.length) :=
  readLeb128_lebBytes gs h rest

/-- … in particular the minimal encoding of every `n < 2^56` -/
theorem C07_av1_readLeb128_minimal (n : Nat) (h : n < 2 ^ 56) (rest : Bytes) :
    readLeb128 (leb128 n ++ rest) = some (n, (leb128 n).length) :=
  readLeb128_leb128 n h rest

/-- a padded (non-minimal) 8-byte encoding of 11 -/
example : readLeb128 (lebBytes [11, 0, 0, 0, 0, 0, 0, 0] ++ [7]) = some (11, 8) := by decide

/-- `parse_obu_header` on `header byte ++ extension? ++ leb128 size ++ payload ++ anything`
    returns the type, the extension flag, the header size (incl. the size field) and the payload
    size -/
theorem C07_av1_obu_header (o : Obu) (h : o.WF) (post : Bytes) :
    parseObuHeader (o.bytes ++ post)
      = some ⟨o.obuType, o.extension.isSome, o.headerSize, o.payload.length⟩ :=
  parseObuHeader_obu o h post

/-- **C07 at the sample level**: in `OBUs that are not sequence headers (e.g. a temporal
    delimiter) ++ sequence header OBU ++ arbitrary bytes (frame OBUs)`, `extract_av1_config`
    returns the fields of the FIRST sequence header, with `sequence_header` = exactly that OBU's
    bytes (header, extension, size field and payload). -/
theorem C07_av1_extract (pre : List Obu) (sh : Obu) (post : Bytes) (s : SeqHdr) (pad : List Bool)
    (hpre : ∀ o ∈ pre, o.WF ∧ o.obuType ≠ 1) (hsh : sh.WF) (ht : sh.obuType = 1)
    (hb : bitsOf sh.payload = encodeSeqHdr s ++ pad)
    (h : s.WF) (hp : s.seqProfile ≤ 3) (hm : ¬ s.monochrome) :
    extractAv1 (pre.flatMap Obu.bytes ++ sh.bytes ++ post) =
      .some ⟨sh.bytes, s.seqProfile, s.seqLevelIdx0, s.seqTier0, s.color.highBitdepth,
             s.color.twelveBit, s.color.monoChrome, s.color.subsamplingX, s.color.subsamplingY,
             s.color.chromaSamplePosition⟩ := by
  rw [extractAv1_obus pre sh post hpre hsh ht]
  exact C07_av1_parseSequenceHeader s pad sh.bytes sh.headerSize h hp hm
    (by rw [obu_bytes_drop]; exact hb)

/-- the hypotheses of `C07_av1_extract` on a real temporal unit prefix: temporal delimiter
    `12 00`, then the sequence header OBU `0A 0B 00 00 00 24 CF 7F 0D BF FF 30 08` -/
def tdObu : Obu := ⟨2, none, false, [0], []⟩
def shObu : Obu :=
  ⟨1, none, false, [11], [0x00, 0x00, 0x00, 0x24, 0xCF, 0x7F, 0x0D, 0xBF, 0xFF, 0x30, 0x08]⟩

example :
    (∀ o ∈ [tdObu], o.WF ∧ o.obuType ≠ 1) ∧ shObu.WF ∧ shObu.obuType = 1 ∧
    bitsOf shObu.payload = encodeSeqHdr realExample ++ [true, false, false, false] ∧
    realExample.WF ∧ realExample.seqProfile ≤ 3 ∧ ¬ realExample.monochrome ∧
    [tdObu].flatMap Obu.bytes ++ shObu.bytes =
      [0x12, 0x00, 0x0A, 0x0B, 0x00, 0x00, 0x00, 0x24, 0xCF, 0x7F, 0x0D, 0xBF, 0xFF, 0x30, 0x08] := by
  decide

end Muxide.Props.C07
