import Muxide.Lemmas.Meta
/-
  C18 — Metadata is written so that it can be recovered: title (iTunes-style name item under
  moov/udta/meta/ilst), creation time (ISO-8601 UTC date-time), language (packed into every
  track's media header). Property theorems only; helper lemmas live in Muxide/Lemmas/Date.lean
  and Muxide/Lemmas/Meta.lean.
-/
namespace Muxide.Props.C18
open Muxide Muxide.Spec Box

/-! ### 1. calendar date -/

/-- For EVERY number of days since 1970-01-01 the year/month loops of the muxer return a valid
    civil date whose day number — by summation over the preceding years and months, the
    definition of the calendar — is the input. In particular the loop fuel always suffices. -/
theorem C18_date : ∀ days : Nat,
    let (y, m, d) := daysToYmd days
    validCivil y m d = true ∧ daysFromCivil y m d = days := by
  intro days
  exact daysToYmd_spec days

/-- The closed form the judge evaluates (years of any size) is the calendar's definition by summation. -/
theorem C18_daysFromCivil_closed (y m d : Nat) (hy : 1970 ≤ y) : daysFromCivilClosed y m d = daysFromCivil y m d := by
  have h := yearSum_closed y hy
  rw [daysFromCivil_eq]
  unfold daysFromCivilClosed monthSum
  unfold leapsUpTo at h
  omega

/-! ### 2. time of day -/

/-- The four printed quantities (day number, hour, minute, second) denote `secs`, and the
    time-of-day fields are in range. -/
theorem C18_time_of_day : ∀ secs : Nat,
    secs = (secs / 86400) * 86400 + (secs % 86400 / 3600) * 3600 + (secs % 3600 / 60) * 60 + secs % 60 ∧
    secs % 86400 / 3600 < 24 ∧ secs % 3600 / 60 < 60 ∧ secs % 60 < 60 := by
  intro secs
  exact ⟨time_of_day secs, by omega, by omega, by omega⟩

/-! ### 3. the printed text -/

/-- `YYYY-MM-DDTHH:MM:SSZ` with the fields of 1 and 2 (45 = '-', 84 = 'T', 58 = ':', 90 = 'Z'). -/
theorem C18_format : ∀ secs : Nat,
    formatTimestamp secs =
      padNum 4 (daysToYmd (secs / 86400)).1 ++ [45] ++ padNum 2 (daysToYmd (secs / 86400)).2.1 ++ [45] ++
      padNum 2 (daysToYmd (secs / 86400)).2.2 ++ [84] ++
      padNum 2 (secs % 86400 / 3600) ++ [58] ++ padNum 2 (secs % 3600 / 60) ++ [58] ++
      padNum 2 (secs % 60) ++ [90] := by
  intro secs
  have e1 : secs % 86400 % 3600 = secs % 3600 := mod86400_mod3600 secs
  have e2 : secs % 86400 % 60 = secs % 60 := by omega
  simp only [formatTimestamp, e1, e2]
  rfl

/-- a zero-padded field of width `w` has exactly `w` bytes when the number fits -/
theorem padNum_length : ∀ w n : Nat, 0 < w → n < 10 ^ w → (padNum w n).length = w :=
  Muxide.padNum_length

/-- a zero-padded field consists of ASCII digits and its decimal value is the number -/
theorem padNum_value : ∀ w n : Nat,
    decValue (padNum w n) = n ∧ ∀ b ∈ padNum w n, 48 ≤ b.toNat ∧ b.toNat ≤ 57 :=
  Muxide.padNum_value

/-- the month and day fields always fit in two digits -/
theorem C18_md_lt (days : Nat) : (daysToYmd days).2.1 < 100 ∧ (daysToYmd days).2.2 < 100 := by
  have h := (daysToYmd_spec days).1
  simp only [validCivil, decide_eq_true_eq] at h
  obtain ⟨_, _, hm, _, hd⟩ := h
  have : daysInMonth (daysToYmd days).1 (daysToYmd days).2.1 ≤ 31 := by
    unfold daysInMonth; split
    · split <;> omega
    · split <;> omega
  omega

/-- The text is exactly 20 bytes long whenever the year has at most four digits. -/
theorem C18_format_length (secs : Nat) (hy : (daysToYmd (secs / 86400)).1 < 10000) :
    (formatTimestamp secs).length = 20 := by
  have hmd := C18_md_lt (secs / 86400)
  rw [C18_format]
  simp only [List.length_append, List.length_cons, List.length_nil]
  rw [padNum_length 4 _ (by omega) (by omega), padNum_length 2 _ (by omega) (by omega : (daysToYmd (secs / 86400)).2.1 < 10 ^ 2),
    padNum_length 2 _ (by omega) (by omega : (daysToYmd (secs / 86400)).2.2 < 10 ^ 2),
    padNum_length 2 (secs % 86400 / 3600) (by omega) (by omega),
    padNum_length 2 (secs % 3600 / 60) (by omega) (by omega),
    padNum_length 2 (secs % 60) (by omega) (by omega)]

/-- … in particular for every Unix second before 10000-01-01T00:00:00Z. -/
theorem C18_format_length_secs (secs : Nat) (h : secs < 253402300800) :
    (formatTimestamp secs).length = 20 := by
  apply C18_format_length
  apply daysToYmd_year_lt
  omega

/-- the bound is sharp: from 10000-01-01T00:00:00Z on the year needs five digits -/
theorem C18_year_five_digits (secs : Nat) (h : 253402300800 ≤ secs) :
    10000 ≤ (daysToYmd (secs / 86400)).1 := by
  apply daysToYmd_year_ge
  omega

/-! ### 4. language -/

theorem C18_lang : ∀ a b c : Nat, 97 ≤ a → a ≤ 122 → 97 ≤ b → b ≤ 122 → 97 ≤ c → c ≤ 122 →
    unpackLang (langCode [a, b, c]) = [a, b, c] := by
  intro a b c ha ha' hb hb' hc hc'
  rw [langCode3, lower_field a ha ha', lower_field b hb hb', lower_field c hc hc',
    unpack_pack _ _ _ (by omega) (by omega) (by omega)]
  have : a - 0x60 + 0x60 = a := by omega
  have : b - 0x60 + 0x60 = b := by omega
  have : c - 0x60 + 0x60 = c := by omega
  simp [*]

example : unpackLang (langCode [102, 114, 97]) = [102, 114, 97] :=
  C18_lang 102 114 97 (by omega) (by omega) (by omega) (by omega) (by omega) (by omega)

/-- "und" when no language is configured -/
theorem C18_lang_default : unpackLang (langCode [117, 110, 100]) = [117, 110, 100] :=
  C18_lang 117 110 100 (by omega) (by omega) (by omega) (by omega) (by omega) (by omega)

/-- the packed code always fits the 15-bit field (so the 16-bit write does not truncate) -/
theorem C18_langCode_lt : ∀ cps : List Nat, langCode cps < 2 ^ 15 := langCode_lt

/-- the media header stores the packed code at payload offset 20 -/
theorem C18_mdhd_lang (ts dur : Nat) (lang : Option (List Nat)) :
    ((bMdhd ts dur lang).pre.drop 20).take 2 = u16be (langCode (lang.getD [117, 110, 100])) := by
  simp [bMdhd, leaf, Box.pre, u32be, u16be]

/-- … and reading the 16-bit field there gives the packed code back -/
theorem C18_mdhd_read (ts dur : Nat) (lang : Option (List Nat)) :
    ∃ rest, readU16 ((bMdhd ts dur lang).pre.drop 20) = some (langCode (lang.getD [117, 110, 100]), rest) := by
  have h : (bMdhd ts dur lang).pre.drop 20 = u16be (langCode (lang.getD [117, 110, 100])) ++ u16be 0 := by
    simp [bMdhd, leaf, Box.pre, u32be, u16be]
  rw [h]
  exact ⟨_, readU16_u16be _ (Nat.lt_trans (langCode_lt _) (by omega)) _⟩

/-- every track's media box starts with the media header built from the configured language -/
theorem C18_trak_mdhd (width height : Nat) (t : Tables) (vc : VideoConfig) (a : AudioTrack)
    (lang : Option (List Nat)) :
    (∃ tk rest, bVideoTrak width height t vc lang =
        node "trak" [] [tk, node "mdia" [] (bMdhd 90000 t.totalDuration lang :: rest)]) ∧
    (∃ tk rest, bAudioTrak a t lang =
        node "trak" [] [tk, node "mdia" [] (bMdhd 90000 t.totalDuration lang :: rest)]) :=
  ⟨⟨_, _, rfl⟩, ⟨_, _, rfl⟩⟩

/-! ### 5. user data -/

/-- the `ilst` items written for a metadata record: one name item iff a title is configured,
    then one day item iff a creation time is configured; nothing else -/
def items (m : Metadata) : List Box :=
  (match m.title with
    | some t => [Box.mk namType [] [leaf "data" ([0, 0, 0, 1, 0, 0, 0, 0] ++ t)]]
    | none => []) ++
  (match m.ctime with
    | some c => [Box.mk dayType [] [leaf "data" ([0, 0, 0, 1, 0, 0, 0, 0] ++ formatTimestamp c)]]
    | none => [])

theorem C18_udta_none (m : Metadata) : bUdta m = none ↔ (m.title = none ∧ m.ctime = none) := by
  unfold bUdta
  cases m.title <;> cases m.ctime <;> simp

theorem C18_udta_some (m : Metadata) (h : m.title ≠ none ∨ m.ctime ≠ none) :
    bUdta m = some (node "udta" [] [node "meta" (zeros 4) [bMetaHdlr, node "ilst" [] (items m)]]) := by
  unfold bUdta items
  cases ht : m.title <;> cases hc : m.ctime <;> simp_all [bIlstItem]

/-- explicit item lists in the four cases -/
theorem C18_items_cases (m : Metadata) :
    items m =
      match m.title, m.ctime with
      | none, none => []
      | some t, none => [Box.mk namType [] [leaf "data" ([0, 0, 0, 1, 0, 0, 0, 0] ++ t)]]
      | none, some c => [Box.mk dayType [] [leaf "data" ([0, 0, 0, 1, 0, 0, 0, 0] ++ formatTimestamp c)]]
      | some t, some c => [Box.mk namType [] [leaf "data" ([0, 0, 0, 1, 0, 0, 0, 0] ++ t)],
                           Box.mk dayType [] [leaf "data" ([0, 0, 0, 1, 0, 0, 0, 0] ++ formatTimestamp c)]] := by
  unfold items
  cases m.title <;> cases m.ctime <;> rfl

/-- exactly one name item, carrying the exact title bytes, iff a title is configured -/
theorem C18_title_item (m : Metadata) :
    (items m).filter (fun b => b.typ = namType) =
      match m.title with
      | some t => [Box.mk namType [] [leaf "data" ([0, 0, 0, 1, 0, 0, 0, 0] ++ t)]]
      | none => [] := by
  unfold items
  cases m.title <;> cases m.ctime <;> simp [Box.typ, namType, dayType]

/-- exactly one day item, carrying the formatted creation time, iff one is configured -/
theorem C18_day_item (m : Metadata) :
    (items m).filter (fun b => b.typ = dayType) =
      match m.ctime with
      | some c => [Box.mk dayType [] [leaf "data" ([0, 0, 0, 1, 0, 0, 0, 0] ++ formatTimestamp c)]]
      | none => [] := by
  unfold items
  cases m.title <;> cases m.ctime <;> simp [Box.typ, namType, dayType]

/-- no other items -/
theorem C18_no_other_items (m : Metadata) : ∀ b ∈ items m, b.typ = namType ∨ b.typ = dayType := by
  unfold items
  cases m.title <;> cases m.ctime <;> simp [Box.typ]

/-! ### 6. where it sits in the movie box -/

theorem C18_moov_udta (width height : Nat) (vt : Tables) (audio : Option (AudioTrack × Tables))
    (vc : VideoConfig) (md : Option Metadata) :
    bMoov width height vt audio vc md =
      node "moov" []
        ([bMvhd (max (toMs vt.totalDuration) ((audio.map fun p => toMs p.2.totalDuration).getD 0))
            (if audio.isSome then 3 else 2),
          bVideoTrak width height vt vc (md.bind (·.language))] ++
        (audio.map fun p => bAudioTrak p.1 p.2 (md.bind (·.language))).toList ++
        (md.bind bUdta).toList) := by
  unfold bMoov
  cases audio <;> cases md.bind bUdta <;> rfl

/-- without metadata, or with neither title nor creation time, the movie box has no user data -/
theorem C18_moov_no_udta (md : Option Metadata)
    (h : md = none ∨ ∃ m, md = some m ∧ m.title = none ∧ m.ctime = none) :
    (md.bind bUdta).toList = [] := by
  rcases h with rfl | ⟨m, rfl, ht, hc⟩
  · rfl
  · have := (C18_udta_none m).2 ⟨ht, hc⟩
    simp [this]

/-- with a title or a creation time, the user-data box is the last child -/
theorem C18_moov_has_udta (m : Metadata) (h : m.title ≠ none ∨ m.ctime ≠ none) :
    ((some m).bind bUdta).toList =
      [node "udta" [] [node "meta" (zeros 4) [bMetaHdlr, node "ilst" [] (items m)]]] := by
  simp [C18_udta_some m h]

end Muxide.Props.C18

