import Muxide.Props.C05Generated
/-
  C09 (mechanical tie, writer) — the two functions through which every frame enters the progressive writer are
  translated from /repo on every run of this check (tools/rs2lean_writer.py → Generated/Writer.lean) and proved equal
  to the model's Writer.writeVideo / Writer.writeAudio in Props/C05Generated.lean; restated here so that they are
  obligations of C09 as well: its theorems about the writer are theorems about the translated source.
-/
namespace Muxide.Props.C09GeneratedWriter
open Muxide Muxide.Generated.Writer

theorem C09_gen_write_video (w : Writer) (pts dts : Nat) (data : Bytes) (key : Bool) :
    write_video_sample_with_dts w pts dts data key = w.writeVideo pts dts data key :=
  Muxide.Props.C05Generated.C05_gen_write_video w pts dts data key

theorem C09_gen_write_audio (w : Writer) (pts : Nat) (data : Bytes) :
    write_audio_sample w pts data = w.writeAudio pts data :=
  Muxide.Props.C05Generated.C05_gen_write_audio w pts data

end Muxide.Props.C09GeneratedWriter
