import Muxide.Generated.Builders
import Muxide.Model.Mp4
import Muxide.Model.Frag
/-
  C19 (mechanical tie) — the definitions of Muxide.Generated.Builders are produced by tools/rs2lean.py
  from the Rust source of the fixed-layout box builders on every check run.  Each theorem states that the
  translated Rust function is, byte for byte and for all arguments, the serialisation of the hand-written
  model's box.  The strict-decoder theorems of Props/C19.lean are about the model's boxes; through these
  equalities they are about what the translated source builds.
-/
namespace Muxide.Props.C19Generated
open Muxide Muxide.Box Muxide.Generated Muxide.Generated.Mp4

theorem u32be_mod (n : Nat) : u32be (n % 2 ^ 32) = u32be n := by
  unfold u32be
  have h0 : n % 2 ^ 32 % 256 = n % 256 := by omega
  have h1 : n % 2 ^ 32 / 2 ^ 8 % 256 = n / 2 ^ 8 % 256 := by omega
  have h2 : n % 2 ^ 32 / 2 ^ 16 % 256 = n / 2 ^ 16 % 256 := by omega
  have h3 : n % 2 ^ 32 / 2 ^ 24 % 256 = n / 2 ^ 24 % 256 := by omega
  rw [h0, h1, h2, h3]

theorem ser_leaf (t : String) (p : Bytes) : (leaf t p).ser = u32be (8 + p.length) ++ ascii t ++ p := by
  simp [leaf, ser, sers, sizes]

theorem C19_gen_url : build_url_box = bUrl.ser := by
  rw [bUrl, ser_leaf]; rfl

theorem C19_gen_vmhd : build_vmhd_box = bVmhd.ser := by
  rw [bVmhd, ser_leaf]; rfl

theorem C19_gen_smhd : build_smhd_box = bSmhd.ser := by
  rw [bSmhd, ser_leaf]; rfl

theorem C19_gen_ftyp : build_ftyp_box = bFtyp.ser := by
  rw [bFtyp, ser_leaf]; rfl

theorem C19_gen_hdlr_video : build_hdlr_box = (bHdlr "vide" "VideoHandler").ser := by
  rw [bHdlr, ser_leaf]; rfl

theorem C19_gen_hdlr_sound : build_sound_hdlr_box = (bHdlr "soun" "SoundHandler").ser := by
  rw [bHdlr, ser_leaf]; rfl

theorem C19_gen_hdlr_meta : build_meta_hdlr_box = bMetaHdlr.ser := by
  rw [bMetaHdlr, ser_leaf]; rfl

theorem C19_gen_dref : build_dref_box = bDref.ser := by
  simp only [build_dref_box, C19_gen_url, bDref, node, ser, sers, sizes, buildBox, bUrl, leaf, size]
  simp [List.append_assoc]
  rfl

theorem C19_gen_dinf : build_dinf_box = bDinf.ser := by
  simp only [build_dinf_box, C19_gen_dref, bDinf, node, ser, sers, sizes, buildBox]
  simp [List.append_assoc, bDref, bUrl, node, leaf, ser, sers, size, sizes]
  rfl

/-- `build_mvhd_payload(duration_ms, next_track_id)` is the payload of the model's mvhd, for all arguments -/
theorem C19_gen_mvhd (d n : Nat) : build_mvhd_payload d n = (bMvhd d n).pre := by
  simp only [build_mvhd_payload, bMvhd, leaf, pre, matrixBytes, List.nil_append, List.append_assoc]
  rfl

/-- `build_tkhd_box_with_id`: `width << 16` / `height << 16` on `u32` lose their high bits exactly as the
    model's `u32be (width * 2^16)` does -/
theorem C19_gen_tkhd (id vol w h d : Nat) : build_tkhd_box_with_id id vol w h d = (bTkhd id vol w h d).ser := by
  rw [bTkhd, ser_leaf]
  simp only [build_tkhd_box_with_id, buildBox, matrixBytes, List.nil_append, List.append_assoc, u32be_mod]
  rfl

/-- `build_stsc_box` (both branches), for `u32` arguments -/
theorem C19_gen_stsc (spc cc : Nat) (hcc : cc < 2 ^ 32) : build_stsc_box spc cc = (bStsc spc cc).ser := by
  unfold build_stsc_box bStsc
  rw [Nat.mod_eq_of_lt hcc]
  split
  · rw [ser_leaf]; rfl
  · rw [ser_leaf]
    simp only [buildBox, List.nil_append, List.append_assoc]
    rfl

/-! ### the AAC sample entry: AudioSpecificConfig, esds, mp4a -/

theorem asc_bits : ∀ s, s < 13 → ∀ c, c < 16 →
    ((2 * 2 ^ 3 % 2 ^ 8) ||| (s / 2 ^ 1)) = 2 * 8 + s / 2 ∧
    (((s &&& 1) * 2 ^ 7 % 2 ^ 8) ||| (c * 2 ^ 3 % 2 ^ 8)) = (s % 2) * 128 + c * 8 := by decide

theorem chan_bits : ∀ x, x < 16 → ((x % 2 ^ 8) &&& 15) = x % 16 := by decide

theorem ite_le {c : Prop} [Decidable c] {a b n : Nat} (ha : a ≤ n) (hb : b ≤ n) : (if c then a else b) ≤ n := by
  split <;> assumption

theorem sfiOf_lt (r : Nat) : sfiOf r < 13 := by
  have : sfiOf r ≤ 12 := by
    unfold sfiOf
    iterate 13 (refine ite_le (by decide) ?_)
    decide
  omega

/-- `build_audio_specific_config(sample_rate, channels)` = the model's AudioSpecificConfig bytes -/
theorem C19_gen_asc (r ch : Nat) : build_audio_specific_config r ch = ascBytes r ch := by
  have hs := sfiOf_lt r
  have hc : min ch 15 < 16 := by omega
  obtain ⟨h1, h2⟩ := asc_bits (sfiOf r) hs (min ch 15 % 16) (by omega)
  have hx := chan_bits (min ch 15) hc
  unfold build_audio_specific_config ascBytes
  simp only []
  show [u8' ((2 * 2 ^ 3 % 2 ^ 8) ||| (sfiOf r / 2 ^ 1)),
        u8' ((((sfiOf r &&& 1) * 2 ^ 7 % 2 ^ 8)) ||| ((((min ch 15) % 2 ^ 8) &&& 15) * 2 ^ 3 % 2 ^ 8))] = _
  rw [hx, h1, h2]
  rfl

theorem u8_mod (n : Nat) : u8' (n % 2 ^ 8) = u8 n := by
  show UInt8.ofNat (n % 2 ^ 8) = UInt8.ofNat n
  apply UInt8.toNat_inj.mp
  simp

/-- `build_esds_box` = the model's esds (descriptor lengths as `len() as u8`) -/
theorem C19_gen_esds (a : AudioTrack) : build_esds_box a.sampleRate a.channels = (bEsds a).ser := by
  rw [bEsds, ser_leaf]
  simp only [build_esds_box, buildBox, C19_gen_asc, u8_mod, List.nil_append, List.append_assoc, List.map]
  rfl

theorem leaf_ser_length (t : String) (p : Bytes) (h : (ascii t).length = 4) :
    (leaf t p).ser.length = (leaf t p).size := by
  rw [ser_leaf]
  simp [leaf, size, sizes, h]
  omega

/-- `build_mp4a_box` = the model's mp4a sample entry with its esds child -/
theorem C19_gen_mp4a (a : AudioTrack) : build_mp4a_box a.sampleRate a.channels = (bMp4a a).ser := by
  have hl : ((bEsds a).ser).length = (bEsds a).size := by
    unfold bEsds; exact leaf_ser_length _ _ rfl
  unfold build_mp4a_box bMp4a node
  simp only [C19_gen_esds, ser, sers, sizes, buildBox, audioEntryPrefix, u32be_mod, List.append_assoc, List.nil_append,
    List.append_nil, List.length_append, hl, Nat.add_zero]
  rfl

/-! ### src/fragmented.rs -/

theorem C19_gen_f_ftyp : Frag.build_ftyp_fmp4 = fFtyp.ser := by
  rw [fFtyp, ser_leaf]; rfl

theorem C19_gen_f_mvhd (ts : Nat) : Frag.build_mvhd_fmp4 ts = (fMvhd ts).ser := by
  rw [fMvhd, ser_leaf]
  simp only [Frag.build_mvhd_fmp4, buildBox, List.nil_append, List.append_assoc]
  rfl

theorem C19_gen_f_mvex : Frag.build_mvex = fMvex.ser := by
  simp only [Frag.build_mvex, fMvex, fTrex, node, leaf, ser, sers, sizes, size, buildBox]
  simp [List.append_assoc]
  rfl

theorem C19_gen_f_vmhd : Frag.build_vmhd = fVmhd.ser := by
  rw [fVmhd, ser_leaf]; rfl

theorem C19_gen_f_dinf : Frag.build_dinf = fDinf.ser := by
  simp only [Frag.build_dinf, fDinf, node, leaf, ser, sers, sizes, size, buildBox]
  simp [List.append_assoc]
  rfl

theorem C19_gen_f_hdlr : Frag.build_hdlr_video = (bHdlr "vide" "VideoHandler").ser := by
  rw [bHdlr, ser_leaf]; rfl

/-- the four empty sample tables of the init segment's stbl -/
theorem C19_gen_f_empty_tables :
    Frag.build_empty_stts = (leaf "stts" (u32be 0 ++ u32be 0)).ser ∧
    Frag.build_empty_stsc = (leaf "stsc" (u32be 0 ++ u32be 0)).ser ∧
    Frag.build_empty_stsz = (leaf "stsz" (u32be 0 ++ u32be 0 ++ u32be 0)).ser ∧
    Frag.build_empty_stco = (leaf "stco" (u32be 0 ++ u32be 0)).ser := by
  refine ⟨?_, ?_, ?_, ?_⟩ <;> (rw [ser_leaf]; rfl)

theorem C19_gen_f_mfhd (seq : Nat) : Frag.build_mfhd seq = (fMfhd seq).ser := by
  rw [fMfhd, ser_leaf]; rfl

theorem C19_gen_f_tfhd : Frag.build_tfhd = fTfhd.ser := by
  rw [fTfhd, ser_leaf]; rfl

theorem C19_gen_f_tfdt (base : Nat) : Frag.build_tfdt base = (fTfdt base).ser := by
  rw [fTfdt, ser_leaf]; rfl

end Muxide.Props.C19Generated
