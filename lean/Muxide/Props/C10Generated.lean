import Muxide.Generated.FragMethods
import Muxide.Props.C19Generated
/-
  C10 / C11 (mechanical tie) — Muxide.Generated.FragMethods is produced by tools/rs2lean_frag.py from the Rust
  source of `FragmentedMuxer::write_video`, `flush_segment`, `ready_to_flush` and
  `current_fragment_duration_ms` (src/fragmented.rs) on every check run.  Each theorem states that the translated
  method is the model's, for every muxer state and argument: the same reply and the same next state.  The
  conservation, sequence, rejection and timeline theorems of Props/C10.lean and Props/C11.lean are about the
  model's `Frag.write` / `Frag.flush`; through these equalities they are about the translated source.
-/
namespace Muxide.Props.C10Generated
open Muxide Muxide.Generated.FragMethods

/-! ### `build_trun`: the per-sample rows -/

theorem mem_zip_range {α} (l : List α) (i : Nat) (x : α) (h : (i, x) ∈ List.zip (List.range l.length) l) :
    l[i]? = some x := by
  obtain ⟨k, hk, hkx⟩ := List.mem_iff_getElem.mp h
  simp only [List.getElem_zip, List.getElem_range, Prod.mk.injEq] at hkx
  obtain ⟨rfl, rfl⟩ := hkx
  have : k < l.length := by simpa using hk
  simp [this]

theorem flatMap_congr_mem {α} (l : List α) (f g : α → Bytes) (h : ∀ x ∈ l, f x = g x) : l.flatMap f = l.flatMap g := by
  induction l with
  | nil => rfl
  | cons a r ih =>
    simp only [List.flatMap_cons]
    rw [h a (by simp), ih (fun x hx => h x (by simp [hx]))]

theorem trun_flag_word : (16777216 ||| (1 ||| 256 ||| 512 ||| 1024 ||| 2048)) = 0x01000000 + 0xF01 := by decide

/-- `build_trun(samples, data_offset)` is the serialisation of the model's trun box: version 1 with the four
    per-sample fields present, the sample count, the data offset, then per sample its duration (gap to the next
    sample; for the last sample the previous gap; 3000 for a lone sample), size, sync/non-sync flags word and
    signed composition offset — for every list of samples -/
theorem C10_gen_trun (samples : List FSample) (off : Nat) : build_trun samples off = (fTrun samples off).ser := by
  rw [fTrun, Muxide.Props.C19Generated.ser_leaf]
  unfold build_trun
  dsimp only
  rw [flatMap_congr_mem (g := fun (x : Nat × FSample) => match x with | (i, s) => trunRow samples i s)]
  · simp only [List.nil_append, List.append_assoc, Muxide.Props.C19Generated.u32be_mod, trun_flag_word]
    rfl
  · intro p hp
    obtain ⟨i, sm⟩ := p
    have hi := mem_zip_range samples i sm hp
    simp only [trunRow, trunDuration, hi, Option.map_some, Option.getD_some, List.nil_append, List.append_assoc,
      Muxide.Props.C19Generated.u32be_mod]
    split
    · rw [Muxide.Props.C19Generated.u32be_mod]
    · split
      · rw [Muxide.Props.C19Generated.u32be_mod]
      · rfl

/-! ### the media segment: moof[mfhd, traf[tfhd, tfdt, trun]] followed by mdat -/

open Muxide.Box in
theorem node_ser_of (t : String) (pre : Bytes) (kids : List Box) (hk : (sers kids).length = sizes kids) :
    (node t pre kids).ser = u32be (8 + (pre ++ sers kids).length) ++ ascii t ++ (pre ++ sers kids) := by
  simp only [node, ser, List.length_append, hk, List.append_assoc, Nat.add_assoc]

open Muxide.Box in
theorem node_len_of (t : String) (pre : Bytes) (kids : List Box) (ht : (ascii t).length = 4)
    (hk : (sers kids).length = sizes kids) : (node t pre kids).ser.length = (node t pre kids).size := by
  rw [node_ser_of t pre kids hk]
  simp [node, size, ht, hk]
  omega

theorem leaf_len (t : String) (p : Bytes) (ht : (ascii t).length = 4) :
    (Box.leaf t p).ser.length = (Box.leaf t p).size := Muxide.Props.C19Generated.leaf_ser_length t p ht

open Muxide.Box in
theorem traf_eq (samples : List FSample) (base off : Nat) :
    build_traf samples base off = (node "traf" [] [fTfhd, fTfdt base, fTrun samples off]).ser := by
  have h1 : fTfhd.ser.length = fTfhd.size := leaf_len _ _ rfl
  have h2 : (fTfdt base).ser.length = (fTfdt base).size := leaf_len _ _ rfl
  have h3 : (fTrun samples off).ser.length = (fTrun samples off).size := leaf_len _ _ rfl
  rw [node_ser_of _ _ _ (by simp [sers, sizes, h1, h2, h3])]
  unfold build_traf
  simp only [Muxide.Props.C19Generated.C19_gen_f_tfhd, Muxide.Props.C19Generated.C19_gen_f_tfdt, C10_gen_trun,
    sers, List.nil_append, List.append_nil, List.append_assoc]
  rfl

open Muxide.Box in
theorem traf_len (samples : List FSample) (base off : Nat) :
    (node "traf" [] [fTfhd, fTfdt base, fTrun samples off]).ser.length =
      (node "traf" [] [fTfhd, fTfdt base, fTrun samples off]).size := by
  have h1 : fTfhd.ser.length = fTfhd.size := leaf_len _ _ rfl
  have h2 : (fTfdt base).ser.length = (fTfdt base).size := leaf_len _ _ rfl
  have h3 : (fTrun samples off).ser.length = (fTrun samples off).size := leaf_len _ _ rfl
  exact node_len_of _ _ _ rfl (by simp [sers, sizes, h1, h2, h3])

open Muxide.Box in
/-- `build_moof_with_offset` is the serialisation of the model's moof -/
theorem C10_gen_moof (samples : List FSample) (seq base off : Nat) :
    build_moof_with_offset samples seq base off = (fMoof samples seq base off).ser := by
  unfold fMoof
  have h1 : (fMfhd seq).ser.length = (fMfhd seq).size := leaf_len _ _ rfl
  rw [node_ser_of _ _ _ (by simp [sers, sizes, h1, traf_len])]
  unfold build_moof_with_offset
  simp only [Muxide.Props.C19Generated.C19_gen_f_mfhd, traf_eq, sers, List.nil_append, List.append_nil, List.append_assoc]
  rfl

/-- `build_media_segment` is the model's `buildSegment`: the moof is built once to learn its size, the data
    offset of the trun is that size plus the 8-byte mdat header, and the mdat carries the payloads in order -/
theorem C10_gen_media_segment (samples : List FSample) (seq base : Nat) :
    build_media_segment samples seq base = buildSegment samples seq base := by
  unfold build_media_segment buildSegment build_moof
  simp only [C10_gen_moof, List.nil_append, List.append_assoc, Muxide.Props.C19Generated.u32be_mod]
  have hoff : ∀ o, (fMoof samples seq base (o % 2 ^ 32)).ser = (fMoof samples seq base o).ser := by
    intro o
    rw [← C10_gen_moof, ← C10_gen_moof]
    unfold build_moof_with_offset build_traf build_trun
    simp only [Muxide.Props.C19Generated.u32be_mod]
  rw [hoff]
  rfl

/-! ### the four methods -/

/-- `write_video`: refused iff the decode time is below the last accepted one, otherwise queued at the end -/
theorem C10_gen_write_video (f : Frag) (pts dts : Nat) (d : Bytes) (k : Bool) :
    write_video f pts dts d k = f.write pts dts d k := by
  unfold write_video Frag.write
  cases h : f.lastDts with
  | none => simp
  | some l => by_cases hl : dts < l <;> simp [hl]

/-- `flush_segment`: nothing for an empty queue; otherwise the segment of the whole queue with the current
    sequence number and the first sample's decode time as base, the queue emptied, the counter advanced -/
theorem C10_gen_flush_segment (f : Frag) : flush_segment f = f.flush := by
  unfold flush_segment Frag.flush
  cases h : f.samples with
  | nil => simp
  | cons s r => simp [C10_gen_media_segment]

theorem C10_gen_span_ms (f : Frag) : current_fragment_duration_ms f = f.spanMs := by
  unfold current_fragment_duration_ms Frag.spanMs
  rfl

theorem C10_gen_ready_to_flush (f : Frag) : FReply.bool (ready_to_flush f) = f.ready := by
  unfold ready_to_flush Frag.ready
  rw [C10_gen_span_ms]
  by_cases h2 : f.samples.length < 2
  · have : (f.samples = []) ∨ ¬ (f.samples = []) := Classical.em _
    rcases this with h | h <;> simp [h, h2]
  · have hne : ¬ f.samples = [] := by
      intro h; rw [h] at h2; simp at h2
    simp [hne, h2]

end Muxide.Props.C10Generated
