import Muxide.Generated.FragMethods
/-
  C10 / C11 (mechanical tie) — Muxide.Generated.FragMethods is produced by tools/rs2lean_frag.py from the Rust
  source of `FragmentedMuxer::write_video`, `flush_segment`, `ready_to_flush` and
  `current_fragment_duration_ms` (src/fragmented.rs) on every check run.  Each theorem states that the translated
  method is the model's, for every muxer state and argument: the same reply and the same next state.  The
  conservation, sequence, rejection and timeline theorems of Props/C10.lean and Props/C11.lean are about the
  model's `Frag.write` / `Frag.flush`; through these equalities they are about the translated source.
-/
namespace Muxide.Props.C10Generated
open Muxide Muxide.Generated.FragMethods

/-- `write_video`: refused iff the decode time is below the last accepted one, otherwise queued at the end -/
theorem C10_gen_write_video (f : Frag) (pts dts : Nat) (d : Bytes) (k : Bool) :
    write_video f pts dts d k = f.write pts dts d k := by
  unfold write_video Frag.write
  cases h : f.lastDts with
  | none => simp
  | some l => by_cases hl : dts < l <;> simp [hl]

/-- `flush_segment`: nothing for an empty queue; otherwise the segment of the whole queue with the current
    sequence number and the first sample's decode time as base, the queue emptied, the counter advanced -/
theorem C10_gen_flush_segment (f : Frag) : flush_segment f = f.flush := by
  unfold flush_segment Frag.flush
  cases h : f.samples with
  | nil => simp
  | cons s r => simp [h]

theorem C10_gen_span_ms (f : Frag) : current_fragment_duration_ms f = f.spanMs := by
  unfold current_fragment_duration_ms Frag.spanMs
  rfl

theorem C10_gen_ready_to_flush (f : Frag) : FReply.bool (ready_to_flush f) = f.ready := by
  unfold ready_to_flush Frag.ready
  rw [C10_gen_span_ms]
  by_cases h2 : f.samples.length < 2
  · have : (f.samples = []) ∨ ¬ (f.samples = []) := Classical.em _
    rcases this with h | h <;> simp [h, h2]
  · have hne : ¬ f.samples = [] := by
      intro h; rw [h] at h2; simp at h2
    simp [hne, h2]

end Muxide.Props.C10Generated
