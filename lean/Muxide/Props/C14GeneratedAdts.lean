import Muxide.Generated.Adts
import Muxide.Lemmas.AdtsBits
/-
  C14 (mechanical tie, ADTS) — Muxide.Generated.Adts is produced by tools/rs2lean_adts.py from the Rust source of
  `adts_to_raw` on every check run: the decision logic (which frames are refused, with which error kind, and which
  bytes of an accepted frame are stored), without the diagnostics.  The theorem states that the translated function
  is the model's `adtsToRaw` for every byte string; `C14_adts` (Props/C14.lean) characterises that function
  field by field.  In passing it shows the `CrcMismatch` branch of the source can never be taken.
-/
namespace Muxide.Props.C14GeneratedAdts
open Muxide Muxide.Generated.Adts Muxide.Lemmas.AdtsBits

theorem byte_lt (f : Bytes) (i : Nat) : (f.getD i 0).toNat < 256 := UInt8.toNat_lt _

/-- `adts_to_raw` (decision logic) = the model's `adtsToRaw`, for every byte string -/
theorem C14_gen_adts_to_raw (f : Bytes) : adts_to_raw f = adtsToRaw f := by
  have b0 := byte_lt f 0; have b1 := byte_lt f 1; have b2 := byte_lt f 2
  have b3 := byte_lt f 3; have b4 := byte_lt f 4; have b5 := byte_lt f 5
  have hs := sync_bits (f.getD 0 0).toNat b0 (f.getD 1 0).toNat b1
  have hc := chan_bits ((f.getD 2 0).toNat % 2) (by omega) ((f.getD 3 0).toNat / 64 % 4) (by omega)
  have hl := len_bits ((f.getD 3 0).toNat % 4) (by omega) (f.getD 4 0).toNat b4 (f.getD 5 0).toNat b5
  have e8 : (f.getD 1 0).toNat / 2 ^ 3 % 2 = (f.getD 1 0).toNat / 8 % 2 := rfl
  have e2 : (f.getD 1 0).toNat / 2 ^ 1 % 4 = (f.getD 1 0).toNat / 2 % 4 := rfl
  have e4 : (f.getD 2 0).toNat / 2 ^ 2 % 16 = (f.getD 2 0).toNat / 4 % 16 := rfl
  have e6 : (f.getD 3 0).toNat / 2 ^ 6 % 4 = (f.getD 3 0).toNat / 64 % 4 := rfl
  have hpa : (decide ((f.getD 1 0).toNat % 2 ≠ 0) = true) = ((f.getD 1 0).toNat % 2 = 1) := by
    simp only [decide_eq_true_eq, eq_iff_iff]; omega
  unfold adts_to_raw adtsToRaw adtsHeaderLen adtsChannelConfig adtsFrameLength byteAt
  dsimp only
  rw [and_1, and_1, and_3, and_3, and_15, and_1, and_3] <;> skip
  rw [e8, e2, e4, e6, hc, hl]
  simp only [hs, hpa]
  clear hs hc hl e8 e2 e4 e6 hpa
  by_cases h1 : f.length < 7
  · simp only [if_pos h1]
  simp only [if_neg h1]
  by_cases h2 : ¬((f.getD 0 0).toNat = 255 ∧ (f.getD 1 0).toNat / 16 = 15)
  · simp only [if_pos h2]
  simp only [if_neg h2]
  by_cases h3 : (f.getD 1 0).toNat / 8 % 2 ≠ 0
  · simp only [if_pos h3]
  simp only [if_neg h3]
  by_cases h4 : (f.getD 1 0).toNat / 2 % 4 ≠ 0
  · simp only [if_pos h4]
  simp only [if_neg h4]
  by_cases h5 : f.length < if (f.getD 1 0).toNat % 2 = 1 then 7 else 9
  · simp only [if_pos h5]
  simp only [if_neg h5]
  by_cases h6 : (f.getD 2 0).toNat / 4 % 16 > 12
  · simp only [if_pos h6]
  simp only [if_neg h6]
  by_cases h7 : (f.getD 2 0).toNat % 2 * 4 + (f.getD 3 0).toNat / 64 % 4 = 0 ∨
      (f.getD 2 0).toNat % 2 * 4 + (f.getD 3 0).toNat / 64 % 4 > 7
  · simp only [if_pos h7]
  simp only [if_neg h7]
  by_cases h8 : (f.getD 3 0).toNat % 4 * 2 ^ 11 + (f.getD 4 0).toNat * 2 ^ 3 + (f.getD 5 0).toNat / 32 ≤
      if (f.getD 1 0).toNat % 2 = 1 then 7 else 9
  · simp only [if_pos h8]
  simp only [if_neg h8]
  by_cases h9 : (f.getD 3 0).toNat % 4 * 2 ^ 11 + (f.getD 4 0).toNat * 2 ^ 3 + (f.getD 5 0).toNat / 32 > f.length
  · simp only [if_pos h9]
  simp only [if_neg h9]
  have hcrc : ¬ ((¬ (f.getD 1 0).toNat % 2 = 1 ∧ f.length ≥ (if (f.getD 1 0).toNat % 2 = 1 then 7 else 9) + 2) ∧
      f.length < (if (f.getD 1 0).toNat % 2 = 1 then 7 else 9) - 2 + 2) := by
    split <;> omega
  simp only [if_neg hcrc]
  rw [List.drop_take]

end Muxide.Props.C14GeneratedAdts
