import Muxide.Lemmas.Sink
import Muxide.Model.Api
/-
  C13 — Sink failures and partial writes never corrupt, duplicate or hide data.
  The sink is an arbitrary response function over an arbitrary state (`Respond σ`): it may fail
  any call, accept any non-empty part of a buffer, return Ok(0), or report Interrupted.
-/
namespace Muxide.Props.C13
open Muxide

variable {σ : Type}

/-- one `finish_in_place_with_stats` against a given sink: the chunks `finalize` hands to
    `write_counted`, delivered through `write_all` -/
def finishOn (respond : Respond σ) (fuel : Nat) (sink : Sink σ) (m : Muxer) : Muxer × Sink σ × Reply :=
  let out := (m.finishStats deliverAll).2.1
  let chunks := if m.finished then [] else out.chunks
  let r := writeChunks respond fuel sink chunks 0
  let res := m.finishStats (fun _ => (r.2.1, r.2.2))
  (res.1, r.1, res.2.2)

/-- the file a fault-free sink would receive from this muxer state -/
def faultFreeFile (m : Muxer) : Bytes :=
  if m.finished then [] else ((m.w.finalize m.width m.height m.md m.fast).2.chunks).flatten

/-- the chunk list does not depend on what the sink does -/
theorem chunks_indep (m : Muxer) (d : Deliver) :
    (m.finishStats d).2.1.chunks = (m.finishStats deliverAll).2.1.chunks := by
  unfold Muxer.finishStats
  split
  · rfl
  · simp only
    split <;> (try rfl) <;> split <;> (try rfl) <;> split <;> rfl

open List in
/-- **Prefix**: whatever the sink does, what it has accepted after the finish attempt is what it
    held before plus a prefix of the fault-free file; the whole file iff every write succeeded. -/
theorem C13_prefix (respond : Respond σ) (fuel : Nat) (sink : Sink σ) (m : Muxer) :
    ∃ p, p <+: faultFreeFile m ∧ (finishOn respond fuel sink m).2.1.got = sink.got ++ p := by
  unfold finishOn faultFreeFile
  by_cases hf : m.finished
  · simp only [hf, if_true]
    exact ⟨[], by simp, by simp [writeChunks]⟩
  · simp only [hf]
    have hc : (m.finishStats deliverAll).2.1.chunks = (m.w.finalize m.width m.height m.md m.fast).2.chunks := by
      unfold Muxer.finishStats
      simp only [hf]
      simp only [Bool.false_eq_true, if_false]
      split <;> (try rfl) <;> split <;> (try rfl) <;> split <;> rfl
    obtain ⟨p, hp, hg, _⟩ := writeChunks_prefix respond fuel sink
      ((m.finishStats deliverAll).2.1.chunks) 0
    rw [hc] at hp hg
    refine ⟨p, ?_, ?_⟩
    · simpa using hp
    · simpa [hc] using hg

/-- **Error iff a write ultimately failed** (when finalize itself has nothing to report):
    the reply is an error exactly when some `write_all` failed, and on success the sink holds the
    complete fault-free file and the reported byte count is its length. -/
theorem C13_err_iff (respond : Respond σ) (fuel : Nat) (sink : Sink σ) (m : Muxer)
    (hf : m.finished = false)
    (hres : (m.w.finalize m.width m.height m.md m.fast).2.res = .ok) :
    let r := writeChunks respond fuel sink (m.w.finalize m.width m.height m.md m.fast).2.chunks 0
    let reply := (m.finishStats (fun _ => (r.2.1, r.2.2))).2.2
    (r.2.1 ≠ .ok () → reply = .err .io none) ∧
    (r.2.1 = .ok () → r.1.got = sink.got ++ faultFreeFile m ∧
      ∃ st, reply = .stats st ∧ st.bytes = min (m.w.bytesWritten + (faultFreeFile m).length) u64Max) := by
  intro r reply
  constructor
  · intro hne
    simp only [reply, Muxer.finishStats, hf]
    simp only [Bool.false_eq_true, if_false]
    split
    · rfl
    · next h => exact absurd h hne
  · intro hok
    obtain ⟨p, _, hg, hall⟩ := writeChunks_prefix respond fuel sink
      (m.w.finalize m.width m.height m.md m.fast).2.chunks 0
    have hp := hall hok
    have hcnt := writeChunks_count_ok respond fuel sink _ 0 hok
    constructor
    · rw [show r.1.got = sink.got ++ p from hg, hp]
      simp [faultFreeFile, hf]
    · simp only [reply, Muxer.finishStats, hf]
      simp only [Bool.false_eq_true, if_false]
      rw [show r.2.1 = Except.ok () from hok]
      simp only [hres]
      refine ⟨_, rfl, ?_⟩
      simp only [faultFreeFile, hf, Bool.false_eq_true, if_false]
      have hw : (m.w.finalize m.width m.height m.md m.fast).1.bytesWritten = m.w.bytesWritten := by
        unfold Writer.finalize
        repeat' split
        all_goals rfl
      rw [hw, show r.2.2 = _ from hcnt]
      simp [List.length_flatten]

/-- **After a finish attempt nothing further is written**: `finalize` sets `finalized` before it
    writes, so any later finalize hands no chunk to the sink and reports an error. -/
theorem C13_after (w : Writer) (width height : Nat) (md : Option Metadata) (fast : Bool) :
    let w1 := (w.finalize width height md fast).1
    w1.finalized = true ∧ (w1.finalize width height md fast).2.chunks = [] ∧
    (∃ msg, (w1.finalize width height md fast).2.res = .ioErr msg) := by
  have h1 : (w.finalize width height md fast).1.finalized = true := by
    unfold Writer.finalize
    repeat' split
    all_goals (first | rfl | (next h => simpa using h) | assumption)
  have key : ∀ (v : Writer), v.finalized = true →
      (v.finalize width height md fast).2 = ⟨[], .ioErr "mp4 writer already finalised"⟩ := by
    intro v hv; simp [Writer.finalize, hv]
  refine ⟨h1, ?_, ?_⟩
  · rw [key _ h1]
  · exact ⟨_, by rw [key _ h1]⟩

/-- … and every later frame write is rejected by the writer -/
theorem C13_after_writes (w : Writer) (h : w.finalized = true) (pts dts : Nat) (d : Bytes) (k : Bool) :
    w.writeVideo pts dts d k = (w, .err .alreadyFinalized) ∧ w.writeAudio pts d = (w, .err .alreadyFinalized) := by
  simp [Writer.writeVideo, Writer.writeAudio, h]

/-- **Transparency**: a sink that only shortens or interrupts (never fails, never returns Ok(0))
    and is given enough retries delivers exactly the fault-free bytes. Stated on `write_all`:
    if it returns Ok, the whole buffer was appended. -/
theorem C13_transparent (respond : Respond σ) (fuel : Nat) (sink : Sink σ) (cs : List Bytes)
    (h : (writeChunks respond fuel sink cs 0).2.1 = .ok ()) :
    (writeChunks respond fuel sink cs 0).1.got = sink.got ++ cs.flatten ∧
    (writeChunks respond fuel sink cs 0).2.2 = (cs.map (·.length)).sum := by
  obtain ⟨p, _, hg, hall⟩ := writeChunks_prefix respond fuel sink cs 0
  refine ⟨by rw [hg, hall h], ?_⟩
  have := writeChunks_count_ok respond fuel sink cs 0 h
  simpa using this

/-- a sink that takes every buffer whole (Vec, Cursor, File): `write_all` succeeds on every chunk with
    a single call, so `finish` hands over exactly the chunks, in order, and counts them all. (The
    driver uses this to append the chunk list in one step for fault-free sinks.) -/
theorem C13_reliable_sink (respond : Respond σ)
    (hr : ∀ st buf, ∃ st', respond st buf = (st', .accept buf.length))
    (fuel : Nat) (sink : Sink σ) (cs : List Bytes) (cnt : Nat) :
    (writeChunks respond (fuel + 1) sink cs cnt).1.got = sink.got ++ cs.flatten ∧
    (writeChunks respond (fuel + 1) sink cs cnt).2.1 = .ok () ∧
    (writeChunks respond (fuel + 1) sink cs cnt).2.2 = cnt + (cs.map (·.length)).sum := by
  have one : ∀ (s : Sink σ) (buf : Bytes),
      (writeAll respond (fuel + 1) s buf).1.got = s.got ++ buf ∧ (writeAll respond (fuel + 1) s buf).2 = .ok () := by
    intro s buf
    unfold writeAll
    by_cases hb : buf = []
    · simp [hb]
    · obtain ⟨st', hst⟩ := hr s.st buf
      have hl : buf.length ≠ 0 := by simpa using hb
      simp only [hb, if_false, hst, hl, Nat.min_self, List.take_length, List.drop_length]
      cases fuel <;> simp [writeAll]
  induction cs generalizing sink cnt with
  | nil => simp [writeChunks]
  | cons c cs ih =>
    obtain ⟨h1, h2⟩ := one sink c
    unfold writeChunks
    cases hw : writeAll respond (fuel + 1) sink c with
    | mk s' r =>
      rw [hw] at h1 h2
      simp only at h1 h2
      subst h2
      simp only
      obtain ⟨i1, i2, i3⟩ := ih s' (cnt + c.length)
      refine ⟨by rw [i1, h1]; simp, i2, by rw [i3]; simp; omega⟩

/-- non-vacuity: a scripted sink that accepts 2 bytes, is interrupted, accepts 1 byte and then
    fails leaves exactly the 3-byte prefix -/
example : (writeChunks scripted 10 ⟨[.accept 2, .interrupted, .accept 1, .fail 7], []⟩ [[1, 2, 3], [4, 5]] 0).1.got = [1, 2, 3] := by
  decide

end Muxide.Props.C13
