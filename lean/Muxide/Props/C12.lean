import Muxide.Props.C04
import Muxide.Props.C12Date
import Muxide.Props.C10
/-
  C12 — No public entry point panics, overflows or hangs on any input.

  What a theorem about the model can carry: (1) the model marks every `panic!`, `assert_invariant!`,
  failed index, division and checked-arithmetic site of the Rust code that depends on state or
  input as a `.panic` outcome (see `moovPanics`, `Reply.panic`, `FReply.panic`); the theorems
  below show that NO reachable state and NO input produces such an outcome; (2) loop bounds:
  every loop of the modelled code runs a number of iterations bounded by the input length or by a
  constant. What it cannot carry (labelled partial, covered by the correspondence run with
  overflow checks, `catch_unwind` and a watchdog on the real library): allocation failure,
  `format!`/hex-dump code, clap, and arithmetic the model does on unbounded `Nat`.
-/
namespace Muxide.Props.C12
open Muxide Muxide.Spec Muxide.Props.C04 Muxide.Props.C05

/-- `finish` / `finish_with_stats` never panic in a state that satisfies the API invariant, for
    any sink behaviour -/
theorem C12_finish_no_panic {m : Muxer} {h : AbsHist} (hinv : Inv m h) (d : Deliver) :
    (m.finishStats d).2.2 ≠ .panic ∧ (m.finish d).2.2 ≠ .panic := by
  have key : (m.finishStats d).2.2 ≠ .panic := by
    unfold Muxer.finishStats
    split
    · simp
    · next hfin =>
      simp only
      split
      · simp
      · have hres : (m.w.finalize m.width m.height m.md m.fast).2.res ≠ .panic := by
          by_cases hf : m.w.finalized = true
          · simp [Writer.finalize, hf]
          · have hf' : m.w.finalized = false := by simpa using hf
            rw [(finalize_res m.w m.width m.height m.md m.fast hf').2]
            obtain ⟨p1, p2⟩ := hinv.no_panic m.width m.height
            split
            · simp
            · split
              · simp
              · unfold layoutOut
                simp only []
                split
                · exact finalizeFastStart_ne_panic _ _ _ _ _ p1 p2
                · exact finalizeStandard_ne_panic _ _ _ _ _ p1 p2
        split
        · next hp => exact absurd hp hres
        · simp
        · simp
  refine ⟨key, ?_⟩
  unfold Muxer.finish
  split
  · simp
  · next r hne =>
    intro hp
    apply key
    rw [← hp]

/-- **No API call panics, in any reachable state, for any arguments**: every reply in every run
    of every call list from `build cfg` is different from `.panic`. -/
theorem C12_api_no_panic (cfg : Config) (cs : List Call) :
    ∀ r ∈ (run (build cfg) cs).2, r ≠ Reply.panic := by
  suffices H : ∀ (cs : List Call) (m : Muxer) (h : AbsHist), Inv m h → ∀ r ∈ (run m cs).2, r ≠ Reply.panic from
    H cs (build cfg) (initHist cfg) (C04_inv_init cfg)
  intro cs
  induction cs with
  | nil => intro m h _ r hr; simp [run] at hr
  | cons c cs ih =>
    intro m h hinv r hr
    simp only [run] at hr
    rcases List.mem_cons.mp hr with rfl | hr'
    · by_cases hw : c.isWrite = true
      · exact C05_write_no_panic m c hw
      · cases c with
        | fin => exact (C12_finish_no_panic hinv deliverAll).2
        | fins => exact (C12_finish_no_panic hinv deliverAll).1
        | _ => simp [Call.isWrite] at hw
    · exact ih _ _ (C04_inv_step hinv c) r hr'

/-- the fragmented muxer's operations never produce a panic outcome either -/
theorem C12_frag_no_panic (f : Frag) (pts dts : Nat) (d : Bytes) (s : Bool) :
    (f.write pts dts d s).2 ≠ .panic ∧ f.flush.2 ≠ .panic ∧ f.ready ≠ .panic ∧ f.durMs ≠ .panic ∧ f.init.2 ≠ .panic := by
  refine ⟨?_, ?_, ?_, ?_, ?_⟩
  · unfold Frag.write; repeat' split
    all_goals simp
  · unfold Frag.flush; split <;> simp
  · unfold Frag.ready; split <;> simp
  · simp [Frag.durMs]
  · unfold Frag.init; split <;> simp

/-- the readiness arithmetic is total: a zero timescale gives 0 ms and the result never exceeds u64 -/
theorem C12_frag_span_total (f : Frag) : f.spanMs ≤ u64Max := by
  unfold Frag.spanMs
  split
  · simp [u64Max]
  · simp only []
    split
    · simp [u64Max]
    · exact Nat.min_le_right _ _

/-- loop bounds ("promptly"): the Annex B scanner examines at most one position per input byte
    over a whole iteration of the NAL iterator, and yields at most a third as many units -/
theorem C12_scanner_linear (fuel : Nat) (d : Bytes) : Muxide.Props.C14.iterSteps fuel d ≤ d.length ∧ 3 * (nals d).length ≤ d.length :=
  ⟨Muxide.Props.C14.C14_iter_steps fuel d, Muxide.Props.C14.C14_nals_count d⟩

/-- … and the creation-date year loop runs at most 400 times for every Unix time -/
theorem C12_date_loop_bound (days : Nat) :
    yearLoopSteps 401 (1970 + 400 * (days / 146097)) (days % 146097) ≤ 400 :=
  Muxide.Props.C12Date.C12_year_loop_bound days

end Muxide.Props.C12
