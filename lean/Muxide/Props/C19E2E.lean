import Muxide.Lemmas.E2E2
import Muxide.Props.C19
import Muxide.Props.C07
/-
  C19 (end to end) — the HEADERS AND CONFIGURATION a reader sees. The independent reader
  `Spec.parseMovie`, applied to the very bytes `Writer.finalize` hands to the sink, returns a movie
  whose `mvhd` payload and whose tracks' `tkhd`, `mdhd`, `hdlr` payloads, `stsd` box, media-header
  type and sample-table child order are EXACTLY the payloads / boxes of the builders `bMvhd`,
  `bTkhd`, `bMdhd`, `bHdlr`, `bStsd (bVideoEntry …)` / `bStsd (bAudioEntry …)` with the arguments
  `bMoov` uses — so that the record-level theorems of Props/C19.lean and Props/C07.lean
  (`C19_mvhd`, `C19_mdhd`, `C19_hdlr`, `C19_visual_entry`, `C19_audio_entry`, `C19_tkhd_partial`,
  `C07_avcC`, `C07_hvcC`, `C07_av1C`, `C07_vpcC`, `C07_esds`, `C07_dOps`, `C07_entry_record`, …)
  are statements about what the READER returns; the compositions are spelled out below.
  The two recorded non-conformances of the progressive writer (`tkhd` with a stray 32-bit word,
  `vmhd` flags 0) are thereby also visible end to end: `C19_e2e_tkhd_counterexample`.
  Same hypotheses as C01E2E: reachable writer, `finalize` returned ok, `MoovFits`.
-/
namespace Muxide.Props.C19E2E
open Muxide Muxide.Spec Box Muxide.Props.C08 Muxide.Props.C01E2E

/-- total duration of the video / audio track in media ticks (sum of the sample durations) -/
abbrev vTicks (w : Writer) : Nat := (durationsOf w.vsRev.reverse w.vLastDelta).sum
abbrev aTicks (w : Writer) : Nat := (durationsOf w.asRev.reverse w.aLastDelta).sum

/-- movie duration in ms as written: the longer of the tracks -/
def movieMs (w : Writer) : Nat :=
  max (toMs (vTicks w)) (match w.audio with | some _ => toMs (aTicks w) | none => 0)

/-- next track id as written -/
def nextTrackId (w : Writer) : Nat := if w.audio.isSome then 3 else 2

theorem C19_e2e_toMs_le (n : Nat) : toMs n ≤ n := by unfold toMs; omega

/-! ## 1. video track -/

/-- The decoded video track's header payloads, sample description, media-header type and edit
    list are exactly what the builders produce for the writer's state and `vcOf w`. -/
theorem C19_e2e_video_headers (w : Writer) (hr : w.Reachable) (width height : Nat) (md : Option Metadata)
    (fast : Bool) (hok : (w.finalize width height md fast).2.res = .ok)
    (hfit : MoovFits w width height md fast) :
    let file := (w.finalize width height md fast).2.chunks.flatten
    ∀ mv, parseMovie file = some mv → ∀ vt, mv.tracks[0]? = some vt →
      vt.tkhd = (bTkhd 1 0 width height (toMs (vTicks w))).pre ∧
      vt.mdhd = (bMdhd 90000 (vTicks w) (md.bind (·.language))).pre ∧
      vt.hdlr = (bHdlr "vide" "VideoHandler").pre ∧
      vt.stsd = bStsd (bVideoEntry width height (vcOf w)) ∧
      vt.mediaHeaderType = ascii "vmhd" ∧
      vt.elst = none := by
  intro file mv hmv vt ht
  obtain ⟨-, hv, -⟩ := e2e_tracks w hr width height md fast hok hfit mv hmv
  rw [hv vt ht]
  exact ⟨rfl, rfl, rfl, rfl, rfl, rfl⟩

/-- The child order of the video sample table as the reader lists it: `stsd stts [ctts] stsc stsz
    stco [stss]`, with `ctts` iff some accepted frame has `pts ≠ dts` and `stss` iff there is a
    frame at all (a reachable writer's first frame is a key frame). -/
theorem C19_e2e_video_stbl_order (w : Writer) (hr : w.Reachable) (width height : Nat) (md : Option Metadata)
    (fast : Bool) (hok : (w.finalize width height md fast).2.res = .ok)
    (hfit : MoovFits w width height md fast) :
    let file := (w.finalize width height md fast).2.chunks.flatten
    ∀ mv, parseMovie file = some mv → ∀ vt, mv.tracks[0]? = some vt →
      vt.stblTypes = [ascii "stsd", ascii "stts"] ++
        (if w.vsRev.any (fun s => decide (s.pts ≠ s.dts)) then [ascii "ctts"] else []) ++
        [ascii "stsc", ascii "stsz", ascii "stco"] ++
        (if w.vsRev = [] then [] else [ascii "stss"]) := by
  intro file mv hmv vt ht
  obtain ⟨-, hv, -⟩ := e2e_tracks w hr width height md fast hok hfit mv hmv
  obtain ⟨-, hb⟩ := vTablesOf_cts w hr.timing.1 (offsetsAt w (mediaStart w width height md fast))
  have e1 : (vTablesOf w (offsetsAt w (mediaStart w width height md fast))).hasBframes =
      w.vsRev.any (fun s => decide (s.pts ≠ s.dts)) := by
    rw [Bool.eq_iff_iff, hb]
    simp only [List.mem_reverse, List.any_eq_true, decide_eq_true_eq]
  have e2 : (vTablesOf w (offsetsAt w (mediaStart w width height md fast))).keyframes = keyframesOf w.vsRev.reverse := rfl
  rw [hv vt ht]
  show videoStblTypes _ = _
  unfold videoStblTypes
  rw [e1, e2]
  by_cases hne : w.vsRev = []
  · rw [hne]; rfl
  · rw [if_pos (hr.keyframes_ne_nil hne), if_neg hne]

/-- The strict ISO decoders on what the reader returned for the video track: media header
    (timescale 90 000, the exact tick sum, the packed language), handler `vide`, and the visual
    sample entry (found as the only child of the reader's `stsd`) with the finalize dimensions. -/
theorem C19_e2e_video_records (w : Writer) (hr : w.Reachable) (width height : Nat) (md : Option Metadata)
    (fast : Bool) (hok : (w.finalize width height md fast).2.res = .ok)
    (hfit : MoovFits w width height md fast) :
    let file := (w.finalize width height md fast).2.chunks.flatten
    ∀ mv, parseMovie file = some mv → ∀ vt, mv.tracks[0]? = some vt →
      strictMdhd vt.mdhd = some ⟨90000, vTicks w, langCode ((md.bind (·.language)).getD [117, 110, 100])⟩ ∧
      strictHdlr vt.hdlr = some (tag "vide") ∧
      vt.stsd.pre = u32be 0 ++ u32be 1 ∧
      vt.stsd.kids = [bVideoEntry width height (vcOf w)] ∧
      vt.stsd.kids.map (fun e => strictVisualEntry e.pre) = [some ⟨width, height⟩] := by
  intro file mv hmv vt ht
  obtain ⟨-, h2, h3, h4, -⟩ := C19_e2e_video_headers w hr width height md fast hok hfit mv hmv vt ht
  obtain ⟨-, -, s1, -, -, -, -, -, -, w1, w2⟩ := C16.C16_finalize_values w hr width height md fast hok
  rw [h2, h3, h4]
  refine ⟨C19.C19_mdhd_90k _ _ s1, C19.C19_hdlr.1, rfl, rfl, ?_⟩
  show [strictVisualEntry (bVideoEntry width height (vcOf w)).pre] = _
  have hp : (bVideoEntry width height (vcOf w)).pre = visualEntryPrefix width height := by
    cases vcOf w <;> rfl
  rw [hp, C19.C19_visual_entry width height w1 w2]

/-- FINDING, end to end: the `tkhd` payload the reader returns for either track is rejected by
    the strict decoder whatever the input (88 bytes: a stray 32-bit word after the duration); the
    fields it does place correctly (`C19_tkhd_partial`) read back as: track id 1 at offset 12,
    duration in ms at 20, identity matrix at 44, 16.16 width / height at 80 / 84. -/
theorem C19_e2e_tkhd_counterexample (w : Writer) (hr : w.Reachable) (width height : Nat) (md : Option Metadata)
    (fast : Bool) (hok : (w.finalize width height md fast).2.res = .ok)
    (hfit : MoovFits w width height md fast) :
    let file := (w.finalize width height md fast).2.chunks.flatten
    ∀ mv, parseMovie file = some mv → ∀ vt, mv.tracks[0]? = some vt →
      strictTkhd vt.tkhd = none ∧ vt.tkhd.length = 88 ∧ be vt.tkhd 12 4 = 1 ∧
      be vt.tkhd 20 4 = toMs (vTicks w) ∧ identityMatrix vt.tkhd 44 = true ∧
      be vt.tkhd 80 4 = width * 65536 ∧ be vt.tkhd 84 4 = height * 65536 := by
  intro file mv hmv vt ht
  obtain ⟨h1, -⟩ := C19_e2e_video_headers w hr width height md fast hok hfit mv hmv vt ht
  obtain ⟨-, -, s1, -, -, -, -, -, -, w1, w2⟩ := C16.C16_finalize_values w hr width height md fast hok
  have hms : toMs (vTicks w) < 2^32 := Nat.lt_of_le_of_lt (C19_e2e_toMs_le _) s1
  obtain ⟨p1, -, -, -, p5, -, p7, -, -, -, p11, p12, p13⟩ :=
    C19.C19_tkhd_partial 1 0 width height (toMs (vTicks w)) (by omega) (by omega) w1 w2 hms
  rw [h1]
  exact ⟨C19.C19_tkhd_counterexample _ _ _ _ _, p1, p5, p7, p11, p12, p13⟩

/-! ## 2. the video decoder configuration -/

/-- The reader's `stsd` holds one sample entry of the codec's type whose only child is the
    decoder-configuration box built from `vcOf w` (the configuration extracted from the first
    key frame): `avc1 > avcC`, `hvc1 > hvcC`, `av01 > av1C`, `vp09 > vpcC`, found by the reader's
    own `path?`. -/
theorem C19_e2e_video_config (w : Writer) (hr : w.Reachable) (width height : Nat) (md : Option Metadata)
    (fast : Bool) (hok : (w.finalize width height md fast).2.res = .ok)
    (hfit : MoovFits w width height md fast) :
    let file := (w.finalize width height md fast).2.chunks.flatten
    ∀ mv, parseMovie file = some mv → ∀ vt, mv.tracks[0]? = some vt →
      (∀ c, vcOf w = .avc c → path? ["avc1", "avcC"] vt.stsd.kids = some (bAvcC c)) ∧
      (∀ c, vcOf w = .hevc c → path? ["hvc1", "hvcC"] vt.stsd.kids = some (bHvcC c)) ∧
      (∀ c, vcOf w = .av1 c → path? ["av01", "av1C"] vt.stsd.kids = some (bAv1C c)) ∧
      (∀ c, vcOf w = .vp9 c → path? ["vp09", "vpcC"] vt.stsd.kids = some (bVpcC c)) := by
  intro file mv hmv vt ht
  obtain ⟨-, -, -, h4, -⟩ := C19_e2e_video_headers w hr width height md fast hok hfit mv hmv vt ht
  rw [h4]
  refine ⟨?_, ?_, ?_, ?_⟩ <;> intro c hc <;> rw [hc] <;> rfl

/-- … and the strict record decoders of C07 on the configuration box the reader found:
    H.264 — exactly one SPS and one PPS, byte for byte (for parameter sets below 64 KiB, the
    range of the 16-bit length fields); AV1 and VP9 — the fields of the configuration. -/
theorem C19_e2e_video_config_records (w : Writer) (hr : w.Reachable) (width height : Nat) (md : Option Metadata)
    (fast : Bool) (hok : (w.finalize width height md fast).2.res = .ok)
    (hfit : MoovFits w width height md fast) :
    let file := (w.finalize width height md fast).2.chunks.flatten
    ∀ mv, parseMovie file = some mv → ∀ vt, mv.tracks[0]? = some vt →
      (∀ c, vcOf w = .avc c → c.sps.length < 2^16 → c.pps.length < 2^16 →
        (path? ["avc1", "avcC"] vt.stsd.kids).bind (strictAvcC ·.pre) =
          some ⟨(C07.avcHdr c.sps).1, (C07.avcHdr c.sps).2.1, (C07.avcHdr c.sps).2.2, [c.sps], [c.pps]⟩) ∧
      (∀ c, vcOf w = .hevc c → c.vps.length < 2^16 → c.sps.length < 2^16 → c.pps.length < 2^16 →
        ∃ r, (path? ["hvc1", "hvcC"] vt.stsd.kids).bind (strictHvcC ·.pre) = some r ∧
          r.arrays = [(32, [c.vps]), (33, [c.sps]), (34, [c.pps])] ∧ r.lengthSizeMinusOne = 3) ∧
      (∀ c, vcOf w = .av1 c →
        (path? ["av01", "av1C"] vt.stsd.kids).bind (strictAv1C ·.pre) =
          some ⟨c.seqProfile % 8, c.seqLevelIdx % 32, c.seqTier % 2, c.highBitdepth,
            c.twelveBit, c.monochrome, c.subX, c.subY, c.csp % 4, c.sequenceHeader⟩) ∧
      (∀ c, vcOf w = .vp9 c →
        (path? ["vp09", "vpcC"] vt.stsd.kids).bind (strictVpcC ·.pre) =
          some ⟨c.profile % 256, c.level % 256, c.bitDepth % 16, 1, c.fullRange % 2, c.colorSpace % 256,
            c.transfer % 256, c.matrix % 256⟩) := by
  intro file mv hmv vt ht
  obtain ⟨h1, h2, h3, h4⟩ := C19_e2e_video_config w hr width height md fast hok hfit mv hmv vt ht
  refine ⟨?_, ?_, ?_, ?_⟩
  · intro c hc hs hp
    rw [h1 c hc, Option.bind_some]
    exact C07.C07_avcC c hs hp
  · intro c hc hv hs hp
    rw [h2 c hc, Option.bind_some]
    obtain ⟨r, e, a, l, -⟩ := C07.C07_hvcC c hv hs hp
    exact ⟨r, e, a, l⟩
  · intro c hc
    rw [h3 c hc, Option.bind_some]
    exact C07.C07_av1C c
  · intro c hc
    rw [h4 c hc, Option.bind_some]
    exact C07.C07_vpcC_wrap c

/-! ## 3. audio track -/

/-- The decoded audio track (second track, when an audio track is configured): header payloads,
    sample description, media-header type `smhd`, child order of the sample table. -/
theorem C19_e2e_audio_headers (w : Writer) (hr : w.Reachable) (width height : Nat) (md : Option Metadata)
    (fast : Bool) (hok : (w.finalize width height md fast).2.res = .ok)
    (hfit : MoovFits w width height md fast) (tr : AudioTrack) (hau : w.audio = some tr) :
    let file := (w.finalize width height md fast).2.chunks.flatten
    ∀ mv, parseMovie file = some mv → ∀ at_, mv.tracks[1]? = some at_ →
      at_.tkhd = (bTkhd 2 0x0100 0 0 (toMs (aTicks w))).pre ∧
      at_.mdhd = (bMdhd 90000 (aTicks w) (md.bind (·.language))).pre ∧
      at_.hdlr = (bHdlr "soun" "SoundHandler").pre ∧
      at_.stsd = bStsd (bAudioEntry tr) ∧
      at_.mediaHeaderType = ascii "smhd" ∧
      at_.stblTypes = [ascii "stsd", ascii "stts", ascii "stsc", ascii "stsz", ascii "stco"] ∧
      at_.elst = none := by
  intro file mv hmv at_ ht
  obtain ⟨-, -, ha⟩ := e2e_tracks w hr width height md fast hok hfit mv hmv
  rw [ha tr hau at_ ht]
  exact ⟨rfl, rfl, rfl, rfl, rfl, rfl, rfl⟩

/-- The strict decoders on what the reader returned for the audio track: media header, handler
    `soun`, track id 2 and volume 0x0100 in the (non-conformant, see above) `tkhd`, and the audio
    sample entry with its codec configuration: `Opus > dOps` for Opus, `mp4a > esds` otherwise
    (the AAC entry's 16.16 rate field wraps for rates ≥ 65 536, `C07_audio_rate_counterexample`;
    the entry is stated with the wrapped value). -/
theorem C19_e2e_audio_records (w : Writer) (hr : w.Reachable) (width height : Nat) (md : Option Metadata)
    (fast : Bool) (hok : (w.finalize width height md fast).2.res = .ok)
    (hfit : MoovFits w width height md fast) (tr : AudioTrack) (hau : w.audio = some tr) :
    let file := (w.finalize width height md fast).2.chunks.flatten
    ∀ mv, parseMovie file = some mv → ∀ at_, mv.tracks[1]? = some at_ →
      strictMdhd at_.mdhd = some ⟨90000, aTicks w, langCode ((md.bind (·.language)).getD [117, 110, 100])⟩ ∧
      strictHdlr at_.hdlr = some (tag "soun") ∧
      strictTkhd at_.tkhd = none ∧ be at_.tkhd 12 4 = 2 ∧ be at_.tkhd 40 2 = 0x0100 ∧
      be at_.tkhd 20 4 = toMs (aTicks w) ∧
      at_.stsd.kids = [bAudioEntry tr] ∧
      (tr.codec = .opus → tr.channels < 2^16 →
        path? ["Opus", "dOps"] at_.stsd.kids = some (bDops tr) ∧
        at_.stsd.kids.map (fun e => strictAudioEntry e.pre) = [some ⟨tr.channels, 16, 48000 * 65536⟩]) ∧
      (tr.codec ≠ .opus → tr.channels < 2^16 →
        path? ["mp4a", "esds"] at_.stsd.kids = some (bEsds tr) ∧
        strictEsds (bEsds tr).pre = some ⟨0x40, 0x15, ascBytes tr.sampleRate tr.channels⟩ ∧
        at_.stsd.kids.map (fun e => strictAudioEntry e.pre) =
          [some ⟨tr.channels, 16, tr.sampleRate % 65536 * 65536⟩]) := by
  intro file mv hmv at_ ht
  obtain ⟨h1, h2, h3, h4, -⟩ := C19_e2e_audio_headers w hr width height md fast hok hfit tr hau mv hmv at_ ht
  obtain ⟨-, -, -, s2, -⟩ := C16.C16_finalize_values w hr width height md fast hok
  have hms : toMs (aTicks w) < 2^32 := Nat.lt_of_le_of_lt (C19_e2e_toMs_le _) s2
  obtain ⟨-, -, -, -, p5, -, p7, -, p9, -⟩ :=
    C19.C19_tkhd_partial 2 0x0100 0 0 (toMs (aTicks w)) (by omega) (by omega) (by omega) (by omega) hms
  rw [h1, h2, h3, h4]
  refine ⟨C19.C19_mdhd_90k _ _ s2, C19.C19_hdlr.2, C19.C19_tkhd_counterexample _ _ _ _ _, p5, p9, p7, rfl, ?_, ?_⟩
  · intro hc hch
    have e : bAudioEntry tr = bOpus tr := by unfold bAudioEntry; rw [hc]
    have hk : (bStsd (bAudioEntry tr)).kids = [bOpus tr] := by rw [e]; rfl
    rw [hk]
    refine ⟨rfl, ?_⟩
    show [strictAudioEntry (bOpus tr).pre] = _
    rw [(C07.C07_opus_entry tr hch).2]
  · intro hc hch
    have e : bAudioEntry tr = bMp4a tr := by
      unfold bAudioEntry
      cases hcd : tr.codec with
      | opus => exact absurd hcd hc
      | aac p => rfl
      | none => rfl
    have hk : (bStsd (bAudioEntry tr)).kids = [bMp4a tr] := by rw [e]; rfl
    rw [hk]
    refine ⟨rfl, C07.C07_esds tr, ?_⟩
    show [strictAudioEntry (bMp4a tr).pre] = _
    rw [C07.C07_mp4a_entry_wrap tr hch]

/-! ## 4. movie header and track ids -/

/-- The reader's `mvhd` payload is that of `bMvhd` with the movie duration in ms (the longer
    track) and the next-track id of `C19_track_ids`; the strict decoder recovers timescale 1000,
    that duration and that id; and the track ids read from the tracks' `tkhd` payloads (1, and 2
    with an audio track) are distinct, non-zero and below the next-track id. -/
theorem C19_e2e_mvhd (w : Writer) (hr : w.Reachable) (width height : Nat) (md : Option Metadata)
    (fast : Bool) (hok : (w.finalize width height md fast).2.res = .ok)
    (hfit : MoovFits w width height md fast) :
    let file := (w.finalize width height md fast).2.chunks.flatten
    ∀ mv, parseMovie file = some mv →
      mv.mvhd = (bMvhd (movieMs w) (nextTrackId w)).pre ∧
      strictMvhd mv.mvhd = some ⟨1000, movieMs w, nextTrackId w⟩ ∧
      be mv.mvhd 96 4 = nextTrackId w ∧
      mv.tracks.map (fun t => be t.tkhd 12 4) = (if w.audio.isSome then [1, 2] else [1]) ∧
      mv.moov = writtenMoov w width height md fast := by
  intro file mv hmv
  obtain ⟨hd, -, -⟩ := e2e_tracks w hr width height md fast hok hfit mv hmv
  obtain ⟨-, -, s1, s2, -⟩ := C16.C16_finalize_values w hr width height md fast hok
  have e : mv.mvhd = (bMvhd (movieMs w) (nextTrackId w)).pre := hd.mvhd
  have hms : movieMs w < 2^32 := by
    unfold movieMs
    have s1' : vTicks w < 2^32 := s1
    have s2' : aTicks w < 2^32 := s2
    have := C19_e2e_toMs_le (vTicks w)
    have := C19_e2e_toMs_le (aTicks w)
    cases w.audio <;> simp only [] <;> omega
  have hn : nextTrackId w < 2^32 := by unfold nextTrackId; split <;> omega
  have hs := C19.C19_mvhd (movieMs w) (nextTrackId w) hms hn
  have htk : ∀ a b c d e, be (bTkhd a b c d e).pre 12 4 = a % 2^32 := by
    intro a b c d e
    simp [bTkhd, leaf, Box.pre, u32be, be, u8, UInt8.toNat_ofNat']
    omega
  refine ⟨e, by rw [e]; exact hs, ?_, ?_, hd.moov⟩
  · rw [e]
    unfold strictMvhd at hs
    split at hs
    · have := congrArg (Option.map (·.nextTrackId)) hs; simpa using this
    · cases hs
  · rw [hd.tracks, tracksOf]
    cases hau : w.audio with
    | none =>
      simp only [List.map_cons, List.map_nil, Option.isSome_none, Bool.false_eq_true, if_false]
      show [be (bTkhd 1 0 _ _ _).pre 12 4] = _
      rw [htk]
    | some tr =>
      simp only [List.map_cons, List.map_nil, Option.isSome_some, if_true]
      show [be (bTkhd 1 0 _ _ _).pre 12 4, be (bTkhd 2 0x0100 0 0 _).pre 12 4] = _
      rw [htk, htk]

/-! ## Non-vacuity -/
namespace Example
open Muxide.Props.C01E2E.Example

theorem wE_vc : vcOf wE = .avc ⟨[103, 66, 0, 30], [104, 206]⟩ := by rw [wE_eq]; rfl

/-- the example writer of C01E2E (H.264 + Opus), both layouts: the reader's video `stsd` leads to
    the `avcC` whose strict decoding gives back the SPS and PPS of the first key frame; the
    handler types are `vide` / `soun`; the audio entry is the Opus entry with `dOps`; the movie
    header carries next-track id 3 and the tracks the ids 1 and 2 -/
example (fast : Bool) : ∃ mv vt at_, parseMovie (wE.finalize 640 480 none fast).2.chunks.flatten = some mv ∧
    mv.tracks[0]? = some vt ∧ mv.tracks[1]? = some at_ ∧
    (path? ["avc1", "avcC"] vt.stsd.kids).bind (strictAvcC ·.pre) =
      some ⟨66, 0, 30, [[103, 66, 0, 30]], [[104, 206]]⟩ ∧
    vt.stsd.kids.map (fun e => strictVisualEntry e.pre) = [some ⟨640, 480⟩] ∧
    strictHdlr vt.hdlr = some (tag "vide") ∧ strictHdlr at_.hdlr = some (tag "soun") ∧
    vt.mediaHeaderType = ascii "vmhd" ∧ at_.mediaHeaderType = ascii "smhd" ∧
    vt.stblTypes = [ascii "stsd", ascii "stts", ascii "stsc", ascii "stsz", ascii "stco", ascii "stss"] ∧
    path? ["Opus", "dOps"] at_.stsd.kids = some (bDops tr0) ∧
    be mv.mvhd 96 4 = 3 ∧ mv.tracks.map (fun t => be t.tkhd 12 4) = [1, 2] := by
  obtain ⟨mv, hmv, hd⟩ := e2e_full wE wE_reachable 640 480 none fast (wE_ok fast) (wE_fits fast)
  have hau : wE.audio = some tr0 := by rw [wE_eq]; rfl
  have h0 : mv.tracks[0]? = some (mv.tracks[0]'(by rw [hd.tracks]; simp [tracksOf])) := List.getElem?_eq_getElem _
  have h1 : mv.tracks[1]? = some (mv.tracks[1]'(by rw [hd.tracks]; simp [tracksOf, hau])) := List.getElem?_eq_getElem _
  obtain ⟨-, -, -, -, v5, -⟩ := C19_e2e_video_headers wE wE_reachable 640 480 none fast (wE_ok fast) (wE_fits fast) mv hmv _ h0
  obtain ⟨-, r2, -, -, r5⟩ := C19_e2e_video_records wE wE_reachable 640 480 none fast (wE_ok fast) (wE_fits fast) mv hmv _ h0
  obtain ⟨c1, -⟩ := C19_e2e_video_config_records wE wE_reachable 640 480 none fast (wE_ok fast) (wE_fits fast) mv hmv _ h0
  have so := C19_e2e_video_stbl_order wE wE_reachable 640 480 none fast (wE_ok fast) (wE_fits fast) mv hmv _ h0
  obtain ⟨-, -, -, -, a5, -⟩ := C19_e2e_audio_headers wE wE_reachable 640 480 none fast (wE_ok fast) (wE_fits fast) tr0 hau mv hmv _ h1
  obtain ⟨-, q2, -, -, -, -, -, q8, -⟩ := C19_e2e_audio_records wE wE_reachable 640 480 none fast (wE_ok fast) (wE_fits fast) tr0 hau mv hmv _ h1
  obtain ⟨-, -, m3, m4, -⟩ := C19_e2e_mvhd wE wE_reachable 640 480 none fast (wE_ok fast) (wE_fits fast) mv hmv
  refine ⟨mv, _, _, hmv, h0, h1, ?_, r5, r2, q2, v5, a5, ?_, (q8 rfl (by decide)).1, ?_, ?_⟩
  · exact c1 _ wE_vc (by decide) (by decide)
  · rw [so, wE_eq]; rfl
  · rw [m3]; unfold nextTrackId; rw [hau]; rfl
  · rw [m4, hau]; rfl
end Example

end Muxide.Props.C19E2E
