import Muxide.Lemmas.E2E2
import Muxide.Props.C18
/-
  C18 (end to end) — the METADATA a reader sees. The independent reader `Spec.parseMovie`, applied
  to the very bytes `Writer.finalize` hands to the sink, returns
  * as `mv.udta` (its own lookup of the `udta` child of the parsed moov) exactly the box `bUdta`
    built from the metadata — so every box-level theorem of Props/C18.lean (`C18_udta_some`,
    `C18_title_item`, `C18_day_item`, `C18_no_other_items`, `C18_format`, …) is a statement about
    what the READER returns; `none` exactly when no metadata was given or it has neither title
    nor creation time;
  * walking the reader's own path `udta / meta / ilst`: one name item whose `data` payload is the
    title, byte for byte, iff a title is configured; one day item whose `data` payload is the
    formatted creation time iff one is configured; nothing else;
  * in every decoded track's `mdhd` payload, at bytes 20–21, the packed language code of
    `C18_mdhd_lang` (which `C18_lang` unpacks to the configured three letters).
  Same hypotheses as C01E2E: reachable writer, `finalize` returned ok, `MoovFits`.
-/
namespace Muxide.Props.C18E2E
open Muxide Muxide.Spec Box Muxide.Props.C08 Muxide.Props.C01E2E

/-! ## reader-side views -/

/-- the reader's item list: `udta / meta / ilst` below the movie's user-data box -/
def ilstOf (mv : Movie) : Option Box := mv.udta.bind fun u => path? ["meta", "ilst"] u.kids

/-- the values of the items of type `typ`: for each such child of the item list, the payload of
    its `data` box after the 8-byte type-indicator / locale header -/
def itemValues (mv : Movie) (typ : Bytes) : Option (List (Option Bytes)) :=
  (ilstOf mv).map fun il =>
    (il.kids.filter (fun b => b.typ = typ)).map fun b => (child? "data" b.kids).map (·.pre.drop 8)

/-! ## 1. the user-data box -/

/-- The reader's `udta` is exactly what `bUdta` built from the metadata (or nothing). -/
theorem C18_e2e_udta (w : Writer) (hr : w.Reachable) (width height : Nat) (md : Option Metadata)
    (fast : Bool) (hok : (w.finalize width height md fast).2.res = .ok)
    (hfit : MoovFits w width height md fast) :
    let file := (w.finalize width height md fast).2.chunks.flatten
    ∀ mv, parseMovie file = some mv → mv.udta = md.bind bUdta := by
  intro file mv hmv
  exact (e2e_tracks w hr width height md fast hok hfit mv hmv).1.udta

/-- The reader finds no user data exactly when no metadata was given, or the metadata has
    neither a title nor a creation time (a language alone goes to the media headers only). -/
theorem C18_e2e_udta_none_iff (w : Writer) (hr : w.Reachable) (width height : Nat) (md : Option Metadata)
    (fast : Bool) (hok : (w.finalize width height md fast).2.res = .ok)
    (hfit : MoovFits w width height md fast) :
    let file := (w.finalize width height md fast).2.chunks.flatten
    ∀ mv, parseMovie file = some mv →
      (mv.udta = none ↔ (md = none ∨ ∃ m, md = some m ∧ m.title = none ∧ m.ctime = none)) := by
  intro file mv hmv
  rw [C18_e2e_udta w hr width height md fast hok hfit mv hmv]
  cases md with
  | none => simp
  | some m =>
    simp only [Option.bind_some, C18.C18_udta_none, reduceCtorEq, Option.some.injEq, false_or]
    constructor
    · intro h; exact ⟨m, rfl, h⟩
    · rintro ⟨m', rfl, h⟩; exact h

/-- With a title or a creation time the reader's `udta` is `some u` with `bUdta m = some u`, and
    `u` is the tree `udta > meta(hdlr "mdir", ilst(items))` of `C18_udta_some`, whose items are
    characterised by `C18_title_item`, `C18_day_item`, `C18_no_other_items`. -/
theorem C18_e2e_udta_some (w : Writer) (hr : w.Reachable) (width height : Nat) (m : Metadata)
    (fast : Bool) (hok : (w.finalize width height (some m) fast).2.res = .ok)
    (hfit : MoovFits w width height (some m) fast) (h : m.title ≠ none ∨ m.ctime ≠ none) :
    let file := (w.finalize width height (some m) fast).2.chunks.flatten
    ∀ mv, parseMovie file = some mv →
      ∃ u, mv.udta = some u ∧ bUdta m = some u ∧
        u = node "udta" [] [node "meta" (zeros 4) [bMetaHdlr, node "ilst" [] (C18.items m)]] ∧
        ilstOf mv = some (node "ilst" [] (C18.items m)) := by
  intro file mv hmv
  have hu := C18_e2e_udta w hr width height (some m) fast hok hfit mv hmv
  have hs := C18.C18_udta_some m h
  rw [Option.bind_some, hs] at hu
  refine ⟨_, hu, hs, rfl, ?_⟩
  unfold ilstOf
  rw [hu]
  rfl

/-! ## 2. title and creation time, read along the reader's own path -/

/-- values of the name / day items of the item list `C18.items m` -/
theorem C18_e2e_items_values (m : Metadata) :
    (((C18.items m).filter (fun b => b.typ = namType)).map fun b => (child? "data" b.kids).map (·.pre.drop 8)) =
      (match m.title with | some t => [some t] | none => []) ∧
    (((C18.items m).filter (fun b => b.typ = dayType)).map fun b => (child? "data" b.kids).map (·.pre.drop 8)) =
      (match m.ctime with | some c => [some (formatTimestamp c)] | none => []) := by
  rw [C18.C18_title_item, C18.C18_day_item]
  constructor
  · cases m.title <;> simp [child?, tag, leaf, Box.typ, Box.kids, Box.pre]
  · cases m.ctime <;> simp [child?, tag, leaf, Box.typ, Box.kids, Box.pre]

/-- Title: the reader finds, under `udta / meta / ilst`, exactly one `©nam` item whose `data`
    payload is the configured title byte for byte — none when only a creation time is configured;
    and no item list at all (`none`) when neither is configured or no metadata was given. -/
theorem C18_e2e_title (w : Writer) (hr : w.Reachable) (width height : Nat) (md : Option Metadata)
    (fast : Bool) (hok : (w.finalize width height md fast).2.res = .ok)
    (hfit : MoovFits w width height md fast) :
    let file := (w.finalize width height md fast).2.chunks.flatten
    ∀ mv, parseMovie file = some mv →
      (∀ m, md = some m → (m.title ≠ none ∨ m.ctime ≠ none) →
        itemValues mv namType = some (match m.title with | some t => [some t] | none => [])) ∧
      ((md = none ∨ ∃ m, md = some m ∧ m.title = none ∧ m.ctime = none) → itemValues mv namType = none) := by
  intro file mv hmv
  constructor
  · rintro m rfl h
    obtain ⟨u, -, -, -, hi⟩ := C18_e2e_udta_some w hr width height m fast hok hfit h mv hmv
    unfold itemValues
    rw [hi, Option.map_some]
    exact congrArg some (C18_e2e_items_values m).1
  · intro h
    have := (C18_e2e_udta_none_iff w hr width height md fast hok hfit mv hmv).mpr h
    unfold itemValues ilstOf
    rw [this]; rfl

/-- Creation time: exactly one `©day` item whose `data` payload is `formatTimestamp c`
    (`YYYY-MM-DDTHH:MM:SSZ`, see `C18_format`, `C18_date`) iff a creation time is configured. -/
theorem C18_e2e_day (w : Writer) (hr : w.Reachable) (width height : Nat) (md : Option Metadata)
    (fast : Bool) (hok : (w.finalize width height md fast).2.res = .ok)
    (hfit : MoovFits w width height md fast) :
    let file := (w.finalize width height md fast).2.chunks.flatten
    ∀ mv, parseMovie file = some mv →
      (∀ m, md = some m → (m.title ≠ none ∨ m.ctime ≠ none) →
        itemValues mv dayType = some (match m.ctime with | some c => [some (formatTimestamp c)] | none => [])) ∧
      ((md = none ∨ ∃ m, md = some m ∧ m.title = none ∧ m.ctime = none) → itemValues mv dayType = none) := by
  intro file mv hmv
  constructor
  · rintro m rfl h
    obtain ⟨u, -, -, -, hi⟩ := C18_e2e_udta_some w hr width height m fast hok hfit h mv hmv
    unfold itemValues
    rw [hi, Option.map_some]
    exact congrArg some (C18_e2e_items_values m).2
  · intro h
    have := (C18_e2e_udta_none_iff w hr width height md fast hok hfit mv hmv).mpr h
    unfold itemValues ilstOf
    rw [this]; rfl

/-! ## 3. language -/

theorem C18_e2e_mdhd_lang_be (ts dur : Nat) (lang : Option (List Nat)) :
    be (bMdhd ts dur lang).pre 20 2 = langCode (lang.getD [117, 110, 100]) := by
  have hl := langCode_lt15 (lang.getD [117, 110, 100])
  unfold bMdhd
  generalize langCode (lang.getD [117, 110, 100]) = l at *
  simp [leaf, Box.pre, u32be, u16be, be, u8, UInt8.toNat_ofNat']
  omega

/-- every track the reader returns has a media header built by `bMdhd` with the configured
    language -/
theorem C18_e2e_tracks_mdhd (w : Writer) (hr : w.Reachable) (width height : Nat) (md : Option Metadata)
    (fast : Bool) (hok : (w.finalize width height md fast).2.res = .ok)
    (hfit : MoovFits w width height md fast) (mv : Movie)
    (hmv : parseMovie (fileOf w width height md fast) = some mv) :
    ∀ t ∈ mv.tracks, ∃ dur, t.mdhd = (bMdhd 90000 dur (md.bind (·.language))).pre := by
  obtain ⟨hd, -, -⟩ := e2e_tracks w hr width height md fast hok hfit mv hmv
  intro t ht
  rw [hd.tracks, tracksOf] at ht
  cases hau : w.audio with
  | none =>
    simp only [hau, List.mem_singleton] at ht
    exact ⟨_, by rw [ht]; rfl⟩
  | some tr =>
    simp only [hau, List.mem_cons, List.not_mem_nil, or_false] at ht
    rcases ht with rfl | rfl
    · exact ⟨_, rfl⟩
    · exact ⟨_, rfl⟩

/-- Language: in EVERY track the reader returns (video, and audio when configured) the `mdhd`
    payload carries at bytes 20–21 the packed code of the configured language ("und" when none is
    configured or no metadata was given): as raw bytes, as a big-endian field, and as a 16-bit
    read. -/
theorem C18_e2e_mdhd_lang (w : Writer) (hr : w.Reachable) (width height : Nat) (md : Option Metadata)
    (fast : Bool) (hok : (w.finalize width height md fast).2.res = .ok)
    (hfit : MoovFits w width height md fast) :
    let file := (w.finalize width height md fast).2.chunks.flatten
    let code := langCode ((md.bind (·.language)).getD [117, 110, 100])
    ∀ mv, parseMovie file = some mv → ∀ (i : Nat) (t : Track), mv.tracks[i]? = some t →
      (t.mdhd.drop 20).take 2 = u16be code ∧ be t.mdhd 20 2 = code ∧ code < 2^15 ∧
      ∃ rest, readU16 (t.mdhd.drop 20) = some (code, rest) := by
  intro file code mv hmv i t ht
  obtain ⟨dur, e⟩ := C18_e2e_tracks_mdhd w hr width height md fast hok hfit mv hmv t (List.mem_of_getElem? ht)
  rw [e]
  exact ⟨C18.C18_mdhd_lang _ _ _, C18_e2e_mdhd_lang_be _ _ _, langCode_lt15 _, C18.C18_mdhd_read _ _ _⟩

/-- … so a configured language of three lower-case ASCII letters is recovered from every track
    by unpacking the 15-bit field (`C18_lang`). -/
theorem C18_e2e_lang_roundtrip (w : Writer) (hr : w.Reachable) (width height : Nat) (m : Metadata)
    (fast : Bool) (hok : (w.finalize width height (some m) fast).2.res = .ok)
    (hfit : MoovFits w width height (some m) fast) (a b c : Nat) (hl : m.language = some [a, b, c])
    (ha : 97 ≤ a ∧ a ≤ 122) (hb : 97 ≤ b ∧ b ≤ 122) (hc : 97 ≤ c ∧ c ≤ 122) :
    let file := (w.finalize width height (some m) fast).2.chunks.flatten
    ∀ mv, parseMovie file = some mv → ∀ (i : Nat) (t : Track), mv.tracks[i]? = some t →
      unpackLang (be t.mdhd 20 2) = [a, b, c] := by
  intro file mv hmv i t ht
  obtain ⟨-, h, -⟩ := C18_e2e_mdhd_lang w hr width height (some m) fast hok hfit mv hmv i t ht
  rw [h]
  simp only [Option.bind_some, hl, Option.getD_some]
  exact C18.C18_lang a b c ha.1 ha.2 hb.1 hb.2 hc.1 hc.2

/-- without a configured language every track reads back "und" -/
theorem C18_e2e_lang_default (w : Writer) (hr : w.Reachable) (width height : Nat) (md : Option Metadata)
    (fast : Bool) (hok : (w.finalize width height md fast).2.res = .ok)
    (hfit : MoovFits w width height md fast) (hl : md.bind (·.language) = none) :
    let file := (w.finalize width height md fast).2.chunks.flatten
    ∀ mv, parseMovie file = some mv → ∀ (i : Nat) (t : Track), mv.tracks[i]? = some t →
      unpackLang (be t.mdhd 20 2) = [117, 110, 100] := by
  intro file mv hmv i t ht
  obtain ⟨-, h, -⟩ := C18_e2e_mdhd_lang w hr width height md fast hok hfit mv hmv i t ht
  rw [h, hl]
  exact C18.C18_lang_default

/-! ## Corner: a language longer than three scalar values, or outside `a`–`z`

  `langCode` keeps the first three scalar values and packs `(x − 0x60) mod 32` of each; the
  round trip of `C18_e2e_lang_roundtrip` therefore needs exactly three lower-case ASCII letters.
  For other strings the field is still the `langCode` of the configured value (the theorem
  `C18_e2e_mdhd_lang` has no side condition), but unpacking does not give the string back:
  "FRA" reads back as three 0x60 bytes, "fran" as "fra", "fr" as "frd" (padded from "und"). -/
theorem C18_e2e_lang_uppercase_counterexample :
    unpackLang (langCode [70, 82, 65]) = [96, 96, 96] ∧
    unpackLang (langCode [102, 114, 97, 110]) = [102, 114, 97] ∧
    unpackLang (langCode [102, 114]) = [102, 114, 100] := by decide

/-! ## Non-vacuity -/
namespace Example
open Muxide.Props.C01E2E.Example

/-- the example writer of C01E2E, finalised without metadata, both layouts: the reader finds no
    user data, and both tracks' media headers carry "und" (0x55C4) -/
example (fast : Bool) : ∃ mv, parseMovie (wE.finalize 640 480 none fast).2.chunks.flatten = some mv ∧
    mv.udta = none ∧ itemValues mv namType = none ∧ mv.tracks.length = 2 ∧
    ∀ (i : Nat) (t : Track), mv.tracks[i]? = some t → be t.mdhd 20 2 = 0x55C4 ∧ unpackLang (be t.mdhd 20 2) = [117, 110, 100] := by
  obtain ⟨mv, hmv, hd⟩ := e2e_full wE wE_reachable 640 480 none fast (wE_ok fast) (wE_fits fast)
  have hau : wE.audio = some tr0 := by rw [wE_eq]; rfl
  refine ⟨mv, hmv, ?_, ?_, by rw [hd.tracks]; simp [tracksOf, hau], ?_⟩
  · exact (C18_e2e_udta_none_iff wE wE_reachable 640 480 none fast (wE_ok fast) (wE_fits fast) mv hmv).mpr (.inl rfl)
  · exact (C18_e2e_title wE wE_reachable 640 480 none fast (wE_ok fast) (wE_fits fast) mv hmv).2 (.inl rfl)
  · intro i t ht
    obtain ⟨-, h, -⟩ := C18_e2e_mdhd_lang wE wE_reachable 640 480 none fast (wE_ok fast) (wE_fits fast) mv hmv i t ht
    refine ⟨by rw [h]; decide, ?_⟩
    exact C18_e2e_lang_default wE wE_reachable 640 480 none fast (wE_ok fast) (wE_fits fast) rfl mv hmv i t ht

/-- a fresh writer finalised WITH metadata (title "Hi", creation time 86 400 s, language "fra"),
    by evaluation of the reader on the written bytes: the title item holds "Hi", the day item
    "1970-01-02T00:00:00Z", and the media header the packed "fra" -/
theorem C18_e2e_metadata_example :
    let w : Writer := { codec := .h264 }
    let md : Option Metadata := some { title := some [72, 105], ctime := some 86400, language := some [102, 114, 97] }
    let file := (w.finalize 16 16 md false).2.chunks.flatten
    (w.finalize 16 16 md false).2.res = .ok ∧
    (parseMovie file).bind (itemValues · namType) = some [some [72, 105]] ∧
    (parseMovie file).bind (itemValues · dayType) =
      some [some [49, 57, 55, 48, 45, 48, 49, 45, 48, 50, 84, 48, 48, 58, 48, 48, 58, 48, 48, 90]] ∧
    (parseMovie file).map (fun mv => mv.tracks.map fun t => unpackLang (be t.mdhd 20 2)) = some [[102, 114, 97]] := by
  decide +kernel

/-- the same instance through the theorems: hypotheses are satisfiable with metadata present -/
example :
    let w : Writer := { codec := .h264 }
    let m : Metadata := { title := some [72, 105], ctime := some 86400, language := some [102, 114, 97] }
    ∃ mv, parseMovie (w.finalize 16 16 (some m) false).2.chunks.flatten = some mv ∧
      itemValues mv namType = some [some [72, 105]] ∧
      itemValues mv dayType = some [some (formatTimestamp 86400)] := by
  intro w m
  have hr : w.Reachable := .init .h264 none
  have hok : (w.finalize 16 16 (some m) false).2.res = .ok := by decide +kernel
  have hfit : MoovFits w 16 16 (some m) false := by
    unfold MoovFits; decide +kernel
  obtain ⟨mv, hmv, -⟩ := e2e_full w hr 16 16 (some m) false hok hfit
  refine ⟨mv, hmv, ?_, ?_⟩
  · exact (C18_e2e_title w hr 16 16 (some m) false hok hfit mv hmv).1 m rfl (.inl (by simp [m]))
  · exact (C18_e2e_day w hr 16 16 (some m) false hok hfit mv hmv).1 m rfl (.inl (by simp [m]))
end Example

end Muxide.Props.C18E2E
