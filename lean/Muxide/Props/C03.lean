import Muxide.Lemmas.Timing
/-
  C03 — timing tables of the progressive MP4 writer: decode-time steps are the differences of the
  submitted decode timestamps (in 90 kHz ticks, no accumulated drift), composition offsets are
  `pts - dts`, ctts present iff some offset is non-zero, the final sample repeats the preceding
  interval, and mdhd carries the exact sum of the sample durations.
  Property theorems only; helper lemmas live in Muxide/Lemmas/Timing.lean.
  Everything is stated on the writer, whose inputs are already ticks: the API applies
  `F64.ticks` to every absolute timestamp and never accumulates.
-/
namespace Muxide.Props.C03
open Muxide

/-! ## 1. the writer invariant

`VInv w` (see `TrackInv`, `Linked`, `lastDeltaOf` in Lemmas/Timing.lean) says, for the newest-first
queue `w.vsRev = sₙ :: … :: s₁`: decode times strictly increase oldest → newest, every step is at
most 2^32-1, each non-newest sample has `dur = some (dtsᵢ₊₁ - dtsᵢ)`, the newest has `dur = none`,
`w.vPrev = some dtsₙ` (none iff empty), `w.vLastDelta = some (dtsₙ - dtsₙ₋₁)` iff n ≥ 2, and
`-2^31 ≤ pts - dts ≤ 2^31 - 1` for every sample. `AInv` is the same for audio with non-decreasing
times and `pts = dts`. -/

/-- the invariant in unfolded form, for the two newest samples -/
theorem VInv_unfold (w : Writer) : VInv w ↔
    Linked true w.vsRev ∧ (∀ s r, w.vsRev = s :: r → s.dur = none) ∧
    w.vPrev = w.vsRev.head?.map (·.dts) ∧ w.vLastDelta = lastDeltaOf w.vsRev ∧
    (∀ s ∈ w.vsRev, -(2^31 : Int) ≤ (s.pts : Int) - s.dts ∧ (s.pts : Int) - s.dts ≤ 2^31 - 1) :=
  ⟨fun h => ⟨h.linked, h.newest, h.prev_eq, h.ld_eq, h.cts⟩, fun ⟨a, b, c, d, e⟩ => ⟨a, b, c, d, e⟩⟩

theorem VInv_init (codec : VCodec) (audio : Option AudioTrack) :
    VInv { codec := codec, audio := audio } := TrackInv_nil true

theorem AInv_init (codec : VCodec) (audio : Option AudioTrack) :
    AInv { codec := codec, audio := audio } := ⟨TrackInv_nil false, by simp⟩

/-- a rejected video frame leaves the writer unchanged -/
theorem writeVideo_rejected (w : Writer) (pts dts : Nat) (data : Bytes) (key : Bool)
    (h : (w.writeVideo pts dts data key).2 ≠ .ok) : (w.writeVideo pts dts data key).1 = w := by
  rcases writeVideo_cases w pts dts data key with h' | h'
  · exact h'.1
  · exact absurd h'.1 h

/-- a rejected audio frame leaves the writer unchanged -/
theorem writeAudio_rejected (w : Writer) (pts : Nat) (data : Bytes)
    (h : (w.writeAudio pts data).2 ≠ .ok) : (w.writeAudio pts data).1 = w := by
  rcases writeAudio_cases w pts data with h' | h'
  · exact h'.1
  · exact absurd h'.1 h

theorem VInv_writeVideo (w : Writer) (pts dts : Nat) (data : Bytes) (key : Bool) (h : VInv w) :
    VInv (w.writeVideo pts dts data key).1 := by
  rcases writeVideo_cases w pts dts data key with h' | ⟨_, _, c1, c2, ⟨hp, c, e⟩ | ⟨prev, hp, h1, h2, e⟩⟩
  · rw [h'.1]; exact h
  · rw [e]; unfold VInv at h ⊢; rw [hp] at h
    exact TrackInv_push_first h pts dts _ key ⟨c1, c2⟩
  · rw [e]; unfold VInv at h ⊢; rw [hp] at h
    exact TrackInv_push_next h pts dts _ key (Nat.le_of_lt h1) (fun _ => h1) h2 ⟨c1, c2⟩

theorem AInv_writeVideo (w : Writer) (pts dts : Nat) (data : Bytes) (key : Bool) (h : AInv w) :
    AInv (w.writeVideo pts dts data key).1 := by
  rcases writeVideo_cases w pts dts data key with h' | ⟨_, _, _, _, ⟨_, c, e⟩ | ⟨prev, _, _, _, e⟩⟩
  · rw [h'.1]; exact h
  · rw [e]; exact h
  · rw [e]; exact h

theorem VInv_writeAudio (w : Writer) (pts : Nat) (data : Bytes) (h : VInv w) :
    VInv (w.writeAudio pts data).1 := by
  rcases writeAudio_cases w pts data with h' | ⟨_, _, sd, ⟨_, e⟩ | ⟨prev, _, _, _, e⟩⟩
  · rw [h'.1]; exact h
  · rw [e]; exact h
  · rw [e]; exact h

theorem AInv_writeAudio (w : Writer) (pts : Nat) (data : Bytes) (h : AInv w) :
    AInv (w.writeAudio pts data).1 := by
  have hc : -(2^31 : Int) ≤ (pts : Int) - pts ∧ (pts : Int) - pts ≤ 2^31 - 1 := by omega
  rcases writeAudio_cases w pts data with h' | ⟨_, _, sd, ⟨hp, e⟩ | ⟨prev, hp, h1, h2, e⟩⟩
  · rw [h'.1]; exact h
  · rw [e]; unfold AInv at h ⊢; rw [hp] at h
    refine ⟨TrackInv_push_first h.1 pts pts _ false hc, ?_⟩
    intro s hs
    rcases List.mem_cons.mp hs with rfl | hs
    · rfl
    · exact h.2 s hs
  · rw [e]; unfold AInv at h ⊢; rw [hp] at h
    refine ⟨TrackInv_push_next h.1 pts pts _ false h1 (by simp) h2 hc, ?_⟩
    intro s hs
    rcases List.mem_cons.mp hs with rfl | hs
    · rfl
    · cases hr : w.asRev with
      | nil => rw [hr] at hs; simp [setLastDur] at hs
      | cons a r =>
        rw [hr] at hs; simp only [setLastDur, List.mem_cons] at hs
        rcases hs with rfl | hs
        · exact h.2 a (by simp [hr])
        · exact h.2 s (by simp [hr, hs])

/-! ## 2. sample durations = steps of the decode timestamps; no drift -/

/-- per-track statement (video: `strict = true`; audio: `strict = false`) -/
theorem track_durations {strict : Bool} {rev : List Sample} {prev ld : Option Nat}
    (h : TrackInv strict rev prev ld) :
    (rev = [] → durationsOf rev.reverse ld = []) ∧
    (∀ s, rev = [s] → durationsOf rev.reverse ld = [1]) ∧
    (∀ s t r, rev = s :: t :: r →
      durationsOf rev.reverse ld =
        List.zipWith (· - ·) (dtsOf rev).tail (dtsOf rev) ++ [s.dts - t.dts]) := by
  refine ⟨?_, ?_, ?_⟩
  · rintro rfl; exact durationsOf_nil _
  · rintro s rfl
    rw [TrackInv_durations h, h.ld_eq]; simp [dtsOf, deltas, lastDeltaOf]
  · rintro s t r rfl
    rw [TrackInv_durations h, h.ld_eq, deltas_eq_zipWith]; simp [lastDeltaOf]

/-- the durations the file gives to the video samples: each sample but the last lasts until the
    next decode timestamp; the last one repeats the preceding interval (`s` newest, `t` second
    newest); a lone sample gets 1 tick -/
theorem C03_durations (w : Writer) (h : VInv w) :
    (w.vsRev = [] → durationsOf w.vsRev.reverse w.vLastDelta = []) ∧
    (∀ s, w.vsRev = [s] → durationsOf w.vsRev.reverse w.vLastDelta = [1]) ∧
    (∀ s t r, w.vsRev = s :: t :: r →
      durationsOf w.vsRev.reverse w.vLastDelta =
        List.zipWith (· - ·) (dtsOf w.vsRev).tail (dtsOf w.vsRev) ++ [s.dts - t.dts]) :=
  track_durations h

theorem C03_durations_audio (w : Writer) (h : AInv w) :
    (w.asRev = [] → durationsOf w.asRev.reverse w.aLastDelta = []) ∧
    (∀ s, w.asRev = [s] → durationsOf w.asRev.reverse w.aLastDelta = [1]) ∧
    (∀ s t r, w.asRev = s :: t :: r →
      durationsOf w.asRev.reverse w.aLastDelta =
        List.zipWith (· - ·) (dtsOf w.asRev).tail (dtsOf w.asRev) ++ [s.dts - t.dts]) :=
  track_durations h.1

/-- no accumulated drift on the video track, over any number of frames -/
theorem C03_nodrift (w : Writer) (h : VInv w) (k : Nat) (hk : k < w.vsRev.length) :
    (dtsOf w.vsRev)[0]'(by rw [dtsOf_length]; omega) +
        ((durationsOf w.vsRev.reverse w.vLastDelta).take k).sum =
      (dtsOf w.vsRev)[k]'(by rw [dtsOf_length]; exact hk) :=
  track_nodrift h k hk

theorem C03_nodrift_audio (w : Writer) (h : AInv w) (k : Nat) (hk : k < w.asRev.length) :
    (dtsOf w.asRev)[0]'(by rw [dtsOf_length]; omega) +
        ((durationsOf w.asRev.reverse w.aLastDelta).take k).sum =
      (dtsOf w.asRev)[k]'(by rw [dtsOf_length]; exact hk) :=
  track_nodrift h.1 k hk

/-- submitted video decode timestamps are strictly increasing, audio non-decreasing -/
theorem C03_monotone (w : Writer) (hv : VInv w) (ha : AInv w) :
    (dtsOf w.vsRev).Pairwise (· < ·) ∧ (dtsOf w.asRev).Pairwise (· ≤ ·) :=
  ⟨dtsOf_strict hv.linked, dtsOf_sorted ha.1.linked⟩

/-- every sample duration of either track fits the 32-bit stts field -/
theorem C03_durations_u32 (w : Writer) (hv : VInv w) (ha : AInv w) :
    (∀ d ∈ durationsOf w.vsRev.reverse w.vLastDelta, d ≤ u32Max) ∧
    (∀ d ∈ durationsOf w.asRev.reverse w.aLastDelta, d ≤ u32Max) :=
  ⟨TrackInv_durations_le hv, TrackInv_durations_le ha.1⟩

/-! ## 3. run-length tables -/

/-- expanding the run-length table gives back the per-sample values -/
theorem C03_rle {α} [DecidableEq α] (xs : List α) :
    (rle xs).flatMap (fun (c, x) => List.replicate c x) = xs := by
  have := rleAux_expand xs []
  simpa [rleExpand, rle] using this

/-- every run is non-empty and adjacent runs carry different values -/
theorem C03_rle_runs {α} [DecidableEq α] (xs : List α) : RunsOK (rle xs) :=
  rleAux_runsOK xs [] trivial

/-- the stts / ctts payloads are the run-length tables of the per-sample durations / offsets -/
theorem C03_stts_ctts (ds : List Nat) (os : List Int) :
    bStts ds = Box.leaf "stts" (u32be 0 ++ u32be (rle ds).length ++
      (rle ds).flatMap fun (c, d) => u32be c ++ u32be d) ∧
    bCtts os = Box.leaf "ctts" (u32be 0x01000000 ++ u32be (rle os).length ++
      (rle os).flatMap fun (c, o) => u32be c ++ i32be o) := ⟨rfl, rfl⟩

/-! ## 4. composition offsets and the ctts box -/

/-- `ctsOf` (the `(pts as i64 - dts as i64) as i32` of the writer) is exact for timestamps below
    2^63 whose difference fits an `i32` -/
theorem C03_ctsOf_exact (pts dts : Nat) (hp : pts < 2^63) (hd : dts < 2^63)
    (h1 : -(2^31 : Int) ≤ (pts : Int) - dts) (h2 : (pts : Int) - dts ≤ 2^31 - 1) :
    ctsOf pts dts = some ((pts : Int) - dts) := ctsOf_exact pts dts hp hd h1 h2

/-- on all u64 timestamps whose difference fits an `i32` (which the writer checks when it
    accepts the frame) `ctsOf` is exact: the subtraction is done in 128 bits and cannot overflow.
    (Before the `fix:` commit "composition offsets are computed without i64 overflow" the offset
    computation overflowed for timestamps on different sides of 2^63 ticks and finish panicked.) -/
theorem C03_ctsOf_char (pts dts : Nat) (hp : pts < 2^64) (hd : dts < 2^64)
    (h1 : -(2^31 : Int) ≤ (pts : Int) - dts) (h2 : (pts : Int) - dts ≤ 2^31 - 1) :
    ctsOf pts dts = some ((pts : Int) - dts) :=
  ctsOf_char pts dts hp hd h1 h2

/-- the formerly overflowing case -/
example : ctsOf (2^63) (2^63 - 1) = some 1 := by decide

/-- tables: offsets are `pts - dts` per sample and `hasBframes` says some offset is non-zero,
    whenever `ctsOf` is exact on every sample -/
theorem tables_ctts (vs : List Sample) (offs : List Nat) (spc : Nat) (fb : Option Nat)
    (h : ∀ s ∈ vs, ctsOf s.pts s.dts = some ((s.pts : Int) - s.dts)) :
    (Tables.ofSamples vs offs spc fb).ctsOffsets = vs.map (fun s => (s.pts : Int) - s.dts) ∧
    ((Tables.ofSamples vs offs spc fb).hasBframes = true ↔ ∃ s ∈ vs, s.pts ≠ s.dts) := by
  have e : vs.map (fun s => (ctsOf s.pts s.dts).getD 0) = vs.map (fun s => (s.pts : Int) - s.dts) :=
    List.map_congr_left fun s hs => by rw [h s hs]; rfl
  simp only [Tables.ofSamples, e, true_and, List.any_map, List.any_eq_true]
  constructor
  · rintro ⟨s, hs, hne⟩
    refine ⟨s, hs, ?_⟩
    simp only [Function.comp, decide_eq_true_eq] at hne
    omega
  · rintro ⟨s, hs, hne⟩
    refine ⟨s, hs, ?_⟩
    simp only [Function.comp, decide_eq_true_eq]
    omega

/-- Composition offsets of a finished video track. Hypotheses beyond `VInv`: timestamps are u64
    (the Rust type; the API's `ticks` saturates at 2^64-1) and the offset computation did not
    overflow on any sample — which `C03_finalize_ok` shows is the case whenever finalize
    produced a file. -/
theorem C03_ctts (w : Writer) (offs : List Nat) (spc : Nat) (h : VInv w)
    (h64 : ∀ s ∈ w.vsRev, s.pts < 2^64 ∧ s.dts < 2^64)
    (hnp : ∀ s ∈ w.vsRev, (ctsOf s.pts s.dts).isSome) :
    (Tables.ofSamples w.vsRev.reverse offs spc w.vLastDelta).ctsOffsets =
      w.vsRev.reverse.map (fun s => (s.pts : Int) - s.dts) ∧
    ((Tables.ofSamples w.vsRev.reverse offs spc w.vLastDelta).hasBframes = true ↔
      ∃ s ∈ w.vsRev.reverse, s.pts ≠ s.dts) := by
  apply tables_ctts
  intro s hs
  have hs' : s ∈ w.vsRev := by simpa using hs
  exact ctsOf_exact_of_isSome _ _ (h64 s hs').1 (h64 s hs').2 (h.cts s hs').1 (h.cts s hs').2 (hnp s hs')

/-- the same under the simpler hypothesis that all timestamps are below 2^63 ticks (≈ 3.2 million
    years), with no assumption on the outcome of finalize -/
theorem C03_ctts_partial (w : Writer) (offs : List Nat) (spc : Nat) (h : VInv w)
    (h63 : ∀ s ∈ w.vsRev, s.pts < 2^63 ∧ s.dts < 2^63) :
    (Tables.ofSamples w.vsRev.reverse offs spc w.vLastDelta).ctsOffsets =
      w.vsRev.reverse.map (fun s => (s.pts : Int) - s.dts) ∧
    ((Tables.ofSamples w.vsRev.reverse offs spc w.vLastDelta).hasBframes = true ↔
      ∃ s ∈ w.vsRev.reverse, s.pts ≠ s.dts) := by
  apply tables_ctts
  intro s hs
  have hs' : s ∈ w.vsRev := by simpa using hs
  exact ctsOf_exact _ _ (h63 s hs').1 (h63 s hs').2 (h.cts s hs').1 (h.cts s hs').2

/-- in the video sample table the children of type `ctts` are: the composition-offset table when
    `hasBframes`, nothing otherwise -/
theorem C03_ctts_present (width height : Nat) (t : Tables) (vc : VideoConfig) :
    (bVideoStbl width height t vc).kids.filter (fun b => b.typ = ascii "ctts") =
      if t.hasBframes then [bCtts t.ctsOffsets] else [] := ctts_kids width height t vc

/-- `finalize` produces a file (`res = .ok`) only if no offset computation overflowed and both
    tracks' total durations fit the 32-bit mdhd field -/
theorem C03_finalize_ok (w : Writer) (width height : Nat) (md : Option Metadata) (fast : Bool)
    (h : (w.finalize width height md fast).2.res = .ok) :
    (∀ s ∈ w.vsRev, (ctsOf s.pts s.dts).isSome) ∧
    (durationsOf w.vsRev.reverse w.vLastDelta).sum ≤ 2^32 - 1 ∧
    (durationsOf w.asRev.reverse w.aLastDelta).sum ≤ 2^32 - 1 :=
  finalize_ok_cts w width height md fast h

/-! ## 5. mdhd duration = sum of the sample durations -/

/-- the track boxes carry `bMdhd 90000 (sum of the sample durations)` -/
theorem C03_mdhd_boxes (width height : Nat) (vs : List Sample) (offs : List Nat) (spc : Nat)
    (fb : Option Nat) (vc : VideoConfig) (a : AudioTrack) (lang : Option (List Nat)) :
    (∃ tk rest, bVideoTrak width height (Tables.ofSamples vs offs spc fb) vc lang =
      Box.node "trak" [] [tk, Box.node "mdia" [] (bMdhd 90000 (durationsOf vs fb).sum lang :: rest)]) ∧
    (∃ tk rest, bAudioTrak a (Tables.ofSamples vs offs spc fb) lang =
      Box.node "trak" [] [tk, Box.node "mdia" [] (bMdhd 90000 (durationsOf vs fb).sum lang :: rest)]) :=
  ⟨⟨_, _, rfl⟩, ⟨_, _, rfl⟩⟩

/-- the mdhd payload is version/flags, creation, modification, timescale, then the duration as a
    32-bit big-endian field; reading it back returns the exact value when it fits 32 bits -/
theorem C03_mdhd (timescale dur : Nat) (lang : Option (List Nat)) (h : dur ≤ 2^32 - 1) :
    ∃ rest, (bMdhd timescale dur lang).pre =
        u32be 0 ++ u32be 0 ++ u32be 0 ++ u32be timescale ++ (u32be dur ++ rest) ∧
      readU32 ((bMdhd timescale dur lang).pre.drop 16) = some (dur, rest) := by
  refine ⟨u16be (langCode (lang.getD [117, 110, 100])) ++ u16be 0, ?_, ?_⟩
  · simp [bMdhd, Box.leaf, Box.pre]
  · have : (bMdhd timescale dur lang).pre.drop 16 =
        u32be dur ++ (u16be (langCode (lang.getD [117, 110, 100])) ++ u16be 0) := by
      simp [bMdhd, Box.leaf, Box.pre, u32be]
    rw [this]
    exact readU32_u32be dur (by omega) _

/-- so, for a finished file, both mdhd duration fields read back as the exact sums -/
theorem C03_mdhd_finished (w : Writer) (width height : Nat) (md : Option Metadata) (fast : Bool)
    (lang : Option (List Nat)) (h : (w.finalize width height md fast).2.res = .ok) :
    (∃ rest, readU32 ((bMdhd 90000 (durationsOf w.vsRev.reverse w.vLastDelta).sum lang).pre.drop 16) =
      some ((durationsOf w.vsRev.reverse w.vLastDelta).sum, rest)) ∧
    (∃ rest, readU32 ((bMdhd 90000 (durationsOf w.asRev.reverse w.aLastDelta).sum lang).pre.drop 16) =
      some ((durationsOf w.asRev.reverse w.aLastDelta).sum, rest)) := by
  obtain ⟨-, hv, ha⟩ := C03_finalize_ok w width height md fast h
  obtain ⟨r1, -, e1⟩ := C03_mdhd 90000 _ lang hv
  obtain ⟨r2, -, e2⟩ := C03_mdhd 90000 _ lang ha
  exact ⟨⟨r1, e1⟩, ⟨r2, e2⟩⟩

/-! ## the finished file is built from these tables -/

/-- when finalize produces a file, one of the chunks handed to the sink is the moov built from
    `Tables.ofSamples` of the two queues (see `MoovOf`) — the tables all theorems above are about -/
theorem C03_finished_moov (w : Writer) (width height : Nat) (md : Option Metadata) (fast : Bool)
    (h : (w.finalize width height md fast).2.res = .ok) :
    ∃ moov ∈ (w.finalize width height md fast).2.chunks, MoovOf w width height md moov :=
  finalize_ok_moov w width height md fast h

/-! ## API level: the invariants hold in every reachable state, and the writer receives
    `ticks` of each absolute timestamp -/

/-- both track invariants -/
def Inv (m : Muxer) : Prop := VInv m.w ∧ AInv m.w

theorem C03_inv_build (c : Config) : Inv (build c) :=
  ⟨TrackInv_nil true, TrackInv_nil false, by simp [build]⟩

theorem Inv_writer_writeVideo {w : Writer} (h : VInv w ∧ AInv w) (pts dts : Nat) (data : Bytes) (key : Bool) :
    VInv (w.writeVideo pts dts data key).1 ∧ AInv (w.writeVideo pts dts data key).1 :=
  ⟨VInv_writeVideo w pts dts data key h.1, AInv_writeVideo w pts dts data key h.2⟩

theorem Inv_writer_writeAudio {w : Writer} (h : VInv w ∧ AInv w) (pts : Nat) (data : Bytes) :
    VInv (w.writeAudio pts data).1 ∧ AInv (w.writeAudio pts data).1 :=
  ⟨VInv_writeAudio w pts data h.1, AInv_writeAudio w pts data h.2⟩

/-- every API call preserves the invariants -/
theorem C03_inv_api (m : Muxer) (h : Inv m) :
    (∀ pts data key, Inv (m.writeVideo pts data key).1) ∧
    (∀ pts dts data key, Inv (m.writeVideoDts pts dts data key).1) ∧
    (∀ pts data, Inv (m.writeAudio pts data).1) ∧
    (∀ data durMs, Inv (m.encodeVideo data durMs).1) ∧
    (∀ data samples, Inv (m.encodeAudio data samples).1) ∧
    (∀ d, Inv (m.finishStats d).1) := by
  have hV : ∀ pts data key, Inv (m.writeVideo pts data key).1 := by
    intro pts data key
    unfold Inv
    rcases Muxer_writeVideo_w m pts data key with ⟨e, -⟩ | ⟨e, -⟩ <;> rw [e]
    · exact h
    · exact Inv_writer_writeVideo h _ _ _ _
  have hA : ∀ pts data, Inv (m.writeAudio pts data).1 := by
    intro pts data
    unfold Inv
    rcases Muxer_writeAudio_w m pts data with ⟨e, -⟩ | ⟨e, -⟩ <;> rw [e]
    · exact h
    · exact Inv_writer_writeAudio h _ _
  refine ⟨hV, ?_, hA, ?_, ?_, ?_⟩
  · intro pts dts data key
    unfold Inv
    rcases Muxer_writeVideoDts_w m pts dts data key with ⟨e, -⟩ | ⟨e, -⟩ <;> rw [e]
    · exact h
    · exact Inv_writer_writeVideo h _ _ _ _
  · intro data durMs
    unfold Inv
    rw [(Muxer_encodeVideo_w m data durMs).1]
    exact hV _ _ _
  · intro data samples
    unfold Inv
    rcases Muxer_encodeAudio_w m data samples with ⟨e, -⟩ | ⟨e, -⟩ <;> rw [e]
    · exact h
    · exact hA _ _
  · intro d
    obtain ⟨b, fl, e⟩ := Muxer_finishStats_w m d
    unfold Inv
    rw [e]
    exact h

/-- an accepted `write_video_with_dts(pts, dts)` queues a sample whose timestamps are
    `ticks pts`, `ticks dts` — each absolute timestamp is rounded on its own, nothing accumulates -/
theorem C03_api_ticks_video (m : Muxer) (pts dts : F64) (data : Bytes) (key : Bool)
    (h : (m.writeVideoDts pts dts data key).2 = .ok) :
    ∃ s r, (m.writeVideoDts pts dts data key).1.w.vsRev = s :: r ∧ s.pts = pts.ticks ∧ s.dts = dts.ticks ∧
      r.map (fun x => (x.pts, x.dts)) = m.w.vsRev.map (fun x => (x.pts, x.dts)) := by
  rcases Muxer_writeVideoDts_w m pts dts data key with ⟨-, ne⟩ | ⟨e, iff⟩
  · exact absurd h ne
  · rw [e]
    have hok := iff.mp h
    rcases writeVideo_cases m.w pts.ticks dts.ticks data key with ⟨-, ne⟩ | ⟨-, -, -, -, ⟨-, c, e'⟩ | ⟨prev, -, -, -, e'⟩⟩
    · exact absurd hok ne
    · rw [e']; exact ⟨_, _, rfl, rfl, rfl, rfl⟩
    · rw [e']; refine ⟨_, _, rfl, rfl, rfl, ?_⟩
      cases m.w.vsRev <;> simp [setLastDur]

/-- `write_video(pts)` likewise, with dts = pts -/
theorem C03_api_ticks_video' (m : Muxer) (pts : F64) (data : Bytes) (key : Bool)
    (h : (m.writeVideo pts data key).2 = .ok) :
    ∃ s r, (m.writeVideo pts data key).1.w.vsRev = s :: r ∧ s.pts = pts.ticks ∧ s.dts = pts.ticks ∧
      r.map (fun x => (x.pts, x.dts)) = m.w.vsRev.map (fun x => (x.pts, x.dts)) := by
  rcases Muxer_writeVideo_w m pts data key with ⟨-, ne⟩ | ⟨e, iff⟩
  · exact absurd h ne
  · rw [e]
    have hok := iff.mp h
    rcases writeVideo_cases m.w pts.ticks pts.ticks data key with ⟨-, ne⟩ | ⟨-, -, -, -, ⟨-, c, e'⟩ | ⟨prev, -, -, -, e'⟩⟩
    · exact absurd hok ne
    · rw [e']; exact ⟨_, _, rfl, rfl, rfl, rfl⟩
    · rw [e']; refine ⟨_, _, rfl, rfl, rfl, ?_⟩
      cases m.w.vsRev <;> simp [setLastDur]

/-- `write_audio(pts)` likewise -/
theorem C03_api_ticks_audio (m : Muxer) (pts : F64) (data : Bytes)
    (h : (m.writeAudio pts data).2 = .ok) :
    ∃ s r, (m.writeAudio pts data).1.w.asRev = s :: r ∧ s.pts = pts.ticks ∧ s.dts = pts.ticks ∧
      r.map (fun x => (x.pts, x.dts)) = m.w.asRev.map (fun x => (x.pts, x.dts)) := by
  rcases Muxer_writeAudio_w m pts data with ⟨-, ne⟩ | ⟨e, iff⟩
  · exact absurd h ne
  · rw [e]
    have hok := iff.mp h
    rcases writeAudio_cases m.w pts.ticks data with ⟨-, ne⟩ | ⟨-, -, sd, ⟨-, e'⟩ | ⟨prev, -, -, -, e'⟩⟩
    · exact absurd hok ne
    · rw [e']; exact ⟨_, _, rfl, rfl, rfl, rfl⟩
    · rw [e']; refine ⟨_, _, rfl, rfl, rfl, ?_⟩
      cases m.w.asRev <;> simp [setLastDur]

/-! ## non-vacuity -/

/-- a queue of three video frames with reordering (decode 0, 3000, 6000; present 3000, 9000, 6000) -/
def exW : Writer :=
  { codec := .h264,
    vsRev := [⟨6000, 6000, [3], false, none⟩, ⟨9000, 3000, [2], false, some 3000⟩,
              ⟨3000, 0, [1], true, some 3000⟩],
    vPrev := some 6000, vLastDelta := some 3000 }

example : VInv exW := by
  refine ⟨?_, ?_, rfl, rfl, ?_⟩
  · simp [exW, Linked, u32Max]
  · simp [exW]
  · simp [exW]

example : durationsOf exW.vsRev.reverse exW.vLastDelta = [3000, 3000, 3000] := by decide
example : (Tables.ofSamples exW.vsRev.reverse [] 0 exW.vLastDelta).ctsOffsets = [3000, 6000, 0] := by decide
example : rle [3000, 3000, 3000, 1] = [(3, 3000), (1, 1)] := by decide

end Muxide.Props.C03
