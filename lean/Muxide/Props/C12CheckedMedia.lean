import Muxide.Checked.Core
import Muxide.Model.Adts
import Muxide.Model.Opus
import Muxide.Model.Vp9
/-
  C12 (checked models, audio and VP9) — the success path of `adts_to_raw` (six header bytes indexed
  behind the `len < 7` guard, the final `&frame[header_len..aac_frame_length]`), the Opus TOC readers
  (`packet[0]`, `packet[1]`) and the VP9 header readers (`frame[0..3]`), at the level of their index and
  slice operations.  (The error paths of `adts_to_raw` build hex dumps and messages; they are exercised
  under `catch_unwind` by the correspondence run, not modelled.)
-/
namespace Muxide.Checked
open Muxide

theorem byteAt_eq {f : Bytes} {i : Nat} (h : i < f.length) : byteAt f i = f[i].toNat := by
  unfold byteAt
  rw [List.getD_eq_getElem?_getD, List.getElem?_eq_getElem h]
  rfl

/-- `adts_to_raw`, reading each byte by a checked index -/
def adtsToRawC (f : Bytes) : M (Except AdtsErr Bytes) :=
  if f.length < 7 then .ok (.error .frameTooShort) else
  match getC f 0, getC f 1, getC f 2, getC f 3, getC f 4, getC f 5 with
  | .ok b0, .ok b1, .ok b2, .ok b3, .ok b4, .ok b5 =>
    let n0 := b0.toNat; let n1 := b1.toNat; let n2 := b2.toNat; let n3 := b3.toNat; let n4 := b4.toNat; let n5 := b5.toNat
    if ¬ (n0 = 0xFF ∧ n1 / 16 = 0xF) then .ok (.error .missingSyncword) else
    if n1 / 8 % 2 ≠ 0 then .ok (.error .invalidMpegVersion) else
    if n1 / 2 % 4 ≠ 0 then .ok (.error .invalidLayer) else
    let hl := if n1 % 2 = 1 then 7 else 9
    if f.length < hl then .ok (.error .invalidHeaderLength) else
    if n2 / 4 % 16 > 12 then .ok (.error .invalidSampleRateIndex) else
    let ch := (n2 % 2) * 4 + n3 / 64 % 4
    if ch = 0 ∨ ch > 7 then .ok (.error .invalidChannelConfig) else
    let fl := (n3 % 4) * 2 ^ 11 + n4 * 2 ^ 3 + n5 / 32
    if fl ≤ hl then .ok (.error .invalidFrameLength) else
    if fl > f.length then .ok (.error .invalidFrameLength) else
    match slice f hl fl with
    | .error e => .error e
    | .ok raw => .ok (.ok raw)
  | _, _, _, _, _, _ => .error ()

/-- `adts_to_raw` never indexes outside the frame on any byte string, and its final slice is a valid
    range whenever the guards passed; the result is the structural model's -/
theorem C12_checked_adts_to_raw (f : Bytes) : adtsToRawC f = .ok (adtsToRaw f) := by
  unfold adtsToRawC adtsToRaw
  by_cases h7 : f.length < 7
  · rw [if_pos h7, if_pos h7]
  · rw [if_neg h7, if_neg h7]
    rw [getC_ok (show 0 < f.length by omega), getC_ok (show 1 < f.length by omega), getC_ok (show 2 < f.length by omega),
        getC_ok (show 3 < f.length by omega), getC_ok (show 4 < f.length by omega), getC_ok (show 5 < f.length by omega)]
    simp only [adtsHeaderLen, adtsChannelConfig, adtsFrameLength,
      byteAt_eq (show 0 < f.length by omega), byteAt_eq (show 1 < f.length by omega), byteAt_eq (show 2 < f.length by omega),
      byteAt_eq (show 3 < f.length by omega), byteAt_eq (show 4 < f.length by omega), byteAt_eq (show 5 < f.length by omega)]
    repeat' split
    all_goals (try rfl)
    all_goals (try (exfalso; omega))
    all_goals (rename_i heq; rw [slice_ok (by omega) (by omega)] at heq; cases heq)
    all_goals rfl

/-- `opus_frame_count`: `packet[0]` behind `is_empty`, `packet[1]` behind `len < 2` -/
def opusFrameCountC (p : Bytes) : M (Option (Nat × Bool)) :=
  if p = [] then .ok none else
  match getC p 0 with
  | .error e => .error e
  | .ok toc =>
    match toc.toNat % 4 with
    | 0 => .ok (some (1, false))
    | 1 => .ok (some (2, false))
    | 2 => .ok (some (2, true))
    | _ =>
      if p.length < 2 then .ok none else
      match getC p 1 with
      | .error e => .error e
      | .ok b =>
        let count := b.toNat % 64
        if count = 0 then .ok none else .ok (some (count, b.toNat ≥ 128))

theorem C12_checked_opus_frame_count (p : Bytes) : opusFrameCountC p = .ok (opusFrameCount p) := by
  unfold opusFrameCountC opusFrameCount
  match p with
  | [] => rfl
  | [toc] =>
    simp only [reduceCtorEq, if_false, getC, List.getElem?_cons_zero, List.length_singleton]
    split <;> simp_all
  | toc :: b :: r =>
    simp only [reduceCtorEq, if_false, getC, List.getElem?_cons_zero, List.getElem?_cons_succ, List.length_cons]
    split <;> simp_all
    all_goals (repeat' split)
    all_goals (first | rfl | (exfalso; omega))

/-- `opus_packet_samples`: `packet[0]` behind `is_empty`; `samples() * frame_count as u32` is at most
    2880 * 63 -/
def opusPacketSamplesC (p : Bytes) : M (Option Nat) :=
  if p = [] then .ok none else
  match getC p 0 with
  | .error e => .error e
  | .ok toc =>
    match opusFrameCountC p with
    | .error e => .error e
    | .ok none => .ok none
    | .ok (some (n, _)) =>
      if ¬ (1 ≤ n ∧ n ≤ 63) then .ok none else
      if opusTocSamples toc.toNat * n < 2 ^ 32 then          -- u32 multiplication with overflow checks
        (let s := opusTocSamples toc.toNat * n
         if s = 0 then .ok none else .ok (some s))
      else .error ()

theorem opusTocSamples_le (t : Nat) : opusTocSamples t ≤ 2880 := by
  unfold opusTocSamples; simp only; repeat' split
  all_goals omega

theorem C12_checked_opus_packet_samples (p : Bytes) : opusPacketSamplesC p = .ok (opusPacketSamples p) := by
  unfold opusPacketSamplesC opusPacketSamples
  match p with
  | [] => rfl
  | toc :: r =>
    simp only [reduceCtorEq, if_false, getC, List.getElem?_cons_zero, C12_checked_opus_frame_count]
    cases h : opusFrameCount (toc :: r) with
    | none => rfl
    | some nv =>
      obtain ⟨n, v⟩ := nv
      simp only
      by_cases hn : 1 ≤ n ∧ n ≤ 63
      · have hb := opusTocSamples_le toc.toNat
        have : opusTocSamples toc.toNat * n < 2 ^ 32 := by
          calc opusTocSamples toc.toNat * n ≤ 2880 * 63 := Nat.mul_le_mul hb hn.2
            _ < 2 ^ 32 := by decide
        simp only [hn, this, and_self, not_true_eq_false, if_false, if_true]
        split <;> rfl
      · simp [hn]

/-- `parse_vp9_var_uint`: `data[offset]` behind `offset >= len`, `offset += 1`, `<< shift` with `shift < 32` -/
def vp9VarUintC (d : Bytes) : Nat → Nat → Nat → Nat → M (Option (Nat × Nat))
  | 0, _, _, _ => .error ()
  | fuel + 1, off, value, shift =>
    if off ≥ d.length then .ok none else
    match getC d off with
    | .error e => .error e
    | .ok bb =>
      match addU off 1 with
      | .error e => .error e
      | .ok off' =>
        if shift ≥ 32 then .error () else                    -- shift amount of a u32 `<<`
        let b := bb.toNat
        let value' := (value + (b % 128) * 2 ^ shift) % 2 ^ 32
        if b < 128 then .ok (some (value', off'))
        else if shift + 7 ≥ 32 then .ok none
        else vp9VarUintC d fuel off' value' (shift + 7)

theorem vp9VarUintC_eq (d : Bytes) (hd : SliceLen d) : ∀ (fuel off value shift : Nat),
    shift < 32 → 39 ≤ shift + 7 * fuel → vp9VarUintC d fuel off value shift = .ok (vp9VarUint d fuel off value shift) := by
  intro fuel
  induction fuel with
  | zero => intro off value shift h1 h2; omega
  | succ fuel ih =>
    intro off value shift h1 h2
    unfold vp9VarUintC vp9VarUint
    by_cases hge : off ≥ d.length
    · rw [if_pos hge, if_pos hge]
    · have hlt : off < d.length := by omega
      rw [if_neg hge, if_neg hge, getC_ok hlt]
      unfold SliceLen at hd
      dsimp only
      rw [addU_ok (show off + 1 < 2 ^ 64 by omega)]
      simp only [if_neg (show ¬ shift ≥ 32 by omega)]
      rw [byteAt_eq hlt]
      split
      · rfl
      · split
        · rfl
        · exact ih _ _ _ (by omega) (by omega)

/-- `parse_vp9_var_uint(data, offset)` as every caller starts it -/
theorem C12_checked_vp9_var_uint (d : Bytes) (hd : SliceLen d) (off : Nat) :
    vp9VarUintC d 6 off 0 0 = .ok (vp9VarUint d 6 off 0 0) :=
  vp9VarUintC_eq d hd 6 off 0 0 (by omega) (by omega)

/-- `is_vp9_keyframe`: `frame[0..3]` behind `len < 3`, `frame[3]` behind `len < 4` -/
def isVp9KeyframeC (f : Bytes) : M Vp9KeyRes :=
  if f.length < 3 then .ok .tooShort else
  match getC f 0, getC f 1, getC f 2 with
  | .ok a, .ok b, .ok c =>
    if ¬ (a.toNat = 0x49 ∧ b.toNat = 0x83 ∧ c.toNat = 0x42) then .ok .badMarker else
    if f.length < 4 then .ok .tooShort else
    match getC f 3 with
    | .error e => .error e
    | .ok h => if h.toNat / 32 % 2 ≠ 0 then .ok (.ok false) else .ok (.ok (h.toNat / 16 % 2 = 0))
  | _, _, _ => .error ()

theorem C12_checked_is_vp9_keyframe (f : Bytes) : isVp9KeyframeC f = .ok (isVp9Keyframe f) := by
  unfold isVp9KeyframeC isVp9Keyframe vp9Marker
  by_cases h3 : f.length < 3
  · rw [if_pos h3, if_pos h3]
  · rw [if_neg h3, if_neg h3, getC_ok (show 0 < f.length by omega), getC_ok (show 1 < f.length by omega),
      getC_ok (show 2 < f.length by omega)]
    simp only [byteAt_eq (show 0 < f.length by omega), byteAt_eq (show 1 < f.length by omega),
      byteAt_eq (show 2 < f.length by omega), decide_eq_true_eq]
    split
    · rfl
    · by_cases h4 : f.length < 4
      · rw [if_pos h4, if_pos h4]
      · rw [if_neg h4, if_neg h4, getC_ok (show 3 < f.length by omega)]
        simp only [byteAt_eq (show 3 < f.length by omega)]
        split <;> rfl

end Muxide.Checked
