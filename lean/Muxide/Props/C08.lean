import Muxide.Lemmas.LayoutAV
import Muxide.Lemmas.WriterInv
import Muxide.Props.C01
/-
  C08 — With fast start enabled the movie metadata precedes the media data and with it disabled
  it follows; in both layouts every chunk offset is an absolute file position that is correct for
  that layout. Apart from chunk offsets and top-level box order, the two files produced from the
  same call sequence describe identical tracks, samples, timing and configuration.
  Property theorems only; helper lemmas live in Muxide/Lemmas/Layout.lean, Offsets.lean.
-/
namespace Muxide.Props.C08
open Muxide Muxide.Spec

/-- 8. The serialised length of the moov does not depend on the *values* of the chunk offsets,
    only on how many there are — for every sample list, track mix, configuration and metadata.
    (This is what makes the two-pass placeholder construction of the fast-start layout exact.) -/
theorem size_moov_indep (w h : Nat) (vs aus : List Sample) (vo vo' ao ao' : List Nat) (spc spc' : Nat)
    (fb fb' : Option Nat) (a : AudioTrack) (vc : VideoConfig) (md : Option Metadata)
    (hv : vo.length = vo'.length) (ha : ao.length = ao'.length) :
    (bMoov w h (Tables.ofSamples vs vo spc fb) (some (a, Tables.ofSamples aus ao spc' fb')) vc md).ser.length =
    (bMoov w h (Tables.ofSamples vs vo' spc fb) (some (a, Tables.ofSamples aus ao' spc' fb')) vc md).ser.length :=
  bMoov_ser_length w h (Tables.ofSamples vs vo' spc fb) (some (a, Tables.ofSamples aus ao' spc' fb')) vc md
    vo ao hv (by intro x hx; cases hx; exact ha)

/-- 8'. the same without an audio track -/
theorem size_moov_indep_video (w h : Nat) (vs : List Sample) (vo vo' : List Nat) (spc : Nat)
    (fb : Option Nat) (vc : VideoConfig) (md : Option Metadata) (hv : vo.length = vo'.length) :
    (bMoov w h (Tables.ofSamples vs vo spc fb) none vc md).ser.length =
    (bMoov w h (Tables.ofSamples vs vo' spc fb) none vc md).ser.length :=
  bMoov_ser_length w h (Tables.ofSamples vs vo' spc fb) none vc md vo [] hv (by intro x hx; cases hx)

/-- the sample tables built from the same samples with different chunk offsets differ in the
    chunk offsets only: durations, sizes, sync samples, composition offsets, samples-per-chunk
    are the same -/
theorem ofSamples_offsets_only (s : List Sample) (o o' : List Nat) (spc : Nat) (fb : Option Nat) :
    Tables.ofSamples s o' spc fb = { Tables.ofSamples s o spc fb with chunkOffsets := o' } := rfl

/-! ### what the two layouts write, as functions of the writer state -/

/-- the moov the writer builds from its state for given (video, audio) chunk offsets -/
def moovOf (w : Writer) (width height : Nat) (md : Option Metadata) (vc : VideoConfig)
    (o : List Nat × List Nat) : Box :=
  let vs := w.vsRev.reverse
  let aus := w.asRev.reverse
  match w.audio with
  | some tr => bMoov width height (Tables.ofSamples vs o.1 1 w.vLastDelta)
      (some (tr, Tables.ofSamples aus o.2 1 w.aLastDelta)) vc md
  | none => bMoov width height
      (Tables.ofSamples vs o.1 (if vs ≠ [] then vs.length else 0) w.vLastDelta) none vc md

/-- the chunk offsets for media data that starts at absolute file position `start`: with audio,
    one chunk per sample following the interleave schedule; without, one chunk for all samples -/
def offsetsAt (w : Writer) (start : Nat) : List Nat × List Nat :=
  let vs := w.vsRev.reverse
  let aus := w.asRev.reverse
  match w.audio with
  | some _ => assignOffsets (entSize vs aus) (schedule vs aus) start
  | none => (if vs ≠ [] then [start] else [], [])

/-- the media data, one chunk of bytes per stored sample, in storage order -/
def mediaChunks (w : Writer) : List Bytes :=
  let vs := w.vsRev.reverse
  let aus := w.asRev.reverse
  match w.audio with
  | some _ => (schedule vs aus).map (entData vs aus)
  | none => vs.map (·.data)

/-- number of media-data bytes -/
def payloadLen (w : Writer) : Nat :=
  match w.audio with
  | some _ => ((w.vsRev.reverse).map (·.data.length)).sum + ((w.asRev.reverse).map (·.data.length)).sum
  | none => ((w.vsRev.reverse).map (·.data.length)).sum

/-- `moovOf` uses its offsets argument for the chunk offsets and nothing else: the length of the
    moov is the same for any two offset vectors of the same lengths -/
theorem moovOf_length (w : Writer) (width height : Nat) (md : Option Metadata) (vc : VideoConfig)
    (o o' : List Nat × List Nat) (h1 : o.1.length = o'.1.length) (h2 : o.2.length = o'.2.length) :
    (moovOf w width height md vc o).ser.length = (moovOf w width height md vc o').ser.length := by
  unfold moovOf
  cases w.audio with
  | none => exact size_moov_indep_video _ _ _ _ _ _ _ _ _ h1
  | some tr => exact size_moov_indep _ _ _ _ _ _ _ _ _ _ _ _ _ _ _ h1 h2

theorem offsetsAt_length (w : Writer) (s s' : Nat) :
    (offsetsAt w s).1.length = (offsetsAt w s').1.length ∧ (offsetsAt w s).2.length = (offsetsAt w s').2.length := by
  unfold offsetsAt
  cases w.audio with
  | none => by_cases h : w.vsRev.reverse ≠ [] <;> simp [h]
  | some tr =>
    simp only []
    rw [assignOffsets_length_fst, assignOffsets_length_fst, assignOffsets_length_snd, assignOffsets_length_snd]
    exact ⟨rfl, rfl⟩

/-- 10a. Standard layout (fast start disabled): ftyp, media data, then the movie metadata; the
    chunk offsets are those for media data starting at `ftypLen + 8`, i.e. right after the ftyp
    box and the 8-byte mdat header. (With no audio track and no video frame no mdat is written.) -/
theorem C08_standard_layout (w : Writer) (width height : Nat) (md : Option Metadata) (vc : VideoConfig)
    (hok : (finalizeStandard w width height md vc).res = .ok) :
    (finalizeStandard w width height md vc).chunks =
      [bFtyp.ser] ++
      (if w.audio = none ∧ w.vsRev = [] then [] else mdatHeader (payloadLen w) ++ mediaChunks w) ++
      [(moovOf w width height md vc (offsetsAt w (ftypLen + 8))).ser] := by
  cases ha : w.audio with
  | some tr =>
    have := (finalizeStandard_av_ok w width height md vc tr ha hok).2
    rw [this]
    simp [moovOf, offsetsAt, mediaChunks, payloadLen, ha]
  | none =>
    have := (finalizeStandard_video_ok w width height md vc ha hok).2
    rw [this]
    by_cases hne : w.vsRev = []
    · simp [moovOf, offsetsAt, ha, hne]
    · simp [moovOf, offsetsAt, mediaChunks, payloadLen, ha, hne]

/-- the placeholder chunk offsets of the first fast-start pass: 0,1,2,… in schedule order (with
    audio) resp. the single offset 0 -/
def placeholderOffsets (w : Writer) : List Nat × List Nat :=
  let vs := w.vsRev.reverse
  let aus := w.asRev.reverse
  match w.audio with
  | some _ => assignOffsets (fun _ => 1) (schedule vs aus) 0
  | none => (if vs ≠ [] then [0] else [], [])

theorem placeholderOffsets_length (w : Writer) (s : Nat) :
    (placeholderOffsets w).1.length = (offsetsAt w s).1.length ∧
    (placeholderOffsets w).2.length = (offsetsAt w s).2.length := by
  unfold placeholderOffsets offsetsAt
  cases w.audio with
  | none => by_cases h : w.vsRev.reverse ≠ [] <;> simp [h]
  | some tr =>
    simp only []
    rw [assignOffsets_length_fst, assignOffsets_length_fst, assignOffsets_length_snd, assignOffsets_length_snd]
    exact ⟨rfl, rfl⟩

/-- what `finalizeFastStart` literally does: offsets for media data starting after ftyp, a moov of
    the *placeholder's* length, and the mdat header -/
theorem faststart_raw (w : Writer) (width height : Nat) (md : Option Metadata) (vc : VideoConfig)
    (hok : (finalizeFastStart w width height md vc).res = .ok) :
    (finalizeFastStart w width height md vc).chunks =
      [bFtyp.ser, (moovOf w width height md vc (offsetsAt w
          (ftypLen + (moovOf w width height md vc (placeholderOffsets w)).ser.length + 8))).ser] ++
      mdatHeader (((w.vsRev.reverse).map (·.data.length)).sum + ((w.asRev.reverse).map (·.data.length)).sum) ++
      mediaChunks w := by
  cases ha : w.audio with
  | some tr =>
    obtain ⟨_, _, hc⟩ := finalizeFastStart_av_ok w width height md vc tr ha hok
    rw [hc]
    simp only [moovOf, offsetsAt, placeholderOffsets, mediaChunks, ha]
  | none =>
    obtain ⟨_, _, hc⟩ := finalizeFastStart_video_ok w width height md vc ha hok
    rw [hc]
    simp only [moovOf, offsetsAt, placeholderOffsets, mediaChunks, ha]

/-- 10b. Fast-start layout: ftyp, the movie metadata, then the media data; the chunk offsets are
    those for media data starting at `ftypLen + |moov| + 8` where `moov` is the *final* moov that
    is written (the one containing these very offsets) — not merely the placeholder.
    `hinv` is the writer-state invariant that a writer without audio track holds no audio samples
    (`writeAudio` rejects them); it is needed only because the mdat size field counts them. -/
theorem C08_faststart_layout (w : Writer) (width height : Nat) (md : Option Metadata) (vc : VideoConfig)
    (hinv : w.audio = none → w.asRev = [])
    (hok : (finalizeFastStart w width height md vc).res = .ok) :
    ∃ start : Nat,
      start = ftypLen + (moovOf w width height md vc (offsetsAt w start)).ser.length + 8 ∧
      (finalizeFastStart w width height md vc).chunks =
        [bFtyp.ser, (moovOf w width height md vc (offsetsAt w start)).ser] ++
        mdatHeader (payloadLen w) ++ mediaChunks w := by
  refine ⟨ftypLen + (moovOf w width height md vc (placeholderOffsets w)).ser.length + 8, ?_, ?_⟩
  · have hl := placeholderOffsets_length w
      (ftypLen + (moovOf w width height md vc (placeholderOffsets w)).ser.length + 8)
    rw [← moovOf_length w width height md vc _ _ hl.1 hl.2]
  · rw [faststart_raw w width height md vc hok]
    have hp : payloadLen w = ((w.vsRev.reverse).map (·.data.length)).sum +
        ((w.asRev.reverse).map (·.data.length)).sum := by
      unfold payloadLen
      cases ha : w.audio with
      | some tr => rfl
      | none => simp [hinv ha]
    rw [hp]

/-- 9. Both layouts, same writer state, both successful: the two files consist of the same ftyp,
    the same media-data box (byte for byte: same header, same samples in the same order), and a
    moov built by the same function of the writer state from chunk-offset vectors of the same
    lengths — so by `ofSamples_offsets_only` the sample tables of the two files differ in the
    chunk offsets only; the top-level order is ftyp·mdat·moov resp. ftyp·moov·mdat.
    The single exception is made explicit: a writer without audio track and without any video
    frame writes no mdat box at all in the standard layout, but an empty one with fast start. -/
theorem C08_same_tables (w : Writer) (width height : Nat) (md : Option Metadata) (vc : VideoConfig)
    (hinv : w.audio = none → w.asRev = [])
    (hs : (finalizeStandard w width height md vc).res = .ok)
    (hf : (finalizeFastStart w width height md vc).res = .ok) :
    ∃ (o o' : List Nat × List Nat) (mdat : List Bytes),
      o.1.length = o'.1.length ∧ o.2.length = o'.2.length ∧
      (finalizeStandard w width height md vc).chunks =
        [bFtyp.ser] ++ (if w.audio = none ∧ w.vsRev = [] then [] else mdat) ++
        [(moovOf w width height md vc o).ser] ∧
      (finalizeFastStart w width height md vc).chunks =
        [bFtyp.ser, (moovOf w width height md vc o').ser] ++ mdat ∧
      (moovOf w width height md vc o).ser.length = (moovOf w width height md vc o').ser.length := by
  obtain ⟨start, _, hc'⟩ := C08_faststart_layout w width height md vc hinv hf
  have hc := C08_standard_layout w width height md vc hs
  have hl := offsetsAt_length w (ftypLen + 8) start
  refine ⟨offsetsAt w (ftypLen + 8), offsetsAt w start, mdatHeader (payloadLen w) ++ mediaChunks w,
    hl.1, hl.2, hc, ?_, moovOf_length w width height md vc _ _ hl.1 hl.2⟩
  rw [hc']; simp

/-! ### the chunk offsets are correct absolute file positions, in both layouts -/

/-- what the reader obtains from the sample tables written by `moovOf w … o` when it walks the
    chunks and slices `file`: with audio, `stsc` is one run of one sample per chunk for either
    track; without, one run with all samples in the single chunk -/
def ReadsBack (w : Writer) (file : Bytes) (o : List Nat × List Nat) : Prop :=
  let vs := w.vsRev.reverse
  let aus := w.asRev.reverse
  match w.audio with
  | some _ =>
    (walkChunks [(1, 1, 1)] o.1 1 (vs.map (·.data.length))).map (fun r => slice file r.1 r.2) = vs.map (·.data) ∧
    (walkChunks [(1, 1, 1)] o.2 1 (aus.map (·.data.length))).map (fun r => slice file r.1 r.2) = aus.map (·.data)
  | none =>
    (walkChunks [(1, vs.length, 1)] o.1 1 (vs.map (·.data.length))).map (fun r => slice file r.1 r.2) = vs.map (·.data)

/-- generic: a file in which `mediaChunks w` starts at position `pre.length`, with the offsets
    computed for that position, reads back every frame of every track in submission order -/
theorem readsBack_at (w : Writer) (pre post : Bytes)
    (hv : w.vsRev.reverse.Pairwise (fun a b => a.dts < b.dts))
    (ha : w.asRev.reverse.Pairwise (fun a b => a.dts ≤ b.dts)) :
    ReadsBack w (pre ++ (mediaChunks w).flatten ++ post) (offsetsAt w pre.length) := by
  unfold ReadsBack mediaChunks offsetsAt
  cases w.audio with
  | some tr => exact C01.C01_av_samples _ _ pre post hv ha
  | none =>
    by_cases hne : w.vsRev.reverse ≠ []
    · simp only [if_pos hne]
      exact C01.C01_video_only_samples _ pre post
    · have : w.vsRev.reverse = [] := by simpa using hne
      simp [this, walkChunks]

/-- 10c. Standard layout: the chunk offsets written into the moov are correct absolute positions
    in the file that is written. -/
theorem C08_standard_offsets_correct (w : Writer) (width height : Nat) (md : Option Metadata) (vc : VideoConfig)
    (hv : w.vsRev.reverse.Pairwise (fun a b => a.dts < b.dts))
    (ha : w.asRev.reverse.Pairwise (fun a b => a.dts ≤ b.dts))
    (hok : (finalizeStandard w width height md vc).res = .ok) :
    ReadsBack w (finalizeStandard w width height md vc).chunks.flatten (offsetsAt w (ftypLen + 8)) := by
  rw [C08_standard_layout w width height md vc hok]
  by_cases he : w.audio = none ∧ w.vsRev = []
  · unfold ReadsBack offsetsAt
    simp [he.1, he.2, walkChunks]
  · rw [if_neg he]
    have := readsBack_at w (bFtyp.ser ++ (mdatHeader (payloadLen w)).flatten)
      (moovOf w width height md vc (offsetsAt w (ftypLen + 8))).ser hv ha
    have hl : (bFtyp.ser ++ (mdatHeader (payloadLen w)).flatten).length = ftypLen + 8 := by
      rw [List.length_append, bFtyp_ser_length, mdatHeader_flatten_length]
    rw [hl] at this
    simpa [List.append_assoc] using this

/-- 10d. Fast-start layout: the chunk offsets written into the moov are correct absolute
    positions in the file that is written (they account for the final moov in front). -/
theorem C08_faststart_offsets_correct (w : Writer) (width height : Nat) (md : Option Metadata) (vc : VideoConfig)
    (hinv : w.audio = none → w.asRev = [])
    (hv : w.vsRev.reverse.Pairwise (fun a b => a.dts < b.dts))
    (ha : w.asRev.reverse.Pairwise (fun a b => a.dts ≤ b.dts))
    (hok : (finalizeFastStart w width height md vc).res = .ok) :
    ∃ start : Nat,
      start = ftypLen + (moovOf w width height md vc (offsetsAt w start)).ser.length + 8 ∧
      (finalizeFastStart w width height md vc).chunks =
        [bFtyp.ser, (moovOf w width height md vc (offsetsAt w start)).ser] ++
        mdatHeader (payloadLen w) ++ mediaChunks w ∧
      ReadsBack w (finalizeFastStart w width height md vc).chunks.flatten (offsetsAt w start) := by
  obtain ⟨start, hstart, hc⟩ := C08_faststart_layout w width height md vc hinv hok
  refine ⟨start, hstart, hc, ?_⟩
  rw [hc]
  have := readsBack_at w (bFtyp.ser ++ (moovOf w width height md vc (offsetsAt w start)).ser ++
    (mdatHeader (payloadLen w)).flatten) [] hv ha
  have hl : (bFtyp.ser ++ (moovOf w width height md vc (offsetsAt w start)).ser ++
      (mdatHeader (payloadLen w)).flatten).length = start := by
    rw [List.length_append, List.length_append, bFtyp_ser_length, mdatHeader_flatten_length]
    exact hstart.symm
  rw [hl] at this
  simpa [List.append_assoc] using this

/-- 10 (summary, as requested): the position from which the chunk offsets are counted (the first
    pushed offset) is `ftypLen + 8` in the standard layout and `ftypLen + |final moov| + 8` in the
    fast-start layout. -/
theorem C08_offsets (w : Writer) (width height : Nat) (md : Option Metadata) (vc : VideoConfig)
    (hinv : w.audio = none → w.asRev = []) :
    ((finalizeStandard w width height md vc).res = .ok →
      (finalizeStandard w width height md vc).chunks =
        [bFtyp.ser] ++
        (if w.audio = none ∧ w.vsRev = [] then [] else mdatHeader (payloadLen w) ++ mediaChunks w) ++
        [(moovOf w width height md vc (offsetsAt w (ftypLen + 8))).ser]) ∧
    ((finalizeFastStart w width height md vc).res = .ok →
      ∃ start : Nat,
        start = ftypLen + (moovOf w width height md vc (offsetsAt w start)).ser.length + 8 ∧
        (finalizeFastStart w width height md vc).chunks =
          [bFtyp.ser, (moovOf w width height md vc (offsetsAt w start)).ser] ++
          mdatHeader (payloadLen w) ++ mediaChunks w) :=
  ⟨C08_standard_layout w width height md vc, C08_faststart_layout w width height md vc hinv⟩

/-- the first offset that `offsetsAt w start` pushes is `start` itself (whenever there is a sample) -/
theorem offsetsAt_first (w : Writer) (start : Nat) :
    (∀ tr, w.audio = some tr → ∀ e es, schedule w.vsRev.reverse w.asRev.reverse = e :: es →
      (if e.kind = 0 then (offsetsAt w start).1.head? else (offsetsAt w start).2.head?) = some start) ∧
    (w.audio = none → w.vsRev ≠ [] → (offsetsAt w start).1 = [start]) := by
  constructor
  · intro tr ha e es hs
    simp only [offsetsAt, ha, hs, assignOffsets]
    by_cases hk : e.kind = 0 <;> simp [hk]
  · intro ha hne
    simp [offsetsAt, ha, hne]

/-! ### for every writer state the API can reach, without side conditions -/

/-- Whatever calls were made before, if `finalize` succeeds then the file it writes is laid out
    as the fast-start flag says, and walking the sample tables of its moov with the independent
    reader returns exactly the accepted frames' payloads, per track, in submission order. -/
theorem C08_finalize_reads_back (w : Writer) (hr : w.Reachable) (width height : Nat) (md : Option Metadata)
    (fast : Bool) (hok : (w.finalize width height md fast).2.res = .ok) :
    ∃ (start : Nat) (vc : VideoConfig),
      ReadsBack w (w.finalize width height md fast).2.chunks.flatten (offsetsAt w start) ∧
      (fast = false →
        start = ftypLen + 8 ∧
        (w.finalize width height md fast).2.chunks =
          [bFtyp.ser] ++
          (if w.audio = none ∧ w.vsRev = [] then [] else mdatHeader (payloadLen w) ++ mediaChunks w) ++
          [(moovOf w width height md vc (offsetsAt w start)).ser]) ∧
      (fast = true →
        start = ftypLen + (moovOf w width height md vc (offsetsAt w start)).ser.length + 8 ∧
        (w.finalize width height md fast).2.chunks =
          [bFtyp.ser, (moovOf w width height md vc (offsetsAt w start)).ser] ++
          mdatHeader (payloadLen w) ++ mediaChunks w) := by
  obtain ⟨hv, ha, _, hinv⟩ := hr.inv.ordered
  unfold Writer.finalize at hok ⊢
  split at hok
  · simp at hok
  · split at hok
    · simp at hok
    · split at hok
      · simp at hok
      · next h1 h2 h3 =>
        rw [if_neg h1, if_neg h2, if_neg h3]
        cases fast with
        | false =>
          simp only [Bool.false_eq_true, ↓reduceIte] at hok ⊢
          refine ⟨ftypLen + 8, w.vConfig.getD (.avc defaultAvc), ?_, fun _ => ⟨rfl, ?_⟩, fun h => by simp at h⟩
          · exact C08_standard_offsets_correct w width height md _ hv ha hok
          · exact C08_standard_layout w width height md _ hok
        | true =>
          simp only [↓reduceIte] at hok ⊢
          obtain ⟨start, hstart, hc, hrb⟩ := C08_faststart_offsets_correct w width height md
            (w.vConfig.getD (.avc defaultAvc)) hinv hv ha hok
          exact ⟨start, _, hrb, fun h => by simp at h, fun _ => ⟨hstart, hc⟩⟩

/-! ### non-vacuity: concrete writer states for which both layouts succeed -/
namespace Example
def s0 : Sample := { pts := 0, dts := 0, data := [1, 2], key := true, dur := some 3000 }
def s1 : Sample := { pts := 3000, dts := 3000, data := [9, 9, 9], key := false, dur := none }
def a0 : Sample := { pts := 0, dts := 0, data := [7, 7, 7, 7], key := false, dur := none }
def tr0 : AudioTrack := { sampleRate := 48000, channels := 2, codec := .opus }
/-- video only, two frames -/
def w1 : Writer := { codec := .vp9, vsRev := [s1, s0], vPrev := some 3000, vLastDelta := some 3000 }
/-- two video frames and one audio frame -/
def w2 : Writer := { codec := .vp9, vsRev := [s1, s0], vPrev := some 3000, vLastDelta := some 3000,
                     audio := some tr0, asRev := [a0], aPrev := some 0 }

theorem sched_w2 : schedule [s0, s1] [a0] = [⟨0, 0, 0⟩, ⟨0, 1, 0⟩, ⟨3000, 0, 1⟩] := by
  apply schedule_unique <;> decide

set_option maxRecDepth 100000 in
/-- the hypotheses of `C08_same_tables` / `C08_*_offsets_correct` hold for `w1` -/
example : (w1.audio = none → w1.asRev = []) ∧
    w1.vsRev.reverse.Pairwise (fun a b => a.dts < b.dts) ∧
    w1.asRev.reverse.Pairwise (fun a b => a.dts ≤ b.dts) ∧
    (finalizeStandard w1 640 480 none (.avc defaultAvc)).res = .ok ∧
    (finalizeFastStart w1 640 480 none (.avc defaultAvc)).res = .ok := by decide

set_option maxRecDepth 100000 in
/-- … and for `w2` -/
example : (w2.audio = none → w2.asRev = []) ∧
    w2.vsRev.reverse.Pairwise (fun a b => a.dts < b.dts) ∧
    w2.asRev.reverse.Pairwise (fun a b => a.dts ≤ b.dts) ∧
    (finalizeStandard w2 640 480 none (.avc defaultAvc)).res = .ok ∧
    (finalizeFastStart w2 640 480 none (.avc defaultAvc)).res = .ok := by
  have e1 : w2.vsRev.reverse = [s0, s1] := rfl
  have e2 : w2.asRev.reverse = [a0] := rfl
  have e3 : w2.audio = some tr0 := rfl
  refine ⟨by decide, by decide, by decide, ?_, ?_⟩
  · unfold finalizeStandard
    simp only [e1, e2, e3, sched_w2]
    decide
  · unfold finalizeFastStart
    simp only [e1, e2, e3, sched_w2]
    decide
end Example

end Muxide.Props.C08
