import Muxide.Generated.Writer
import Muxide.Lemmas.Api
/-
  C05 / C04 / C03 / C01 (mechanical tie, writer) — Muxide.Generated.Writer is produced by tools/rs2lean_writer.py from the
  Rust source of `Mp4Writer::write_video_sample_with_dts` and `Mp4Writer::write_audio_sample` on every check run.
  The theorems state that the translated functions are the hand-written `Writer.writeVideo` / `Writer.writeAudio`
  for every writer state and every argument, so the refusal theorems (C05_*), the acceptance characterisations
  (C04_video_iff, C04_audio_iff), the timing invariants (C03_*) and the history forms (C01_history, C03_history_*)
  are statements about the translated source.
-/
namespace Muxide.Props.C05Generated
open Muxide Muxide.Generated.Writer

theorem extract_cfg (codec : VCodec) (data : Bytes) :
    (match codec with
      | .h264 => (extract_avc_config data).map VideoConfig.avc
      | .h265 => (extract_hevc_config data).map VideoConfig.hevc
      | .av1 => (extract_av1_config data).map VideoConfig.av1
      | .vp9 => (extract_vp9_config data).map VideoConfig.vp9) =
    (match extractConfig codec data with | .some c => some c | .none => none) := by
  cases codec <;> simp only [extractConfig, extract_av1_config, extract_avc_config, extract_hevc_config, extract_vp9_config]
  · cases extractAvc data <;> rfl
  · cases extractHevc data <;> rfl
  · cases extractAv1 data <;> rfl
  · cases extractVp9 data <;> rfl

theorem convert_eq (codec : VCodec) (data : Bytes) :
    (match codec with
      | .h264 => annexb_to_avcc data | .h265 => hevc_annexb_to_hvcc data | .av1 => data | .vp9 => data) =
    convertPayload codec data := by
  cases codec <;> rfl

/-- `write_video_sample_with_dts` = the model's `Writer.writeVideo`, for every state and every argument -/
theorem C05_gen_write_video (w : Writer) (pts dts : Nat) (data : Bytes) (key : Bool) :
    write_video_sample_with_dts w pts dts data key = w.writeVideo pts dts data key := by
  rcases w with ⟨codec, vs, vp, vld, vc, au, as, ap, ald, fin, bw⟩
  cases fin
  · cases vp with
    | some prev =>
      simp only [write_video_sample_with_dts, Writer.writeVideo, Bool.false_eq_true, if_false]
      by_cases h1 : dts ≤ prev
      · simp only [if_pos h1]
      simp only [if_neg h1]
      by_cases h2 : dts - prev > u32Max
      · simp only [if_pos h2]
      simp only [if_neg h2]
      have hm : (dts - prev) % 2 ^ 32 = dts - prev := Nat.mod_eq_of_lt (by unfold u32Max at h2; omega)
      rw [hm]
      cases codec <;> simp only [convertPayload, annexb_to_avcc, hevc_annexb_to_hvcc, Option.isSome_none, Bool.false_eq_true, if_false] <;> rfl
    | none =>
      simp only [write_video_sample_with_dts, Writer.writeVideo, Bool.false_eq_true, if_false]
      cases key
      · simp
      · cases codec <;>
          simp only [extractConfig, extract_avc_config, extract_hevc_config, extract_av1_config, extract_vp9_config,
            not_true_eq_false, if_false]
        · cases extractAvc data <;> simp <;> rfl
        · cases extractHevc data <;> simp <;> rfl
        · obtain h | ⟨c, h⟩ : extractAv1 data = .none ∨ ∃ c, extractAv1 data = .some c := by
            cases extractAv1 data <;> simp
          · simp only [h]; simp
          · simp only [h]; simp; rfl
        · cases extractVp9 data <;> simp <;> rfl
  · simp [write_video_sample_with_dts, Writer.writeVideo]

/-- the payload part of `write_audio_sample` (after the timestamp checks), by cases on the audio codec -/
macro "audio_payload_cases" data:ident ac:ident : tactic => `(tactic| (
  cases $ac:ident with
  | aac p =>
    simp only [adts_to_raw]
    obtain ⟨r, h⟩ | ⟨k, h⟩ : (∃ r, adtsToRaw $data = .ok r) ∨ (∃ k, adtsToRaw $data = .error k) := by
      cases adtsToRaw $data <;> simp
    · simp only [h]; try (first | rfl | (split <;> rfl))
    · simp only [h]
  | opus =>
    simp only [is_valid_opus_packet]
    by_cases hv : isValidOpus $data = true
    · simp only [hv, not_true_eq_false, if_false, if_true]; try (first | rfl | (split <;> rfl))
    · simp only [hv, not_false_eq_true, if_true, Bool.false_eq_true, if_false]
  | none => rfl))

/-- `write_audio_sample` = the model's `Writer.writeAudio`, for every state and every argument -/
theorem C05_gen_write_audio (w : Writer) (pts : Nat) (data : Bytes) :
    write_audio_sample w pts data = w.writeAudio pts data := by
  rcases w with ⟨codec, vs, vp, vld, vc, au, as, ap, ald, fin, bw⟩
  cases fin
  · cases au with
    | none => simp [write_audio_sample, Writer.writeAudio]
    | some tr =>
      rcases tr with ⟨sr, ch, ac⟩
      cases ap with
      | some prev =>
        simp only [write_audio_sample, Writer.writeAudio, Bool.false_eq_true, if_false]
        by_cases h1 : pts < prev
        · simp only [if_pos h1]
        simp only [if_neg h1]
        by_cases h2 : pts - prev > u32Max
        · simp only [if_pos h2]
        simp only [if_neg h2]
        have hm : (pts - prev) % 2 ^ 32 = pts - prev := Nat.mod_eq_of_lt (by unfold u32Max at h2; omega)
        rw [hm]
        audio_payload_cases data ac
      | none =>
        simp only [write_audio_sample, Writer.writeAudio, Bool.false_eq_true, if_false]
        audio_payload_cases data ac
  · simp [write_audio_sample, Writer.writeAudio]

/-- the translated `write_video_sample_with_dts`: any outcome other than Ok leaves the writer exactly as it was -/
theorem C05_gen_video_refusal_no_trace (w : Writer) (pts dts : Nat) (d : Bytes) (k : Bool)
    (h : (write_video_sample_with_dts w pts dts d k).2 ≠ .ok) : (write_video_sample_with_dts w pts dts d k).1 = w := by
  rw [C05_gen_write_video] at h ⊢; exact Writer.writeVideo_not_ok w pts dts d k h

/-- the translated `write_audio_sample`: any outcome other than Ok leaves the writer exactly as it was -/
theorem C05_gen_audio_refusal_no_trace (w : Writer) (pts : Nat) (d : Bytes)
    (h : (write_audio_sample w pts d).2 ≠ .ok) : (write_audio_sample w pts d).1 = w := by
  rw [C05_gen_write_audio] at h ⊢; exact Writer.writeAudio_not_ok w pts d h

/-- non-vacuity: a refused call exists (a non-key first frame), and so does an accepted one (a second VP9 frame) -/
example : (write_video_sample_with_dts { codec := .vp9 } 0 0 [1] false).2 = .err .firstFrameMustBeKeyframe := by decide
example : (write_video_sample_with_dts { codec := .vp9, vPrev := some 0 } 3000 3000 [1] false).2 = .ok := by decide

end Muxide.Props.C05Generated
