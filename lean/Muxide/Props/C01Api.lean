import Muxide.Props.C01History
import Muxide.Props.C05
/-
  C01 (API form) — `C01_history` is about sequences of calls on the `Mp4Writer` (timestamps in ticks).  The
  public API (`Muxer`) sits in front of it: five frame-writing calls taking seconds as `f64`, each with its own
  guards, two of them (`encode_video`, `encode_audio`) with an internal clock and, for video, key-frame
  detection.  This file shows that the API adds nothing to and removes nothing from what is stored: every API
  call either is refused without reaching the writer, or makes exactly one writer call with the submitted
  bytes, the submitted (or detected) key flag and the tick values of the submitted times, and is answered `ok`
  exactly when the writer accepts.  Hence for every sequence of API write calls on a freshly built muxer, the
  samples read back from the finished file are those of the calls answered `ok`.
-/
namespace Muxide.Props.C01Api
open Muxide Muxide.Spec Muxide.Props.C05 Muxide.Props.C01E2E Muxide.Props.C01History

/-- the writer call behind `write_video` (none: refused by the API's own guards) -/
def wvCall (m : Muxer) (pts : F64) (d : Bytes) (k : Bool) : Option WCall :=
  if d = [] then none else
  if ¬ pts.isFinite then none else
  if pts.isNeg then none else
  if ¬ ticksRepresentable pts then none else
  if (match m.lastVideoPts with | some prev => F64.le pts prev | none => false) then none else
  some (.video pts.ticks pts.ticks d k)

/-- the writer call behind `write_video_with_dts` -/
def wvdCall (m : Muxer) (pts dts : F64) (d : Bytes) (k : Bool) : Option WCall :=
  if m.finished then none else
  if d = [] then none else
  if ¬ pts.isFinite then none else
  if pts.isNeg then none else
  if ¬ ticksRepresentable pts then none else
  if ¬ dts.isFinite then none else
  if dts.isNeg then none else
  if ¬ ticksRepresentable dts then none else
  if (match m.lastVideoDts with | some prev => F64.le dts prev | none => false) then none else
  some (.video pts.ticks dts.ticks d k)

/-- the writer call behind `write_audio` -/
def waCall (m : Muxer) (pts : F64) (d : Bytes) : Option WCall :=
  if m.finished then none else
  if m.audioTrack.isNone then none else
  if ¬ pts.isFinite then none else
  if pts.isNeg then none else
  if ¬ ticksRepresentable pts then none else
  if d = [] then none else
  if (match m.lastAudioPts with | some prev => F64.lt pts prev | none => false) then none else
  match m.firstVideoPts with
  | none => none
  | some fv => if F64.lt pts fv then none else some (.audio pts.ticks d)

/-- the writer call a frame-writing API call makes in muxer state `m` -/
def toW (m : Muxer) : Call → Option WCall
  | .wv pts d k => wvCall m pts d k
  | .wvd pts dts d k => wvdCall m pts dts d k
  | .wa pts d => waCall m pts d
  | .ev d _ => wvCall m m.curV d (m.isKeyframe d)
  | .ea d _ => match m.audioTrack with
    | none => none
    | some _ => waCall m m.curA d
  | .fin | .fins => none

/-! ### one call -/

theorem writeVideo_w (m : Muxer) (pts : F64) (d : Bytes) (k : Bool) :
    match wvCall m pts d k with
    | none => (m.writeVideo pts d k).1 = m ∧ (m.writeVideo pts d k).2 ≠ .ok
    | some wc => (m.writeVideo pts d k).1.w = (wstep m.w wc).1 ∧
        ((m.writeVideo pts d k).2 = .ok ↔ (wstep m.w wc).2 = .ok) := by
  unfold wvCall Muxer.writeVideo
  by_cases h1 : d = []
  · simp [h1]
  by_cases h2 : pts.isFinite
  · by_cases h3 : pts.isNeg
    · simp [h1, h2, h3]
    by_cases h4 : ticksRepresentable pts
    · cases hl : m.lastVideoPts with
      | none =>
        simp only [h1, h2, h3, h4, hl, not_true_eq_false, Bool.false_eq_true, if_false, wstep]
        cases hr : (m.w.writeVideo pts.ticks pts.ticks d k).2 with
        | ok => simp [hr]
        | err e => cases e <;> simp [hr, wresReply, convertErr]
        | panic => simp [hr, wresReply]
      | some prev =>
        by_cases h5 : F64.le pts prev = true
        · simp [h1, h2, h3, h4, hl, h5]
        · simp only [h1, h2, h3, h4, hl, h5, not_true_eq_false, Bool.false_eq_true, if_false, wstep]
          cases hr : (m.w.writeVideo pts.ticks pts.ticks d k).2 with
          | ok => simp [hr]
          | err e => cases e <;> simp [hr, wresReply, convertErr]
          | panic => simp [hr, wresReply]
    · simp [h1, h2, h3, h4]
  · simp [h1, h2]

theorem writeVideoDts_w (m : Muxer) (pts dts : F64) (d : Bytes) (k : Bool) :
    match wvdCall m pts dts d k with
    | none => (m.writeVideoDts pts dts d k).1 = m ∧ (m.writeVideoDts pts dts d k).2 ≠ .ok
    | some wc => (m.writeVideoDts pts dts d k).1.w = (wstep m.w wc).1 ∧
        ((m.writeVideoDts pts dts d k).2 = .ok ↔ (wstep m.w wc).2 = .ok) := by
  unfold wvdCall Muxer.writeVideoDts
  by_cases h0 : m.finished = true
  · simp [h0]
  by_cases h1 : d = []
  · simp [h0, h1]
  by_cases h2 : pts.isFinite
  · by_cases h3 : pts.isNeg
    · simp [h0, h1, h2, h3]
    by_cases h4 : ticksRepresentable pts
    · by_cases g2 : dts.isFinite
      · by_cases g3 : dts.isNeg
        · simp [h0, h1, h2, h3, h4, g2, g3]
        by_cases g4 : ticksRepresentable dts
        · cases hl : m.lastVideoDts with
          | none =>
            simp only [h0, h1, h2, h3, h4, g2, g3, g4, hl, not_true_eq_false, Bool.false_eq_true, if_false, wstep]
            cases hr : (m.w.writeVideo pts.ticks dts.ticks d k).2 with
            | ok => simp [hr]
            | err e => cases e <;> simp [hr, wresReply, convertErr]
            | panic => simp [hr, wresReply]
          | some prev =>
            by_cases h5 : F64.le dts prev = true
            · simp [h0, h1, h2, h3, h4, g2, g3, g4, hl, h5]
            · simp only [h0, h1, h2, h3, h4, g2, g3, g4, hl, h5, not_true_eq_false, Bool.false_eq_true, if_false, wstep]
              cases hr : (m.w.writeVideo pts.ticks dts.ticks d k).2 with
              | ok => simp [hr]
              | err e => cases e <;> simp [hr, wresReply, convertErr]
              | panic => simp [hr, wresReply]
        · simp [h0, h1, h2, h3, h4, g2, g3, g4]
      · simp [h0, h1, h2, h3, h4, g2]
    · simp [h0, h1, h2, h3, h4]
  · simp [h0, h1, h2]

theorem writeAudio_w (m : Muxer) (pts : F64) (d : Bytes) :
    match waCall m pts d with
    | none => (m.writeAudio pts d).1 = m ∧ (m.writeAudio pts d).2 ≠ .ok
    | some wc => (m.writeAudio pts d).1.w = (wstep m.w wc).1 ∧
        ((m.writeAudio pts d).2 = .ok ↔ (wstep m.w wc).2 = .ok) := by
  unfold waCall Muxer.writeAudio
  by_cases h0 : m.finished = true
  · simp [h0]
  by_cases ha : m.audioTrack.isNone = true
  · simp [h0, ha]
  by_cases h2 : pts.isFinite
  · by_cases h3 : pts.isNeg
    · simp [h0, ha, h2, h3]
    by_cases h4 : ticksRepresentable pts
    · by_cases h1 : d = []
      · simp [h0, ha, h2, h3, h4, h1]
      cases hl : m.lastAudioPts with
      | none =>
        cases hf : m.firstVideoPts with
        | none => simp [h0, ha, h2, h3, h4, h1, hl]
        | some fv =>
          by_cases h6 : F64.lt pts fv = true
          · simp [h0, ha, h2, h3, h4, h1, h6, hl]
          · simp only [h0, ha, h2, h3, h4, h1, h6, hl, not_true_eq_false, Bool.false_eq_true, if_false, wstep]
            cases hr : (m.w.writeAudio pts.ticks d).2 with
            | ok => simp [hr]
            | err e => cases e <;> simp [hr, wresReply, convertErr]
            | panic => simp [hr, wresReply]
      | some prev =>
        by_cases h5 : F64.lt pts prev = true
        · simp [h0, ha, h2, h3, h4, h1, hl, h5]
        · cases hf : m.firstVideoPts with
          | none => simp [h0, ha, h2, h3, h4, h1, hl, h5]
          | some fv =>
            by_cases h6 : F64.lt pts fv = true
            · simp [h0, ha, h2, h3, h4, h1, h6, hl, h5]
            · simp only [h0, ha, h2, h3, h4, h1, h6, hl, h5, not_true_eq_false, Bool.false_eq_true, if_false, wstep]
              cases hr : (m.w.writeAudio pts.ticks d).2 with
              | ok => simp [hr]
              | err e => cases e <;> simp [hr, wresReply, convertErr]
              | panic => simp [hr, wresReply]
    · simp [h0, ha, h2, h3, h4]
  · simp [h0, ha, h2]

/-- every frame-writing API call: refused without touching the writer, or exactly one writer call -/
theorem step_w (m : Muxer) (c : Call) (hc : c.isWrite = true) :
    match toW m c with
    | none => (step m c).1.w = m.w ∧ (step m c).2 ≠ .ok
    | some wc => (step m c).1.w = (wstep m.w wc).1 ∧ ((step m c).2 = .ok ↔ (wstep m.w wc).2 = .ok) := by
  cases c with
  | wv pts d k =>
    have := writeVideo_w m pts d k
    simp only [toW, step]
    split at this <;> rename_i h
    · exact ⟨by rw [this.1], this.2⟩
    · exact this
  | wvd pts dts d k =>
    have := writeVideoDts_w m pts dts d k
    simp only [toW, step]
    split at this <;> rename_i h
    · exact ⟨by rw [this.1], this.2⟩
    · exact this
  | wa pts d =>
    have := writeAudio_w m pts d
    simp only [toW, step]
    split at this <;> rename_i h
    · exact ⟨by rw [this.1], this.2⟩
    · exact this
  | ev d ms =>
    have := writeVideo_w m m.curV d (m.isKeyframe d)
    simp only [toW, step, Muxer.encodeVideo]
    split at this <;> rename_i h
    · obtain ⟨t1, t2⟩ := this
      cases hr : (m.writeVideo m.curV d (m.isKeyframe d)).2 with
      | ok => exact absurd hr t2
      | err e i => simp [hr, t1]
      | panic => simp [hr, t1]
      | stats s => simp [hr, t1]
    · obtain ⟨t1, t2⟩ := this
      cases hr : (m.writeVideo m.curV d (m.isKeyframe d)).2 with
      | ok => rw [hr] at t2; simp [hr, t1, t2.mp rfl]
      | err e i => rw [hr] at t2; simp [hr, t1]; exact fun h => by simp at t2; exact t2 h
      | panic => rw [hr] at t2; simp [hr, t1]; exact fun h => by simp at t2; exact t2 h
      | stats s => rw [hr] at t2; simp [hr, t1]; exact fun h => by simp at t2; exact t2 h
  | ea d n =>
    simp only [toW, step, Muxer.encodeAudio]
    cases ha : m.audioTrack with
    | none => simp
    | some a =>
      have := writeAudio_w m m.curA d
      simp only
      split at this <;> rename_i h
      · obtain ⟨t1, t2⟩ := this
        cases hr : (m.writeAudio m.curA d).2 with
        | ok => exact absurd hr t2
        | err e i => simp [hr, t1]
        | panic => simp [hr, t1]
        | stats s => simp [hr, t1]
      · obtain ⟨t1, t2⟩ := this
        cases hr : (m.writeAudio m.curA d).2 with
        | ok => rw [hr] at t2; simp [hr, t1, t2.mp rfl]
        | err e i => rw [hr] at t2; simp [hr, t1]; exact fun h => by simp at t2; exact t2 h
        | panic => rw [hr] at t2; simp [hr, t1]; exact fun h => by simp at t2; exact t2 h
        | stats s => rw [hr] at t2; simp [hr, t1]; exact fun h => by simp at t2; exact t2 h
  | fin => cases hc
  | fins => cases hc

/-! ### sequences of calls -/

/-- the writer calls a sequence of API write calls makes, in order -/
def wcalls (m : Muxer) : List Call → List WCall
  | [] => []
  | c :: cs => (toW m c).toList ++ wcalls (step m c).1 cs

/-- the writer-level content of the API calls answered `ok` -/
def apiAccepted (m : Muxer) : List Call → List WCall
  | [] => []
  | c :: cs => (if (step m c).2 = .ok then (toW m c).toList else []) ++ apiAccepted (step m c).1 cs

/-- what is stored of an accepted call -/
def vrec (codec : VCodec) : WCall → Option (Nat × Nat × Bytes × Bool)
  | .video p d data k => some (p, d, convertPayload codec data, k)
  | .audio _ _ => none

def arec (tr : Option AudioTrack) : WCall → Option (Nat × Bytes)
  | .audio p data => some (p, match tr with
      | some t => (C01History.audioPayload t data).getD []
      | none => [])
  | .video _ _ _ _ => none

theorem acceptedVideo_cons (codec : VCodec) (wc : WCall) (wcs : List WCall) (r : WRes) (rs : List WRes) :
    acceptedVideo codec (wc :: wcs) (r :: rs) =
      (if r = .ok then (vrec codec wc).toList else []) ++ acceptedVideo codec wcs rs := by
  cases wc <;> cases r <;> simp [acceptedVideo, vrec]

theorem acceptedAudio_cons (tr : Option AudioTrack) (wc : WCall) (wcs : List WCall) (r : WRes) (rs : List WRes) :
    acceptedAudio tr (wc :: wcs) (r :: rs) =
      (if r = .ok then (arec tr wc).toList else []) ++ acceptedAudio tr wcs rs := by
  cases wc <;> cases r <;> cases tr <;> simp [acceptedAudio, arec]

/-- the API run and the writer run of the calls it makes agree: same writer, and the calls the writer
    accepted are the calls the API answered `ok` -/
theorem run_w (cs : List Call) (hall : ∀ c ∈ cs, c.isWrite = true) : ∀ (m : Muxer) (codec : VCodec) (tr : Option AudioTrack),
    (run m cs).1.w = (wrun m.w (wcalls m cs)).1 ∧
    acceptedVideo codec (wcalls m cs) (wrun m.w (wcalls m cs)).2 = (apiAccepted m cs).filterMap (vrec codec) ∧
    acceptedAudio tr (wcalls m cs) (wrun m.w (wcalls m cs)).2 = (apiAccepted m cs).filterMap (arec tr) := by
  induction cs with
  | nil => intro m codec tr; simp [run, wcalls, wrun, apiAccepted, acceptedVideo, acceptedAudio]
  | cons c cs ih =>
    intro m codec tr
    have hc : c.isWrite = true := hall c (by simp)
    have ih' := ih (fun x hx => hall x (by simp [hx])) (step m c).1 codec tr
    have hs := step_w m c hc
    simp only [run, wcalls, apiAccepted]
    cases ht : toW m c with
    | none =>
      rw [ht] at hs
      obtain ⟨h1, h2⟩ := hs
      simp only [Option.toList, List.nil_append, if_neg h2]
      rw [← h1]
      exact ih'
    | some wc =>
      rw [ht] at hs
      obtain ⟨h1, h2⟩ := hs
      simp only [Option.toList, List.singleton_append, wrun]
      rw [← h1]
      obtain ⟨i1, i2, i3⟩ := ih'
      refine ⟨i1, ?_, ?_⟩
      · rw [acceptedVideo_cons, i2]
        by_cases hk : (step m c).2 = .ok
        · have hw := h2.mp hk
          simp only [hk, hw, if_true]
          cases hv : vrec codec wc <;> simp [List.filterMap_cons, hv]
        · have : (wstep m.w wc).2 ≠ .ok := fun h => hk (h2.mpr h)
          simp [hk, this]
      · rw [acceptedAudio_cons, i3]
        by_cases hk : (step m c).2 = .ok
        · have hw := h2.mp hk
          simp only [hk, hw, if_true]
          cases hv : arec tr wc <;> simp [List.filterMap_cons, hv]
        · have : (wstep m.w wc).2 ≠ .ok := fun h => hk (h2.mpr h)
          simp [hk, this]

/-- `finish_in_place_with_stats` answering with statistics means: the writer's `finalize` ran, returned ok,
    and its chunks are what was handed to the sink -/
theorem finishStats_stats (m : Muxer) (st : Stats) (h : (m.finishStats deliverAll).2.2 = .stats st) :
    (m.finishStats deliverAll).2.1 = (m.w.finalize m.width m.height m.md m.fast).2 ∧
    (m.w.finalize m.width m.height m.md m.fast).2.res = .ok := by
  unfold Muxer.finishStats at h ⊢
  by_cases hf : m.finished = true
  · simp [hf] at h
  · simp only [hf, Bool.false_eq_true, if_false, deliverAll] at h ⊢
    cases hr : (m.w.finalize m.width m.height m.md m.fast).2.res with
    | ok => simp [hr]
    | ioErr e => simp [hr] at h
    | panic => simp [hr] at h

/-- **C01 at the public API.** Build a muxer from any configuration, make any sequence of frame-writing API
    calls (`write_video`, `write_video_with_dts`, `write_audio`, `encode_video`, `encode_audio`, in any order,
    with any arguments), then finish successfully.  The independent reader finds in the delivered bytes, for the
    video track, exactly the re-framed bytes and key flags of the calls answered `ok`, in call order, and for
    the audio track exactly the raw payloads of the audio calls answered `ok`. -/
theorem C01_api_history (c : Config) (cs : List Call) (hall : ∀ x ∈ cs, x.isWrite = true) (st : Stats) :
    let m0 := build c
    let m := (run m0 cs).1
    (m.finishStats deliverAll).2.2 = .stats st →
    MoovFits m.w m.width m.height m.md m.fast →
    let file := (m.finishStats deliverAll).2.1.chunks.flatten
    ∃ mv vt, parseMovie file = some mv ∧ mv.tracks[0]? = some vt ∧
      (vt.samples file).map (fun s => (s.1, s.2.1)) =
        ((apiAccepted m0 cs).filterMap (vrec c.codec)).map (fun p => (p.2.2.1, p.2.2.2)) ∧
      (∀ tr, m0.w.audio = some tr → ∃ at_, mv.tracks[1]? = some at_ ∧
        (at_.samples file).map (·.1) = ((apiAccepted m0 cs).filterMap (arec m0.w.audio)).map (·.2)) := by
  intro m0 m hst hfit file
  obtain ⟨hout, hres⟩ := finishStats_stats m st hst
  obtain ⟨hw, hv, ha⟩ := run_w cs hall m0 c.codec m0.w.audio
  have hw' : m.w = (wrun m0.w (wcalls m0 cs)).1 := hw
  have h0 : m0.w = { codec := c.codec, audio := m0.w.audio } := rfl
  have key := C01_history c.codec m0.w.audio (wcalls m0 cs) m.width m.height m.md m.fast
  simp only at key
  rw [← h0, ← hw'] at key
  obtain ⟨mv, vt, hmv, -, hvt, hvs, haud⟩ := key hres hfit
  have hfile : file = (m.w.finalize m.width m.height m.md m.fast).2.chunks.flatten := by
    show (m.finishStats deliverAll).2.1.chunks.flatten = _
    rw [hout]
  refine ⟨mv, vt, by rw [hfile]; exact hmv, hvt, ?_, ?_⟩
  · rw [hfile, hvs, hv]
  · intro tr htr
    obtain ⟨at_, hat, hs⟩ := haud tr htr
    exact ⟨at_, hat, by rw [hfile, hs, ha]⟩

/-! ### the hypotheses are satisfiable: a concrete VP9 history with a refused call in the middle -/
namespace Example
def k : Bytes := [73, 131, 66, 0, 128, 100, 100, 18, 146, 255, 255, 99, 25, 255]
def cfg : Config := { codec := .vp9, width := 64, height := 48, audio := none, md := none, fast := true }
/-- `encode_video` (key frame detected), a `write_audio` without an audio track (refused), `write_video` at 1 s -/
def cs : List Call := [.ev k 33, .wa F64.zero [1], .wv (F64.ofNat 1) [73, 131, 66, 16, 128] false]

set_option maxRecDepth 100000 in
example : (∀ x ∈ cs, x.isWrite = true) ∧
    (∃ st, ((run (build cfg) cs).1.finishStats deliverAll).2.2 = .stats st) ∧
    (let m := (run (build cfg) cs).1; MoovFits m.w m.width m.height m.md m.fast) ∧
    (apiAccepted (build cfg) cs).filterMap (vrec .vp9) =
      [(0, 0, k, true), (90000, 90000, [73, 131, 66, 16, 128], false)] := by
  refine ⟨by decide, ?_, ?_, ?_⟩
  · have h : (match ((run (build cfg) cs).1.finishStats deliverAll).2.2 with | .stats _ => true | _ => false) = true := by
      decide +kernel
    revert h
    cases ((run (build cfg) cs).1.finishStats deliverAll).2.2 <;> simp
  · unfold MoovFits; decide +kernel
  · decide +kernel
end Example

end Muxide.Props.C01Api
