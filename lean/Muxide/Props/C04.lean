import Muxide.Lemmas.Api
import Muxide.Lemmas.Track
import Muxide.Lemmas.Config
import Muxide.Lemmas.F64
import Muxide.Props.C14
import Muxide.Props.C05
/-
  C04 — At any point in any sequence of builder and muxer calls, a write or finish call succeeds
  exactly when none of the documented preconditions is violated, and a failing call's error names
  a precondition that this call actually violated.

  Method: an abstraction relation `Inv m h` between the concrete muxer state `m` and the abstract
  history `h : AbsHist` of accepted calls (`C04_inv_init`, `C04_inv_*`: established by `build`,
  preserved by every call, the history being extended exactly on `ok`). Under `Inv`, each call's
  reply is `Good` w.r.t. the specification's violation list (`C04_video`, `C04_videoDts`,
  `C04_audio`, `C04_finishStats`, `C04_finish`), from which the `iff` and the "error is explained"
  statements follow.

  Explicit hypotheses (all shown satisfiable / necessary at the end of the file):
  * `hsplit : ∀ d, nals d = splitAnnexB d` — ASSUMED here (model NAL scanner = declarative split);
  * `IsDouble x` — timestamp arguments are decodings of 64-bit patterns (`F64` has junk triples);
  * `VideoSizeOk` / `AudioSizeOk` — the payload fits the 32-bit sample-size field (< 4 GiB);
  * `NoSizeLimit m` — the file layout does not hit the 4 GiB `mdat` / chunk-offset limits;
-/
namespace Muxide.Props.C04
open Muxide Muxide.Spec

def acodecS : ACodec → Option ACodecS
  | .aac _ => some .aac | .opus => some .opus | .none => none

/-- the abstraction relation between a muxer state and the abstract history of accepted calls -/
structure Inv (m : Muxer) (h : AbsHist) : Prop where
  codec : h.codec = codecS m.w.codec
  audio : h.audio = m.w.audio.bind (fun tr => acodecS tr.codec)
  audioCodec : ∀ tr, m.w.audio = some tr → tr.codec ≠ .none
  audioTrack : m.audioTrack = m.w.audio
  width : h.width = m.width
  height : h.height = m.height
  fin : h.finishAttempted = m.w.finalized
  finished : m.finished = true → m.w.finalized = true
  vsamples : m.w.vsRev.map (fun s => (s.pts, s.dts)) = h.video.reverse.map (fun v => (v.pts.ticks, v.dts.ticks))
  asamples : m.w.asRev.map (fun s => (s.pts, s.dts)) = h.audioPts.reverse.map (fun p => (p.ticks, p.ticks))
  vtrack : TrackOk m.w.vsRev m.w.vPrev m.w.vLastDelta
  atrack : TrackOk m.w.asRev m.w.aPrev m.w.aLastDelta
  vdata : ∀ s ∈ m.w.vsRev, s.data ≠ []
  adata : ∀ s ∈ m.w.asRev, s.data ≠ []
  vcount : m.vCount = h.video.length
  acount : m.aCount = h.audioPts.length
  firstV : m.firstVideoPts = h.video.head?.map (·.pts)
  lastV : m.lastVideoPts = h.video.getLast?.map (·.pts)
  lastA : m.lastAudioPts = h.audioPts.getLast?
  lastDts : ∀ x, m.lastVideoDts = some x → x.isFinite = true ∧ x.isNeg = false ∧
      ∃ p, h.video.getLast? = some p ∧ x.ticks ≤ p.dts.ticks
  vgood : ∀ v ∈ h.video, v.pts.isFinite = true ∧ v.pts.isNeg = false ∧ v.dts.isFinite = true ∧ v.dts.isNeg = false ∧
      ¬ ctsBad v.pts.ticks v.dts.ticks
  agood : ∀ p ∈ h.audioPts, p.isFinite = true ∧ p.isNeg = false

/-- the abstract history right after `build` -/
def initHist (c : Config) : AbsHist :=
  { codec := codecS c.codec
    audio := (c.audio.bind fun a => if a.codec = .none then none else some a).bind (fun tr => acodecS tr.codec)
    width := c.width, height := c.height }

theorem C04_inv_init (c : Config) : Inv (build c) (initHist c) := by
  refine ⟨rfl, rfl, ?_, rfl, rfl, rfl, rfl, ?_, rfl, rfl, ⟨rfl, rfl⟩, ⟨rfl, rfl⟩, ?_, ?_, rfl, rfl, rfl, rfl, rfl, ?_, ?_, ?_⟩
  · intro tr ht
    simp only [build] at ht
    cases hc : c.audio with
    | none => simp [hc] at ht
    | some a =>
      simp only [hc, Option.bind_some] at ht
      by_cases hn : a.codec = .none
      · simp [hn] at ht
      · simp only [hn, if_false, Option.some.injEq] at ht; subst ht; exact hn
  · intro hf; simp [build] at hf
  · intro s hs; simp [build] at hs
  · intro s hs; simp [build] at hs
  · intro x hx; simp [build] at hx
  · intro v hv; simp [initHist] at hv
  · intro p hp; simp [initHist] at hp


/-! ### the specification's violation lists, component by component -/

section spec
variable (h : AbsHist) (via : Bool) (pts dts : F64) (d : Bytes) (k : Bool)

theorem mem_v_finished (hf : h.finishAttempted = true) : .finished ∈ videoViolations h via pts dts d k := by
  simp [videoViolations, hf]
theorem mem_v_empty (hd : d = []) : .empty ∈ videoViolations h via pts dts d k := by
  simp [videoViolations, hd]
theorem mem_v_nonFinitePts (hp : pts.isFinite = false ∨ (pts.isNeg = false ∧ tickInRange pts = false)) :
    .nonFinitePts ∈ videoViolations h via pts dts d k := by
  rcases hp with hp | ⟨h1, h2⟩
  · simp [videoViolations, hp]
  · by_cases hf : pts.isFinite = true <;> simp [videoViolations, hf, h1, h2]
theorem mem_v_negativePts (hf : pts.isFinite = true) (hn : pts.isNeg = true) :
    .negativePts ∈ videoViolations h via pts dts d k := by
  simp [videoViolations, hf, hn]
theorem mem_v_nonFiniteDts (hp : dts.isFinite = false ∨ (dts.isNeg = false ∧ tickInRange dts = false)) :
    .nonFiniteDts ∈ videoViolations h via pts dts d k := by
  rcases hp with hp | ⟨h1, h2⟩
  · simp [videoViolations, hp]
  · by_cases hf : dts.isFinite = true <;> simp [videoViolations, hf, h1, h2]
theorem mem_v_negativeDts (hf : dts.isFinite = true) (hn : dts.isNeg = true) :
    .negativeDts ∈ videoViolations h via pts dts d k := by
  simp [videoViolations, hf, hn]
theorem mem_v_gap_cts (hc : ctsBad pts.ticks dts.ticks) : .gap ∈ videoViolations h via pts dts d k := by
  unfold videoViolations
  unfold ctsBad at hc
  rw [if_pos hc]; simp
theorem mem_v_order (p : AbsVideo) (hp : h.video.getLast? = some p)
    (ho : (via = true ∧ F64.le pts p.pts = true) ∨ dts.ticks ≤ p.dts.ticks) :
    .videoOrder ∈ videoViolations h via pts dts d k := by
  rcases ho with ⟨h1, h2⟩ | h1
  · simp [videoViolations, hp, h1, h2]
  · simp [videoViolations, hp, h1]
theorem mem_v_gap_delta (p : AbsVideo) (hp : h.video.getLast? = some p)
    (ho : dts.ticks - p.dts.ticks > u32MaxS) : .gap ∈ videoViolations h via pts dts d k := by
  simp [videoViolations, hp, ho]
theorem mem_v_firstNotKey (hp : h.video.getLast? = none) (hk : k = false) :
    .firstNotKey ∈ videoViolations h via pts dts d k := by
  simp [videoViolations, hp, hk]
theorem mem_v_firstNoConfig (hp : h.video.getLast? = none) (hk : carriesConfig h.codec d = false) :
    .firstNoConfig ∈ videoViolations h via pts dts d k := by
  simp [videoViolations, hp, hk]

theorem ite_single_nil {α} (c : Prop) [Decidable c] (x : α) : (if c then [x] else []) = [] ↔ ¬ c := by
  by_cases hc : c <;> simp [hc]

theorem videoViolations_nil
    (h1 : h.finishAttempted = false) (h2 : d ≠ [])
    (h3 : pts.isFinite = true) (h4 : pts.isNeg = false) (h5 : tickInRange pts = true)
    (h6 : dts.isFinite = true) (h7 : dts.isNeg = false) (h8 : tickInRange dts = true)
    (h9 : ¬ ctsBad pts.ticks dts.ticks)
    (h10 : ∀ p, h.video.getLast? = some p →
      ¬ (via = true ∧ F64.le pts p.pts = true) ∧ ¬ dts.ticks ≤ p.dts.ticks ∧ ¬ dts.ticks - p.dts.ticks > u32MaxS)
    (h11 : h.video.getLast? = none → k = true ∧ carriesConfig h.codec d = true) :
    videoViolations h via pts dts d k = [] := by
  unfold videoViolations
  unfold ctsBad at h9
  simp only [h1, h2, h3, h4, h5, h6, h7, h8, Bool.false_eq_true, if_false, not_true,
    List.nil_append, if_neg h9]
  cases hp : h.video.getLast? with
  | none =>
    obtain ⟨a, b⟩ := h11 hp
    simp [a, b]
  | some p =>
    obtain ⟨a, b, c⟩ := h10 p hp
    simp only [List.append_eq_nil_iff, ite_single_nil]
    refine ⟨?_, c⟩
    simp only [Bool.or_eq_true, Bool.and_eq_true, decide_eq_true_eq]
    rintro (x | x)
    · exact a x
    · exact b x


theorem mem_a_finished (hf : h.finishAttempted = true) : .finished ∈ audioViolations h pts d := by
  simp [audioViolations, hf]
theorem mem_a_notConfigured (ha : h.audio = none) : .audioNotConfigured ∈ audioViolations h pts d := by
  simp [audioViolations, ha]
theorem mem_a_framing (a : ACodecS) (ha : h.audio = some a) (hd : d ≠ []) (hv : validAudioFraming a d = false) :
    .badAudioFraming ∈ audioViolations h pts d := by
  simp [audioViolations, ha, hd, hv]
theorem mem_a_nonFinitePts (hp : pts.isFinite = false ∨ (pts.isNeg = false ∧ tickInRange pts = false)) :
    .nonFinitePts ∈ audioViolations h pts d := by
  rcases hp with hp | ⟨h1, h2⟩
  · simp [audioViolations, hp]
  · by_cases hf : pts.isFinite = true <;> simp [audioViolations, hf, h1, h2]
theorem mem_a_negativePts (hf : pts.isFinite = true) (hn : pts.isNeg = true) :
    .negativePts ∈ audioViolations h pts d := by
  simp [audioViolations, hf, hn]
theorem mem_a_empty (hd : d = []) : .empty ∈ audioViolations h pts d := by
  simp [audioViolations, hd]
theorem mem_a_order (p : F64) (hp : h.audioPts.getLast? = some p) (ho : F64.lt pts p = true) :
    .audioOrder ∈ audioViolations h pts d := by
  simp [audioViolations, hp, ho]
theorem mem_a_gap (p : F64) (hp : h.audioPts.getLast? = some p) (ho : pts.ticks - p.ticks > u32MaxS) :
    .gap ∈ audioViolations h pts d := by
  simp [audioViolations, hp, ho]
theorem mem_a_beforeVideo (hv : h.video.head? = none ∨ ∃ v, h.video.head? = some v ∧ F64.lt pts v.pts = true) :
    .audioBeforeVideo ∈ audioViolations h pts d := by
  rcases hv with hv | ⟨v, hv, hl⟩
  · simp [audioViolations, hv]
  · simp [audioViolations, hv, hl]

theorem audioViolations_nil (a : ACodecS)
    (h1 : h.finishAttempted = false) (h2 : h.audio = some a) (h3 : validAudioFraming a d = true)
    (h4 : pts.isFinite = true) (h5 : pts.isNeg = false) (h6 : tickInRange pts = true) (h7 : d ≠ [])
    (h8 : ∀ p, h.audioPts.getLast? = some p → F64.lt pts p = false ∧ ¬ pts.ticks - p.ticks > u32MaxS)
    (h9 : ∃ v, h.video.head? = some v ∧ F64.lt pts v.pts = false) :
    audioViolations h pts d = [] := by
  obtain ⟨v, hv, hl⟩ := h9
  unfold audioViolations
  simp only [h1, h2, h3, h4, h5, h6, h7, hv, hl, Bool.false_eq_true, if_false, not_true, and_false,
    List.nil_append, List.append_nil]
  cases hp : h.audioPts.getLast? with
  | none => simp
  | some p =>
    obtain ⟨x, y⟩ := h8 p hp
    simp [x, y]

theorem mem_f_finished (hf : h.finishAttempted = true) : .finished ∈ finishViolations h := by
  simp [finishViolations, hf]
theorem mem_f_gap (hg : trackDuration (h.video.map (·.dts.ticks)) > u32MaxS ∨
    trackDuration (h.audioPts.map (·.ticks)) > u32MaxS ∨ h.width > 65535 ∨ h.height > 65535) :
    .gap ∈ finishViolations h := by
  unfold finishViolations
  rw [if_pos hg]; simp
theorem finishViolations_nil (h1 : h.finishAttempted = false)
    (hg : ¬ (trackDuration (h.video.map (·.dts.ticks)) > u32MaxS ∨
      trackDuration (h.audioPts.map (·.ticks)) > u32MaxS ∨ h.width > 65535 ∨ h.height > 65535)) :
    finishViolations h = [] := by
  unfold finishViolations
  rw [if_neg hg]; simp [h1]

end spec

/-! ### consequences of the invariant -/

theorem trackOk_prev {rev : List Sample} {prev ld : Option Nat} (h : TrackOk rev prev ld) :
    prev = rev.head?.map (·.dts) := by
  cases rev with
  | nil => exact h.1
  | cons s rest => exact h.1

theorem Inv.vPrev {m : Muxer} {h : AbsHist} (hinv : Inv m h) :
    m.w.vPrev = h.video.getLast?.map (·.dts.ticks) := by
  rw [trackOk_prev hinv.vtrack]
  have := congrArg (fun l => l.head?.map Prod.snd) hinv.vsamples
  simpa [List.head?_map, List.head?_reverse, Function.comp_def] using this

theorem Inv.aPrev {m : Muxer} {h : AbsHist} (hinv : Inv m h) :
    m.w.aPrev = h.audioPts.getLast?.map (·.ticks) := by
  rw [trackOk_prev hinv.atrack]
  have := congrArg (fun l => l.head?.map Prod.snd) hinv.asamples
  simpa [List.head?_map, List.head?_reverse, Function.comp_def] using this

theorem mem_of_getLast? {α} {l : List α} {a : α} (h : l.getLast? = some a) : a ∈ l :=
  List.mem_of_getLast? h

/-- what a reply must satisfy against the list of violated preconditions -/
def Good (vs : List Violation) (r : Reply) : Prop :=
  match r with
  | .ok => vs = []
  | .err e _ => ∃ v ∈ vs, v ∈ explains e.name
  | _ => False

theorem Good.mk_err {vs : List Violation} {e : MErr} {i : Option Nat} (v : Violation) (hv : v ∈ vs)
    (he : v ∈ explains e.name) : Good vs (.err e i) := ⟨v, hv, he⟩

theorem u32Max_eq : u32Max = u32MaxS := rfl

/-- residual hypothesis: the stored video payload fits the 32-bit sample-size field -/
def VideoSizeOk (m : Muxer) (d : Bytes) : Prop := (convertPayload m.w.codec d).length ≤ u32Max

/-- the writer-level checks of a video write, against the specification -/
theorem writer_video (hsplit : ∀ d, nals d = splitAnnexB d) {m : Muxer} {h : AbsHist} (hinv : Inv m h)
    (via : Bool) (pts dts : F64) (d : Bytes) (k : Bool) (idx : Nat) (hsize : VideoSizeOk m d) :
    match m.w.videoErr pts.ticks dts.ticks d k with
    | none => h.finishAttempted = false ∧ ¬ ctsBad pts.ticks dts.ticks ∧
        (∀ p, h.video.getLast? = some p → ¬ dts.ticks ≤ p.dts.ticks ∧ ¬ dts.ticks - p.dts.ticks > u32MaxS) ∧
        (h.video.getLast? = none → k = true ∧ carriesConfig h.codec d = true)
    | some e => Good (videoViolations h via pts dts d k) (convertErr e idx) := by
  unfold Writer.videoErr
  unfold VideoSizeOk at hsize
  by_cases hf : m.w.finalized = true
  · simp only [hf, if_true]
    exact Good.mk_err .finished (mem_v_finished _ _ _ _ _ _ (by rw [hinv.fin]; exact hf)) (by decide)
  · have hfa : h.finishAttempted = false := by rw [hinv.fin]; simpa using hf
    simp only [hf, Bool.false_eq_true, if_false]
    rw [hinv.vPrev]
    cases hp : h.video.getLast? with
    | some p =>
      simp only [Option.map_some]
      by_cases h1 : dts.ticks ≤ p.dts.ticks
      · simp only [h1, if_true]
        exact Good.mk_err .videoOrder (mem_v_order _ _ _ _ _ _ p hp (Or.inr h1)) (by decide)
      · simp only [h1, if_false]
        by_cases h2 : dts.ticks - p.dts.ticks > u32Max
        · simp only [h2, if_true]
          exact Good.mk_err .gap (mem_v_gap_delta _ _ _ _ _ _ p hp h2) (by decide)
        · simp only [h2, if_false, if_neg (Nat.not_lt.mpr hsize)]
          by_cases h4 : ctsBad pts.ticks dts.ticks
          · rw [if_pos h4]
            exact Good.mk_err .gap (mem_v_gap_cts _ _ _ _ _ _ h4) (by decide)
          · rw [if_neg h4]
            refine ⟨hfa, h4, ?_, by simp⟩
            intro p' hp'
            cases hp'
            exact ⟨h1, h2⟩
    | none =>
      simp only [Option.map_none]
      cases k with
      | true =>
        simp only [not_true, if_false]
        have hcfg := extractConfig_some_iff hsplit m.w.codec d
        cases hc : extractConfig m.w.codec d with
        | none =>
          simp only []
          have hcc : carriesConfig h.codec d = false := by
            rw [hinv.codec]
            cases hx : carriesConfig (codecS m.w.codec) d with
            | false => rfl
            | true => obtain ⟨c, hc'⟩ := hcfg.mpr hx; rw [hc] at hc'; cases hc'
          have hm := mem_v_firstNoConfig h via pts dts d true hp hcc
          cases hcd : m.w.codec <;> simp only [missingCfgErr, convertErr] <;>
            exact Good.mk_err .firstNoConfig hm (by decide)
        | some c =>
          simp only [if_neg (Nat.not_lt.mpr hsize)]
          by_cases h4 : ctsBad pts.ticks dts.ticks
          · rw [if_pos h4]
            exact Good.mk_err .gap (mem_v_gap_cts _ _ _ _ _ _ h4) (by decide)
          · rw [if_neg h4]
            refine ⟨hfa, h4, by simp, ?_⟩
            intro _
            refine ⟨trivial, ?_⟩
            rw [hinv.codec]
            exact hcfg.mp ⟨c, hc⟩
      | false =>
        simp only [Bool.false_eq_true, not_false_eq_true, if_true]
        exact Good.mk_err .firstNotKey (mem_v_firstNotKey _ _ _ _ _ _ hp rfl) (by decide)

/-- `x` is a genuine double (the decoding of a 64-bit pattern) -/
abbrev IsDouble (x : F64) : Prop := F64.canon x

theorem tir_of_repr {x : F64} (hc : IsDouble x) (hf : x.isFinite = true) (hn : x.isNeg = false)
    (b : Bool) (hr : ticksRepresentable x = b) : tickInRange x = b := by
  rw [← F64.ticksRepresentable_eq_tickInRange x hc hf hn]; exact hr

/-- **write_video**: the reply against the violated preconditions (`Good`): `ok` only if nothing is
    violated, an error only if it names a violated precondition, never anything else -/
theorem C04_video (hsplit : ∀ d, nals d = splitAnnexB d) {m : Muxer} {h : AbsHist} (hinv : Inv m h)
    (pts : F64) (d : Bytes) (k : Bool) (hc : IsDouble pts) (hsize : VideoSizeOk m d) :
    Good (videoViolations h true pts pts d k) (m.writeVideo pts d k).2 := by
  rw [Muxer.writeVideo_eq]
  by_cases h1 : d = []
  · subst h1
    simp only [Muxer.wvPre, if_true]
    exact Good.mk_err .empty (mem_v_empty _ _ _ _ _ _ rfl) (by decide)
  by_cases h2 : pts.isFinite = true
  swap
  · simp only [Muxer.wvPre, h1, h2, if_false]
    exact Good.mk_err .nonFinitePts (mem_v_nonFinitePts _ _ _ _ _ _ (Or.inl (by simpa using h2))) (by decide)
  by_cases h3 : pts.isNeg = true
  · simp only [Muxer.wvPre, h1, h2, h3, if_false, not_true, if_true]
    exact Good.mk_err .negativePts (mem_v_negativePts _ _ _ _ _ _ h2 h3) (by decide)
  have h3' : pts.isNeg = false := by simpa using h3
  by_cases h4 : ticksRepresentable pts = true
  swap
  · simp only [Muxer.wvPre, h1, h2, h3, h4, if_false, not_true]
    have := tir_of_repr hc h2 h3' false (by simpa using h4)
    exact Good.mk_err .nonFinitePts (mem_v_nonFinitePts _ _ _ _ _ _ (Or.inr ⟨h3', this⟩)) (by decide)
  have h4' := tir_of_repr hc h2 h3' true h4
  by_cases h5 : prevLe pts m.lastVideoPts = true
  · simp only [Muxer.wvPre, h1, h2, h3, h4, h5, if_false, not_true, if_true]
    rw [hinv.lastV] at h5
    cases hp : h.video.getLast? with
    | none => rw [hp] at h5; simp [prevLe] at h5
    | some p =>
      rw [hp] at h5
      simp only [Option.map_some, prevLe] at h5
      exact Good.mk_err .videoOrder (mem_v_order _ _ _ _ _ _ p hp (Or.inl ⟨rfl, h5⟩)) (by decide)
  simp only [Muxer.wvPre, h1, h2, h3, h4, h5, if_false, not_true, Bool.false_eq_true]
  have hw := writer_video hsplit hinv true pts pts d k m.vCount hsize
  cases he : m.w.videoErr pts.ticks pts.ticks d k with
  | some e => rw [he] at hw; exact hw
  | none =>
    rw [he] at hw
    obtain ⟨a, b, c, e⟩ := hw
    refine videoViolations_nil _ _ _ _ _ _ a h1 h2 h3' h4' h2 h3' h4' b ?_ e
    intro p hp
    refine ⟨?_, (c p hp).1, (c p hp).2⟩
    rintro ⟨_, hle⟩
    apply h5
    rw [hinv.lastV, hp]
    simpa [prevLe] using hle

/-- **write_video_with_dts** -/
theorem C04_videoDts (hsplit : ∀ d, nals d = splitAnnexB d) {m : Muxer} {h : AbsHist} (hinv : Inv m h)
    (pts dts : F64) (d : Bytes) (k : Bool) (hc : IsDouble pts) (hcd : IsDouble dts) (hsize : VideoSizeOk m d) :
    Good (videoViolations h false pts dts d k) (m.writeVideoDts pts dts d k).2 := by
  rw [Muxer.writeVideoDts_eq]
  by_cases h0 : m.finished = true
  · simp only [Muxer.wvdPre, h0, if_true]
    exact Good.mk_err .finished (mem_v_finished _ _ _ _ _ _ (by rw [hinv.fin]; exact hinv.finished h0)) (by decide)
  by_cases h1 : d = []
  · subst h1
    simp only [Muxer.wvdPre, h0, if_true]
    exact Good.mk_err .empty (mem_v_empty _ _ _ _ _ _ rfl) (by decide)
  by_cases h2 : pts.isFinite = true
  swap
  · simp only [Muxer.wvdPre, h0, h1, h2, if_false]
    exact Good.mk_err .nonFinitePts (mem_v_nonFinitePts _ _ _ _ _ _ (Or.inl (by simpa using h2))) (by decide)
  by_cases h3 : pts.isNeg = true
  · simp only [Muxer.wvdPre, h0, h1, h2, h3, if_false, not_true, if_true]
    exact Good.mk_err .negativePts (mem_v_negativePts _ _ _ _ _ _ h2 h3) (by decide)
  have h3' : pts.isNeg = false := by simpa using h3
  by_cases h4 : ticksRepresentable pts = true
  swap
  · simp only [Muxer.wvdPre, h0, h1, h2, h3, h4, if_false, not_true]
    have := tir_of_repr hc h2 h3' false (by simpa using h4)
    exact Good.mk_err .nonFinitePts (mem_v_nonFinitePts _ _ _ _ _ _ (Or.inr ⟨h3', this⟩)) (by decide)
  have h4' := tir_of_repr hc h2 h3' true h4
  by_cases g2 : dts.isFinite = true
  swap
  · simp only [Muxer.wvdPre, h0, h1, h2, h3, h4, g2, if_false, not_true]
    exact Good.mk_err .nonFiniteDts (mem_v_nonFiniteDts _ _ _ _ _ _ (Or.inl (by simpa using g2))) (by decide)
  by_cases g3 : dts.isNeg = true
  · simp only [Muxer.wvdPre, h0, h1, h2, h3, h4, g2, g3, if_false, not_true, if_true]
    exact Good.mk_err .negativeDts (mem_v_negativeDts _ _ _ _ _ _ g2 g3) (by decide)
  have g3' : dts.isNeg = false := by simpa using g3
  by_cases g4 : ticksRepresentable dts = true
  swap
  · simp only [Muxer.wvdPre, h0, h1, h2, h3, h4, g2, g3, g4, if_false, not_true]
    have := tir_of_repr hcd g2 g3' false (by simpa using g4)
    exact Good.mk_err .nonFiniteDts (mem_v_nonFiniteDts _ _ _ _ _ _ (Or.inr ⟨g3', this⟩)) (by decide)
  have g4' := tir_of_repr hcd g2 g3' true g4
  by_cases h5 : prevLe dts m.lastVideoDts = true
  · simp only [Muxer.wvdPre, h0, h1, h2, h3, h4, g2, g3, g4, h5, if_false, not_true, if_true]
    cases hl : m.lastVideoDts with
    | none => rw [hl] at h5; simp [prevLe] at h5
    | some x =>
      rw [hl] at h5
      simp only [prevLe] at h5
      obtain ⟨xf, xn, p, hp, hle⟩ := hinv.lastDts x hl
      have := F64.ticks_mono dts x g2 xf g3' xn h5
      exact Good.mk_err .videoOrder (mem_v_order _ _ _ _ _ _ p hp (Or.inr (Nat.le_trans this hle))) (by decide)
  simp only [Muxer.wvdPre, h0, h1, h2, h3, h4, g2, g3, g4, h5, if_false, not_true, Bool.false_eq_true]
  have hw := writer_video hsplit hinv false pts dts d k m.vCount hsize
  cases he : m.w.videoErr pts.ticks dts.ticks d k with
  | some e => rw [he] at hw; exact hw
  | none =>
    rw [he] at hw
    obtain ⟨a, b, c, e⟩ := hw
    refine videoViolations_nil _ _ _ _ _ _ a h1 h2 h3' h4' g2 g3' g4' b ?_ e
    intro p hp
    exact ⟨by simp, (c p hp).1, (c p hp).2⟩

/-- residual hypothesis: the audio frame fits the 32-bit sample-size field -/
def AudioSizeOk (d : Bytes) : Prop := d.length ≤ u32Max

theorem writer_audio {m : Muxer} {h : AbsHist} (hinv : Inv m h) (pts : F64) (d : Bytes) (idx : Nat)
    (hd : d ≠ []) (hsize : AudioSizeOk d)
    (hord : ∀ p, h.audioPts.getLast? = some p → p.ticks ≤ pts.ticks) :
    match m.w.audioErr pts.ticks d with
    | none => h.finishAttempted = false ∧ (∃ a, h.audio = some a ∧ validAudioFraming a d = true) ∧
        (∀ p, h.audioPts.getLast? = some p → ¬ pts.ticks - p.ticks > u32MaxS) ∧ storedAudio m.w d ≠ []
    | some e => Good (audioViolations h pts d) (convertErr e idx) := by
  unfold Writer.audioErr
  unfold AudioSizeOk at hsize
  by_cases hf : m.w.finalized = true
  · simp only [hf, if_true]
    exact Good.mk_err .finished (mem_a_finished _ _ _ (by rw [hinv.fin]; exact hf)) (by decide)
  have hfa : h.finishAttempted = false := by rw [hinv.fin]; simpa using hf
  simp only [hf, Bool.false_eq_true, if_false]
  cases ha : m.w.audio with
  | none =>
    simp only []
    exact Good.mk_err .audioNotConfigured (mem_a_notConfigured _ _ _ (by rw [hinv.audio, ha]; rfl)) (by decide)
  | some tr =>
    simp only []
    have hcn := hinv.audioCodec tr ha
    have haud : h.audio = acodecS tr.codec := by rw [hinv.audio, ha]; rfl
    rw [hinv.aPrev]
    have tail : ∀ G : Prop, G →
        match (match audioPayload tr.codec d with
          | .error e => some e
          | .ok sd => if sd.length > u32Max then some WErr.durationOverflow else none) with
        | none => h.finishAttempted = false ∧ (∃ a, h.audio = some a ∧ validAudioFraming a d = true) ∧
            G ∧ storedAudio m.w d ≠ []
        | some e => Good (audioViolations h pts d) (convertErr e idx) := by
      intro G hgap
      cases hcd : tr.codec with
      | none => exact absurd hcd hcn
      | opus =>
        have haud' : h.audio = some .opus := by rw [haud, hcd]; rfl
        simp only [audioPayload]
        by_cases hv : isValidOpus d = true
        · simp only [hv, if_true, if_neg (Nat.not_lt.mpr hsize)]
          refine ⟨hfa, ⟨.opus, haud', hv⟩, hgap, ?_⟩
          simp only [storedAudio, ha, hcd, audioPayload, hv, if_true]
          exact hd
        · simp only [hv, Bool.false_eq_true, if_false]
          exact Good.mk_err .badAudioFraming (mem_a_framing _ _ _ .opus haud' hd (by simpa [validAudioFraming] using hv)) (by decide)
      | aac pr =>
        have haud' : h.audio = some .aac := by rw [haud, hcd]; rfl
        simp only [audioPayload]
        cases hr : adtsToRaw d with
        | error e =>
          simp only []
          have : adtsValid d = false := by
            cases hx : adtsValid d with
            | false => rfl
            | true =>
              obtain ⟨r, hr'⟩ := (Muxide.Props.C14.C14_adts d).2.mpr hx
              rw [hr] at hr'; cases hr'
          exact Good.mk_err .badAudioFraming (mem_a_framing _ _ _ .aac haud' hd (by simpa [validAudioFraming] using this)) (by decide)
        | ok sd =>
          have hl := adtsToRaw_length_le d sd hr
          simp only [if_neg (show ¬ sd.length > u32Max by omega)]
          refine ⟨hfa, ⟨.aac, haud', ?_⟩, hgap, ?_⟩
          · exact (Muxide.Props.C14.C14_adts d).2.mp ⟨sd, hr⟩
          · simp only [storedAudio, ha, hcd, audioPayload, hr]
            exact adtsToRaw_ne_nil d sd hr
    cases hp : h.audioPts.getLast? with
    | none =>
      simp only [Option.map_none]
      exact tail _ (by intro p hp'; cases hp')
    | some p =>
      simp only [Option.map_some]
      have h1 : ¬ pts.ticks < p.ticks := Nat.not_lt.mpr (hord p hp)
      simp only [h1, if_false]
      by_cases h2 : pts.ticks - p.ticks > u32Max
      · simp only [h2, if_true]
        exact Good.mk_err .gap (mem_a_gap _ _ _ p hp h2) (by decide)
      · simp only [h2, if_false]
        exact tail _ (by intro p' hp'; cases hp'; exact h2)

/-- **write_audio** -/
theorem C04_audio {m : Muxer} {h : AbsHist} (hinv : Inv m h)
    (pts : F64) (d : Bytes) (hc : IsDouble pts) (hsize : AudioSizeOk d) :
    Good (audioViolations h pts d) (m.writeAudio pts d).2 := by
  rw [Muxer.writeAudio_eq]
  by_cases h0 : m.finished = true
  · simp only [Muxer.waPre, h0, if_true]
    exact Good.mk_err .finished (mem_a_finished _ _ _ (by rw [hinv.fin]; exact hinv.finished h0)) (by decide)
  by_cases ha : m.audioTrack.isNone = true
  · simp only [Muxer.waPre, h0, ha, if_true]
    have : h.audio = none := by
      rw [hinv.audio, ← hinv.audioTrack]
      cases hx : m.audioTrack with
      | none => rfl
      | some a => rw [hx] at ha; simp at ha
    exact Good.mk_err .audioNotConfigured (mem_a_notConfigured _ _ _ this) (by decide)
  by_cases h2 : pts.isFinite = true
  swap
  · simp only [Muxer.waPre, h0, ha, h2]
    exact Good.mk_err .nonFinitePts (mem_a_nonFinitePts _ _ _ (Or.inl (by simpa using h2))) (by decide)
  by_cases h3 : pts.isNeg = true
  · simp only [Muxer.waPre, h0, ha, h2, h3, if_false, not_true, if_true]
    exact Good.mk_err .negativePts (mem_a_negativePts _ _ _ h2 h3) (by decide)
  have h3' : pts.isNeg = false := by simpa using h3
  by_cases h4 : ticksRepresentable pts = true
  swap
  · simp only [Muxer.waPre, h0, ha, h2, h3, h4, if_false, not_true]
    have := tir_of_repr hc h2 h3' false (by simpa using h4)
    exact Good.mk_err .nonFinitePts (mem_a_nonFinitePts _ _ _ (Or.inr ⟨h3', this⟩)) (by decide)
  have h4' := tir_of_repr hc h2 h3' true h4
  by_cases h1 : d = []
  · subst h1
    simp only [Muxer.waPre, h0, ha, h2, h3, h4, if_false, not_true, if_true]
    exact Good.mk_err .empty (mem_a_empty _ _ _ rfl) (by decide)
  by_cases h5 : prevLt pts m.lastAudioPts = true
  · simp only [Muxer.waPre, h0, ha, h2, h3, h4, h1, h5, if_false, not_true, if_true]
    rw [hinv.lastA] at h5
    cases hp : h.audioPts.getLast? with
    | none => rw [hp] at h5; simp [prevLt] at h5
    | some p =>
      rw [hp] at h5
      simp only [prevLt] at h5
      exact Good.mk_err .audioOrder (mem_a_order _ _ _ p hp h5) (by decide)
  have hfv := hinv.firstV
  cases hv : h.video.head? with
  | none =>
    rw [hv] at hfv
    simp only [Option.map_none] at hfv
    simp only [Muxer.waPre, h0, ha, h2, h3, h4, h1, h5, hfv, if_false, not_true, Bool.false_eq_true]
    exact Good.mk_err .audioBeforeVideo (mem_a_beforeVideo _ _ _ (Or.inl hv)) (by decide)
  | some v =>
    rw [hv] at hfv
    simp only [Option.map_some] at hfv
    by_cases h6 : F64.lt pts v.pts = true
    · simp only [Muxer.waPre, h0, ha, h2, h3, h4, h1, h5, hfv, h6, if_false, not_true, Bool.false_eq_true, if_true]
      exact Good.mk_err .audioBeforeVideo (mem_a_beforeVideo _ _ _ (Or.inr ⟨v, hv, h6⟩)) (by decide)
    · simp only [Muxer.waPre, h0, ha, h2, h3, h4, h1, h5, hfv, h6, if_false, not_true, Bool.false_eq_true]
      -- the previous accepted audio frame is not later than this one
      have hlt : ∀ p, h.audioPts.getLast? = some p → F64.lt pts p = false := by
        intro p hp
        have := h5
        rw [hinv.lastA, hp] at this
        simpa [prevLt] using this
      have hord : ∀ p, h.audioPts.getLast? = some p → p.ticks ≤ pts.ticks := by
        intro p hp
        obtain ⟨pf, pn⟩ := hinv.agood p (mem_of_getLast? hp)
        have hl := hlt p hp
        rw [F64.lt_eq_not_le pts p h2 pf] at hl
        have hle : F64.le p pts = true := by simpa using hl
        exact F64.ticks_mono p pts pf h2 pn h3' hle
      have hw := writer_audio hinv pts d m.aCount h1 hsize hord
      cases he : m.w.audioErr pts.ticks d with
      | some e => rw [he] at hw; exact hw
      | none =>
        rw [he] at hw
        obtain ⟨a, ⟨ac, b1, b2⟩, c, _⟩ := hw
        refine audioViolations_nil _ _ _ ac a b1 b2 h2 h3' h4' h1 ?_ ⟨v, hv, by simpa using h6⟩
        intro p hp
        exact ⟨hlt p hp, c p hp⟩

/-! ### finish -/

/-- residual hypothesis: the layout stage of `finalize` reports none of its 4 GiB size-limit errors
    (`mdat` box size / chunk offset beyond 32 bits) -/
def NoSizeLimit (m : Muxer) : Prop :=
  ∀ msg, (layoutOut m.w m.width m.height m.md m.fast).res ≠ .ioErr msg

theorem Inv.no_panic {m : Muxer} {h : AbsHist} (hinv : Inv m h) (W H : Nat) :
    moovPanics W H m.w.vsRev.reverse [] false = false ∧
    moovPanics W H m.w.vsRev.reverse m.w.asRev.reverse true = false := by
  have v1 : m.w.vsRev.reverse.any (fun s => (ctsOf s.pts s.dts).isNone) = false := by
    rw [List.any_eq_false]
    intro s hs
    have hs' : s ∈ m.w.vsRev := by simpa using hs
    have : (s.pts, s.dts) ∈ m.w.vsRev.map (fun s => (s.pts, s.dts)) := List.mem_map.mpr ⟨s, hs', rfl⟩
    rw [hinv.vsamples] at this
    obtain ⟨v, hv, he⟩ := List.mem_map.mp this
    have hv' : v ∈ h.video := by simpa using hv
    simp only [Prod.mk.injEq] at he
    obtain ⟨_, _, _, _, hcts⟩ := hinv.vgood v hv'
    rw [← he.1, ← he.2, ctsOf_isNone_false]
    exact Bool.false_ne_true
  have v2 : m.w.asRev.reverse.any (fun s => (ctsOf s.pts s.dts).isNone) = false := by
    rw [List.any_eq_false]
    intro s hs
    have hs' : s ∈ m.w.asRev := by simpa using hs
    have : (s.pts, s.dts) ∈ m.w.asRev.map (fun s => (s.pts, s.dts)) := List.mem_map.mpr ⟨s, hs', rfl⟩
    rw [hinv.asamples] at this
    obtain ⟨p, hp, he⟩ := List.mem_map.mp this
    simp only [Prod.mk.injEq] at he
    rw [← he.1, ← he.2, ctsOf_isSome _ _ (F64.ticks_lt _) (F64.ticks_lt _) (by unfold ctsBad; omega) Iff.rfl]
    exact Bool.false_ne_true
  have v3 : m.w.vsRev.reverse.any (fun s => decide (s.data.length = 0)) = false := by
    rw [List.any_eq_false]
    intro s hs
    have := hinv.vdata s (by simpa using hs)
    simpa using this
  have v4 : m.w.asRev.reverse.any (fun s => decide (s.data.length = 0)) = false := by
    rw [List.any_eq_false]
    intro s hs
    have := hinv.adata s (by simpa using hs)
    simpa using this
  unfold moovPanics
  constructor <;> simp only [v1, v2, v3, v4, List.any_nil] <;> rfl

theorem Inv.vdur {m : Muxer} {h : AbsHist} (hinv : Inv m h) :
    (durationsOf m.w.vsRev.reverse m.w.vLastDelta).sum = trackDuration (h.video.map (·.dts.ticks)) := by
  rw [track_duration _ _ _ hinv.vtrack]
  congr 1
  have := congrArg (fun l => (l.map Prod.snd).reverse) hinv.vsamples
  simpa [Function.comp_def] using this

theorem Inv.adur {m : Muxer} {h : AbsHist} (hinv : Inv m h) :
    (durationsOf m.w.asRev.reverse m.w.aLastDelta).sum = trackDuration (h.audioPts.map (·.ticks)) := by
  rw [track_duration _ _ _ hinv.atrack]
  congr 1
  have := congrArg (fun l => (l.map Prod.snd).reverse) hinv.asamples
  simpa [Function.comp_def] using this

/-- what a finish reply must satisfy against the violated preconditions -/
def GoodFin (vs : List Violation) (r : Reply) : Prop :=
  match r with
  | .stats _ => vs = []
  | .err e _ => ∃ v ∈ vs, v ∈ explains e.name
  | _ => False

/-- **finish_in_place_with_stats** (fault-free sink) -/
theorem C04_finishStats {m : Muxer} {h : AbsHist} (hinv : Inv m h) (hsz : NoSizeLimit m) :
    GoodFin (finishViolations h) (m.finishStats deliverAll).2.2 := by
  by_cases h0 : m.finished = true
  · have : (m.finishStats deliverAll).2.2 = .err .alreadyFinished none := by
      unfold Muxer.finishStats; simp [h0]
    rw [this]
    exact ⟨.finished, mem_f_finished _ (by rw [hinv.fin]; exact hinv.finished h0), by decide⟩
  have h0' : m.finished = false := by simpa using h0
  obtain ⟨B, _, hrep⟩ := finishStats_eq m h0'
  by_cases hf : m.w.finalized = true
  · have : (m.w.finalize m.width m.height m.md m.fast).2.res = .ioErr "mp4 writer already finalised" := by
      unfold Writer.finalize; simp [hf]
    rw [this] at hrep
    simp only [] at hrep
    rw [hrep]
    exact ⟨.finished, mem_f_finished _ (by rw [hinv.fin]; exact hf), by decide⟩
  have hf' : m.w.finalized = false := by simpa using hf
  have hfa : h.finishAttempted = false := by rw [hinv.fin]; exact hf'
  obtain ⟨_, hres⟩ := finalize_res m.w m.width m.height m.md m.fast hf'
  rw [hinv.vdur, hinv.adur] at hres
  by_cases g1 : trackDuration (h.video.map (·.dts.ticks)) > u32Max ∨ trackDuration (h.audioPts.map (·.ticks)) > u32Max
  · rw [if_pos g1] at hres
    rw [hres] at hrep
    simp only [] at hrep
    rw [hrep]
    refine ⟨.gap, mem_f_gap _ ?_, by decide⟩
    rcases g1 with g | g
    · exact Or.inl g
    · exact Or.inr (Or.inl g)
  rw [if_neg g1] at hres
  by_cases g2 : m.width > 65535 ∨ m.height > 65535
  · rw [if_pos g2] at hres
    rw [← hinv.width, ← hinv.height] at g2
    rw [hres] at hrep
    simp only [] at hrep
    rw [hrep]
    exact ⟨.gap, mem_f_gap _ (Or.inr (Or.inr g2)), by decide⟩
  rw [if_neg g2] at hres
  have hnil : finishViolations h = [] := by
    apply finishViolations_nil _ hfa
    rintro (g | g | g)
    · exact g1 (Or.inl g)
    · exact g1 (Or.inr g)
    · rw [hinv.width, hinv.height] at g; exact g2 g
  -- the layout stage: no size error (hypothesis), no panic (invariant)
  obtain ⟨p1, p2⟩ := hinv.no_panic m.width m.height
  have hnp : (layoutOut m.w m.width m.height m.md m.fast).res ≠ .panic := by
    unfold layoutOut
    simp only []
    split
    · exact finalizeFastStart_ne_panic _ _ _ _ _ p1 p2
    · exact finalizeStandard_ne_panic _ _ _ _ _ p1 p2
  cases hl : (layoutOut m.w m.width m.height m.md m.fast).res with
  | panic => exact absurd hl hnp
  | ioErr msg => exact absurd hl (hsz msg)
  | ok =>
    rw [hres, hl] at hrep
    obtain ⟨s, hs⟩ := hrep
    rw [hs]
    exact hnil

/-! ### the invariant is preserved -/

theorem videoErr_none {w : Writer} {pts dts : Nat} {d : Bytes} {k : Bool} (h : w.videoErr pts dts d k = none) :
    w.finalized = false ∧ (∀ p, w.vPrev = some p → p < dts) ∧ ¬ ctsBad pts dts := by
  unfold Writer.videoErr at h
  by_cases hf : w.finalized = true
  · simp [hf] at h
  · simp only [hf, Bool.false_eq_true, if_false] at h
    refine ⟨by simpa using hf, ?_, ?_⟩
    · intro p hp
      rw [hp] at h
      simp only [] at h
      by_cases h1 : dts ≤ p
      · simp [h1] at h
      · omega
    · intro hc
      simp only [if_pos hc] at h
      cases hp : w.vPrev with
      | some p =>
        rw [hp] at h
        simp only [] at h
        repeat' split at h
        all_goals cases h
      | none =>
        rw [hp] at h
        simp only [] at h
        repeat' split at h
        all_goals cases h

theorem videoPush_fields (w : Writer) (pts dts : Nat) (d : Bytes) (k : Bool) :
    let w' := w.videoPush pts dts d k
    w'.codec = w.codec ∧ w'.audio = w.audio ∧ w'.finalized = w.finalized ∧ w'.asRev = w.asRev ∧
    w'.aPrev = w.aPrev ∧ w'.aLastDelta = w.aLastDelta ∧ w'.vPrev = some dts ∧
    w'.vsRev = ⟨pts, dts, convertPayload w.codec d, k, none⟩ :: pushRev w.vsRev w.vPrev dts ∧
    w'.vLastDelta = pushLd w.vPrev w.vLastDelta dts := by
  unfold Writer.videoPush pushRev pushLd
  cases w.vPrev with
  | some p => simp
  | none => cases extractConfig w.codec d <;> simp

theorem audioPush_fields (w : Writer) (pts : Nat) (sd : Bytes) :
    let w' := w.audioPush pts sd
    w'.codec = w.codec ∧ w'.audio = w.audio ∧ w'.finalized = w.finalized ∧ w'.vsRev = w.vsRev ∧
    w'.vPrev = w.vPrev ∧ w'.vLastDelta = w.vLastDelta ∧ w'.aPrev = some pts ∧
    w'.asRev = ⟨pts, pts, sd, false, none⟩ :: pushRev w.asRev w.aPrev pts ∧
    w'.aLastDelta = pushLd w.aPrev w.aLastDelta pts := by
  unfold Writer.audioPush pushRev pushLd
  cases w.aPrev <;> simp

theorem getD_head (l : List AbsVideo) (o : Option F64) (v : AbsVideo) (h : o = l.head?.map (·.pts)) :
    some (o.getD v.pts) = (l ++ [v]).head?.map (·.pts) := by
  cases l with
  | nil => simp [h]
  | cons a t => simp [h]

/-- pushing an accepted video frame (through either entry point) keeps the invariant -/
theorem Inv.push_video {m : Muxer} {h : AbsHist} (hinv : Inv m h) (pts dts : F64) (d : Bytes) (k : Bool)
    (lvd : Option F64) (hlvd : lvd = m.lastVideoDts ∨ lvd = some dts)
    (hd : d ≠ []) (hpf : pts.isFinite = true) (hpn : pts.isNeg = false)
    (hdf : dts.isFinite = true) (hdn : dts.isNeg = false)
    (he : m.w.videoErr pts.ticks dts.ticks d k = none) :
    Inv { m with w := m.w.videoPush pts.ticks dts.ticks d k,
                 firstVideoPts := some (m.firstVideoPts.getD pts),
                 lastVideoPts := some pts, lastVideoDts := lvd, vCount := m.vCount + 1 }
        { h with video := h.video ++ [⟨pts, dts⟩] } := by
  obtain ⟨e1, e2, e3⟩ := videoErr_none he
  obtain ⟨f1, f2, f3, f4, f5, f6, f7, f8, f9⟩ := videoPush_fields m.w pts.ticks dts.ticks d k
  have hvp := hinv.vPrev
  refine ⟨?_, ?_, ?_, ?_, hinv.width, hinv.height, ?_, ?_, ?_, ?_, ?_, ?_, ?_, ?_, ?_, hinv.acount, ?_, ?_, hinv.lastA, ?_, ?_, hinv.agood⟩
  · simp only [f1]; exact hinv.codec
  · simp only [f2]; exact hinv.audio
  · simp only [f2]; exact hinv.audioCodec
  · simp only [f2]; exact hinv.audioTrack
  · simp only [f3]; exact hinv.fin
  · simp only [f3]; exact hinv.finished
  · simp only [f8, List.map_cons, List.reverse_append, List.reverse_cons, List.reverse_nil, List.nil_append,
      List.singleton_append]
    congr 1
    rw [pushRev_map]; exact hinv.vsamples
  · simp only [f4]; exact hinv.asamples
  · simp only [f7, f8, f9]
    exact trackOk_push m.w.vsRev m.w.vPrev m.w.vLastDelta hinv.vtrack
      ⟨pts.ticks, dts.ticks, convertPayload m.w.codec d, k, none⟩ rfl (fun p hp => Nat.le_of_lt (e2 p hp))
  · simp only [f4, f5, f6]; exact hinv.atrack
  · simp only [f8]
    intro s hs
    rcases List.mem_cons.mp hs with rfl | hs
    · exact convertPayload_ne_nil _ _ hd
    · exact pushRev_data _ _ _ hinv.vdata s hs
  · simp only [f4]; exact hinv.adata
  · simp [hinv.vcount]
  · exact getD_head h.video m.firstVideoPts ⟨pts, dts⟩ hinv.firstV
  · simp
  · intro x hx
    simp only [List.getLast?_append, List.getLast?_singleton, Option.some_or]
    rcases hlvd with hl | hl
    · rw [hl] at hx
      obtain ⟨xf, xn, p, hp, hle⟩ := hinv.lastDts x hx
      refine ⟨xf, xn, _, rfl, ?_⟩
      have : m.w.vPrev = some p.dts.ticks := by rw [hvp, hp]; rfl
      have := e2 _ this
      simp only []; omega
    · rw [hl] at hx
      cases hx
      exact ⟨hdf, hdn, _, rfl, Nat.le_refl _⟩
  · intro v hv
    rcases List.mem_append.mp hv with hv | hv
    · exact hinv.vgood v hv
    · simp only [List.mem_singleton] at hv
      subst hv
      exact ⟨hpf, hpn, hdf, hdn, e3⟩

theorem wvPre_none {m : Muxer} {pts : F64} {d : Bytes} (h : m.wvPre pts d = none) :
    d ≠ [] ∧ pts.isFinite = true ∧ pts.isNeg = false := by
  unfold Muxer.wvPre at h
  repeat' split at h
  all_goals try cases h
  next h1 h2 h3 _ _ => exact ⟨h1, by simpa using h2, by simpa using h3⟩

theorem wvdPre_none {m : Muxer} {pts dts : F64} {d : Bytes} (h : m.wvdPre pts dts d = none) :
    d ≠ [] ∧ pts.isFinite = true ∧ pts.isNeg = false ∧ dts.isFinite = true ∧ dts.isNeg = false := by
  unfold Muxer.wvdPre at h
  repeat' split at h
  all_goals try cases h
  next _ h1 h2 h3 _ g2 g3 _ _ => exact ⟨h1, by simpa using h2, by simpa using h3, by simpa using g2, by simpa using g3⟩

theorem waPre_none {m : Muxer} {pts : F64} {d : Bytes} (h : m.waPre pts d = none) :
    d ≠ [] ∧ pts.isFinite = true ∧ pts.isNeg = false := by
  unfold Muxer.waPre at h
  repeat' split at h
  all_goals try cases h
  next _ _ h2 h3 _ h1 _ _ _ _ _ => exact ⟨h1, by simpa using h2, by simpa using h3⟩

/-- the abstract history after a video call: extended exactly when the reply is `ok` -/
def histVideo (h : AbsHist) (r : Reply) (pts dts : F64) : AbsHist :=
  if r = .ok then { h with video := h.video ++ [⟨pts, dts⟩] } else h

def histAudio (h : AbsHist) (r : Reply) (pts : F64) : AbsHist :=
  if r = .ok then { h with audioPts := h.audioPts ++ [pts] } else h

theorem C04_inv_writeVideo {m : Muxer} {h : AbsHist} (hinv : Inv m h) (pts : F64) (d : Bytes) (k : Bool) :
    Inv (m.writeVideo pts d k).1 (histVideo h (m.writeVideo pts d k).2 pts pts) := by
  rw [Muxer.writeVideo_eq]
  cases hp : m.wvPre pts d with
  | some e => simpa [histVideo] using hinv
  | none =>
    simp only []
    cases he : m.w.videoErr pts.ticks pts.ticks d k with
    | some e =>
      have : convertErr e m.vCount ≠ .ok := by cases e <;> simp [convertErr]
      simpa [histVideo, this] using hinv
    | none =>
      obtain ⟨a, b, c⟩ := wvPre_none hp
      simp only [histVideo, if_true]
      exact hinv.push_video pts pts d k m.lastVideoDts (Or.inl rfl) a b c b c he

theorem C04_inv_writeVideoDts {m : Muxer} {h : AbsHist} (hinv : Inv m h) (pts dts : F64) (d : Bytes) (k : Bool) :
    Inv (m.writeVideoDts pts dts d k).1 (histVideo h (m.writeVideoDts pts dts d k).2 pts dts) := by
  rw [Muxer.writeVideoDts_eq]
  cases hp : m.wvdPre pts dts d with
  | some e => simpa [histVideo] using hinv
  | none =>
    simp only []
    cases he : m.w.videoErr pts.ticks dts.ticks d k with
    | some e =>
      have : convertErr e m.vCount ≠ .ok := by cases e <;> simp [convertErr]
      simpa [histVideo, this] using hinv
    | none =>
      obtain ⟨a, b, c, b', c'⟩ := wvdPre_none hp
      simp only [histVideo, if_true]
      exact hinv.push_video pts dts d k (some dts) (Or.inr rfl) a b c b' c' he

theorem audioErr_none {w : Writer} {pts : Nat} {d : Bytes} (h : w.audioErr pts d = none) (hd : d ≠ []) :
    w.finalized = false ∧ (∀ p, w.aPrev = some p → p ≤ pts) ∧ storedAudio w d ≠ [] := by
  unfold Writer.audioErr at h
  by_cases hf : w.finalized = true
  · simp [hf] at h
  simp only [hf, Bool.false_eq_true, if_false] at h
  cases ha : w.audio with
  | none => rw [ha] at h; cases h
  | some tr =>
    rw [ha] at h
    simp only [] at h
    refine ⟨by simpa using hf, ?_, ?_⟩
    · intro p hp
      rw [hp] at h
      simp only [] at h
      by_cases h1 : pts < p
      · simp [h1] at h
      · omega
    · have hpay : ∃ sd, audioPayload tr.codec d = .ok sd := by
        cases hx : audioPayload tr.codec d with
        | ok sd => exact ⟨sd, rfl⟩
        | error e =>
          rw [hx] at h
          repeat' split at h
          all_goals try cases h
          all_goals simp_all
      obtain ⟨sd, hsd⟩ := hpay
      simp only [storedAudio, ha, hsd]
      unfold audioPayload at hsd
      cases hc : tr.codec with
      | none => rw [hc] at hsd; cases hsd
      | opus =>
        rw [hc] at hsd
        simp only [] at hsd
        split at hsd
        · cases hsd; exact hd
        · cases hsd
      | aac pr =>
        rw [hc] at hsd
        simp only [] at hsd
        cases hr : adtsToRaw d with
        | error e => rw [hr] at hsd; cases hsd
        | ok r => rw [hr] at hsd; cases hsd; exact adtsToRaw_ne_nil d _ hr

theorem C04_inv_writeAudio {m : Muxer} {h : AbsHist} (hinv : Inv m h) (pts : F64) (d : Bytes) :
    Inv (m.writeAudio pts d).1 (histAudio h (m.writeAudio pts d).2 pts) := by
  rw [Muxer.writeAudio_eq]
  cases hp : m.waPre pts d with
  | some e => simpa [histAudio] using hinv
  | none =>
    simp only []
    cases he : m.w.audioErr pts.ticks d with
    | some e =>
      have : convertErr e m.aCount ≠ .ok := by cases e <;> simp [convertErr]
      simpa [histAudio, this] using hinv
    | none =>
      obtain ⟨a, b, c⟩ := waPre_none hp
      obtain ⟨e1, e2, e3⟩ := audioErr_none he a
      simp only [histAudio, if_true]
      obtain ⟨f1, f2, f3, f4, f5, f6, f7, f8, f9⟩ := audioPush_fields m.w pts.ticks (storedAudio m.w d)
      refine ⟨?_, ?_, ?_, ?_, hinv.width, hinv.height, ?_, ?_, ?_, ?_, ?_, ?_, ?_, ?_, hinv.vcount, ?_, hinv.firstV,
        hinv.lastV, ?_, hinv.lastDts, hinv.vgood, ?_⟩
      · simp only [f1]; exact hinv.codec
      · simp only [f2]; exact hinv.audio
      · simp only [f2]; exact hinv.audioCodec
      · simp only [f2]; exact hinv.audioTrack
      · simp only [f3]; exact hinv.fin
      · simp only [f3]; exact hinv.finished
      · simp only [f4]; exact hinv.vsamples
      · simp only [f8, List.map_cons, List.reverse_append, List.reverse_cons, List.reverse_nil, List.nil_append,
          List.singleton_append]
        congr 1
        rw [pushRev_map]; exact hinv.asamples
      · simp only [f4, f5, f6]; exact hinv.vtrack
      · simp only [f7, f8, f9]
        exact trackOk_push m.w.asRev m.w.aPrev m.w.aLastDelta hinv.atrack
          ⟨pts.ticks, pts.ticks, storedAudio m.w d, false, none⟩ rfl e2
      · simp only [f4]; exact hinv.vdata
      · simp only [f8]
        intro s hs
        rcases List.mem_cons.mp hs with rfl | hs
        · exact e3
        · exact pushRev_data _ _ _ hinv.adata s hs
      · simp [hinv.acount]
      · simp
      · intro p hp'
        rcases List.mem_append.mp hp' with hp' | hp'
        · exact hinv.agood p hp'
        · simp only [List.mem_singleton] at hp'
          subst hp'
          exact ⟨b, c⟩

/-- the abstract history after any finish call -/
def histFinish (h : AbsHist) : AbsHist := { h with finishAttempted := true }

theorem finalize_fst (w : Writer) (W H : Nat) (md : Option Metadata) (fast : Bool) :
    (w.finalize W H md fast).1 = { w with finalized := true } := by
  by_cases hf : w.finalized = true
  · unfold Writer.finalize
    simp only [hf, if_true]
    cases w; simp_all
  · exact (finalize_res w W H md fast (by simpa using hf)).1

theorem C04_inv_finishStats {m : Muxer} {h : AbsHist} (hinv : Inv m h) :
    Inv (m.finishStats deliverAll).1 (histFinish h) := by
  by_cases h0 : m.finished = true
  · have : (m.finishStats deliverAll).1 = m := by unfold Muxer.finishStats; simp [h0]
    rw [this]
    have hfa : h.finishAttempted = true := by rw [hinv.fin]; exact hinv.finished h0
    have : histFinish h = h := by cases h; simp_all [histFinish]
    rw [this]; exact hinv
  · obtain ⟨B, hm, _⟩ := finishStats_eq m (by simpa using h0)
    rw [hm, finalize_fst]
    exact ⟨hinv.codec, hinv.audio, hinv.audioCodec, hinv.audioTrack, hinv.width, hinv.height, rfl, fun _ => rfl,
      hinv.vsamples, hinv.asamples, hinv.vtrack, hinv.atrack, hinv.vdata, hinv.adata, hinv.vcount, hinv.acount,
      hinv.firstV, hinv.lastV, hinv.lastA, hinv.lastDts, hinv.vgood, hinv.agood⟩

theorem C04_inv_finish {m : Muxer} {h : AbsHist} (hinv : Inv m h) :
    Inv (m.finish deliverAll).1 (histFinish h) := by
  have : (m.finish deliverAll).1 = (m.finishStats deliverAll).1 := by
    unfold Muxer.finish
    rcases hx : m.finishStats deliverAll with ⟨m', o, r⟩
    cases r <;> rfl
  rw [this]; exact C04_inv_finishStats hinv

/-! ### the statements of C04 -/

theorem Good.ok_iff {vs : List Violation} {r : Reply} (h : Good vs r) : r = .ok ↔ vs = [] := by
  cases r with
  | ok => exact ⟨fun _ => h, fun _ => rfl⟩
  | err e i =>
    obtain ⟨v, hv, _⟩ := h
    constructor
    · intro hh; cases hh
    · intro hh; rw [hh] at hv; cases hv
  | stats s => exact absurd h id
  | panic => exact absurd h id

theorem Good.explains {vs : List Violation} {e : MErr} {i : Option Nat} (h : Good vs (.err e i)) :
    ∃ v ∈ vs, v ∈ explains e.name := h

theorem GoodFin.stats_iff {vs : List Violation} {r : Reply} (h : GoodFin vs r) : (∃ s, r = .stats s) ↔ vs = [] := by
  cases r with
  | stats s => exact ⟨fun _ => h, fun _ => ⟨s, rfl⟩⟩
  | err e i =>
    obtain ⟨v, hv, _⟩ := h
    constructor
    · rintro ⟨s, hh⟩; cases hh
    · intro hh; rw [hh] at hv; cases hv
  | ok => exact absurd h id
  | panic => exact absurd h id

/-- **C04, write_video**: success exactly when no documented precondition is violated.
    Hypotheses: `hsplit` (the model's NAL scanner computes the declarative Annex B split — assumed,
    proved elsewhere), `IsDouble pts` (the argument is a genuine 64-bit double) and `VideoSizeOk`
    (the converted payload fits the 32-bit sample size field). -/
theorem C04_video_iff (hsplit : ∀ d, nals d = splitAnnexB d) {m : Muxer} {h : AbsHist} (hinv : Inv m h)
    (pts : F64) (d : Bytes) (k : Bool) (hc : IsDouble pts) (hsize : VideoSizeOk m d) :
    (m.writeVideo pts d k).2 = .ok ↔ videoViolations h true pts pts d k = [] :=
  (C04_video hsplit hinv pts d k hc hsize).ok_iff

theorem C04_videoDts_iff (hsplit : ∀ d, nals d = splitAnnexB d) {m : Muxer} {h : AbsHist} (hinv : Inv m h)
    (pts dts : F64) (d : Bytes) (k : Bool) (hc : IsDouble pts) (hcd : IsDouble dts) (hsize : VideoSizeOk m d) :
    (m.writeVideoDts pts dts d k).2 = .ok ↔ videoViolations h false pts dts d k = [] :=
  (C04_videoDts hsplit hinv pts dts d k hc hcd hsize).ok_iff

theorem C04_audio_iff {m : Muxer} {h : AbsHist} (hinv : Inv m h)
    (pts : F64) (d : Bytes) (hc : IsDouble pts) (hsize : AudioSizeOk d) :
    (m.writeAudio pts d).2 = .ok ↔ audioViolations h pts d = [] :=
  (C04_audio hinv pts d hc hsize).ok_iff

theorem C04_finish_iff {m : Muxer} {h : AbsHist} (hinv : Inv m h) (hsz : NoSizeLimit m) :
    (∃ s, (m.finishStats deliverAll).2.2 = .stats s) ↔ finishViolations h = [] :=
  (C04_finishStats hinv hsz).stats_iff

/-- `finish_in_place` replies `ok` where `finish_in_place_with_stats` replies the statistics -/
theorem finish_reply (m : Muxer) :
    (m.finish deliverAll).2.2 = (match (m.finishStats deliverAll).2.2 with | .stats _ => .ok | r => r) := by
  unfold Muxer.finish
  rcases hx : m.finishStats deliverAll with ⟨m', o, r⟩
  cases r <;> rfl

theorem C04_finish {m : Muxer} {h : AbsHist} (hinv : Inv m h) (hsz : NoSizeLimit m) :
    Good (finishViolations h) (m.finish deliverAll).2.2 := by
  have hg := C04_finishStats hinv hsz
  rw [finish_reply]
  cases hr : (m.finishStats deliverAll).2.2 with
  | stats s => rw [hr] at hg; exact hg
  | err e i => rw [hr] at hg; exact hg
  | ok => rw [hr] at hg; exact absurd hg id
  | panic => rw [hr] at hg; exact absurd hg id

theorem C04_finish_ok_iff {m : Muxer} {h : AbsHist} (hinv : Inv m h) (hsz : NoSizeLimit m) :
    (m.finish deliverAll).2.2 = .ok ↔ finishViolations h = [] :=
  (C04_finish hinv hsz).ok_iff

/-- **C04, errors are explained**: an error reply names a precondition this very call violated -/
theorem C04_err_explains_video (hsplit : ∀ d, nals d = splitAnnexB d) {m : Muxer} {h : AbsHist} (hinv : Inv m h)
    (pts : F64) (d : Bytes) (k : Bool) (hc : IsDouble pts) (hsize : VideoSizeOk m d) (e : MErr) (i : Option Nat)
    (hr : (m.writeVideo pts d k).2 = .err e i) :
    ∃ v ∈ videoViolations h true pts pts d k, v ∈ explains e.name := by
  have := C04_video hsplit hinv pts d k hc hsize
  rw [hr] at this; exact this

theorem C04_err_explains_videoDts (hsplit : ∀ d, nals d = splitAnnexB d) {m : Muxer} {h : AbsHist} (hinv : Inv m h)
    (pts dts : F64) (d : Bytes) (k : Bool) (hc : IsDouble pts) (hcd : IsDouble dts) (hsize : VideoSizeOk m d)
    (e : MErr) (i : Option Nat) (hr : (m.writeVideoDts pts dts d k).2 = .err e i) :
    ∃ v ∈ videoViolations h false pts dts d k, v ∈ explains e.name := by
  have := C04_videoDts hsplit hinv pts dts d k hc hcd hsize
  rw [hr] at this; exact this

theorem C04_err_explains_audio {m : Muxer} {h : AbsHist} (hinv : Inv m h)
    (pts : F64) (d : Bytes) (hc : IsDouble pts) (hsize : AudioSizeOk d) (e : MErr) (i : Option Nat)
    (hr : (m.writeAudio pts d).2 = .err e i) :
    ∃ v ∈ audioViolations h pts d, v ∈ explains e.name := by
  have := C04_audio hinv pts d hc hsize
  rw [hr] at this; exact this

theorem C04_err_explains_finishStats {m : Muxer} {h : AbsHist} (hinv : Inv m h) (hsz : NoSizeLimit m)
    (e : MErr) (i : Option Nat) (hr : (m.finishStats deliverAll).2.2 = .err e i) :
    ∃ v ∈ finishViolations h, v ∈ explains e.name := by
  have := C04_finishStats hinv hsz
  rw [hr] at this; exact this

theorem C04_err_explains_finish {m : Muxer} {h : AbsHist} (hinv : Inv m h) (hsz : NoSizeLimit m)
    (e : MErr) (i : Option Nat) (hr : (m.finish deliverAll).2.2 = .err e i) :
    ∃ v ∈ finishViolations h, v ∈ explains e.name := by
  have := C04_finish hinv hsz
  rw [hr] at this; exact this

/-! ### the convenience forms: same decisions as the calls they wrap -/

theorem encodeVideo_reply (m : Muxer) (d : Bytes) (ms : Nat) :
    (m.encodeVideo d ms).2 = (m.writeVideo m.curV d (m.isKeyframe d)).2 := by
  unfold Muxer.encodeVideo
  rcases hx : m.writeVideo m.curV d (m.isKeyframe d) with ⟨m', r⟩
  cases r <;> rfl

theorem encodeAudio_reply (m : Muxer) (d : Bytes) (n : Nat) (a : AudioTrack) (ha : m.audioTrack = some a) :
    (m.encodeAudio d n).2 = (m.writeAudio m.curA d).2 := by
  unfold Muxer.encodeAudio
  simp only [ha]
  rcases hx : m.writeAudio m.curA d with ⟨m', r⟩
  cases r <;> rfl

theorem C04_inv_encodeVideo {m : Muxer} {h : AbsHist} (hinv : Inv m h) (d : Bytes) (ms : Nat) :
    Inv (m.encodeVideo d ms).1 (histVideo h (m.encodeVideo d ms).2 m.curV m.curV) := by
  rw [encodeVideo_reply]
  have := C04_inv_writeVideo hinv m.curV d (m.isKeyframe d)
  unfold Muxer.encodeVideo
  rcases hx : m.writeVideo m.curV d (m.isKeyframe d) with ⟨m', r⟩
  rw [hx] at this
  cases r
  case ok => exact ⟨this.1, this.2, this.3, this.4, this.5, this.6, this.7, this.8, this.9, this.10, this.11,
      this.12, this.13, this.14, this.15, this.16, this.17, this.18, this.19, this.20, this.21, this.22⟩
  all_goals exact this

theorem C04_inv_encodeAudio {m : Muxer} {h : AbsHist} (hinv : Inv m h) (d : Bytes) (n : Nat) :
    Inv (m.encodeAudio d n).1 (histAudio h (m.encodeAudio d n).2 m.curA) := by
  cases ha : m.audioTrack with
  | none =>
    have : m.encodeAudio d n = (m, .err .audioNotConfigured none) := by unfold Muxer.encodeAudio; simp [ha]
    rw [this]; simpa [histAudio] using hinv
  | some a =>
    rw [encodeAudio_reply m d n a ha]
    have := C04_inv_writeAudio hinv m.curA d
    unfold Muxer.encodeAudio
    simp only [ha]
    rcases hx : m.writeAudio m.curA d with ⟨m', r⟩
    rw [hx] at this
    cases r
    case ok => exact ⟨this.1, this.2, this.3, this.4, this.5, this.6, this.7, this.8, this.9, this.10, this.11,
        this.12, this.13, this.14, this.15, this.16, this.17, this.18, this.19, this.20, this.21, this.22⟩
    all_goals exact this

/-- `encode_video` decides like `write_video` at the running timestamp (when that is a double) -/
theorem C04_encodeVideo (hsplit : ∀ d, nals d = splitAnnexB d) {m : Muxer} {h : AbsHist} (hinv : Inv m h)
    (d : Bytes) (ms : Nat) (hc : IsDouble m.curV) (hsize : VideoSizeOk m d) :
    Good (videoViolations h true m.curV m.curV d (m.isKeyframe d)) (m.encodeVideo d ms).2 := by
  rw [encodeVideo_reply]; exact C04_video hsplit hinv _ d _ hc hsize

theorem C04_encodeAudio {m : Muxer} {h : AbsHist} (hinv : Inv m h)
    (d : Bytes) (n : Nat) (hc : IsDouble m.curA) (hsize : AudioSizeOk d) :
    Good (audioViolations h m.curA d) (m.encodeAudio d n).2 := by
  cases ha : m.audioTrack with
  | none =>
    have : (m.encodeAudio d n).2 = .err .audioNotConfigured none := by unfold Muxer.encodeAudio; simp [ha]
    rw [this]
    have hn : h.audio = none := by rw [hinv.audio, ← hinv.audioTrack, ha]; rfl
    exact Good.mk_err .audioNotConfigured (mem_a_notConfigured _ _ _ hn) (by decide)
  | some a => rw [encodeAudio_reply m d n a ha]; exact C04_audio hinv _ d hc hsize

/-! ### any sequence of calls -/

open Muxide.Props.C05 in
/-- the abstract history after one call of the progressive API (`Call`, `step` as in C05) -/
def absStep (h : AbsHist) (m : Muxer) (c : Call) (r : Reply) : AbsHist :=
  match c with
  | .wv pts _ _ => histVideo h r pts pts
  | .wvd pts dts _ _ => histVideo h r pts dts
  | .wa pts _ => histAudio h r pts
  | .ev _ _ => histVideo h r m.curV m.curV
  | .ea _ _ => histAudio h r m.curA
  | .fin | .fins => histFinish h

open Muxide.Props.C05 in
/-- **the invariant is preserved by every call**: the history gains the frame exactly when the
    reply is `ok`, and `finishAttempted` is set by any finish call -/
theorem C04_inv_step {m : Muxer} {h : AbsHist} (hinv : Inv m h) (c : Call) :
    Inv (step m c).1 (absStep h m c (step m c).2) := by
  cases c with
  | wv pts d k => exact C04_inv_writeVideo hinv pts d k
  | wvd pts dts d k => exact C04_inv_writeVideoDts hinv pts dts d k
  | wa pts d => exact C04_inv_writeAudio hinv pts d
  | ev d ms => exact C04_inv_encodeVideo hinv d ms
  | ea d n => exact C04_inv_encodeAudio hinv d n
  | fin => exact C04_inv_finish hinv
  | fins => exact C04_inv_finishStats hinv

open Muxide.Props.C05 in
/-- the abstract history after a whole call sequence -/
def absRun : AbsHist → Muxer → List Call → AbsHist
  | h, _, [] => h
  | h, m, c :: cs => absRun (absStep h m c (step m c).2) (step m c).1 cs

open Muxide.Props.C05 in
/-- at any point of any call sequence the muxer state is related to the abstract history of the
    calls accepted so far — so the `iff` / `err_explains` theorems apply to the next call -/
theorem C04_inv_run {m : Muxer} {h : AbsHist} (hinv : Inv m h) (cs : List Call) :
    Inv (run m cs).1 (absRun h m cs) := by
  induction cs generalizing m h with
  | nil => exact hinv
  | cons c cs ih =>
    have := ih (C04_inv_step hinv c)
    simpa [run, absRun] using this

open Muxide.Props.C05 in
theorem C04_inv_from_build (cfg : Config) (cs : List Call) :
    Inv (run (build cfg) cs).1 (absRun (initHist cfg) (build cfg) cs) :=
  C04_inv_run (C04_inv_init cfg) cs

/-! ### the residual hypotheses are satisfiable, and necessary -/

/-- standard layout: the size hypothesis is just "`ftyp` (24 bytes) + `mdat` header (8 bytes) +
    media payload fits 32 bits", which excludes both the `mdat` box-size error and the
    chunk-offset error of the A/V layout -/
theorem noSizeLimit_standard (m : Muxer) (hfast : m.fast = false)
    (hp : ftypLen + 8 + ((m.w.vsRev.reverse.map (·.data.length)).sum +
      (m.w.asRev.reverse.map (·.data.length)).sum) ≤ u32Max) :
    NoSizeLimit m := by
  intro msg
  unfold layoutOut
  simp only [hfast, Bool.false_eq_true, if_false]
  exact finalizeStandard_ne_ioErr _ _ _ _ _ hp msg

example : NoSizeLimit (build ⟨.vp9, 640, 480, none, none, false⟩) :=
  noSizeLimit_standard _ rfl (by decide)
example : IsDouble (F64.ofBits 0x3FF8000000000000) := F64.canon_ofBits _
example : VideoSizeOk (build ⟨.vp9, 640, 480, none, none, false⟩) [0x49, 0x83, 0x42, 0, 0, 1, 1, 0] := by
  unfold VideoSizeOk; decide
example : AudioSizeOk [1, 2, 3] := by unfold AudioSizeOk; decide

/-- `IsDouble` cannot be dropped: on this unnormalised triple (54-bit significand) the model's
    `ticks_representable` and the exact range test of the specification disagree -/
theorem C04_nondouble_counterexample :
    ticksRepresentable (.fin false 13117684674637903 (-6)) = false ∧
    tickInRange (.fin false 13117684674637903 (-6)) = true :=
  F64.ticksRepresentable_ne_tickInRange_noncanon

/-- The former straddle defect (PTS = 2^63 ticks, DTS = 2^63 − 1024 ticks accepted, then `finish`
    panicked on `pts as i64 - dts as i64`) is repaired in /repo (`fix:` "composition offsets are
    computed without i64 overflow"): on the same input the model now finishes with statistics.
    The former hypothesis `NoStraddle` of the finish theorems has been removed accordingly. -/
theorem C04_straddle_repaired :
    let cfg : Config := { codec := .vp9, width := 640, height := 480, audio := none, md := none, fast := false }
    let fr : Bytes := [0x49, 0x83, 0x42, 0, 0, 1, 1, 0]
    let pHi := F64.ofBits 4816403244369008680
    let pLo := F64.ofBits 4816403244369008679
    let m1 := (build cfg).writeVideoDts pHi pLo fr true
    m1.2 = .ok ∧ (m1.1.finishStats deliverAll).2.2 ≠ .panic ∧
      (match (m1.1.finishStats deliverAll).2.2 with | .stats _ => true | _ => false) = true := by
  decide +kernel

/-! ### the scanner hypothesis discharged

`hsplit` is `Muxide.Props.C14.C14_split`; the video theorems above therefore hold without it. -/
theorem C04_video_iff_full {m : Muxer} {h : AbsHist} (hinv : Inv m h)
    (pts : F64) (d : Bytes) (k : Bool) (hc : IsDouble pts) (hsize : VideoSizeOk m d) :
    (m.writeVideo pts d k).2 = .ok ↔ videoViolations h true pts pts d k = [] :=
  C04_video_iff Muxide.Props.C14.C14_split hinv pts d k hc hsize

theorem C04_videoDts_iff_full {m : Muxer} {h : AbsHist} (hinv : Inv m h)
    (pts dts : F64) (d : Bytes) (k : Bool) (hc : IsDouble pts) (hcd : IsDouble dts) (hsize : VideoSizeOk m d) :
    (m.writeVideoDts pts dts d k).2 = .ok ↔ videoViolations h false pts dts d k = [] :=
  C04_videoDts_iff Muxide.Props.C14.C14_split hinv pts dts d k hc hcd hsize

end Muxide.Props.C04
