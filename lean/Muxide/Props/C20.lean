import Muxide.Model.Cli
import Muxide.Lemmas.Bytes
import Muxide.Lemmas.Cli
/-
  C20 — The CLI writes what the library writes and fails loudly otherwise.
  The pure logic of the binary (hex decoding, validate verdict, info walk) is modelled in
  Muxide/Model/Cli.lean; clap, exit codes and the file system are glue covered by the
  correspondence run against the built binary (labelled partial in DESIGN.md).
-/
namespace Muxide.Props.C20
open Muxide

def hexDigitChar (n : Nat) : Nat := if n < 10 then 48 + n else 87 + n

/-- lower-case hex text of a byte string -/
def hexText (b : Bytes) : List Nat := b.flatMap fun x => [hexDigitChar (x.toNat / 16), hexDigitChar (x.toNat % 16)]

theorem hexVal_digit (n : Nat) (h : n < 16) : hexVal (hexDigitChar n) = some n := by
  unfold hexVal hexDigitChar
  split
  · simp; omega
  · have : ¬ (48 ≤ 87 + n ∧ 87 + n ≤ 57) := by omega
    simp [this]; omega

theorem hexDigit_not_ws (n : Nat) (h : n < 16) : isRustWhitespace (hexDigitChar n) = false := by
  unfold isRustWhitespace hexDigitChar
  split <;> simp <;> omega

theorem hexDigit_ascii (n : Nat) (h : n < 16) : hexDigitChar n < 128 := by
  unfold hexDigitChar; split <;> omega

theorem hexPairs_hexText (b : Bytes) : hexPairs (hexText b) = some b := by
  induction b with
  | nil => rfl
  | cons x xs ih =>
    have hx := x.toNat_lt
    have h1 : x.toNat / 16 < 16 := by omega
    have h2 : x.toNat % 16 < 16 := by omega
    simp only [hexText, List.flatMap_cons, List.cons_append, List.nil_append, hexPairs]
    simp only [hexText] at ih
    rw [ih]
    simp only [hexPair, hexVal_digit _ h1, hexVal_digit _ h2]
    have : u8 (x.toNat / 16 * 16 + x.toNat % 16) = x := by
      have e : x.toNat / 16 * 16 + x.toNat % 16 = x.toNat := by omega
      rw [e]; simp [u8]
    rw [this]

/-- **hex decoding inverts hex printing**: every byte string written as lower-case hex text is
    read back exactly by the CLI's `read_hex_bytes` -/
theorem C20_hex_roundtrip (b : Bytes) : readHexBytes (hexText b) = some b := by
  unfold readHexBytes
  have hall : ∀ c ∈ hexText b, isRustWhitespace c = false ∧ c < 128 := by
    intro c hc
    simp only [hexText, List.mem_flatMap] at hc
    obtain ⟨x, _, hx⟩ := hc
    have := x.toNat_lt
    simp at hx
    rcases hx with rfl | rfl
    · exact ⟨hexDigit_not_ws _ (by omega), hexDigit_ascii _ (by omega)⟩
    · exact ⟨hexDigit_not_ws _ (by omega), hexDigit_ascii _ (by omega)⟩
  have hf : (hexText b).filter (fun c => !isRustWhitespace c) = hexText b := by
    apply List.filter_eq_self.mpr
    intro c hc; simp [(hall c hc).1]
  simp only [hf]
  have hn : (hexText b).any (· ≥ 128) = false := by
    rw [List.any_eq_false]
    intro c hc; have := (hall c hc).2; simp; omega
  rw [hn]
  simp [hexPairs_hexText]

theorem hexPairs_all_hex : ∀ (n : Nat) (l : List Nat), l.length = 2 * n → (∀ c ∈ l, (hexVal c).isSome = true) →
    ∃ d, hexPairs l = some d ∧ d.length = n := by
  intro n
  induction n with
  | zero =>
    intro l hl _
    have : l = [] := List.eq_nil_of_length_eq_zero (by omega)
    subst this; exact ⟨[], rfl, rfl⟩
  | succ n ih =>
    intro l hl hc
    match l, hl, hc with
    | a :: b :: r, hl, hc =>
      have hr : r.length = 2 * n := by simp at hl; omega
      obtain ⟨d, hd, hlen⟩ := ih r hr (fun c hcm => hc c (by simp [hcm]))
      have ha := hc a (by simp)
      have hb := hc b (by simp)
      obtain ⟨x, hx⟩ := Option.isSome_iff_exists.mp ha
      obtain ⟨y, hy⟩ := Option.isSome_iff_exists.mp hb
      exact ⟨u8 (x * 16 + y) :: d, by simp [hexPairs, hexPair, hx, hy, hd], by simp [hlen]⟩
    | [], hl, _ => simp at hl
    | [_], hl, _ => simp at hl; omega

theorem hexVal_ascii (c : Nat) (h : (hexVal c).isSome = true) : c < 128 := by
  unfold hexVal at h
  split at h
  · omega
  · split at h
    · omega
    · split at h
      · omega
      · simp at h

/-- whatever `validate` calls valid hex, `mux` can decode to a non-empty frame -/
theorem C20_validate_sound (content : Bytes) (h : hexFileValid content = true) :
    ∃ chars d, utf8Strict content = some chars ∧ readHexBytes chars = some d ∧ d ≠ [] := by
  unfold hexFileValid at h
  cases hu : utf8Strict content with
  | none => rw [hu] at h; simp at h
  | some chars =>
    rw [hu] at h
    simp only [Bool.and_eq_true, Bool.not_eq_true', beq_iff_eq, List.all_eq_true] at h
    obtain ⟨⟨hne, heven⟩, hhex⟩ := h
    obtain ⟨d, hd, hlen⟩ := hexPairs_all_hex ((chars.filter (fun c => !isRustWhitespace c)).length / 2) _ (by omega) hhex
    refine ⟨chars, d, rfl, ?_, ?_⟩
    · unfold readHexBytes
      have hn : (chars.filter (fun c => !isRustWhitespace c)).any (· ≥ 128) = false := by
        rw [List.any_eq_false]
        intro c hc
        have := hexVal_ascii c (hhex c hc)
        simp; omega
      simp only [hn]
      simpa using hd
    · intro hnil
      subst hnil
      have hz : (chars.filter (fun c => !isRustWhitespace c)).length = 0 := by simp at hlen; omega
      have := List.eq_nil_of_length_eq_zero hz
      simp [this] at hne

/-- the `info` walk always terminates and lists at most one box per 8 bytes… here: every listed
    entry starts inside the file with a complete 8-byte header, and a non-final entry's box lies
    completely inside the file -/
theorem C20_info_entries (fuel : Nat) (buf : Bytes) (off : Nat) :
    ∀ e ∈ infoWalk fuel buf off, off ≤ e.offset ∧ e.offset + 8 ≤ buf.length ∧ e.size ≠ 0 ∧
      (e.invalid = false → e.offset + e.size ≤ buf.length) := by
  induction fuel generalizing off with
  | zero => intro e he; simp [infoWalk] at he
  | succ fuel ih =>
    intro e he
    unfold infoWalk at he
    split at he
    · simp at he
    · next hlen =>
      split at he
      · simp at he
      · next size rest hr =>
        split at he
        · simp at he
        · next hz =>
          split at he
          · next hbig =>
            simp at he; subst he
            exact ⟨Nat.le_refl _, by simp; omega, hz, by simp⟩
          · next hfit =>
            rcases List.mem_cons.mp he with rfl | he'
            · exact ⟨Nat.le_refl _, by simp; omega, hz, fun _ => by simp; omega⟩
            · obtain ⟨h1, h2, h3, h4⟩ := ih (off + size) e he'
              exact ⟨by omega, h2, h3, h4⟩

/-- the walk makes progress: it lists at most `buf.length` boxes whatever the contents
    (each iteration advances the offset by the non-zero box size) -/
theorem C20_info_terminates (fuel : Nat) (buf : Bytes) (off : Nat) :
    (infoWalk fuel buf off).length ≤ buf.length - off + 1 := by
  induction fuel generalizing off with
  | zero => simp [infoWalk]
  | succ fuel ih =>
    unfold infoWalk
    split
    · simp
    · split
      · simp
      · next size rest hr =>
        split
        · simp
        · next hz =>
          split
          · simp
          · have := ih (off + size)
            simp only [List.length_cons]
            omega

/-! ## validate ⇄ mux: the converse direction

Each aligned pair must be two ASCII hex digits (`hexPair`); `u8::from_str_radix` alone would also
take a leading `+` (`"+a"` = 10), which `validate` never accepted — that corner was a defect of the
original tool (mux decoded files that validate rejected) and is repaired: see `C20_plus_rejected`. -/

/-- the repaired corner: the two-character text `+a` is refused by `mux`'s decoder -/
theorem C20_plus_rejected : readHexBytes [43, 97] = none := by decide

/-- what `mux` accepts (decoder-independent): the non-whitespace characters are a non-empty,
    even-length string over `0-9A-Fa-f` -/
theorem C20_mux_input_char (chars : List Nat) :
    (∃ d, readHexBytes chars = some d ∧ d ≠ []) ↔
      (let hexs := chars.filter (fun c => !isRustWhitespace c)
       hexs ≠ [] ∧ hexs.length % 2 = 0 ∧
         ∀ c ∈ hexs, (48 ≤ c ∧ c ≤ 57) ∨ (65 ≤ c ∧ c ≤ 70) ∨ (97 ≤ c ∧ c ≤ 102)) := by
  simp only [← hexVal_isSome_iff]
  constructor
  · rintro ⟨d, hr, hd⟩
    unfold readHexBytes at hr
    simp only [] at hr
    split at hr
    · simp at hr
    · have hlen := hexPairs_length _ _ hr
      refine ⟨?_, (hexPairs_isSome_iff _).mp (by rw [hr]; rfl)⟩
      intro e; rw [e] at hlen
      cases d with
      | nil => exact hd rfl
      | cons _ _ => simp at hlen
  · rintro ⟨hne, hok⟩
    obtain ⟨d, hd⟩ := Option.isSome_iff_exists.mp ((hexPairs_isSome_iff _).mpr hok)
    have hn : (chars.filter (fun c => !isRustWhitespace c)).any (· ≥ 128) = false := by
      rw [List.any_eq_false]
      intro c hc
      have := hexVal_ascii c (hok.2 c hc)
      simp; omega
    refine ⟨d, by unfold readHexBytes; simp only [hn]; simpa using hd, ?_⟩
    intro e; subst e
    have := hexPairs_length _ _ hd
    exact hne (List.length_eq_zero_iff.mp (by rw [this]; rfl))

/-- explicit characterisation of `validate`'s verdict, independent of the decoder: strict UTF-8,
    and the non-whitespace characters are a non-empty, even-length string over `0-9A-Fa-f` -/
theorem C20_validate_char (content : Bytes) :
    hexFileValid content = true ↔
      ∃ chars, utf8Strict content = some chars ∧
        (let hexs := chars.filter (fun c => !isRustWhitespace c)
         hexs ≠ [] ∧ hexs.length % 2 = 0 ∧
           ∀ c ∈ hexs, (48 ≤ c ∧ c ≤ 57) ∨ (65 ≤ c ∧ c ≤ 70) ∨ (97 ≤ c ∧ c ≤ 102)) := by
  unfold hexFileValid
  cases hu : utf8Strict content with
  | none => simp
  | some chars =>
    simp only [Bool.and_eq_true, Bool.not_eq_true', beq_iff_eq, List.all_eq_true,
      List.isEmpty_eq_false_iff, Option.some.injEq, exists_eq_left', hexVal_isSome_iff, and_assoc]

/-- converse of `C20_validate_sound`: whatever `mux` can decode to a non-empty frame, `validate`
    calls valid hex -/
theorem C20_validate_complete (content : Bytes) (chars : List Nat) (d : Bytes)
    (hu : utf8Strict content = some chars) (hr : readHexBytes chars = some d) (hd : d ≠ []) :
    hexFileValid content = true :=
  (C20_validate_char content).mpr ⟨chars, hu, (C20_mux_input_char chars).mp ⟨d, hr, hd⟩⟩

/-- `validate` says "valid" exactly for the inputs `mux` can decode to a non-empty frame -/
theorem C20_validate_iff_mux_input (content : Bytes) :
    hexFileValid content = true ↔
      ∃ chars d, utf8Strict content = some chars ∧ readHexBytes chars = some d ∧ d ≠ [] :=
  ⟨C20_validate_sound content, fun ⟨chars, d, hu, hr, hd⟩ => C20_validate_complete content chars d hu hr hd⟩

/-! ## info ⇄ the independent reader -/

/-- the `info` walk agrees with the independent reader on every file the reader accepts (no side
    condition: the empty file gives `[]` on both sides, boxes of size exactly 8 are listed, and
    the reader rejects sizes 0, 1 and < 8 so they never reach the conclusion): the listed
    (type, offset, size) triples are the reader's top-level layout and no entry is flagged -/
theorem C20_info_matches_reader (buf : Bytes) (boxes : List Box)
    (h : Spec.parseFileTree buf = some boxes) :
    (infoBoxes buf).map (fun e => (e.typ, e.offset, e.size)) = Spec.topLayout boxes 0 ∧
    (∀ e ∈ infoBoxes buf, e.invalid = false) ∧
    (infoBoxes buf).length = boxes.length ∧ Box.sizes boxes = buf.length := by
  unfold Spec.parseFileTree at h
  have e := infoBoxes_parse _ _ buf boxes h
  rw [e]
  refine ⟨infoEntriesOf_layout boxes 0, infoEntriesOf_valid boxes 0, ?_, parseBoxes_sizes _ _ _ _ h⟩
  have := congrArg List.length (infoEntriesOf_layout boxes 0)
  simp only [List.length_map] at this
  rw [this]
  clear this e h
  generalize 0 = o
  induction boxes generalizing o with
  | nil => rfl
  | cons b bs ih => simp [Spec.topLayout, ih]

/-- for arbitrary bytes, the entries `info` lists without the "exceeds file" flag tile a prefix of
    the file: their offsets are the running sum of their sizes from 0, and they fit in the file -/
theorem C20_info_prefix_tiling (buf : Bytes) :
    let es := (infoBoxes buf).filter (fun e => !e.invalid)
    es.map (·.offset) = runningOffsets (es.map (·.size)) 0 ∧ (es.map (·.size)).sum ≤ buf.length := by
  have := infoWalk_tiles (buf.length + 1) buf 0
  unfold infoBoxes
  simp only [] at this ⊢
  exact ⟨this.1, by have := this.2 (Nat.zero_le _); omega⟩

/-! ## Non-vacuity -/

/-- a hand-written 20-byte file: an empty `free` box and a `skip` box with 4 payload bytes -/
def exFile : Bytes := [0, 0, 0, 8, 102, 114, 101, 101, 0, 0, 0, 12, 115, 107, 105, 112, 1, 2, 3, 4]

/-- the reader accepts it (two childless boxes), so `C20_info_matches_reader` applies -/
example : (Spec.parseFileTree exFile).map (List.map fun b => (b.typ, b.pre, b.kids.length)) =
    some [([102, 114, 101, 101], [], 0), ([115, 107, 105, 112], [1, 2, 3, 4], 0)] := by decide +kernel
example : (Spec.parseFileTree exFile).map (Spec.topLayout · 0) =
    some [([102, 114, 101, 101], 0, 8), ([115, 107, 105, 112], 8, 12)] := by decide +kernel
example : (infoBoxes exFile).map (fun e => (e.typ, e.offset, e.size)) =
    [([102, 114, 101, 101], 0, 8), ([115, 107, 105, 112], 8, 12)] := by decide
example : infoBoxes exFile =
    [⟨[102, 114, 101, 101], 8, 0, false⟩, ⟨[115, 107, 105, 112], 12, 8, false⟩] := by decide
example : Spec.topLayout [Box.mk [102, 114, 101, 101] [] [], Box.mk [115, 107, 105, 112] [1, 2, 3, 4] []] 0 =
    [([102, 114, 101, 101], 0, 8), ([115, 107, 105, 112], 8, 12)] := by decide
/-- a truncated file: the second box claims 12 bytes but only 8 remain → flagged, filtered out -/
example : infoBoxes (exFile.take 16) =
    [⟨[102, 114, 101, 101], 8, 0, false⟩, ⟨[115, 107, 105, 112], 12, 8, true⟩] := by decide
/-- the hypotheses of the validate theorems are satisfiable: `0a 1F` -/
example : hexFileValid [48, 97, 32, 49, 70] = true := by decide
example : utf8Strict [48, 97, 32, 49, 70] = some [48, 97, 32, 49, 70] ∧
    readHexBytes [48, 97, 32, 49, 70] = some [0x0a, 0x1f] := by decide

end Muxide.Props.C20
