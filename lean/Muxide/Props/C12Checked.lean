import Muxide.Checked.AnnexB
/-
  C12 (checked models, Annex B / H.264) — "no public function indexes out of bounds, overflows or fails
  to terminate".  The functions of Muxide.Checked.AnnexB mirror `find_start_code`, `AnnexBNalIter::next`,
  `annexb_to_avcc` / `hevc_annexb_to_hvcc`, `extract_avc_config` and `is_h264_keyframe` operation by
  operation: every `data[i]`, every slice, every `usize` sum and every `assert_invariant!` is an operation
  that fails where Rust would panic, and every loop carries a fuel whose exhaustion is a failure too.
  For every input of at most `isize::MAX` bytes they return `.ok` of what the structural model (and, for
  the scanner, the least-index specification of C14) computes.
-/
namespace Muxide.Props.C12Checked
open Muxide Muxide.Spec Muxide.Checked

/-- `find_start_code(data, from)`: all four indexings stay inside `data`, the loop ends within
    `len − from` iterations, the result is the least index ≥ `from` where a start code begins -/
theorem C12_checked_find_start_code (d : Bytes) (from_ : Nat) :
    findStartCode d from_ = .ok (firstSC d from_) := findStartCode_spec d from_

/-- `AnnexBNalIter` driven to the end: `start_code_pos + start_code_len` does not overflow,
    `&data[nal_start..nal_end]` is a valid range every time, at most `len + 1` calls of `next` -/
theorem C12_checked_nal_iter (d : Bytes) (hd : SliceLen d) :
    collectNals d (d.length + 1) 0 = .ok (splitAnnexB d) := collectNals_eq d hd

/-- the iterator yields the units of the structural model -/
theorem C12_checked_nals (d : Bytes) (hd : SliceLen d) : nalsC d = .ok (nals d) := nalsC_eq d hd

/-- `annexb_to_avcc` / `hevc_annexb_to_hvcc` -/
theorem C12_checked_to_avcc (d : Bytes) (hd : SliceLen d) : toAvccC d = .ok (toAvcc d) := toAvccC_eq d hd

/-- `extract_avc_config`: `nal[0]` is read only from non-empty units, INV-301 (`nal_type <= 31`) and
    INV-302 (both parameter sets non-empty) can never fire -/
theorem C12_checked_extract_avc (d : Bytes) (hd : SliceLen d) : extractAvcC d = .ok (extractAvc d) :=
  extractAvcC_eq d hd

/-- `is_h264_keyframe` -/
theorem C12_checked_is_h264_keyframe (d : Bytes) (hd : SliceLen d) :
    isH264KeyframeC d = .ok (isH264Keyframe d) := isH264KeyframeC_eq d hd

/-- the failure value is real: an index past the end, an inverted slice and an overflowing sum all fail
    (the theorems above are not true by construction of the vocabulary) -/
example : getC [1, 2] 2 = .error () ∧ slice [1, 2, 3] 2 1 = .error () ∧ sliceFrom [1] 2 = .error () ∧
    addU (2 ^ 63) (2 ^ 63) = .error () ∧ subU 7 8 = .error () := by
  refine ⟨rfl, rfl, rfl, ?_, rfl⟩
  unfold addU usizeLimit; rw [if_neg (by omega)]

end Muxide.Props.C12Checked
