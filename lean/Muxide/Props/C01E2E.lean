import Muxide.Lemmas.E2E
import Muxide.Props.C02
import Muxide.Props.C08
import Muxide.Props.C16
/-
  C01 (end to end) — the independent reader `Spec.parseMovie`, applied to the very bytes that
  `Writer.finalize` hands to the sink, returns a movie whose tracks, walked with the reader's own
  `Track.samples`, yield exactly the accepted frames: payload bytes and sync flags of every video
  frame, payload bytes of every audio frame, one entry per frame, in submission order.

  Composition of C02 (box tiling, `parseFileTree`), C16 (table round trips, value guards),
  C08 (layout and chunk offsets, `ReadsBack`) and C01 (chunk walk); the navigation of the reader
  through the builders' trees is in Muxide/Lemmas/E2E.lean.

  The only hypothesis beyond "reachable writer, finalize returned ok" is that the moov box that
  is written is smaller than 2^32 bytes (`MoovFits`): the writer never checks the moov size, the
  32-bit size field of an oversized moov wraps and the file no longer parses. For the fast-start
  layout with at least one queued sample the hypothesis follows from the writer's own chunk-offset
  check (`C01_e2e_moov_fits_fast`).
-/
namespace Muxide.Props.C01E2E
open Muxide Muxide.Spec Muxide.Props.C08

/-! ### what is written -/

/-- the video configuration `finalize` uses -/
def vcOf (w : Writer) : VideoConfig := w.vConfig.getD (.avc defaultAvc)

/-- absolute file position of the first media byte: after `ftyp` and the mdat header, and in the
    fast-start layout also after the moov (whose length does not depend on the offset values) -/
def mediaStart (w : Writer) (width height : Nat) (md : Option Metadata) (fast : Bool) : Nat :=
  if fast then ftypLen + (moovOf w width height md (vcOf w) (placeholderOffsets w)).ser.length + 8
  else ftypLen + 8

/-- the moov that `finalize` writes -/
def writtenMoov (w : Writer) (width height : Nat) (md : Option Metadata) (fast : Bool) : Box :=
  moovOf w width height md (vcOf w) (offsetsAt w (mediaStart w width height md fast))

/-- the hypothesis of the end-to-end theorems: the moov that is written fits a 32-bit box size.
    (Not checked by the writer; an oversized moov would be written with a wrapped size field.) -/
def MoovFits (w : Writer) (width height : Nat) (md : Option Metadata) (fast : Bool) : Prop :=
  Box.size (writtenMoov w width height md fast) < 2^32

/-- the file: all chunks handed to the sink, concatenated -/
def fileOf (w : Writer) (width height : Nat) (md : Option Metadata) (fast : Bool) : Bytes :=
  (w.finalize width height md fast).2.chunks.flatten

/-- the media data as one byte string -/
def payloadOf (w : Writer) : Bytes := (mediaChunks w).flatten

theorem payloadOf_length (w : Writer) : (payloadOf w).length = payloadLen w := by
  unfold payloadOf mediaChunks payloadLen
  cases w.audio with
  | some tr => simp only []; rw [flatten_map_ent, schedule_payload_length]
  | none => simp only []; rw [flatten_map_data, data_length_sum]

theorem shape_moovOf (w : Writer) (width height : Nat) (md : Option Metadata) (vc : VideoConfig)
    (o : List Nat × List Nat) : Shape isoSchema (moovOf w width height md vc o) := by
  unfold moovOf
  cases w.audio <;> exact shape_bMoov _ _ _ _ _ _

theorem moovOf_typ (w : Writer) (width height : Nat) (md : Option Metadata) (vc : VideoConfig)
    (o : List Nat × List Nat) : (moovOf w width height md vc o).typ = ascii "moov" := by
  unfold moovOf
  cases w.audio <;> rfl

/-- the header chunks and the media chunks are the serialised mdat box -/
theorem mdat_chunks (w : Writer) (rest : Bytes) :
    (mdatHeader (payloadLen w)).flatten ++ ((mediaChunks w).flatten ++ rest) =
      (mdatBox (payloadOf w)).ser ++ rest := by
  rw [mdat_ser _ _ (payloadOf_length w)]
  simp [mdatHeader, payloadOf]

/-- Layout of the finished file, as serialised top-level boxes, together with the C08 read-back
    fact for the offsets counted from `mediaStart`. -/
theorem file_layout (w : Writer) (hr : w.Reachable) (width height : Nat) (md : Option Metadata)
    (fast : Bool) (hok : (w.finalize width height md fast).2.res = .ok) :
    let file := fileOf w width height md fast
    let moov := writtenMoov w width height md fast
    ReadsBack w file (offsetsAt w (mediaStart w width height md fast)) ∧
    8 + (payloadOf w).length ≤ u32Max ∧
    (if fast then file = Box.sers [bFtyp, moov, mdatBox (payloadOf w)]
     else if w.audio = none ∧ w.vsRev = [] then file = Box.sers [bFtyp, moov]
     else file = Box.sers [bFtyp, mdatBox (payloadOf w), moov]) := by
  intro file moov
  obtain ⟨hv, ha, _, hinv⟩ := hr.inv.ordered
  have e : (w.finalize width height md fast).2 =
      (if fast then finalizeFastStart w width height md (vcOf w)
       else finalizeStandard w width height md (vcOf w)) := finalize_ok w width height md fast hok
  have hfile : file = (w.finalize width height md fast).2.chunks.flatten := rfl
  cases fast with
  | false =>
    simp only [Bool.false_eq_true, if_false] at e ⊢
    rw [e] at hok
    have hs : mediaStart w width height md false = ftypLen + 8 := rfl
    have hrb := C08_standard_offsets_correct w width height md (vcOf w) hv ha hok
    have hc := C08_standard_layout w width height md (vcOf w) hok
    rw [hfile, e]
    refine ⟨by rw [hs]; exact hrb, ?_, ?_⟩
    · rw [payloadOf_length]
      unfold payloadLen
      cases hau : w.audio with
      | some tr => exact (finalizeStandard_av_ok w width height md (vcOf w) tr hau hok).1
      | none =>
        simp only []
        by_cases hne : w.vsRev.reverse = []
        · rw [hne]; simp [u32Max]
        · exact (finalizeStandard_video_ok w width height md (vcOf w) hau hok).1 hne
    · rw [hc]
      show (if w.audio = none ∧ w.vsRev = [] then _ else _)
      by_cases he : w.audio = none ∧ w.vsRev = []
      · rw [if_pos he, if_pos he]
        simp [Box.sers, moov, writtenMoov, hs]
      · rw [if_neg he, if_neg he]
        simp only [List.flatten_append, List.flatten_cons, List.flatten_nil, List.append_nil, List.append_assoc]
        rw [mdat_chunks]
        simp [Box.sers, moov, writtenMoov, hs]
  | true =>
    simp only [if_true] at e ⊢
    rw [e] at hok
    obtain ⟨start, hstart, hc, hrb⟩ := C08_faststart_offsets_correct w width height md (vcOf w) hinv hv ha hok
    have hl := placeholderOffsets_length w start
    have hs : start = mediaStart w width height md true := by
      rw [hstart, ← moovOf_length w width height md (vcOf w) _ _ hl.1 hl.2]
      rfl
    subst hs
    rw [hfile, e]
    refine ⟨hrb, ?_, ?_⟩
    · rw [payloadOf_length]
      unfold payloadLen
      cases hau : w.audio with
      | some tr => exact (finalizeFastStart_av_ok w width height md (vcOf w) tr hau hok).1
      | none =>
        have := (finalizeFastStart_video_ok w width height md (vcOf w) hau hok).1
        simp only [hinv hau, List.reverse_nil, List.map_nil, List.sum_nil, Nat.add_zero] at this
        exact this
    · rw [hc]
      simp only [List.flatten_append, List.flatten_cons, List.flatten_nil, List.append_nil, List.append_assoc]
      rw [← List.append_nil (mediaChunks w).flatten, mdat_chunks]
      simp [Box.sers, moov, writtenMoov]

/-- every chunk offset that is written fits its 32-bit `stco` field (C16 chunk-offset guards,
    restated for `offsetsAt … mediaStart`) -/
theorem offsets_fit (w : Writer) (width height : Nat) (md : Option Metadata)
    (fast : Bool) (hok : (w.finalize width height md fast).2.res = .ok) :
    (∀ x ∈ (offsetsAt w (mediaStart w width height md fast)).1, x < 2^32) ∧
    (∀ x ∈ (offsetsAt w (mediaStart w width height md fast)).2, x < 2^32) := by
  have e : (w.finalize width height md fast).2 =
      (if fast then finalizeFastStart w width height md (vcOf w)
       else finalizeStandard w width height md (vcOf w)) := finalize_ok w width height md fast hok
  cases fast with
  | false =>
    simp only [Bool.false_eq_true, if_false] at e
    rw [e] at hok
    have hs : mediaStart w width height md false = ftypLen + 8 := rfl
    rw [hs]
    cases hau : w.audio with
    | some tr =>
      obtain ⟨h1, h2, -⟩ := C16.C16_stco_standard_av w width height md (vcOf w) tr hau hok
      simp only [offsetsAt, hau]
      exact ⟨h1, h2⟩
    | none =>
      simp only [offsetsAt, hau]
      refine ⟨?_, by simp⟩
      split
      · simp [ftypLen]
      · simp
  | true =>
    simp only [if_true] at e
    rw [e] at hok
    cases hau : w.audio with
    | some tr =>
      obtain ⟨h1, h2⟩ := C16.C16_stco_faststart_av w width height md (vcOf w) tr hau hok
      simp only [offsetsAt, mediaStart, moovOf, placeholderOffsets, hau, if_true]
      exact ⟨h1, h2⟩
    | none =>
      simp only [offsetsAt, mediaStart, moovOf, placeholderOffsets, hau, if_true]
      refine ⟨?_, by simp⟩
      by_cases hne : w.vsRev.reverse ≠ []
      · have := C16.C16_stco_faststart_video w width height md (vcOf w) hau hne hok
        simp only [if_pos hne] at this ⊢
        simpa using this
      · simp [hne]

/-! ### the tracks decode -/

theorem toI32_range (n : Nat) (h : n < 2^32) : -(2^31 : Int) ≤ toI32 n ∧ toI32 n < 2^31 := by
  unfold toI32; split <;> omega

theorem keyframesOf_length_le (vs : List Sample) : (keyframesOf vs).length ≤ vs.length := by
  unfold keyframesOf
  rw [List.length_map]
  refine Nat.le_trans (List.length_filter_le _ _) ?_
  simp

/-- the video track written for any chunk-offset vector whose entries and count fit 32 bits is
    decoded by the reader, with exactly these sizes, offsets, sync samples and `stsc` run -/
theorem video_track_decodes (w : Writer) (hr : w.Reachable) (width height : Nat) (md : Option Metadata)
    (fast : Bool) (hok : (w.finalize width height md fast).2.res = .ok) (vc : VideoConfig)
    (lang : Option (List Nat)) (offs : List Nat) (spc : Nat) (hspc : spc < 2^32)
    (hoffs : ∀ x ∈ offs, x < 2^32) (hlen : offs.length < 2^32) :
    ∃ vt, decodeTrack (bVideoTrak width height (Tables.ofSamples w.vsRev.reverse offs spc w.vLastDelta) vc lang)
        = some vt ∧
      TrackTables vt (if offs.length % 2^32 = 0 ∨ spc = 0 then [] else [(1, spc, 1)])
        (w.vsRev.reverse.map (·.data.length)) offs
        (if keyframesOf w.vsRev.reverse ≠ [] then some (keyframesOf w.vsRev.reverse) else none) := by
  obtain ⟨d1, -, -, -, z1, -, c1, -, -, -, -⟩ := C16.C16_finalize_values w hr width height md fast hok
  have c1' : w.vsRev.reverse.length < 2^32 := by simpa using c1
  have h1 := C16.C16_stts _ d1 (by rw [durationsOf_length]; exact c1')
  have h2 := C16.C16_ctts (Tables.ofSamples w.vsRev.reverse offs spc w.vLastDelta).ctsOffsets
    (by
      intro o ho
      simp only [Tables.ofSamples, List.mem_map] at ho
      obtain ⟨s, -, rfl⟩ := ho
      simp only [ctsOf, Option.getD_some]
      exact toI32_range _ (by omega))
    (by simpa [Tables.ofSamples] using c1)
  have h6 := C16.C16_stss (keyframesOf w.vsRev.reverse)
    (by
      intro k hk
      have := (keyframesOf_range w.vsRev.reverse k hk).2
      omega)
    (Nat.lt_of_le_of_lt (keyframesOf_length_le _) c1')
  exact decodeTrack_video width height (Tables.ofSamples w.vsRev.reverse offs spc w.vLastDelta) vc lang
    _ _ _ h1 h2 (C16.C16_stsc spc offs.length hspc) (C16.C16_stsz _ z1 (by simpa [Tables.ofSamples] using c1))
    (C16.C16_stco offs hoffs hlen) h6

/-- the same for the audio track -/
theorem audio_track_decodes (w : Writer) (hr : w.Reachable) (width height : Nat) (md : Option Metadata)
    (fast : Bool) (hok : (w.finalize width height md fast).2.res = .ok) (tr : AudioTrack)
    (hau : w.audio = some tr) (lang : Option (List Nat)) (offs : List Nat) (spc : Nat) (hspc : spc < 2^32)
    (hoffs : ∀ x ∈ offs, x < 2^32) (hlen : offs.length < 2^32) :
    ∃ at_, decodeTrack (bAudioTrak tr (Tables.ofSamples w.asRev.reverse offs spc w.aLastDelta) lang) = some at_ ∧
      TrackTables at_ (if offs.length % 2^32 = 0 ∨ spc = 0 then [] else [(1, spc, 1)])
        (w.asRev.reverse.map (·.data.length)) offs none := by
  obtain ⟨-, d2, -, -, -, z2, -, c2, -, -, -⟩ := C16.C16_finalize_values w hr width height md fast hok
  have c2 := c2 (by simp [hau])
  have c2' : w.asRev.reverse.length < 2^32 := by simpa using c2
  have h1 := C16.C16_stts _ d2 (by rw [durationsOf_length]; exact c2')
  exact decodeTrack_audio tr (Tables.ofSamples w.asRev.reverse offs spc w.aLastDelta) lang _ _
    h1 (C16.C16_stsc spc offs.length hspc) (C16.C16_stsz _ z2 (by simpa [Tables.ofSamples] using c2))
    (C16.C16_stco offs hoffs hlen)

/-! ### the movie -/

/-- the `stsc` table of a track with `n` samples: empty for an empty track, else one run -/
def stscOf (n spc : Nat) : List (Nat × Nat × Nat) := if n = 0 then [] else [(1, spc, 1)]

/-- samples per chunk of the video track: one with an audio track (interleaved), else all -/
def spcOf (w : Writer) : Nat := if w.audio.isSome then 1 else w.vsRev.length

/-- the sync-sample table: absent iff there is no key frame -/
def stssOf (vs : List Sample) : Option (List Nat) :=
  if keyframesOf vs ≠ [] then some (keyframesOf vs) else none

/-- what the reader decodes from the finished file, in terms of the writer state -/
structure Decoded (w : Writer) (width height : Nat) (md : Option Metadata) (fast : Bool) (mv : Movie) : Prop where
  count : mv.tracks.length = if w.audio.isSome then 2 else 1
  video : ∃ vt, mv.tracks[0]? = some vt ∧
    TrackTables vt (stscOf w.vsRev.length (spcOf w)) (w.vsRev.reverse.map (·.data.length))
      (offsetsAt w (mediaStart w width height md fast)).1 (stssOf w.vsRev.reverse)
  audio : ∀ tr, w.audio = some tr → ∃ at_, mv.tracks[1]? = some at_ ∧
    TrackTables at_ (stscOf w.asRev.length 1) (w.asRev.reverse.map (·.data.length))
      (offsetsAt w (mediaStart w width height md fast)).2 none

theorem movie_of_top (w : Writer) (hr : w.Reachable) (width height : Nat) (md : Option Metadata)
    (fast : Bool) (hok : (w.finalize width height md fast).2.res = .ok) (file : Bytes) (top : List Box)
    (htop : parseFileTree file = some top)
    (hm : child? "moov" top = some (writtenMoov w width height md fast)) :
    ∃ mv, parseMovie file = some mv ∧ Decoded w width height md fast mv := by
  obtain ⟨hov, hoa⟩ := offsets_fit w width height md fast hok
  obtain ⟨-, -, -, -, -, -, c1, c2, -, -, -⟩ := C16.C16_finalize_values w hr width height md fast hok
  unfold writtenMoov moovOf at hm
  generalize hs : mediaStart w width height md fast = start at hm hov hoa
  cases hau : w.audio with
  | some tr =>
    have c2 := c2 (by simp [hau])
    simp only [hau] at hm
    have hl := schedule_offsets_length (entSize w.vsRev.reverse w.asRev.reverse) w.vsRev.reverse w.asRev.reverse start
    have ho : offsetsAt w start = assignOffsets (entSize w.vsRev.reverse w.asRev.reverse)
        (schedule w.vsRev.reverse w.asRev.reverse) start := by simp only [offsetsAt, hau]
    rw [← ho] at hl
    obtain ⟨vt, hvt, tv⟩ := video_track_decodes w hr width height md fast hok (vcOf w) (md.bind (·.language))
      (offsetsAt w start).1 1 (by omega) hov (by rw [hl.1]; simpa using c1)
    obtain ⟨at_, hat, ta⟩ := audio_track_decodes w hr width height md fast hok tr hau (md.bind (·.language))
      (offsetsAt w start).2 1 (by omega) hoa (by rw [hl.2]; simpa using c2)
    obtain ⟨mv, hmv, htr, -, -⟩ := parseMovie_of file top _ _ _ _ _ _ [vt, at_] htop hm (by
      rw [audioTraks, List.mapM_cons, hvt, List.mapM_cons, hat, List.mapM_nil]; rfl)
    subst hs
    refine ⟨mv, hmv, ?_, ⟨vt, by rw [htr]; rfl, ?_, tv.sizes_eq, tv.stco_eq, tv.stss_eq⟩, ?_⟩
    · rw [htr, hau]; rfl
    · rw [tv.stsc_eq, hl.1, stscOf, spcOf, hau]
      simp only [List.length_reverse, Option.isSome_some, if_true]
      rw [Nat.mod_eq_of_lt c1]
      simp
    · intro tr' _
      refine ⟨at_, by rw [htr]; rfl, ?_, ta.sizes_eq, ta.stco_eq, ta.stss_eq⟩
      rw [ta.stsc_eq, hl.2, stscOf]
      simp only [List.length_reverse]
      rw [Nat.mod_eq_of_lt c2]
      simp
  | none =>
    simp only [hau] at hm
    have ho : offsetsAt w start = (if w.vsRev.reverse ≠ [] then [start] else [], []) := by
      simp only [offsetsAt, hau]
    obtain ⟨vt, hvt, tv⟩ := video_track_decodes w hr width height md fast hok (vcOf w) (md.bind (·.language))
      (offsetsAt w start).1 (if w.vsRev.reverse ≠ [] then w.vsRev.reverse.length else 0)
      (by split <;> simp <;> omega) hov (by rw [ho]; split <;> simp)
    obtain ⟨mv, hmv, htr, -, -⟩ := parseMovie_of file top _ _ _ _ _ _ [vt] htop hm (by
      rw [audioTraks, List.mapM_cons, hvt, List.mapM_nil]; rfl)
    subst hs
    refine ⟨mv, hmv, ?_, ⟨vt, by rw [htr]; rfl, ?_, tv.sizes_eq, tv.stco_eq, tv.stss_eq⟩, ?_⟩
    · rw [htr, hau]; rfl
    · rw [tv.stsc_eq, ho, stscOf, spcOf, hau]
      by_cases hne : w.vsRev = []
      · simp [hne]
      · have : w.vsRev.length ≠ 0 := by simpa using hne
        simp [hne, this]
    · intro tr' h; rw [hau] at h; cases h

/-- the composition: the finished file parses, and the decoded tracks carry the writer's tables -/
theorem e2e_core (w : Writer) (hr : w.Reachable) (width height : Nat) (md : Option Metadata)
    (fast : Bool) (hok : (w.finalize width height md fast).2.res = .ok)
    (hfit : MoovFits w width height md fast) :
    ∃ mv, parseMovie (fileOf w width height md fast) = some mv ∧ Decoded w width height md fast mv := by
  obtain ⟨-, hp, hfile⟩ := file_layout w hr width height md fast hok
  obtain ⟨p1, p2, p3⟩ := C02.C02_progressive_parses (writtenMoov w width height md fast) (payloadOf w)
    (shape_moovOf _ _ _ _ _ _) hfit hp
  obtain ⟨m1, m2, m3⟩ := child_moov_top (writtenMoov w width height md fast) (payloadOf w) (moovOf_typ _ _ _ _ _ _)
  have key := movie_of_top w hr width height md fast hok (fileOf w width height md fast)
  cases fast with
  | true =>
    simp only [if_true] at hfile
    rw [hfile] at key ⊢
    exact key _ p1 m1
  | false =>
    simp only [Bool.false_eq_true, if_false] at hfile
    split at hfile
    · rw [hfile] at key ⊢
      exact key _ p3 m3
    · rw [hfile] at key ⊢
      exact key _ p2 m2

/-! ### from the decoded tables to the samples -/

theorem offsetsAt_nil (w : Writer) (start : Nat) :
    (w.vsRev = [] → (offsetsAt w start).1 = []) ∧ (w.asRev = [] → (offsetsAt w start).2 = []) := by
  unfold offsetsAt
  cases w.audio with
  | some tr =>
    have hl := schedule_offsets_length (entSize w.vsRev.reverse w.asRev.reverse) w.vsRev.reverse w.asRev.reverse start
    simp only []
    constructor
    · intro h; rw [h] at hl ⊢; exact List.eq_nil_of_length_eq_zero hl.1
    · intro h; rw [h] at hl ⊢; exact List.eq_nil_of_length_eq_zero hl.2
  | none =>
    simp only []
    exact ⟨fun h => by simp [h], fun _ => trivial⟩

theorem walk_video (w : Writer) (file : Bytes) (o : List Nat × List Nat) (hrb : ReadsBack w file o)
    (hl : w.vsRev = [] → o.1 = []) :
    (walkChunks (stscOf w.vsRev.length (spcOf w)) o.1 1 (w.vsRev.reverse.map (·.data.length))).map
      (fun r => slice file r.1 r.2) = w.vsRev.reverse.map (·.data) := by
  by_cases hne : w.vsRev = []
  · rw [hl hne, hne]; rfl
  · have hn : w.vsRev.length ≠ 0 := by simpa using hne
    unfold ReadsBack at hrb
    unfold stscOf spcOf
    rw [if_neg hn]
    cases hau : w.audio with
    | some tr => rw [hau] at hrb; exact hrb.1
    | none =>
      rw [hau] at hrb
      simp only [List.length_reverse] at hrb
      exact hrb

theorem walk_audio (w : Writer) (file : Bytes) (o : List Nat × List Nat) (hrb : ReadsBack w file o)
    (tr : AudioTrack) (hau : w.audio = some tr) (hl : w.asRev = [] → o.2 = []) :
    (walkChunks (stscOf w.asRev.length 1) o.2 1 (w.asRev.reverse.map (·.data.length))).map
      (fun r => slice file r.1 r.2) = w.asRev.reverse.map (·.data) := by
  by_cases hne : w.asRev = []
  · rw [hl hne, hne]; rfl
  · have hn : w.asRev.length ≠ 0 := by simpa using hne
    unfold ReadsBack at hrb
    rw [hau] at hrb
    unfold stscOf
    rw [if_neg hn]
    exact hrb.2

/-- the reader's sync flags of the decoded video track are the key flags of the accepted frames -/
theorem sync_flags (w : Writer) (hr : w.Reachable) (t : Track)
    (hs : t.sizes = w.vsRev.reverse.map (·.data.length)) (hk : t.stss = stssOf w.vsRev.reverse) :
    t.syncFlags = w.vsRev.reverse.map (·.key) := by
  have hlen : t.sizes.length = w.vsRev.reverse.length := by rw [hs]; simp
  unfold Track.syncFlags
  rw [hk, stssOf, hlen]
  by_cases hne : w.vsRev = []
  · rw [hne]; rfl
  · rw [if_pos (hr.keyframes_ne_nil hne)]
    exact syncFlags_keyframes _

/-! ## The end-to-end theorems -/

/-- 1. The file written by a successful `finalize` of any reachable writer is accepted by the
    independent reader, which finds one track, or two when an audio track is configured — for
    both layouts, with or without metadata, with or without samples in either track. -/
theorem C01_e2e_parses (w : Writer) (hr : w.Reachable) (width height : Nat) (md : Option Metadata)
    (fast : Bool) (hok : (w.finalize width height md fast).2.res = .ok)
    (hfit : MoovFits w width height md fast) :
    let file := (w.finalize width height md fast).2.chunks.flatten
    ∃ mv, parseMovie file = some mv ∧ mv.tracks.length = (if w.audio.isSome then 2 else 1) := by
  obtain ⟨mv, hmv, hd⟩ := e2e_core w hr width height md fast hok hfit
  exact ⟨mv, hmv, hd.count⟩

/-- 4. The decoded tables of both tracks, for citation: the sizes are the payload lengths, the
    chunk offsets are the writer's offsets for media data starting at `mediaStart`, the `stsc`
    table is the single run that `C08.ReadsBack` assumes (empty for an empty track), the video
    `stss` lists exactly the key frames (absent iff there is none, i.e. iff there is no video
    frame), the audio track has no `stss`; and the byte ranges found by the reader's own chunk
    walk, sliced out of the file, are the payloads. -/
theorem C01_e2e_sizes_and_count (w : Writer) (hr : w.Reachable) (width height : Nat) (md : Option Metadata)
    (fast : Bool) (hok : (w.finalize width height md fast).2.res = .ok)
    (hfit : MoovFits w width height md fast) :
    let file := (w.finalize width height md fast).2.chunks.flatten
    let o := offsetsAt w (mediaStart w width height md fast)
    ∀ mv, parseMovie file = some mv →
      (∀ t, mv.tracks[0]? = some t →
        t.sizes = w.vsRev.reverse.map (·.data.length) ∧ t.sizes.length = w.vsRev.length ∧
        t.stco = o.1 ∧ t.stsc = stscOf w.vsRev.length (spcOf w) ∧ t.stss = stssOf w.vsRev.reverse ∧
        t.ranges.map (fun r => slice file r.1 r.2) = w.vsRev.reverse.map (·.data)) ∧
      (∀ tr, w.audio = some tr → ∀ t, mv.tracks[1]? = some t →
        t.sizes = w.asRev.reverse.map (·.data.length) ∧ t.sizes.length = w.asRev.length ∧
        t.stco = o.2 ∧ t.stsc = stscOf w.asRev.length 1 ∧ t.stss = none ∧
        t.ranges.map (fun r => slice file r.1 r.2) = w.asRev.reverse.map (·.data)) := by
  intro file o mv hmv
  obtain ⟨mv', hmv', hd⟩ := e2e_core w hr width height md fast hok hfit
  have : mv' = mv := Option.some.inj (hmv'.symm.trans hmv)
  subst this
  obtain ⟨hrb, -, -⟩ := file_layout w hr width height md fast hok
  have hnil := offsetsAt_nil w (mediaStart w width height md fast)
  constructor
  · intro t ht
    obtain ⟨vt, hvt, tv⟩ := hd.video
    have : vt = t := Option.some.inj (hvt.symm.trans ht)
    subst this
    refine ⟨tv.sizes_eq, by rw [tv.sizes_eq]; simp, tv.stco_eq, tv.stsc_eq, tv.stss_eq, ?_⟩
    unfold Track.ranges
    rw [tv.stsc_eq, tv.stco_eq, tv.sizes_eq]
    exact walk_video w _ _ hrb hnil.1
  · intro tr hau t ht
    obtain ⟨at_, hat, ta⟩ := hd.audio tr hau
    have : at_ = t := Option.some.inj (hat.symm.trans ht)
    subst this
    refine ⟨ta.sizes_eq, by rw [ta.sizes_eq]; simp, ta.stco_eq, ta.stsc_eq, ta.stss_eq, ?_⟩
    unfold Track.ranges
    rw [ta.stsc_eq, ta.stco_eq, ta.sizes_eq]
    exact walk_audio w _ _ hrb tr hau hnil.2

/-- 2. Video: walking the first track of the parsed movie with the reader's own `Track.samples`
    yields, in submission order, one entry per accepted video frame carrying exactly that frame's
    stored payload bytes and its key-frame flag. No corner is excluded: a reachable writer's first
    video frame is always a key frame, so the `stss` box is present whenever there is a frame, and
    an empty video track (audio only, or no sample at all) has no `stss` and no samples. -/
theorem C01_e2e_video (w : Writer) (hr : w.Reachable) (width height : Nat) (md : Option Metadata)
    (fast : Bool) (hok : (w.finalize width height md fast).2.res = .ok)
    (hfit : MoovFits w width height md fast) :
    let file := (w.finalize width height md fast).2.chunks.flatten
    ∀ mv, parseMovie file = some mv → ∀ t, mv.tracks[0]? = some t →
      (t.samples file).map (fun s => (s.1, s.2.1)) = w.vsRev.reverse.map (fun s => (s.data, s.key)) := by
  intro file mv hmv t ht
  obtain ⟨hs, -, -, -, hk, hrg⟩ :=
    (C01_e2e_sizes_and_count w hr width height md fast hok hfit mv hmv).1 t ht
  rw [samples_payload_sync t file _ _ hrg (sync_flags w hr t hs hk), List.zip_map']

/-- 2'. the payload half alone -/
theorem C01_e2e_video_payloads (w : Writer) (hr : w.Reachable) (width height : Nat) (md : Option Metadata)
    (fast : Bool) (hok : (w.finalize width height md fast).2.res = .ok)
    (hfit : MoovFits w width height md fast) :
    let file := (w.finalize width height md fast).2.chunks.flatten
    ∀ mv, parseMovie file = some mv → ∀ t, mv.tracks[0]? = some t →
      (t.samples file).map (·.1) = w.vsRev.reverse.map (·.data) := by
  intro file mv hmv t ht
  have h := congrArg (List.map Prod.fst) (C01_e2e_video w hr width height md fast hok hfit mv hmv t ht)
  simpa [List.map_map, Function.comp_def] using h

/-- 3. Audio: when an audio track is configured, the second track of the parsed movie yields, in
    submission order, exactly the stored payload of every accepted audio frame (none at all when
    no audio frame was written). -/
theorem C01_e2e_audio (w : Writer) (hr : w.Reachable) (width height : Nat) (md : Option Metadata)
    (fast : Bool) (hok : (w.finalize width height md fast).2.res = .ok)
    (hfit : MoovFits w width height md fast) (tr : AudioTrack) (hau : w.audio = some tr) :
    let file := (w.finalize width height md fast).2.chunks.flatten
    ∀ mv, parseMovie file = some mv → ∀ t, mv.tracks[1]? = some t →
      (t.samples file).map (·.1) = w.asRev.reverse.map (·.data) := by
  intro file mv hmv t ht
  obtain ⟨-, hl, -, -, -, hrg⟩ :=
    (C01_e2e_sizes_and_count w hr width height md fast hok hfit mv hmv).2 tr hau t ht
  apply samples_payload t file _ hrg
  rw [syncFlags_length, hl]; simp

/-- the sync flags of the audio track: every audio sample is a sync sample (no `stss`) -/
theorem C01_e2e_audio_sync (w : Writer) (hr : w.Reachable) (width height : Nat) (md : Option Metadata)
    (fast : Bool) (hok : (w.finalize width height md fast).2.res = .ok)
    (hfit : MoovFits w width height md fast) (tr : AudioTrack) (hau : w.audio = some tr) :
    let file := (w.finalize width height md fast).2.chunks.flatten
    ∀ mv, parseMovie file = some mv → ∀ t, mv.tracks[1]? = some t →
      t.syncFlags = List.replicate w.asRev.length true := by
  intro file mv hmv t ht
  obtain ⟨-, hl, -, -, hk, -⟩ :=
    (C01_e2e_sizes_and_count w hr width height md fast hok hfit mv hmv).2 tr hau t ht
  unfold Track.syncFlags
  rw [hk, hl]

/-- Summary (1–3 in one statement): the movie exists, its first track reads back every video
    frame with its sync flag, and — when an audio track is configured — its second track reads
    back every audio frame. -/
theorem C01_e2e (w : Writer) (hr : w.Reachable) (width height : Nat) (md : Option Metadata)
    (fast : Bool) (hok : (w.finalize width height md fast).2.res = .ok)
    (hfit : MoovFits w width height md fast) :
    let file := (w.finalize width height md fast).2.chunks.flatten
    ∃ mv vt, parseMovie file = some mv ∧ mv.tracks.length = (if w.audio.isSome then 2 else 1) ∧
      mv.tracks[0]? = some vt ∧
      (vt.samples file).map (fun s => (s.1, s.2.1)) = w.vsRev.reverse.map (fun s => (s.data, s.key)) ∧
      (∀ tr, w.audio = some tr → ∃ at_, mv.tracks[1]? = some at_ ∧
        (at_.samples file).map (·.1) = w.asRev.reverse.map (·.data)) := by
  intro file
  obtain ⟨mv, hmv, hd⟩ := e2e_core w hr width height md fast hok hfit
  obtain ⟨vt, hvt, -⟩ := hd.video
  refine ⟨mv, vt, hmv, hd.count, hvt, C01_e2e_video w hr width height md fast hok hfit mv hmv vt hvt, ?_⟩
  intro tr hau
  obtain ⟨at_, hat, -⟩ := hd.audio tr hau
  exact ⟨at_, hat, C01_e2e_audio w hr width height md fast hok hfit tr hau mv hmv at_ hat⟩

/-! ## Where reachability is used -/

/-- The sync-flag half of `C01_e2e_video` uses reachability exactly once: the first accepted video
    frame is a key frame, so `stss` is present whenever there is a frame. For a writer *state* that
    the API cannot produce — a single queued frame that is not a key frame — `build_stss` is
    skipped (no key frame), the reader then treats every sample as a sync sample, and the flag
    read back is `true` although the frame's flag is `false` (the payload still reads back). -/
theorem C01_e2e_sync_needs_first_key :
    let w : Writer := { codec := .vp9, vsRev := [⟨0, 0, [1, 2], false, none⟩], vPrev := some 0 }
    let file := (w.finalize 16 16 none false).2.chunks.flatten
    (w.finalize 16 16 none false).2.res = .ok ∧
    (parseMovie file).map (fun mv => mv.tracks.map fun t => (t.samples file).map fun s => (s.1, s.2.1)) =
      some [[([1, 2], true)]] ∧
    w.vsRev.reverse.map (fun s => (s.data, s.key)) = [([1, 2], false)] := by
  decide +kernel

/-! ## The hypothesis `MoovFits` -/

theorem maxPushed_ge (step : Ent → Nat) (l : List Ent) (cur : Nat) (h : l ≠ []) : cur ≤ maxPushed step l cur := by
  cases l with
  | nil => exact absurd rfl h
  | cons e es => simp only [maxPushed]; omega

theorem schedule_ne_nil (vs aus : List Sample) (h : vs ≠ [] ∨ aus ≠ []) : schedule vs aus ≠ [] := by
  intro e
  have := (schedule_perm vs aus).length_eq
  rw [e] at this
  simp only [List.length_nil, List.length_append, entsOf_length] at this
  rcases h with h | h
  · exact h (List.eq_nil_of_length_eq_zero (by omega))
  · exact h (List.eq_nil_of_length_eq_zero (by omega))

/-- In the fast-start layout with at least one queued sample the hypothesis `MoovFits` is implied
    by the writer's own chunk-offset check: the first chunk offset is `ftyp + moov + 8` and was
    checked against `u32::MAX`. -/
theorem C01_e2e_moov_fits_fast (w : Writer) (hr : w.Reachable) (width height : Nat) (md : Option Metadata)
    (hok : (w.finalize width height md true).2.res = .ok) (hne : w.vsRev ≠ [] ∨ w.asRev ≠ []) :
    MoovFits w width height md true := by
  have e : (w.finalize width height md true).2 = finalizeFastStart w width height md (vcOf w) :=
    finalize_ok w width height md true hok
  rw [e] at hok
  have hinv := hr.inv.noAudio
  unfold MoovFits writtenMoov
  rw [← ser_len_shape _ (shape_moovOf _ _ _ _ _ _)]
  have hl := placeholderOffsets_length w (mediaStart w width height md true)
  rw [← moovOf_length w width height md (vcOf w) _ _ hl.1 hl.2]
  cases hau : w.audio with
  | none =>
    have hv : w.vsRev.reverse ≠ [] := by
      rcases hne with h | h
      · simpa using h
      · exact absurd (hinv hau) h
    have h := (finalizeFastStart_video_ok w width height md (vcOf w) hau hok).2.1 hv
    simp only [moovOf, placeholderOffsets, hau]
    simp only [u32Max] at h
    omega
  | some tr =>
    have h := (finalizeFastStart_av_ok w width height md (vcOf w) tr hau hok).2.1
    have hs : schedule w.vsRev.reverse w.asRev.reverse ≠ [] := schedule_ne_nil _ _ (by simpa using hne)
    have hge := maxPushed_ge (entSize w.vsRev.reverse w.asRev.reverse) _ (ftypLen + (bMoov width height
      (Tables.ofSamples w.vsRev.reverse (assignOffsets (fun _ => 1) (schedule w.vsRev.reverse w.asRev.reverse) 0).1 1 w.vLastDelta)
      (some (tr, Tables.ofSamples w.asRev.reverse (assignOffsets (fun _ => 1) (schedule w.vsRev.reverse w.asRev.reverse) 0).2 1 w.aLastDelta))
      (vcOf w) md).ser.length + 8) hs
    simp only [moovOf, placeholderOffsets, hau]
    simp only [u32Max] at h
    omega

/-- Why `MoovFits` is a hypothesis: the writer never checks the moov size. A fresh writer
    finalised with a title of 2^32 bytes or more reports `ok`, yet the moov it writes does not
    fit the 32-bit size field. -/
theorem C01_e2e_moov_unchecked (title : Bytes) (h : 2^32 ≤ title.length) :
    let w : Writer := { codec := .h264 }
    let md : Option Metadata := some { title := some title }
    w.Reachable ∧ (w.finalize 16 16 md false).2.res = .ok ∧ ¬ MoovFits w 16 16 md false := by
  intro w md
  refine ⟨.init .h264 none, ?_, ?_⟩
  · simp [w, md, Writer.finalize, finalizeStandard, durationsOf, moovPanics, u32Max]
  · unfold MoovFits writtenMoov moovOf
    simp only [w, md, bMoov, bUdta, bIlstItem, Option.bind_some, Box.node, Box.leaf, Box.size, Box.sizes,
      List.reverse_nil, List.isEmpty_cons, List.append_nil, List.nil_append, List.cons_append,
      Bool.false_eq_true, if_false, List.length_cons, List.length_nil]
    omega

/-! ## Non-vacuity -/
namespace Example
def tr0 : AudioTrack := ⟨48000, 2, .opus⟩
def f0 : Bytes := [0,0,0,1,0x67,0x42,0,0x1e, 0,0,0,1,0x68,0xce, 0,0,0,1,0x65,0x88]
def f1 : Bytes := [0,0,0,1,0x41,0x9a]
def pkt : Bytes := [0xfc, 1, 2, 3]
/-- a fresh H.264 writer with an Opus track; one key frame (SPS, PPS, IDR), one delta frame, one
    audio packet — built with the API calls only -/
def wE : Writer :=
  ((({ codec := .h264, audio := some tr0 } : Writer).writeVideo 0 0 f0 true).1.writeVideo 3000 3000 f1 false).1.writeAudio 0 pkt |>.1

theorem wE_reachable : wE.Reachable :=
  .audio 0 pkt (.video 3000 3000 f1 false (.video 0 0 f0 true (.init .h264 (some tr0))))

def v0 : Sample := ⟨0, 0, [0, 0, 0, 4, 103, 66, 0, 30, 0, 0, 0, 2, 104, 206, 0, 0, 0, 2, 101, 136], true, some 3000⟩
def v1 : Sample := ⟨3000, 3000, [0, 0, 0, 2, 65, 154], false, none⟩
def a0 : Sample := ⟨0, 0, [252, 1, 2, 3], false, none⟩

def wS : Writer :=
  { codec := .h264, vsRev := [v1, v0], vPrev := some 3000, vLastDelta := some 3000,
    vConfig := some (.avc ⟨[103, 66, 0, 30], [104, 206]⟩), audio := some tr0, asRev := [a0], aPrev := some 0 }

theorem wE_eq : wE = wS := by decide +kernel

theorem sched_wE : schedule [v0, v1] [a0] = [⟨0, 0, 0⟩, ⟨0, 1, 0⟩, ⟨3000, 0, 1⟩] := by
  apply schedule_unique <;> decide

theorem wS_vs : wS.vsRev.reverse = [v0, v1] := rfl
theorem wS_as : wS.asRev.reverse = [a0] := rfl
theorem wS_au : wS.audio = some tr0 := rfl

theorem wE_ok (fast : Bool) : (wE.finalize 640 480 none fast).2.res = .ok := by
  rw [wE_eq]
  cases fast
  · simp only [Writer.finalize, finalizeStandard, wS_vs, wS_as, wS_au, sched_wE]
    decide +kernel
  · simp only [Writer.finalize, finalizeFastStart, wS_vs, wS_as, wS_au, sched_wE]
    decide +kernel

theorem wE_fits (fast : Bool) : MoovFits wE 640 480 none fast := by
  rw [wE_eq]
  cases fast
  · simp only [MoovFits, writtenMoov, mediaStart, moovOf, offsetsAt, placeholderOffsets, wS_vs, wS_as, wS_au, sched_wE]
    decide +kernel
  · simp only [MoovFits, writtenMoov, mediaStart, moovOf, offsetsAt, placeholderOffsets, wS_vs, wS_as, wS_au, sched_wE]
    decide +kernel

/-- non-vacuity of the hypotheses of all end-to-end theorems, for both layouts -/
example (fast : Bool) : wE.Reachable ∧ (wE.finalize 640 480 none fast).2.res = .ok ∧ MoovFits wE 640 480 none fast ∧
    wE.audio = some tr0 ∧ wE.vsRev.length = 2 ∧ wE.asRev.length = 1 :=
  ⟨wE_reachable, wE_ok fast, wE_fits fast, by rw [wE_eq]; rfl, by rw [wE_eq]; rfl, by rw [wE_eq]; rfl⟩

/-- … hence the file parses into a movie with two tracks -/
example (fast : Bool) : ∃ mv, parseMovie (wE.finalize 640 480 none fast).2.chunks.flatten = some mv ∧
    mv.tracks.length = 2 := by
  have := C01_e2e_parses wE wE_reachable 640 480 none fast (wE_ok fast) (wE_fits fast)
  rw [wE_eq] at this ⊢
  exact this

/-- … and, independently of the theorems, by evaluation (standard layout): the reader returns
    the two video payloads with their sync flags, and the audio payload -/
example :
    let file := (wE.finalize 640 480 none false).2.chunks.flatten
    (parseMovie file).map (fun mv => mv.tracks.map fun t => (t.samples file).map fun s => (s.1, s.2.1)) =
      some [[(v0.data, true), (v1.data, false)], [(a0.data, true)]] := by
  rw [wE_eq]
  simp only [Writer.finalize, finalizeStandard, wS_vs, wS_as, wS_au, sched_wE]
  decide +kernel
end Example

end Muxide.Props.C01E2E
