import Muxide.Checked.AnnexB
/-
  C12 (checked models, H.265) — `hevc_nal_type`, `extract_hevc_config` (INV-501, INV-502) and
  `is_hevc_keyframe` (INV-503, INV-504) over the checked NAL iterator.
-/
namespace Muxide.Checked
open Muxide

/-- `hevc_nal_type`: `nal[0]` behind `is_empty`, then `assert_invariant!(nal_type <= 63)` at the callers -/
def hevcNalTypeC (n : Bytes) : M Nat :=
  if n = [] then .ok 0 else
  match getC n 0 with
  | .error e => .error e
  | .ok b => if b.toNat / 2 % 64 ≤ 63 then .ok (b.toNat / 2 % 64) else .error ()

theorem hevcNalTypeC_eq (n : Bytes) : hevcNalTypeC n = .ok (hevcNalType n) := by
  cases n with
  | nil => rfl
  | cons b r =>
    have : b.toNat / 2 % 64 ≤ 63 := by omega
    simp [hevcNalTypeC, getC, hevcNalType, this]

/-- the update of (vps, sps, pps) by one non-empty unit of type `t` -/
def hevcPick (t : Nat) (n : Bytes) (v s p : Option Bytes) : Option Bytes × Option Bytes × Option Bytes :=
  if t = 32 ∧ v.isNone then (some n, s, p)
  else if t = 33 ∧ s.isNone then (v, some n, p)
  else if t = 34 ∧ p.isNone then (v, s, some n)
  else (v, s, p)

def hevcScanC : List Bytes → Option Bytes → Option Bytes → Option Bytes → M (Option Bytes × Option Bytes × Option Bytes)
  | [], v, s, p => .ok (v, s, p)
  | n :: ns, v, s, p =>
    if n = [] then hevcScanC ns v s p else
    match hevcNalTypeC n with
    | .error e => .error e
    | .ok t =>
      let q := hevcPick t n v s p
      if q.1.isSome ∧ q.2.1.isSome ∧ q.2.2.isSome then .ok q else hevcScanC ns q.1 q.2.1 q.2.2

theorem hevcScan_cons (n : Bytes) (ns : List Bytes) (v s p : Option Bytes) (hn : n ≠ []) :
    hevcScan (n :: ns) v s p =
      (let q := hevcPick (hevcNalType n) n v s p
       if q.1.isSome ∧ q.2.1.isSome ∧ q.2.2.isSome then q else hevcScan ns q.1 q.2.1 q.2.2) := by
  rw [hevcScan]
  simp only [hn, if_false, hevcPick]
  split <;> rfl

theorem hevcScanC_eq (ns : List Bytes) (v s p : Option Bytes) : hevcScanC ns v s p = .ok (hevcScan ns v s p) := by
  induction ns generalizing v s p with
  | nil => rfl
  | cons n ns ih =>
    by_cases hn : n = []
    · subst hn
      rw [hevcScanC, hevcScan]
      simp only [if_true]; exact ih v s p
    · rw [hevcScanC, hevcScan_cons n ns v s p hn]
      simp only [hn, if_false, hevcNalTypeC_eq n]
      split
      · rfl
      · exact ih _ _ _

theorem hevcScan_nonempty (ns : List Bytes) (v s p : Option Bytes)
    (hv : ∀ x, v = some x → x ≠ []) (hs : ∀ x, s = some x → x ≠ []) (hp : ∀ x, p = some x → x ≠ []) :
    (∀ x, (hevcScan ns v s p).1 = some x → x ≠ []) ∧ (∀ x, (hevcScan ns v s p).2.1 = some x → x ≠ []) ∧
    (∀ x, (hevcScan ns v s p).2.2 = some x → x ≠ []) := by
  induction ns generalizing v s p with
  | nil => exact ⟨hv, hs, hp⟩
  | cons n ns ih =>
    by_cases hn : n = []
    · subst hn
      rw [hevcScan]
      simp only [if_true]; exact ih v s p hv hs hp
    · rw [hevcScan_cons n ns v s p hn]
      have hq : (∀ x, (hevcPick (hevcNalType n) n v s p).1 = some x → x ≠ []) ∧
                (∀ x, (hevcPick (hevcNalType n) n v s p).2.1 = some x → x ≠ []) ∧
                (∀ x, (hevcPick (hevcNalType n) n v s p).2.2 = some x → x ≠ []) := by
        unfold hevcPick
        split
        · exact ⟨by intro x hx; simp at hx; subst hx; exact hn, hs, hp⟩
        · split
          · exact ⟨hv, by intro x hx; simp at hx; subst hx; exact hn, hp⟩
          · split
            · exact ⟨hv, hs, by intro x hx; simp at hx; subst hx; exact hn⟩
            · exact ⟨hv, hs, hp⟩
      simp only
      split
      · exact hq
      · exact ih _ _ _ hq.1 hq.2.1 hq.2.2

/-- `extract_hevc_config`, including INV-502 -/
def extractHevcC (d : Bytes) : M (Option HevcConfig) :=
  if d = [] then .ok none else
  match nalsC d with
  | .error e => .error e
  | .ok ns =>
    match hevcScanC ns none none none with
    | .error e => .error e
    | .ok (some v, some s, some p) => if v ≠ [] ∧ s ≠ [] ∧ p ≠ [] then .ok (some ⟨v, s, p⟩) else .error ()
    | .ok _ => .ok none

/-- `extract_hevc_config`: `nal[0]` only from non-empty units, INV-501 and INV-502 never fire -/
theorem C12_checked_extract_hevc (d : Bytes) (hd : SliceLen d) : extractHevcC d = .ok (extractHevc d) := by
  unfold extractHevcC extractHevc
  by_cases h : d = []
  · simp [h]
  · simp only [h, if_false, nalsC_eq d hd, hevcScanC_eq]
    have hne := hevcScan_nonempty (nals d) none none none (by simp) (by simp) (by simp)
    cases hsc : hevcScan (nals d) none none none with
    | mk v sp =>
      obtain ⟨s, p⟩ := sp
      rw [hsc] at hne
      cases v <;> cases s <;> cases p <;> simp_all

/-- `is_hevc_keyframe`, including INV-503 / INV-504 -/
def isHevcKeyframeC (d : Bytes) : M Bool :=
  if d = [] then .ok false else
  match nalsC d with
  | .error e => .error e
  | .ok ns =>
    ns.foldr (fun n acc =>
      if n = [] then acc else
      match hevcNalTypeC n with
      | .error e => .error e
      | .ok t => if isHevcKeyNalType t then .ok true else acc) (.ok false)

theorem hevcKeyFold_eq (ns : List Bytes) :
    ns.foldr (fun n acc =>
      if n = [] then acc else
      match hevcNalTypeC n with
      | .error e => .error e
      | .ok t => if isHevcKeyNalType t then .ok true else acc) (.ok false)
    = (.ok (ns.any fun n => n ≠ [] && isHevcKeyNalType (hevcNalType n)) : M Bool) := by
  induction ns with
  | nil => rfl
  | cons n ns ih =>
    rw [List.foldr_cons, ih, List.any_cons]
    by_cases hn : n = []
    · simp [hn]
    · simp only [hn, if_false, hevcNalTypeC_eq]
      by_cases hk : isHevcKeyNalType (hevcNalType n) = true <;> simp [hk, hn]

/-- `is_hevc_keyframe` = the detection the rest of the model uses (`detectKeyframe .h265`) -/
theorem C12_checked_is_hevc_keyframe (d : Bytes) (hd : SliceLen d) :
    isHevcKeyframeC d = .ok ((nals d).any fun n => n ≠ [] && isHevcKeyNalType (hevcNalType n)) := by
  unfold isHevcKeyframeC
  by_cases h : d = []
  · subst h; rfl
  · rw [if_neg h, nalsC_eq d hd]
    exact hevcKeyFold_eq (nals d)

end Muxide.Checked
