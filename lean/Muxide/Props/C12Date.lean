import Muxide.Lemmas.Date
/-
  C12 (creation-date formatting) — the year loop of `days_to_ymd` terminates promptly: after the
  whole 400-year cycles have been skipped, the loop body runs fewer than 400 times for EVERY
  input, and the constant fuel 401 of the model is never the reason the loop stops.
  Property theorems only; the iteration counter `yearLoopSteps` and the helper lemmas live in
  Muxide/Lemmas/Date.lean.
-/
namespace Muxide.Props.C12Date
open Muxide Muxide.Spec

/-! ### the iteration counter -/

/-- `yearLoopSteps` mirrors `yearLoop` clause by clause and counts one per recursive call. -/
theorem yearLoopSteps_zero (y r : Nat) : yearLoopSteps 0 y r = 0 := rfl

theorem yearLoopSteps_succ (f y r : Nat) :
    yearLoopSteps (f + 1) y r =
      if r < yearLen y then 0 else yearLoopSteps f (y + 1) (r - yearLen y) + 1 := rfl

/-- the counter is the number of years the loop advanced -/
theorem C12_steps_are_years : ∀ f y r : Nat, (yearLoop f y r).1 = y + yearLoopSteps f y r :=
  yearLoop_year

/-! ### the bound -/

/-- The year loop as called by `daysToYmd` runs its body at most 400 times, for every input. -/
theorem C12_year_loop_bound : ∀ days : Nat,
    yearLoopSteps 401 (1970 + 400 * (days / 146097)) (days % 146097) ≤ 400 := by
  intro days
  have := yearLoopSteps_lt_400 401 (1970 + 400 * (days / 146097)) (days % 146097) (by omega)
    (Nat.mod_lt _ (by omega))
  omega

/-- … in fact at most 399 times (the remainder is less than one full cycle). -/
theorem C12_year_loop_bound_strict : ∀ days : Nat,
    yearLoopSteps 401 (1970 + 400 * (days / 146097)) (days % 146097) < 400 := by
  intro days
  exact yearLoopSteps_lt_400 401 _ _ (by omega) (Nat.mod_lt _ (by omega))

/-- 399 iterations do occur: the last day of a 400-year cycle (2369-12-31). -/
theorem C12_year_loop_399_attained :
    yearLoopSteps 401 (1970 + 400 * (146096 / 146097)) (146096 % 146097) = 399 := by decide +kernel

/-- The bound does not come from the fuel: with ANY fuel and any start year from 1970 on, fewer
    than 146 097 remaining days give fewer than 400 iterations. -/
theorem C12_year_loop_bound_any_fuel : ∀ f y r : Nat, 1970 ≤ y → r < 146097 →
    yearLoopSteps f y r < 400 :=
  yearLoopSteps_lt_400

/-! ### the fuel is never exhausted -/

/-- The loop stops because the remainder fits in the year reached — not because the fuel ran
    out: the returned remainder is a day-of-year of the returned year. -/
theorem C12_year_loop_exit : ∀ days : Nat,
    (yearLoop 401 (1970 + 400 * (days / 146097)) (days % 146097)).2 <
      yearLen (yearLoop 401 (1970 + 400 * (days / 146097)) (days % 146097)).1 := by
  intro days
  exact (yearLoop_days days).2.1

/-- … and any larger fuel gives the same result. -/
theorem C12_year_loop_fuel_irrelevant : ∀ days g : Nat, 401 ≤ g →
    yearLoop g (1970 + 400 * (days / 146097)) (days % 146097) =
      yearLoop 401 (1970 + 400 * (days / 146097)) (days % 146097) := by
  intro days g hg
  apply yearLoop_fuel_irrel 401 g _ _ _ hg
  have := C12_year_loop_bound_strict days
  omega

/-! ### the facts behind the cycle skip -/

/-- any 400 consecutive years (from 1970 on) have 146 097 days -/
theorem C12_cycle_days : ∀ y : Nat, 1970 ≤ y →
    daysFromCivil (y + 400) 1 1 = daysFromCivil y 1 1 + 146097 := by
  intro y hy
  rw [daysFromCivil_eq, daysFromCivil_eq, yearSum_add_400 y hy]
  simp [monthSum]

/-- the start year of the loop is the first day of cycle `c` -/
theorem C12_cycle_start : ∀ c : Nat, daysFromCivil (1970 + 400 * c) 1 1 = 146097 * c :=
  daysFromCivil_cycle

end Muxide.Props.C12Date
