import Muxide.Props.C19Generated
/-
  C19 (mechanical tie, second batch) — the sample tables (stsz, stco, stss, and the run-length coded stts and
  ctts), the codec configuration records (avcC, av1C, vpcC) with their sample entries (avc1, av01, vp09), and
  three more builders of the fragmented writer (tkhd, avcC, avc1), translated from the Rust source by
  tools/rs2lean.py on every check run; each theorem states that the translated function is, for all arguments,
  the serialisation of the hand-written model's box.
-/
namespace Muxide.Props.C19Generated
open Muxide Muxide.Box Muxide.Generated Muxide.Generated.Mp4

/-! ### the plain tables -/

theorem flatMap_eta (xs : List Nat) : xs.flatMap (fun v => u32be v) = xs.flatMap u32be := rfl

theorem C19_gen_stsz (sizes : List Nat) : build_stsz_box sizes = (bStsz sizes).ser := by
  rw [bStsz, ser_leaf]
  simp only [build_stsz_box, buildBox, u32be_mod, flatMap_eta, List.nil_append, List.append_assoc]
  rfl

theorem C19_gen_stco (offs : List Nat) : build_stco_box offs = (bStco offs).ser := by
  rw [bStco, ser_leaf]
  simp only [build_stco_box, buildBox, u32be_mod, flatMap_eta, List.nil_append, List.append_assoc]
  rfl

theorem C19_gen_stss (keys : List Nat) : build_stss_box keys = (bStss keys).ser := by
  rw [bStss, ser_leaf]
  simp only [build_stss_box, buildBox, u32be_mod, flatMap_eta, List.nil_append, List.append_assoc]
  rfl

/-! ### run-length coding: the Rust loop (extend the last entry or push a new one) is the model's `rle` -/

theorem getLast?_reverse_cons {α} (a : α) (l : List α) : (a :: l).reverse.getLast? = some a := by
  simp

theorem dropLast_reverse_cons {α} (a : α) (l : List α) : (a :: l).reverse.dropLast = l.reverse := by
  simp

theorem rleSnoc_aux {α} [DecidableEq α] (xs : List α) : ∀ acc : List (Nat × α),
    xs.foldl (fun entries x => match entries.getLast? with
      | some last => if last.2 = x then entries.dropLast ++ [(last.1 + 1, last.2)] else entries ++ [(1, x)]
      | none => entries ++ [(1, x)]) acc.reverse = rleAux xs acc := by
  induction xs with
  | nil => intro acc; rfl
  | cons x xs ih =>
    intro acc
    cases acc with
    | nil =>
      simp only [List.foldl_cons, List.reverse_nil, List.getLast?_nil, List.nil_append, rleAux]
      exact ih [(1, x)]
    | cons e acc =>
      obtain ⟨c, y⟩ := e
      simp only [List.foldl_cons, getLast?_reverse_cons, dropLast_reverse_cons, rleAux]
      by_cases h : y = x
      · simp only [h, if_true]
        have := ih ((c + 1, x) :: acc)
        simpa using this
      · simp only [h, if_false]
        have := ih ((1, x) :: (c, y) :: acc)
        simpa using this

theorem rleSnoc_eq_rle {α} [DecidableEq α] (xs : List α) : rleSnoc xs = rle xs := by
  unfold rleSnoc rle
  exact rleSnoc_aux xs []

theorem C19_gen_stts (ds : List Nat) : build_stts_box ds = (bStts ds).ser := by
  rw [bStts, ser_leaf]
  simp only [build_stts_box, buildBox, u32be_mod, rleSnoc_eq_rle, List.nil_append, List.append_assoc]
  rfl

theorem C19_gen_ctts (os : List Int) : build_ctts_box os = (bCtts os).ser := by
  rw [bCtts, ser_leaf]
  simp only [build_ctts_box, buildBox, u32be_mod, rleSnoc_eq_rle, List.nil_append, List.append_assoc]
  rfl

/-! ### codec configuration records -/

theorem u16be_mod (n : Nat) : u16be (n % 2 ^ 16) = u16be n := by
  unfold u16be
  have h0 : n % 2 ^ 16 % 256 = n % 256 := by omega
  have h1 : n % 2 ^ 16 / 2 ^ 8 % 256 = n / 2 ^ 8 % 256 := by omega
  rw [h0, h1]

theorem u8'_toNat (b : UInt8) : u8' b.toNat = b := by
  show UInt8.ofNat b.toNat = b
  simp

theorem u8_toNat (b : UInt8) : u8 b.toNat = b := by
  show UInt8.ofNat b.toNat = b
  simp

/-- `build_avcc_box(avc_config)`: profile, compatibility and level copied from the SPS when it has four
    bytes, the Baseline defaults otherwise -/
theorem C19_gen_avcC (c : AvcConfig) : build_avcc_box c.sps c.pps = (bAvcC c).ser := by
  unfold bAvcC
  by_cases h : c.sps.length ≥ 4
  · simp only [h, if_true]
    rw [ser_leaf]
    simp only [build_avcc_box, buildBox, h, if_true, u8'_toNat, u16be_mod, List.nil_append, List.append_assoc]
    rfl
  · simp only [h, if_false]
    rw [ser_leaf]
    simp only [build_avcc_box, buildBox, h, if_false, u16be_mod, List.nil_append, List.append_assoc]
    rfl

theorem av1c_byte1_bits : ∀ p, p < 8 → ∀ l, l < 32 → ((p * 2 ^ 5 % 2 ^ 8) ||| l) = p * 32 + l := by decide

theorem av1c_byte2_bits : ∀ t, t < 2 → ∀ c, c < 4 → ∀ hb tb mono sx sy : Bool,
    ((((((((t * 2 ^ 7 % 2 ^ 8) ||| (if hb then 64 else 0)) ||| (if tb then 32 else 0)) ||| (if mono then 16 else 0)) |||
      (if sx then 8 else 0)) ||| (if sy then 4 else 0)) ||| c)) =
    t * 128 + (if hb then 0x40 else 0) + (if tb then 0x20 else 0) + (if mono then 0x10 else 0) +
      (if sx then 0x08 else 0) + (if sy then 0x04 else 0) + c := by decide

theorem and_7 (n : Nat) : n &&& 7 = n % 8 := Nat.and_two_pow_sub_one_eq_mod n 3
theorem and_31 (n : Nat) : n &&& 31 = n % 32 := Nat.and_two_pow_sub_one_eq_mod n 5
theorem and_1 (n : Nat) : n &&& 1 = n % 2 := Nat.and_two_pow_sub_one_eq_mod n 1
theorem and_3 (n : Nat) : n &&& 3 = n % 4 := Nat.and_two_pow_sub_one_eq_mod n 2
theorem and_15 (n : Nat) : n &&& 15 = n % 16 := Nat.and_two_pow_sub_one_eq_mod n 4

/-- `build_av1c_box(av1_config)`: marker/version, profile and level, the flag byte, no presentation delay,
    then the sequence header OBU -/
theorem C19_gen_av1C (c : Av1Config) :
    build_av1c_box c.sequenceHeader c.seqProfile c.seqLevelIdx c.seqTier c.highBitdepth c.twelveBit c.monochrome
      c.subX c.subY c.csp = (bAv1C c).ser := by
  rw [bAv1C, ser_leaf]
  have h1 := av1c_byte1_bits (c.seqProfile % 8) (by omega) (c.seqLevelIdx % 32) (by omega)
  have h2 := av1c_byte2_bits (c.seqTier % 2) (by omega) (c.csp % 4) (by omega) c.highBitdepth c.twelveBit c.monochrome c.subX c.subY
  simp only [build_av1c_box, buildBox, av1CRecord, and_7, and_31, and_1, and_3, h1, h2, List.nil_append, List.append_assoc]
  rfl

theorem vpcc_bits : ∀ b, b < 16 → ∀ f, f < 2 → (((b * 2 ^ 4 % 2 ^ 8) ||| 2) ||| f) = b * 16 + 2 + f := by decide

/-- `build_vpcc_box(vp9_config)` -/
theorem C19_gen_vpcC (c : Vp9Config) :
    build_vpcc_box c.profile c.bitDepth c.colorSpace c.transfer c.matrix c.level c.fullRange = (bVpcC c).ser := by
  rw [bVpcC, ser_leaf]
  have h := vpcc_bits (c.bitDepth % 16) (by omega) (c.fullRange % 2) (by omega)
  simp only [build_vpcc_box, buildBox, vpcCRecord, and_15, and_1, h, List.nil_append, List.append_assoc]
  rfl

/-! ### the visual sample entries -/

theorem node1_ser (t : String) (pre : Bytes) (k : Box) (hk : k.ser.length = k.size) :
    (node t pre [k]).ser = u32be (8 + (pre ++ k.ser).length) ++ ascii t ++ (pre ++ k.ser) := by
  simp only [node, ser, sers, sizes, List.length_append, hk, Nat.add_zero, List.append_nil, List.append_assoc, Nat.add_assoc]

theorem bAvcC_len (c : AvcConfig) : (bAvcC c).ser.length = (bAvcC c).size := by
  unfold bAvcC
  split <;> exact leaf_ser_length _ _ rfl

theorem C19_gen_avc1 (w h : Nat) (c : AvcConfig) :
    build_avc1_box w h c.sps c.pps = (bVideoEntry w h (.avc c)).ser := by
  unfold bVideoEntry
  simp only
  rw [node1_ser _ _ _ (bAvcC_len c)]
  simp only [build_avc1_box, buildBox, C19_gen_avcC, visualEntryPrefix, u16be_mod, List.nil_append, List.append_assoc]
  rfl

theorem C19_gen_av01 (w h : Nat) (c : Av1Config) :
    build_av01_box w h c.sequenceHeader c.seqProfile c.seqLevelIdx c.seqTier c.highBitdepth c.twelveBit c.monochrome
      c.subX c.subY c.csp = (bVideoEntry w h (.av1 c)).ser := by
  unfold bVideoEntry
  simp only
  rw [node1_ser _ _ _ (by unfold bAv1C; exact leaf_ser_length _ _ rfl)]
  simp only [build_av01_box, buildBox, C19_gen_av1C, visualEntryPrefix, u16be_mod, List.nil_append, List.append_assoc]
  rfl

theorem C19_gen_vp09 (w h : Nat) (c : Vp9Config) :
    build_vp09_box w h c.profile c.bitDepth c.colorSpace c.transfer c.matrix c.level c.fullRange =
      (bVideoEntry w h (.vp9 c)).ser := by
  unfold bVideoEntry
  simp only
  rw [node1_ser _ _ _ (by unfold bVpcC; exact leaf_ser_length _ _ rfl)]
  simp only [build_vp09_box, buildBox, C19_gen_vpcC, visualEntryPrefix, u16be_mod, List.nil_append, List.append_assoc]
  rfl

/-! ### HEVC: the SPS readers of `impl HevcConfig`, hvcC and hvc1 -/

theorem hvcc_byte1_bits : ∀ b, b < 256 →
    ((((b / 2 ^ 6) &&& 3) * 2 ^ 6 % 2 ^ 8) ||| (if (decide (((b / 2 ^ 5) &&& 1) ≠ 0)) = true then 32 else 0)) ||| ((b &&& 31) &&& 31) =
    (b / 64 % 4 * 64) % 256 + (if (decide (b / 32 % 2 ≠ 0)) = true then 0x20 else 0) + b % 32 % 32 := by decide +kernel

/-- `build_hvcc_box(hevc_config)`: the general byte assembled from the three SPS readers, the fixed
    compatibility/constraint/format bytes, and the three parameter-set arrays -/
theorem C19_gen_hvcC (c : HevcConfig) : build_hvcc_box c.vps c.sps c.pps = (bHvcC c).ser := by
  rw [bHvcC, ser_leaf]
  simp only [build_hvcc_box, buildBox, Hevc.general_profile_space, Hevc.general_tier_flag, Hevc.general_profile_idc,
    Hevc.general_level_idc, u16be_mod, List.nil_append, List.append_assoc]
  obtain h14 | ⟨l, h14⟩ : c.sps[14]? = none ∨ ∃ b, c.sps[14]? = some b := by cases c.sps[14]? <;> simp
  all_goals obtain h3 | ⟨b, h3⟩ : c.sps[3]? = none ∨ ∃ b, c.sps[3]? = some b := by cases c.sps[3]? <;> simp
  all_goals simp only [h3, h14, Option.map_none, Option.map_some, u8'_toNat, u8_toNat]
  · rfl
  · have hb := hvcc_byte1_bits b.toNat (UInt8.toNat_lt b)
    rw [hb]; rfl
  · rfl
  · have hb := hvcc_byte1_bits b.toNat (UInt8.toNat_lt b)
    rw [hb]; rfl

theorem C19_gen_hvc1 (w h : Nat) (c : HevcConfig) :
    build_hvc1_box w h c.vps c.sps c.pps = (bVideoEntry w h (.hevc c)).ser := by
  unfold bVideoEntry
  simp only
  rw [node1_ser _ _ _ (by unfold bHvcC; exact leaf_ser_length _ _ rfl)]
  simp only [build_hvc1_box, buildBox, C19_gen_hvcC, visualEntryPrefix, u16be_mod, List.nil_append, List.append_assoc]
  rfl

/-! ### src/fragmented.rs -/

theorem C19_gen_f_tkhd (c : FragConfig) : Frag.build_tkhd_fmp4 c.width c.height = (fTkhd c).ser := by
  rw [fTkhd, ser_leaf]
  simp only [Frag.build_tkhd_fmp4, buildBox, u32be_mod, List.nil_append, List.append_assoc]
  rfl

theorem C19_gen_f_avcC (c : FragConfig) : Frag.build_avcc_fmp4 c.sps c.pps = (fAvcC c).ser := by
  rw [fAvcC, ser_leaf]
  simp only [Frag.build_avcc_fmp4, buildBox, u16be_mod, List.append_assoc, List.getD_eq_getElem?_getD]
  cases c.sps[1]? <;> cases c.sps[2]? <;> cases c.sps[3]? <;> simp only [Option.getD, u8'_toNat] <;> rfl

theorem C19_gen_f_avc1 (c : FragConfig) :
    Frag.build_avc1_fmp4 c.width c.height c.sps c.pps = (node "avc1" (fEntryPrefix c) [fAvcC c]).ser := by
  rw [node1_ser _ _ _ (by unfold fAvcC; exact leaf_ser_length _ _ rfl)]
  simp only [Frag.build_avc1_fmp4, buildBox, C19_gen_f_avcC, fEntryPrefix, u16be_mod, List.nil_append, List.append_assoc]
  rfl

/-- `build_hvcc_fmp4(config)`: general byte and level copied from the SPS, two or three arrays -/
theorem C19_gen_f_hvcC (c : FragConfig) : Frag.build_hvcc_fmp4 c.sps c.pps c.vps = (fHvcC c).ser := by
  rw [fHvcC, ser_leaf]
  simp only [Frag.build_hvcc_fmp4, buildBox, u16be_mod, List.append_assoc, List.getD_eq_getElem?_getD]
  cases c.vps <;> cases c.sps[3]? <;> cases c.sps[14]? <;>
    simp only [Option.getD, Option.isSome, u8'_toNat, if_true, if_false, Bool.false_eq_true] <;> rfl

theorem C19_gen_f_hvc1 (c : FragConfig) :
    Frag.build_hvc1_fmp4 c.width c.height c.sps c.pps c.vps = (node "hvc1" (fEntryPrefix c) [fHvcC c]).ser := by
  rw [node1_ser _ _ _ (by unfold fHvcC; exact leaf_ser_length _ _ rfl)]
  simp only [Frag.build_hvc1_fmp4, buildBox, C19_gen_f_hvcC, fEntryPrefix, u16be_mod, List.nil_append, List.append_assoc]
  rfl

end Muxide.Props.C19Generated
