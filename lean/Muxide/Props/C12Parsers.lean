import Muxide.Model.Av1
import Muxide.Model.Vp9
import Muxide.Model.Opus
import Muxide.Lemmas.AnnexB
import Muxide.Lemmas.Framing
/-
  C12 (parsers) — the byte-level parsers compute only small quantities and every parser loop makes
  progress.

  The Lean model computes on unbounded `Nat`; the Rust code it mirrors computes on
  `usize` / `u64` / `u32` / `u8`.  The theorems below bound every quantity the parsers compute by
  a constant (or by the input length), so no addition / shift / multiplication of the Rust code can
  overflow, and show that every iterator consumes at least one input byte per item, so it
  terminates within `len` iterations — independent of the fuel the model uses.
  Helper lemmas first, property theorems (`C12_…`) below them.
-/
namespace Muxide.Props.C12Parsers
open Muxide

/-! ### helper lemmas -/

theorem byteAt_lt (f : Bytes) (i : Nat) : byteAt f i < 256 := by
  unfold byteAt; exact UInt8.toNat_lt _

/-- one LEB128 group added below `2^shift` stays below `2^(shift+7)` -/
theorem leb_step_lt (value m shift : Nat) (hv : value < 2 ^ shift) (hm : m < 128) :
    value + m * 2 ^ shift < 2 ^ (shift + 7) := by
  have h1 : m * 2 ^ shift ≤ 127 * 2 ^ shift := Nat.mul_le_mul_right _ (by omega)
  rw [Nat.pow_add]
  omega

/-- the general statement about the LEB128 loop: the index advances by at least one and at most
    `fuel`, never past the input, and the accumulated value has at most `shift + 7·fuel` bits -/
theorem readLeb128Aux_bound (fuel : Nat) : ∀ (d : Bytes) (value shift i v n : Nat),
    value < 2 ^ shift → readLeb128Aux fuel d value shift i = some (v, n) →
    i + 1 ≤ n ∧ n ≤ i + fuel ∧ n ≤ i + d.length ∧ v < 2 ^ (shift + 7 * fuel) := by
  induction fuel with
  | zero => intro d value shift i v n _ h; simp [readLeb128Aux] at h
  | succ fuel ih =>
    intro d value shift i v n hv h
    cases d with
    | nil => simp [readLeb128Aux] at h
    | cons b rest =>
      rw [readLeb128Aux] at h
      have hstep := leb_step_lt value (b.toNat % 128) shift hv (Nat.mod_lt _ (by omega))
      split at h
      · simp only [Option.some.injEq, Prod.mk.injEq] at h
        obtain ⟨rfl, rfl⟩ := h
        refine ⟨Nat.le_refl _, by omega, by simp, ?_⟩
        exact Nat.lt_of_lt_of_le hstep (Nat.pow_le_pow_right (by omega) (by omega))
      · obtain ⟨h1, h2, h3, h4⟩ := ih rest _ _ _ v n hstep h
        refine ⟨by omega, by omega, by simp only [List.length_cons]; omega, ?_⟩
        have e : shift + 7 + 7 * fuel = shift + 7 * (fuel + 1) := by omega
        rw [e] at h4; exact h4

theorem obusAux_nil (fuel : Nat) : obusAux fuel [] = [] := by
  cases fuel <;> simp [obusAux]

/-- the shape of every successfully parsed OBU header -/
theorem parseObuHeader_bound {d : Bytes} {info : ObuInfo} (h : parseObuHeader d = some info) :
    1 ≤ info.headerSize ∧ info.headerSize ≤ 10 ∧ info.headerSize ≤ d.length ∧
    (info.payloadSize < 2 ^ 56 ∨ info.headerSize + info.payloadSize = d.length) := by
  unfold parseObuHeader at h
  split at h
  · exact absurd h (by simp)
  · next hb tl =>
    simp only at h
    generalize hhs : (if hb.toNat / 4 % 2 = 1 then 2 else 1) = hs at h
    have hhs' : (¬ hb.toNat / 4 % 2 = 1 ∧ hs = 1) ∨ (hb.toNat / 4 % 2 = 1 ∧ hs = 2) := by
      subst hhs; split <;> simp [*]
    split at h
    · exact absurd h (by simp)
    split at h
    · exact absurd h (by simp)
    next hext =>
    split at h
    · split at h
      · exact absurd h (by simp)
      next hlen =>
      split at h
      · exact absurd h (by simp)
      next size n hleb =>
      simp only [Option.some.injEq] at h
      subst h
      obtain ⟨l1, l2, l3, l4⟩ := readLeb128Aux_bound 8 _ 0 0 0 size n (by simp) hleb
      simp only [List.length_drop] at l3
      simp only
      refine ⟨by omega, by omega, by omega, Or.inl (by simpa using l4)⟩
    · simp only [Option.some.injEq] at h
      subst h
      simp only [List.length_cons] at hext ⊢
      omega

/-- one step of the OBU iterator: the emitted slice is non-empty and inside the input -/
theorem obu_step {d : Bytes} {info : ObuInfo} (h : parseObuHeader d = some info) :
    1 ≤ info.totalSize := by
  have := parseObuHeader_bound h
  unfold ObuInfo.totalSize; omega

theorem obusAux_progress (fuel : Nat) : ∀ d : Bytes,
    ((obusAux fuel d).map (·.2.length)).sum ≤ d.length ∧ ∀ x ∈ obusAux fuel d, 1 ≤ x.2.length := by
  induction fuel with
  | zero => intro d; simp [obusAux]
  | succ fuel ih =>
    intro d
    rw [obusAux]
    split
    · simp
    split
    · simp
    next info hp =>
    split
    · simp
    next hle =>
    have h1 := obu_step hp
    obtain ⟨s, m⟩ := ih (d.drop info.totalSize)
    simp only [List.length_drop] at s
    constructor
    · simp only [List.map_cons, List.sum_cons, List.length_take]
      omega
    · intro x hx
      simp only [List.mem_cons] at hx
      rcases hx with rfl | hx
      · simp only [List.length_take]; omega
      · exact m x hx

theorem obusAux_fuel (f1 : Nat) : ∀ (f2 : Nat) (d : Bytes), d.length ≤ f1 → d.length ≤ f2 →
    obusAux f1 d = obusAux f2 d := by
  induction f1 with
  | zero =>
    intro f2 d h1 _
    have : d = [] := List.eq_nil_of_length_eq_zero (by omega)
    subst this
    rw [obusAux_nil, obusAux_nil]
  | succ g1 ih =>
    intro f2 d h1 h2
    cases f2 with
    | zero =>
      have : d = [] := List.eq_nil_of_length_eq_zero (by omega)
      subst this
      rw [obusAux_nil, obusAux_nil]
    | succ g2 =>
      rw [obusAux, obusAux]
      split
      · rfl
      split
      · rfl
      next info hp =>
      split
      · rfl
      next hle =>
      have h3 := obu_step hp
      rw [ih g2 (d.drop info.totalSize) (by simp only [List.length_drop]; omega)
        (by simp only [List.length_drop]; omega)]

theorem obusAux_concat (fuel : Nat) : ∀ d : Bytes, ((obusAux fuel d).flatMap (·.2)) <+: d := by
  induction fuel with
  | zero => intro d; simp [obusAux]
  | succ fuel ih =>
    intro d
    rw [obusAux]
    split
    · simp
    split
    · simp
    next info hp =>
    split
    · simp
    simp only [List.flatMap_cons]
    have := ih (d.drop info.totalSize)
    have e : d.take info.totalSize ++ d.drop info.totalSize = d := List.take_append_drop _ _
    conv => rhs; rw [← e]
    exact (List.prefix_append_right_inj _).mpr this

/-- the general statement about the VP9 variable-length loop -/
theorem vp9VarUint_bound (d : Bytes) (fuel : Nat) : ∀ (off value shift v off' : Nat),
    vp9VarUint d fuel off value shift = some (v, off') →
    v < 2 ^ 32 ∧ off < off' ∧ off' ≤ d.length ∧ off' ≤ off + fuel ∧
    (off' = off + 1 ∨ 7 * (off' - off) + shift ≤ 38) := by
  induction fuel with
  | zero => intro off value shift v off' h; simp [vp9VarUint] at h
  | succ fuel ih =>
    intro off value shift v off' h
    rw [vp9VarUint] at h
    split at h
    · exact absurd h (by simp)
    next hoff =>
    simp only at h
    split at h
    · simp only [Option.some.injEq, Prod.mk.injEq] at h
      obtain ⟨rfl, rfl⟩ := h
      exact ⟨Nat.mod_lt _ (by decide), by omega, by omega, by omega, Or.inl rfl⟩
    split at h
    · exact absurd h (by simp)
    next hs =>
    obtain ⟨h1, h2, h3, h4, h5⟩ := ih _ _ _ v off' h
    exact ⟨h1, by omega, h3, by omega, Or.inr (by omega)⟩

/-- one more unit of fuel changes nothing once `shift + 7·fuel ≥ 32` -/
theorem vp9VarUint_fuel_succ (d : Bytes) (fuel : Nat) : ∀ (off value shift : Nat),
    32 ≤ shift + 7 * (fuel + 1) →
    vp9VarUint d (fuel + 1) off value shift = vp9VarUint d (fuel + 2) off value shift := by
  induction fuel with
  | zero =>
    intro off value shift hs
    conv => lhs; rw [vp9VarUint]
    conv => rhs; rw [vp9VarUint]
    split <;> rfl
  | succ fuel ih =>
    intro off value shift hs
    conv => lhs; rw [vp9VarUint]
    conv => rhs; rw [vp9VarUint]
    split
    · rfl
    simp only
    split
    · rfl
    split
    · rfl
    · exact ih _ _ _ (by omega)

theorem opusTocSamples_bound (toc : Nat) : 120 ≤ opusTocSamples toc ∧ opusTocSamples toc ≤ 2880 := by
  unfold opusTocSamples
  simp only
  repeat' split
  all_goals omega

theorem nalsAux_progress (fuel : Nat) : ∀ e : Bytes,
    ((nalsAux fuel e).map (·.length)).sum + 3 * (nalsAux fuel e).length ≤ e.length := by
  induction fuel with
  | zero => intro e; simp [nalsAux]
  | succ fuel ih =>
    intro e
    rw [nalsAux]
    cases h : findSC e with
    | none => simp
    | some pl =>
      obtain ⟨p, l⟩ := pl
      have hb := findSC_bound h
      have hi := ih (takeNal (e.drop (p + l))).2
      have ht : (takeNal (e.drop (p + l))).1.length + (takeNal (e.drop (p + l))).2.length
          = e.length - (p + l) := by
        unfold takeNal
        cases h2 : findSC (e.drop (p + l)) with
        | none => simp
        | some ql =>
          obtain ⟨q, l'⟩ := ql
          have := findSC_bound h2
          simp only [List.length_drop] at this
          simp only [List.length_take, List.length_drop]
          omega
      simp only [List.map_cons, List.sum_cons, List.length_cons]
      omega

/-! ### AV1: `read_leb128`, `parse_obu_header`, `ObuIter` -/

/-- protects `read_leb128` (av1.rs): `((byte & 0x7F) as u64) << shift` with `shift ≤ 49`, the `u64`
    accumulator (`value < 2^56`, so `|=` of disjoint groups is the model's `+` and `size as usize`
    is lossless on 64-bit targets) and the returned count `i + 1 ≤ 8 ≤ data.len()`. -/
theorem C12_leb128_bound {d : Bytes} {v n : Nat} (h : readLeb128 d = some (v, n)) :
    1 ≤ n ∧ n ≤ 8 ∧ n ≤ d.length ∧ v < 2 ^ 56 := by
  obtain ⟨h1, h2, h3, h4⟩ := readLeb128Aux_bound 8 d 0 0 0 v n (by simp) h
  exact ⟨by omega, by omega, by omega, by simpa using h4⟩

/-- justifies modelling `value |= group << shift` of `read_leb128` by `+`: the accumulator is
    below `2^shift` at every iteration (the invariant carried by `readLeb128Aux_bound`), so the
    bits are disjoint and `|` is `+`; the new accumulator is below `2^(shift+7)`. -/
theorem C12_leb128_or_eq_add (value m shift : Nat) (hv : value < 2 ^ shift) (hm : m < 128) :
    value ||| (m <<< shift) = value + m * 2 ^ shift ∧ value + m * 2 ^ shift < 2 ^ (shift + 7) := by
  refine ⟨?_, leb_step_lt value m shift hv hm⟩
  rw [Nat.or_comm, ← Nat.shiftLeft_add_eq_or_of_lt hv m, Nat.shiftLeft_eq, Nat.add_comm]

/-- protects `parse_obu_header` (av1.rs): `header_size += leb_len` (≤ 10, inside the input, so
    `&data[header_size..]` is in bounds) and `total_size: header_size + payload_size`
    (below `2^56 + 10`, or exactly `data.len()` when the OBU has no size field). -/
theorem C12_obu_header_bound {d : Bytes} {info : ObuInfo} (h : parseObuHeader d = some info) :
    1 ≤ info.headerSize ∧ info.headerSize ≤ 10 ∧ info.headerSize ≤ d.length ∧
    info.payloadSize < 2 ^ 56 + d.length ∧ info.totalSize < 2 ^ 57 + d.length := by
  obtain ⟨h1, h2, h3, h4⟩ := parseObuHeader_bound h
  unfold ObuInfo.totalSize
  refine ⟨h1, h2, h3, ?_, ?_⟩ <;> omega

/-- the tight form of `C12_obu_header_bound`: the payload size is a LEB128 value (`< 2^56`) or the
    header and payload together are exactly the input; hence `total_size ≤ max (2^56 + 9) len`. -/
theorem C12_obu_header_bound_tight {d : Bytes} {info : ObuInfo}
    (h : parseObuHeader d = some info) :
    (info.payloadSize < 2 ^ 56 ∨ info.totalSize = d.length) ∧
    info.totalSize ≤ max (2 ^ 56 + 9) d.length := by
  obtain ⟨h1, h2, h3, h4⟩ := parseObuHeader_bound h
  unfold ObuInfo.totalSize
  exact ⟨h4, by omega⟩

/-- protects `header_size + payload_size` in `usize` (64-bit): for every input shorter than `2^56`
    bytes the sum is below `2^57`; for every input a 64-bit address space can hold it is `< 2^64`. -/
theorem C12_obu_total_no_overflow {d : Bytes} {info : ObuInfo} (h : parseObuHeader d = some info) :
    (d.length < 2 ^ 56 → info.totalSize < 2 ^ 57) ∧ (d.length < 2 ^ 64 → info.totalSize < 2 ^ 64) := by
  have := (C12_obu_header_bound_tight h).2
  constructor <;> intro hd <;> omega

/-- protects `self.pos + info.total_size > self.data.len()` in `ObuIter::next` (av1.rs): with
    `pos ≤ len` the sum is at most `max len (pos + 2^56 + 9)`, i.e. `< 2^64` whenever
    `len < 2^63` (slices never exceed `isize::MAX` bytes). -/
theorem C12_obus_pos_bound {d : Bytes} {pos : Nat} {info : ObuInfo} (hpos : pos ≤ d.length)
    (h : parseObuHeader (d.drop pos) = some info) :
    pos + info.totalSize ≤ max d.length (pos + 2 ^ 56 + 9) ∧
    (d.length < 2 ^ 63 → pos + info.totalSize < 2 ^ 64) := by
  have := (C12_obu_header_bound_tight h).2
  simp only [List.length_drop] at this
  constructor
  · omega
  · intro hd; omega

/-- protects `self.pos += info.total_size` and `&remaining[..info.total_size]` in `ObuIter::next`:
    every yielded OBU is a non-empty slice and together they fit into the input. -/
theorem C12_obus_progress (d : Bytes) :
    ((obus d).map (·.2.length)).sum ≤ d.length ∧ ∀ x ∈ obus d, 1 ≤ x.2.length :=
  obusAux_progress _ d

/-- `ObuIter` yields at most one item per input byte (loop bound of `extract_av1_config` and
    `is_av1_keyframe`). -/
theorem C12_obus_count (d : Bytes) : (obus d).length ≤ d.length := by
  obtain ⟨hs, hm⟩ := C12_obus_progress d
  suffices h : ∀ l : List (ObuInfo × Bytes), (∀ x ∈ l, 1 ≤ x.2.length) →
      l.length ≤ (l.map (·.2.length)).sum from Nat.le_trans (h _ hm) hs
  intro l
  induction l with
  | nil => simp
  | cons a l ih =>
    intro hl
    have h1 := hl a (by simp)
    have h2 := ih (fun x hx => hl x (by simp [hx]))
    simp only [List.length_cons, List.map_cons, List.sum_cons]
    omega

/-- `ObuIter` terminates: any fuel `≥ len` gives the same items, i.e. the iteration has reached
    the end of input (or a malformed header) before the model's fuel runs out. -/
theorem C12_obus_fuel_irrelevant (d : Bytes) (fuel : Nat) (h : d.length ≤ fuel) :
    obusAux fuel d = obus d :=
  obusAux_fuel fuel (d.length + 1) d h (by omega)

/-- the yielded OBUs are consecutive slices starting at offset 0 (`pos` only moves forward by the
    size of the slice just yielded): concatenated they are a prefix of the input. -/
theorem C12_obus_concat (d : Bytes) : ((obus d).flatMap (·.2)) <+: d :=
  obusAux_concat _ d

/-! ### VP9: `parse_vp9_var_uint` -/

/-- protects `parse_vp9_var_uint` (vp9.rs): the `u32` accumulator (`value < 2^32`),
    `offset += 1` (strictly forward, never past `data.len()`, at most `fuel` bytes). -/
theorem C12_vp9_varuint_bound {d : Bytes} {fuel off value shift v off' : Nat}
    (h : vp9VarUint d fuel off value shift = some (v, off')) :
    v < 2 ^ 32 ∧ off < off' ∧ off' ≤ d.length ∧ off' ≤ off + fuel := by
  obtain ⟨h1, h2, h3, h4, _⟩ := vp9VarUint_bound d fuel off value shift v off' h
  exact ⟨h1, h2, h3, h4⟩

/-- protects `<< shift` / `shift += 7` in `parse_vp9_var_uint`: started with `shift = 0` (as at
    every call site) the loop reads at most 5 bytes whatever the fuel, so the shift amounts used
    are 0, 7, 14, 21, 28 (`< 32`, no shift overflow). -/
theorem C12_vp9_varuint_five {d : Bytes} {fuel off value v off' : Nat}
    (h : vp9VarUint d fuel off value 0 = some (v, off')) : off' ≤ off + 5 := by
  obtain ⟨_, _, _, _, h5⟩ := vp9VarUint_bound d fuel off value 0 v off' h
  omega

/-- the loop of `parse_vp9_var_uint` has ended before the call sites' fuel 6 runs out: started
    with `shift = 0`, any fuel `≥ 5` gives the same answer. -/
theorem C12_vp9_varuint_fuel_irrelevant (d : Bytes) (fuel off value : Nat) (h : 5 ≤ fuel) :
    vp9VarUint d fuel off value 0 = vp9VarUint d 6 off value 0 := by
  have key : ∀ f, 5 ≤ f → vp9VarUint d f off value 0 = vp9VarUint d 5 off value 0 := by
    intro f hf
    obtain ⟨k, rfl⟩ : ∃ k, f = 5 + k := ⟨f - 5, by omega⟩
    clear hf
    induction k with
    | zero => rfl
    | succ k ih =>
      rw [← ih]
      have := vp9VarUint_fuel_succ d (4 + k) off value 0 (by omega)
      have e1 : 4 + k + 1 = 5 + k := by omega
      have e2 : 4 + k + 2 = 5 + (k + 1) := by omega
      rw [e1, e2] at this
      exact this.symm
  rw [key fuel h, key 6 (by omega)]

/-! ### Opus -/

/-- protects `opus_frame_count` (opus.rs): the count is a `u8` in `1..=63` (`& 0x3F`). -/
theorem C12_opus_count_bound {p : Bytes} {n : Nat} {vbr : Bool}
    (h : opusFrameCount p = some (n, vbr)) : 1 ≤ n ∧ n ≤ 63 := by
  unfold opusFrameCount at h
  split at h
  · exact absurd h (by simp)
  · split at h
    · simp at h; omega
    · simp at h; omega
    · simp at h; omega
    · split at h
      · exact absurd h (by simp)
      · simp only at h
        split at h
        · exact absurd h (by simp)
        · simp only [Option.some.injEq, Prod.mk.injEq] at h
          omega

/-- protects `frame_duration.samples() * frame_count as u32` in `opus_packet_samples` (opus.rs):
    the product is between 120 and 2880·63 = 181440 (`< 2^32`). -/
theorem C12_opus_samples_bound {p : Bytes} {s : Nat} (h : opusPacketSamples p = some s) :
    1 ≤ s ∧ 120 ≤ s ∧ s ≤ 2880 * 63 := by
  unfold opusPacketSamples at h
  split at h
  · exact absurd h (by simp)
  · next toc rest =>
    split at h
    · exact absurd h (by simp)
    · next n vbr hc =>
      split at h
      · exact absurd h (by simp)
      · next hn =>
        simp only at h
        split at h
        · exact absurd h (by simp)
        · simp only [Option.some.injEq] at h
          subst h
          obtain ⟨t1, t2⟩ := opusTocSamples_bound toc.toNat
          have hn' : 1 ≤ n ∧ n ≤ 63 := by omega
          have a : 120 * 1 ≤ opusTocSamples toc.toNat * n := Nat.mul_le_mul t1 hn'.1
          have b : opusTocSamples toc.toNat * n ≤ 2880 * 63 := Nat.mul_le_mul t2 hn'.2
          omega

/-! ### ADTS -/

/-- protects the 13-bit `frame_length` assembled in `adts_to_raw` (mp4.rs) from
    `((b3 & 3) as usize) << 11 | (b4 as usize) << 3 | (b5 as usize) >> 5`: it is `< 2^13`. -/
theorem C12_adts_length_bound (f : Bytes) :
    adtsFrameLength f < 2 ^ 13 ∧ (adtsHeaderLen f = 7 ∨ adtsHeaderLen f = 9) := by
  constructor
  · have h4 := byteAt_lt f 4
    have h5 := byteAt_lt f 5
    unfold adtsFrameLength
    omega
  · unfold adtsHeaderLen; split <;> simp

/-- protects `&frame[header_len..frame_len]` in `adts_to_raw`: `header_len < frame_len ≤ len`, the
    payload is exactly `frame_len − header_len ≥ 1` bytes (a zero-payload frame is rejected). -/
theorem C12_adts_raw_bound {f raw : Bytes} (h : adtsToRaw f = .ok raw) :
    raw.length + adtsHeaderLen f = adtsFrameLength f ∧ adtsFrameLength f ≤ f.length ∧
    raw.length + adtsHeaderLen f ≤ f.length ∧ raw ≠ [] ∧ raw.length < 2 ^ 13 := by
  obtain ⟨⟨_, _, _, _, _, _, _, g8, g9⟩, rfl⟩ := (adtsToRaw_ok_iff f raw).mp h
  have hl : ((f.take (adtsFrameLength f)).drop (adtsHeaderLen f)).length
      = adtsFrameLength f - adtsHeaderLen f := by
    simp only [List.length_drop, List.length_take]; omega
  have hb := (C12_adts_length_bound f).1
  refine ⟨by omega, g9, by omega, ?_, by omega⟩
  intro h0
  rw [h0] at hl
  simp only [List.length_nil] at hl
  omega

/-! ### Annex B -/

/-- protects `AnnexBNalIter` (common.rs): every `next` consumes a start code (≥ 3 bytes) plus the
    unit it yields, so the units together with 3 bytes each fit into the input; the iterator
    yields at most `len / 3` units (positions `self.pos`, `nal_start`, `nal_end` stay `≤ len`). -/
theorem C12_nals_progress (d : Bytes) :
    ((nals d).map (·.length)).sum ≤ d.length ∧ (nals d).length ≤ d.length ∧
    ((nals d).map (·.length)).sum + 3 * (nals d).length ≤ d.length := by
  have := nalsAux_progress (d.length + 1) d
  unfold nals
  omega

/-! ### the bounds are attained -/

/-- the largest LEB128 value the parser accepts: 8 bytes, `2^56 − 1` -/
example : readLeb128 [0xff, 0xff, 0xff, 0xff, 0xff, 0xff, 0xff, 0x7f] = some (2 ^ 56 - 1, 8) := by
  decide

/-- a 9-byte encoding is rejected (only 8 bytes are examined) -/
example : readLeb128 [0x80, 0x80, 0x80, 0x80, 0x80, 0x80, 0x80, 0x80, 0x00] = none := by decide

/-- the largest header: extension byte + 8-byte size field = 10 bytes, payload size `2^56 − 1`,
    `total_size = 2^56 + 9` -/
example : (parseObuHeader [0x0e, 0x00, 0xff, 0xff, 0xff, 0xff, 0xff, 0xff, 0xff, 0x7f]).map
    (fun i => (i.headerSize, i.payloadSize, i.totalSize)) = some (10, 2 ^ 56 - 1, 2 ^ 56 + 9) := by
  decide

/-- VP9: five bytes are accepted (value wraps into 32 bits), a sixth is rejected -/
example : vp9VarUint [0xff, 0xff, 0xff, 0xff, 0x7f] 6 0 0 0 = some (2 ^ 32 - 1, 5) ∧
    vp9VarUint [0xff, 0xff, 0xff, 0xff, 0xff, 0x00] 6 0 0 0 = none := by decide

/-- Opus: 63 frames of 60 ms (config 15, code 3) = 181440 samples; one 2.5 ms frame = 120 -/
example : opusPacketSamples [0x7b, 0x3f] = some (2880 * 63) ∧ opusPacketSamples [0xc0] = some 120 := by
  decide

/-- ADTS: the largest frame-length field is 8191 -/
example : adtsFrameLength [0xff, 0xf1, 0x50, 0x83, 0xff, 0xff, 0xfc] = 2 ^ 13 - 1 := by decide

/-- Annex B: `00 00 01 xx` yields one unit of one byte: 1 + 3·1 = 4 = len -/
example : nals [0, 0, 1, 9] = [[9]] := by decide

/-- OBU iterator: `12 00 | 0A 01 55` — two items covering the whole input (sum of sizes = len);
    one-byte OBUs without size field attain `count = len` only for `len = 1` (`[0x10]`) -/
example : ((obus [0x12, 0x00, 0x0A, 0x01, 0x55]).map (·.2.length)) = [2, 3] ∧
    (obus [0x10]).length = 1 ∧ obusAux 5 [0x12, 0x00, 0x0A, 0x01, 0x55] = obus [0x12, 0x00, 0x0A, 0x01, 0x55] := by
  decide

end Muxide.Props.C12Parsers
