import Muxide.Lemmas.Box
import Muxide.Lemmas.Mp4Shape
import Muxide.Lemmas.Tables
import Muxide.Lemmas.Layout
/-
  C02 — Box structure: everything the library emits is a sequence of boxes whose declared sizes
  exactly tile their parent, recursively; the progressive file is ftyp, one moov, at most one
  mdat; the moov has the full mandatory hierarchy with consistent counts; init and media segments
  of the fragmented writer have their prescribed shape.
  Property theorems only; helper lemmas live in Muxide/Lemmas/{Box,Mp4Shape,Tables}.lean.
-/
namespace Muxide.Props.C02
open Muxide Muxide.Spec

/-! ## 1. Tiling: the generic round trip -/

/-- Serialising any conforming box (4-byte types, sizes < 2^32, leaves childless, containers
    with the schema's prefix length, recursively) followed by arbitrary bytes parses back to
    exactly that box and leaves exactly those bytes. -/
theorem C02_tiling_box (sc : Schema) (b : Box) (rest : Bytes) (fuel : Nat)
    (h : Conforms sc b) (hf : depth b < fuel) :
    parseBox sc fuel (Box.ser b ++ rest) = some (b, rest) :=
  parseBox_ser b rest fuel h hf

/-- A conforming sequence of boxes parses back to exactly that sequence, consuming all bytes. -/
theorem C02_tiling (sc : Schema) (bs : List Box) (fuel : Nat)
    (h : ConformsL sc bs) (hf : depthL bs < fuel) :
    parseBoxes sc fuel (Box.sers bs) = some bs :=
  parseBoxes_sers bs fuel h hf

/-- The declared size of a conforming box is its byte length; the size of a box is its header,
    its fixed prefix and the sizes of its children — nothing else. -/
theorem C02_size_exact (sc : Schema) (b : Box) (h : Conforms sc b) :
    (Box.ser b).length = Box.size b ∧
    Box.size b = 8 + b.pre.length + Box.sizes b.kids ∧
    (Box.sers b.kids).length = Box.sizes b.kids := by
  refine ⟨ser_len b h, ?_, ?_⟩
  · cases b; rfl
  · cases b with
    | mk t p ks => exact sers_len ks h.2.2.2

/-- The file-level reader (`isoSchema`, fuel computed from the file length) accepts every
    conforming top-level sequence: the fuel is always sufficient. -/
theorem C02_tiling_file (bs : List Box) (h : ConformsL isoSchema bs) :
    parseFileTree (Box.sers bs) = some bs :=
  parseFileTree_sers bs h

/-- non-vacuity: a two-level tree conforms to `isoSchema` and is read back by the file reader -/
example : parseFileTree (Box.sers [bFtyp, bDinf]) = some [bFtyp, bDinf] := by
  apply C02_tiling_file
  exact ⟨conforms_of_shape _ shape_bFtyp (by decide), conforms_of_shape _ shape_bDinf (by decide), trivial⟩

/-! ## 2. Every box of the moov conforms to `isoSchema` -/

theorem C02_moov_conforms (w h : Nat) (vt : Tables) (audio : Option (AudioTrack × Tables))
    (vc : VideoConfig) (md : Option Metadata)
    (hsz : Box.size (bMoov w h vt audio vc md) < 2^32) :
    Conforms isoSchema (bMoov w h vt audio vc md) :=
  conforms_of_shape _ (shape_bMoov w h vt audio vc md) hsz

theorem C02_ftyp_conforms : Conforms isoSchema bFtyp :=
  conforms_of_shape _ shape_bFtyp (by decide)

theorem C02_mdat_conforms (payload : Bytes) (h : 8 + payload.length ≤ u32Max) :
    Conforms isoSchema (mdatBox payload) :=
  conforms_of_shape _ (shape_mdat payload) (by simp [mdatBox, Box.size, Box.sizes, u32Max] at *; omega)

/-! ## 5. Entry counts of the sample tables -/

theorem C02_counts (samples : List Sample) (offsets : List Nat) (spc : Nat) (fallback : Option Nat) :
    let t := Tables.ofSamples samples offsets spc fallback
    t.sizes.length = samples.length ∧
    t.durations.length = samples.length ∧
    t.ctsOffsets.length = samples.length ∧
    t.keyframes.Pairwise (· < ·) ∧
    (∀ k ∈ t.keyframes, 1 ≤ k ∧ k ≤ samples.length) ∧
    t.chunkOffsets = offsets ∧ t.samplesPerChunk = spc := by
  simp only [Tables.ofSamples, List.length_map, durationsOf_length, true_and, and_true]
  exact ⟨keyframesOf_pairwise samples, keyframesOf_range samples⟩

/-- the run-length tables (stts, ctts) expand back to the per-sample list: the entry counts sum
    to the sample count, every run is non-empty -/
theorem C02_rle {α} [DecidableEq α] (xs : List α) :
    ((rle xs).map (·.1)).sum = xs.length ∧
    (rle xs).flatMap (fun (c, x) => List.replicate c x) = xs ∧
    (∀ e ∈ rle xs, 0 < e.1) :=
  ⟨counts_rle xs, expandRuns_rle xs, rle_pos xs⟩

/-- with audio the tracks are written one sample per chunk: the interleave schedule yields
    exactly one chunk offset per sample of each track -/
theorem C02_counts_chunks (step : Ent → Nat) (vs aus : List Sample) (cur : Nat) :
    (assignOffsets step (schedule vs aus) cur).1.length = vs.length ∧
    (assignOffsets step (schedule vs aus) cur).2.length = aus.length :=
  schedule_offsets_length step vs aus cur


/-! ## 3. Top-level layout of a finished progressive file

`Writer.finalize` against a fault-free sink, outcome `ok`: the concatenated chunks are the
serialisation of `ftyp`, exactly one `moov` and at most one `mdat` (`mdatBox payload`, the payload
being the sample data in storage order, with `8 + payload.length ≤ u32::MAX`). -/

/-- standard layout, video only: `ftyp moov` when no sample was written, else `ftyp mdat moov`
    (one chunk holding all samples) -/
theorem C02_progressive_layout_standard_video (w : Writer) (width height : Nat) (md : Option Metadata)
    (ha : w.audio = none) (hok : (w.finalize width height md false).2.res = .ok) :
    let vs := w.vsRev.reverse
    let vc := w.vConfig.getD (.avc defaultAvc)
    (vs = [] → (w.finalize width height md false).2.chunks.flatten =
        Box.sers [bFtyp, bMoov width height (Tables.ofSamples [] [] 0 w.vLastDelta) none vc md]) ∧
    (vs ≠ [] → (w.finalize width height md false).2.chunks.flatten =
        Box.sers [bFtyp, mdatBox (vs.flatMap (·.data)),
          bMoov width height (Tables.ofSamples vs [ftypLen + 8] vs.length w.vLastDelta) none vc md] ∧
      8 + (vs.flatMap (·.data)).length ≤ u32Max) := by
  have e := finalize_ok w width height md false hok
  rw [e] at hok ⊢
  exact standard_video w width height md _ ha hok

/-- standard layout with an audio track: `ftyp mdat moov`, the mdat payload is the interleave
    schedule's sample data; each track has one chunk offset per sample -/
theorem C02_progressive_layout_standard_audio (w : Writer) (width height : Nat) (md : Option Metadata)
    (tr : AudioTrack) (ha : w.audio = some tr) (hok : (w.finalize width height md false).2.res = .ok) :
    let vs := w.vsRev.reverse
    let aus := w.asRev.reverse
    let vc := w.vConfig.getD (.avc defaultAvc)
    let payload := (schedule vs aus).flatMap (entData vs aus)
    let offs := assignOffsets (entSize vs aus) (schedule vs aus) (ftypLen + 8)
    (w.finalize width height md false).2.chunks.flatten =
      Box.sers [bFtyp, mdatBox payload,
        bMoov width height (Tables.ofSamples vs offs.1 1 w.vLastDelta)
          (some (tr, Tables.ofSamples aus offs.2 1 w.aLastDelta)) vc md] ∧
    8 + payload.length ≤ u32Max ∧ offs.1.length = vs.length ∧ offs.2.length = aus.length := by
  intro vs aus vc payload offs
  have e := finalize_ok w width height md false hok
  rw [e] at hok ⊢
  have := standard_audio w width height md vc tr ha hok vs aus rfl rfl
  exact ⟨this.1, this.2, (schedule_offsets_length _ vs aus _).1, (schedule_offsets_length _ vs aus _).2⟩

/-- fast-start layout with an audio track: `ftyp moov mdat` -/
theorem C02_progressive_layout_fast_audio (w : Writer) (width height : Nat) (md : Option Metadata)
    (tr : AudioTrack) (ha : w.audio = some tr) (hok : (w.finalize width height md true).2.res = .ok) :
    let vs := w.vsRev.reverse
    let aus := w.asRev.reverse
    let vc := w.vConfig.getD (.avc defaultAvc)
    let payload := (schedule vs aus).flatMap (entData vs aus)
    ∃ vo ao, vo.length = vs.length ∧ ao.length = aus.length ∧
    (w.finalize width height md true).2.chunks.flatten =
      Box.sers [bFtyp,
        bMoov width height (Tables.ofSamples vs vo 1 w.vLastDelta)
          (some (tr, Tables.ofSamples aus ao 1 w.aLastDelta)) vc md,
        mdatBox payload] ∧
    8 + payload.length ≤ u32Max := by
  intro vs aus vc payload
  have e := finalize_ok w width height md true hok
  rw [e] at hok ⊢
  exact fast_audio w width height md vc tr ha hok vs aus rfl rfl

/-- fast-start layout, video only: `ftyp moov mdat` (the mdat is present, with an empty payload,
    even when no sample was written). `hinv` is the writer invariant `AudioInv` (no queued audio
    without an audio track), which every reachable writer satisfies — see `C02_audio_invariant`. -/
theorem C02_progressive_layout_fast_video (w : Writer) (width height : Nat) (md : Option Metadata)
    (ha : w.audio = none) (hinv : AudioInv w) (hok : (w.finalize width height md true).2.res = .ok) :
    let vs := w.vsRev.reverse
    let vc := w.vConfig.getD (.avc defaultAvc)
    let payload := vs.flatMap (·.data)
    ∃ offs spc, ((vs = [] ∧ offs = [] ∧ spc = 0) ∨ (vs ≠ [] ∧ offs.length = 1 ∧ spc = vs.length)) ∧
    (w.finalize width height md true).2.chunks.flatten =
      Box.sers [bFtyp, bMoov width height (Tables.ofSamples vs offs spc w.vLastDelta) none vc md,
        mdatBox payload] ∧
    8 + payload.length ≤ u32Max := by
  intro vs vc payload
  have e := finalize_ok w width height md true hok
  rw [e] at hok ⊢
  exact fast_video w width height md vc ha (hinv ha) hok vs rfl

/-- `AudioInv` holds for a fresh writer and is preserved by every writer operation -/
theorem C02_audio_invariant :
    (∀ c a, AudioInv { codec := c, audio := a }) ∧
    (∀ w pts dts d k, AudioInv w → AudioInv (Writer.writeVideo w pts dts d k).1) ∧
    (∀ w pts d, AudioInv w → AudioInv (Writer.writeAudio w pts d).1) ∧
    (∀ w a b md f, AudioInv w → AudioInv (Writer.finalize w a b md f).1) :=
  ⟨audioInv_new, audioInv_writeVideo, audioInv_writeAudio, audioInv_finalize⟩

/-- a finished file is read back by the file reader as exactly its top-level boxes, whenever the
    moov fits a 32-bit size (the writer does not check this; cf. C16) -/
theorem C02_progressive_parses (moov : Box) (payload : Bytes) (hm : Shape isoSchema moov)
    (hsz : Box.size moov < 2^32) (hp : 8 + payload.length ≤ u32Max) :
    parseFileTree (Box.sers [bFtyp, moov, mdatBox payload]) = some [bFtyp, moov, mdatBox payload] ∧
    parseFileTree (Box.sers [bFtyp, mdatBox payload, moov]) = some [bFtyp, mdatBox payload, moov] ∧
    parseFileTree (Box.sers [bFtyp, moov]) = some [bFtyp, moov] := by
  have c1 := C02_ftyp_conforms
  have c2 := conforms_of_shape _ hm hsz
  have c3 := C02_mdat_conforms payload hp
  exact ⟨C02_tiling_file _ ⟨c1, c2, c3, trivial⟩, C02_tiling_file _ ⟨c1, c3, c2, trivial⟩,
    C02_tiling_file _ ⟨c1, c2, trivial⟩⟩

/-! ## 6. Fragmented writer -/

theorem C02_init_layout (c : FragConfig) : buildInit c = Box.sers [fFtyp, fMoov c] := buildInit_eq c

theorem C02_init_conforms (c : FragConfig) (hsz : Box.size (fMoov c) < 2^32) :
    Conforms isoSchema fFtyp ∧ Conforms isoSchema (fMoov c) :=
  ⟨conforms_of_shape _ shape_fFtyp (by decide), conforms_of_shape _ (shape_fMoov c) hsz⟩

/-- the moof's byte size does not depend on the data-offset value written into its trun -/
theorem size_moof_indep (s : List FSample) (q b off off' : Nat) :
    (fMoof s q b off).ser.length = (fMoof s q b off').ser.length := by
  rw [moof_ser_length, moof_ser_length]

/-- a media segment is exactly one moof followed by one mdat holding the sample data; the trun's
    data offset is the moof's own size (mod 2^32) plus the mdat header -/
theorem C02_segment_layout (samples : List FSample) (seq base : Nat) :
    let off := (fMoof samples seq base 0).ser.length % 2^32 + 8
    buildSegment samples seq base =
      Box.sers [fMoof samples seq base off, mdatBox (samples.flatMap (·.data))] ∧
    off = (fMoof samples seq base off).ser.length % 2^32 + 8 := by
  intro off
  exact ⟨buildSegment_eq samples seq base, by rw [size_moof_indep samples seq base off 0]⟩

theorem C02_segment_conforms (samples : List FSample) (seq base off : Nat)
    (hsz : Box.size (fMoof samples seq base off) < 2^32)
    (hp : 8 + (samples.flatMap (·.data)).length ≤ u32Max) :
    ConformsL isoSchema [fMoof samples seq base off, mdatBox (samples.flatMap (·.data))] :=
  ⟨conforms_of_shape _ (shape_fMoof samples seq base off) hsz, C02_mdat_conforms _ hp, trivial⟩


/-! ## 4. Shape of the moov: type skeletons

`Box.skel` forgets payload bytes and keeps the tree of box types; `S "abcd" kids` is a skeleton
node with an ASCII type. -/

def videoEntrySkel : VideoConfig → Skel
  | .avc _ => S "avc1" [S "avcC"]
  | .hevc _ => S "hvc1" [S "hvcC"]
  | .av1 _ => S "av01" [S "av1C"]
  | .vp9 _ => S "vp09" [S "vpcC"]

def audioEntrySkel (a : AudioTrack) : Skel :=
  match a.codec with
  | .opus => S "Opus" [S "dOps"]
  | _ => S "mp4a" [S "esds"]

/-- a track: header, media (header, handler, media information (media header, data reference,
    sample table)) -/
def trakSkel (mediaHeader : String) (stbl : List Skel) : Skel :=
  S "trak" [S "tkhd", S "mdia" [S "mdhd", S "hdlr",
    S "minf" [S mediaHeader, S "dinf" [S "dref" [S "url "]], S "stbl" stbl]]]

theorem skel_bStsc (a b : Nat) : (bStsc a b).skel = S "stsc" := by
  unfold bStsc; split <;> rfl

theorem C02_video_trak_shape (w h : Nat) (t : Tables) (vc : VideoConfig) (lang : Option (List Nat)) :
    (bVideoTrak w h t vc lang).skel =
      trakSkel "vmhd" ([S "stsd" [videoEntrySkel vc], S "stts"] ++
        (if t.hasBframes then [S "ctts"] else []) ++ [S "stsc", S "stsz", S "stco"] ++
        (if t.keyframes ≠ [] then [S "stss"] else [])) := by
  have e : (bVideoEntry w h vc).skel = videoEntrySkel vc := by cases vc <;> rfl
  simp only [bVideoTrak, bVideoStbl, Box.node, Box.skel, Box.skels, skels_append, trakSkel, S, e,
    skel_bStsc, bStsd]
  split <;> split <;> rfl

theorem C02_audio_trak_shape (a : AudioTrack) (t : Tables) (lang : Option (List Nat)) :
    (bAudioTrak a t lang).skel =
      trakSkel "smhd" [S "stsd" [audioEntrySkel a], S "stts", S "stsc", S "stsz", S "stco"] := by
  have e : (bAudioEntry a).skel = audioEntrySkel a := by
    unfold bAudioEntry audioEntrySkel
    cases a.codec <;> rfl
  simp only [bAudioTrak, bAudioStbl, Box.node, Box.skel, Box.skels, trakSkel, S, e, skel_bStsc, bStsd]
  rfl

theorem C02_udta_shape (m : Metadata) (u : Box) (hu : bUdta m = some u) :
    u.skel = S "udta" [S "meta" [S "hdlr", S "ilst"
      ((if m.title.isSome then [Skel.mk namType [S "data"]] else []) ++
       (if m.ctime.isSome then [Skel.mk dayType [S "data"]] else []))]] := by
  simp only [bUdta, Option.ite_none_left_eq_some] at hu
  obtain ⟨_, hu⟩ := hu
  injection hu with hu
  subst hu
  cases m.title <;> cases m.ctime <;> rfl

/-- the children of the moov: movie header, the video track, the audio track iff one is
    configured, user data iff there is a title or a creation time -/
theorem C02_moov_shape (w h : Nat) (vt : Tables) (audio : Option (AudioTrack × Tables)) (vc : VideoConfig)
    (md : Option Metadata) :
    (bMoov w h vt audio vc md).skel =
      S "moov" ([S "mvhd", (bVideoTrak w h vt vc (md.bind (·.language))).skel] ++
        (match audio with
         | some (a, at_) => [(bAudioTrak a at_ (md.bind (·.language))).skel]
         | none => []) ++
        (match md.bind bUdta with
         | some u => [u.skel]
         | none => [])) ∧
    (bMoov w h vt audio vc md).kids.map Box.typ =
      [ascii "mvhd", ascii "trak"] ++ (if audio.isSome then [ascii "trak"] else []) ++
        (if (md.bind bUdta).isSome then [ascii "udta"] else []) := by
  constructor
  · simp only [bMoov, Box.node, Box.skel, skels_append, S]
    cases audio <;> cases md.bind bUdta <;> rfl
  · have hu : ∀ u, md.bind bUdta = some u → u.typ = ascii "udta" := by
      intro u hu
      cases md with
      | none => simp at hu
      | some m =>
        simp only [Option.bind_some, bUdta, Option.ite_none_left_eq_some] at hu
        obtain ⟨_, hu⟩ := hu
        injection hu with hu
        subst hu; rfl
    simp only [bMoov, Box.node, Box.kids]
    rw [List.map_append, List.map_append]
    congr 1
    · congr 1
      rcases audio with _ | ⟨a, t⟩ <;> rfl
    · cases hb : md.bind bUdta with
      | none => rfl
      | some u => simp [hu u hb]

/-! ### fragmented: shapes -/
def fragEntrySkel (c : FragConfig) : Skel :=
  if c.av1.isSome then S "av01" [S "av1C"]
  else if c.vp9.isSome then S "vp09" [S "vpcC"]
  else if c.vps.isSome then S "hvc1" [S "hvcC"]
  else S "avc1" [S "avcC"]

/-- init segment: movie header, a movie-extends box with the track's `trex`, and one full track -/
theorem C02_init_shape (c : FragConfig) :
    (fMoov c).skel = S "moov" [S "mvhd", S "mvex" [S "trex"],
      trakSkel "vmhd" [S "stsd" [fragEntrySkel c], S "stts", S "stsc", S "stsz", S "stco"]] ∧
    (fMoov c).kids.map Box.typ = [ascii "mvhd", ascii "mvex", ascii "trak"] := by
  have e : (fSampleEntry c).skel = fragEntrySkel c := by
    unfold fSampleEntry fragEntrySkel
    split
    · rfl
    split
    · rfl
    split <;> rfl
  refine ⟨?_, rfl⟩
  simp only [fMoov, fTrak, fStbl, Box.node, Box.skel, Box.skels, trakSkel, S, e]
  rfl

/-- media segment: the moof is a fragment header and one track fragment (header, decode time,
    run) -/
theorem C02_moof_shape (s : List FSample) (q b off : Nat) :
    (fMoof s q b off).skel = S "moof" [S "mfhd", S "traf" [S "tfhd", S "tfdt", S "trun"]] ∧
    (fMoof s q b off).kids.map Box.typ = [ascii "mfhd", ascii "traf"] :=
  ⟨rfl, rfl⟩


/-! ## Corollaries: what the independent reader sees -/

/-- ftyp first, exactly one moov, at most one mdat — for each of the three top-level sequences a
    successful finalize can produce (see `C02_progressive_layout_*`) -/
theorem C02_top_level_counts (w h : Nat) (vt : Tables) (audio : Option (AudioTrack × Tables))
    (vc : VideoConfig) (md : Option Metadata) (payload : Bytes) :
    let moov := bMoov w h vt audio vc md
    ∀ top, top = [bFtyp, moov, mdatBox payload] ∨ top = [bFtyp, mdatBox payload, moov] ∨ top = [bFtyp, moov] →
      (top.head?.map Box.typ = some (tag "ftyp")) ∧
      (children "moov" top).length = 1 ∧ (children "mdat" top).length ≤ 1 ∧
      (children "ftyp" top).length = 1 ∧ top.length ≤ 3 := by
  intro moov top ht
  have t1 : bFtyp.typ = [102, 116, 121, 112] := by decide
  have t2 : moov.typ = [109, 111, 111, 118] := by
    show ascii "moov" = _; decide
  have t3 : (mdatBox payload).typ = [109, 100, 97, 116] := by
    show ascii "mdat" = _; decide
  have g1 : tag "ftyp" = [102, 116, 121, 112] := by decide
  have g2 : tag "moov" = [109, 111, 111, 118] := by decide
  have g3 : tag "mdat" = [109, 100, 97, 116] := by decide
  rcases ht with rfl | rfl | rfl <;> simp [children, List.filter, t1, t2, t3, g1, g2, g3]

/-- the init segment is read back as exactly `[ftyp, moov]` -/
theorem C02_init_parses (c : FragConfig) (hsz : Box.size (fMoov c) < 2^32) :
    parseFileTree (buildInit c) = some [fFtyp, fMoov c] := by
  rw [C02_init_layout]
  exact C02_tiling_file _ ⟨(C02_init_conforms c hsz).1, (C02_init_conforms c hsz).2, trivial⟩

/-- a media segment is read back as exactly one moof followed by one mdat -/
theorem C02_segment_parses (samples : List FSample) (seq base : Nat)
    (hsz : Box.size (fMoof samples seq base 0) < 2^32)
    (hp : 8 + (samples.flatMap (·.data)).length ≤ u32Max) :
    parseFileTree (buildSegment samples seq base) =
      some [fMoof samples seq base ((fMoof samples seq base 0).ser.length % 2^32 + 8),
        mdatBox (samples.flatMap (·.data))] := by
  rw [(C02_segment_layout samples seq base).1]
  apply C02_tiling_file
  apply C02_segment_conforms _ _ _ _ _ hp
  rw [moof_size] at hsz ⊢
  exact hsz

/-! ## Non-vacuity -/

/-- a concrete one-sample video-only writer: both layouts finish `ok`, and the moov fits 32 bits -/
def exWriter : Writer :=
  { codec := .h264, vsRev := [⟨0, 0, [0, 0, 0, 1, 0x65], true, none⟩], vPrev := some 0,
    vConfig := some (.avc ⟨[0x67, 0x42, 0, 0x1e], [0x68, 0xce]⟩) }

example : (exWriter.finalize 16 16 none false).2.res = .ok := by decide +kernel
example : (exWriter.finalize 16 16 none true).2.res = .ok := by decide +kernel
example : AudioInv exWriter := by intro _; rfl
example : Box.size (bMoov 16 16 (Tables.ofSamples exWriter.vsRev.reverse [32] 1 none) none
    (.avc ⟨[0x67, 0x42, 0, 0x1e], [0x68, 0xce]⟩) none) < 2^32 := by decide +kernel
example : Box.size (fMoof [⟨0, 0, [1, 2, 3], true⟩] 1 0 0) < 2^32 := by decide +kernel


/-- a concrete writer with an AAC track and one sample in each queue -/
def exWriterA : Writer :=
  { exWriter with audio := some ⟨48000, 2, .aac .lc⟩, asRev := [⟨0, 0, [0x21, 0x10], false, none⟩],
                  aPrev := some 0 }

example : (exWriterA.finalize 16 16 none false).2.res = .ok := by decide +kernel
example : (exWriterA.finalize 16 16 none true).2.res = .ok := by
  have hs : schedule exWriterA.vsRev.reverse exWriterA.asRev.reverse = [⟨0, 0, 0⟩, ⟨0, 1, 0⟩] := by
    have : entsOf 0 exWriterA.vsRev.reverse ++ entsOf 1 exWriterA.asRev.reverse = [⟨0, 0, 0⟩, ⟨0, 1, 0⟩] := by
      decide +kernel
    rw [schedule, this]
    exact List.mergeSort_of_pairwise (by decide)
  simp only [Writer.finalize, finalizeFastStart, hs]
  decide +kernel

end Muxide.Props.C02
