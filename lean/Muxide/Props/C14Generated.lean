import Muxide.Generated.Nal
/-
  C14 (mechanical tie) — the two re-framing functions `annexb_to_avcc` (src/codec/h264.rs) and
  `hevc_annexb_to_hvcc` (src/codec/h265.rs), translated from the Rust source by tools/rs2lean_nal.py on every
  check run, are the model's `toAvcc` for every byte string: each non-empty unit of the access unit preceded by
  its length as a 32-bit big-endian integer, in order, and the whole input as one unit when it has none.
  `C14_frame_roundtrip` (Props/C14.lean) says what that byte string parses back to.
-/
namespace Muxide.Props.C14Generated
open Muxide Muxide.Generated.Nal

theorem u32be_mod' (n : Nat) : u32be (n % 2 ^ 32) = u32be n := by
  unfold u32be
  have h0 : n % 2 ^ 32 % 256 = n % 256 := by omega
  have h1 : n % 2 ^ 32 / 2 ^ 8 % 256 = n / 2 ^ 8 % 256 := by omega
  have h2 : n % 2 ^ 32 / 2 ^ 16 % 256 = n / 2 ^ 16 % 256 := by omega
  have h3 : n % 2 ^ 32 / 2 ^ 24 % 256 = n / 2 ^ 24 % 256 := by omega
  rw [h0, h1, h2, h3]

theorem u32be_mod_lit (n : Nat) : u32be (n % 4294967296) = u32be n := u32be_mod' n

theorem avcc_loop (ns : List Bytes) : ∀ out : Bytes,
    H264.annexb_to_avcc.loop ns out = out ++ (ns.filter (· ≠ [])).flatMap fun n => u32be n.length ++ n := by
  induction ns with
  | nil => intro out; simp [H264.annexb_to_avcc.loop]
  | cons n ns ih =>
    intro out
    unfold H264.annexb_to_avcc.loop
    by_cases hn : n = []
    · simp [hn, ih]
    · simp [hn, ih, u32be_mod_lit, List.append_assoc]

theorem hvcc_loop (ns : List Bytes) : ∀ out : Bytes,
    H265.hevc_annexb_to_hvcc.loop ns out = out ++ (ns.filter (· ≠ [])).flatMap fun n => u32be n.length ++ n := by
  induction ns with
  | nil => intro out; simp [H265.hevc_annexb_to_hvcc.loop]
  | cons n ns ih =>
    intro out
    unfold H265.hevc_annexb_to_hvcc.loop
    by_cases hn : n = []
    · simp [hn, ih]
    · simp [hn, ih, u32be_mod_lit, List.append_assoc]

/-- `annexb_to_avcc(data)` is the model's re-framing -/
theorem C14_gen_annexb_to_avcc (d : Bytes) : H264.annexb_to_avcc d = toAvcc d := by
  unfold H264.annexb_to_avcc toAvcc
  simp only [avcc_loop, List.nil_append, u32be_mod']
  split <;> rename_i h
  · rw [h.1]; simp
  · rfl

/-- `hevc_annexb_to_hvcc(data)` is the same re-framing -/
theorem C14_gen_hevc_annexb_to_hvcc (d : Bytes) : H265.hevc_annexb_to_hvcc d = toAvcc d := by
  unfold H265.hevc_annexb_to_hvcc toAvcc
  simp only [hvcc_loop, List.nil_append, u32be_mod']
  split <;> rename_i h
  · rw [h.1]; simp
  · rfl

end Muxide.Props.C14Generated
