import Muxide.Generated.Tables
/-
  C03 (mechanical tie) — Muxide.Generated.Tables is produced by tools/rs2lean_tables.py from the Rust source of
  `SampleTables::from_samples` on every check run.  The theorem states that the translated function is the
  model's `Tables.ofSamples` — durations (each sample's stored duration, the fallback for the last, 1 otherwise),
  sizes, 1-based key-frame numbers, composition offsets as pts − dts in 32 bits, and the flag that decides
  whether ctts is written — whenever payload sizes and the sample count are below 2^32 (which the writer's own
  checks guarantee: `converted.len() > u32::MAX` is refused, and 2^32 samples of ≥ 1 tick exceed the 32-bit track
  duration).  The timing theorems of Props/C03.lean / C03E2E.lean are thereby about the translated source.
-/
namespace Muxide.Props.C03Generated
open Muxide Muxide.Generated.Tables

theorem mem_zip_range_lt {α} (l : List α) (i : Nat) (x : α) (h : (i, x) ∈ List.zip (List.range l.length) l) :
    i < l.length := by
  have := (List.of_mem_zip h).1
  simpa using this

theorem filterMap_eq_filter_map {α β} (l : List α) (p : α → Bool) (f : α → β) :
    l.filterMap (fun x => if p x then some (f x) else none) = (l.filter p).map f := by
  induction l with
  | nil => rfl
  | cons a r ih =>
    by_cases h : p a <;> simp [List.filterMap_cons, h, ih]

theorem filterMap_congr_mem {α β} (l : List α) (f g : α → Option β) (h : ∀ x ∈ l, f x = g x) :
    l.filterMap f = l.filterMap g := by
  induction l with
  | nil => rfl
  | cons a r ih =>
    simp only [List.filterMap_cons]
    rw [h a (by simp), ih (fun x hx => h x (by simp [hx]))]

/-- `SampleTables::from_samples` = the model's `Tables.ofSamples` -/
theorem C03_gen_from_samples (samples : List Sample) (offs : List Nat) (spc : Nat) (fb : Option Nat)
    (hsize : ∀ s ∈ samples, s.data.length < 2 ^ 32) (hcount : samples.length ≤ 2 ^ 32) :
    from_samples samples offs spc fb = Tables.ofSamples samples offs spc fb := by
  unfold from_samples Tables.ofSamples
  have hsizes : samples.map (fun sample => sample.data.length % 2 ^ 32) = samples.map (·.data.length) := by
    apply List.map_congr_left
    intro s hs
    exact Nat.mod_eq_of_lt (hsize s hs)
  have hkeys : (List.zip (List.range samples.length) samples).filterMap (fun (x : Nat × Sample) =>
        match x with | (idx, sample) => if sample.key then some (idx % 2 ^ 32 + 1) else none) = keyframesOf samples := by
    unfold keyframesOf
    rw [← filterMap_eq_filter_map]
    apply filterMap_congr_mem
    intro p hp
    obtain ⟨i, sm⟩ := p
    have hi := mem_zip_range_lt samples i sm hp
    have : i % 2 ^ 32 = i := Nat.mod_eq_of_lt (by omega)
    simp [this]
  have hcts : samples.map (fun sample => toI32 ((((sample.pts : Int) - (sample.dts : Int)) % (2 ^ 32 : Int)).toNat)) =
      samples.map (fun s => (ctsOf s.pts s.dts).getD 0) := by
    apply List.map_congr_left
    intro s _
    simp [ctsOf]
  simp only [hsizes, hkeys, hcts]
  rfl

end Muxide.Props.C03Generated
