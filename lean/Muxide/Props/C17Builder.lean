import Muxide.Lemmas.Builder
/-
  C17 / C04 — the builder's fluent calls.  "Builder aliases produce identical files" and "at any point
  in any sequence of builder calls": the muxer a call sequence builds is a function of the declarative
  *last call of each kind* reading (Spec.BuilderSpec), for every sequence of any length.
-/
namespace Muxide
open Spec

/-- the configuration `build` reads is exactly what the call sequence denotes -/
theorem C17_builder_config (ops : List BOp) : (Builder.run ops).config = effectiveConfig ops := by
  unfold Builder.config effectiveConfig
  rw [run_video, run_audio, run_fast, run_md]

/-- `build` as a function of the denoted configuration alone -/
theorem C17_builder_build (ops : List BOp) :
    (Builder.run ops).build =
      match effectiveConfig ops with
      | none => .missingVideoConfig
      | some c => match buildChecked c with
        | none => .io
        | some m => .ok m := by
  unfold Builder.build
  rw [C17_builder_config]
  rfl

/-- two call sequences denoting the same configuration build the same muxer (or fail alike) -/
theorem C17_builder_equiv (ops₁ ops₂ : List BOp) (h : effectiveConfig ops₁ = effectiveConfig ops₂) :
    (Builder.run ops₁).build = (Builder.run ops₂).build := by
  rw [C17_builder_build, C17_builder_build, h]

theorem step_normalize (b : Builder) (op : BOp) : b.step (normalize op) = b.step op := by
  cases op <;> rfl

/-- builder aliases: `set_video_track` / `set_audio_track` may replace `video` / `audio` anywhere in
    any call sequence without changing the builder state (hence neither `build` nor
    `new_with_fragment`) -/
theorem C17_builder_aliases (ops : List BOp) : Builder.run (ops.map normalize) = Builder.run ops := by
  unfold Builder.run
  generalize Builder.new = b
  induction ops generalizing b with
  | nil => rfl
  | cons op ops ih => simp only [List.map_cons, List.foldl_cons, step_normalize, ih]

/-- a call after which an `audio(None, ..)` follows: the built muxer has no audio track, as if no audio
    call had ever been made (the C17 clause "audio codec 'none' vs no audio", at the builder) -/
theorem C17_builder_audio_none (ops : List BOp) (r ch : Nat) :
    (Builder.run (ops ++ [.audio ⟨r, ch, .none⟩])).build =
      (Builder.run (ops.filter fun op => (audioOf op).isNone)).build := by
  rw [C17_builder_build, C17_builder_build]
  have hv : ∀ l : List BOp, lastSome videoOf (l.filter fun op => (audioOf op).isNone) = lastSome videoOf l := by
    intro l; induction l with
    | nil => rfl
    | cons x l ih => cases x <;> simp_all [List.filter, lastSome_cons, audioOf, videoOf]
  have hf : ∀ l : List BOp, lastSome fastOf (l.filter fun op => (audioOf op).isNone) = lastSome fastOf l := by
    intro l; induction l with
    | nil => rfl
    | cons x l ih => cases x <;> simp_all [List.filter, lastSome_cons, audioOf, fastOf]
  have ha : ∀ l : List BOp, lastSome audioOf (l.filter fun op => (audioOf op).isNone) = none := by
    intro l; induction l with
    | nil => rfl
    | cons x l ih => cases x <;> simp_all [List.filter, lastSome_cons, audioOf]
  have hm : ∀ l : List BOp, effMdFrom none (l.filter fun op => (audioOf op).isNone).reverse = effMdFrom none l.reverse := by
    intro l
    have key : ∀ (l : List BOp) (base : Option Metadata),
        (l.filter fun op => (audioOf op).isNone).foldl (fun m op => effMdFrom m [op]) base
          = l.foldl (fun m op => effMdFrom m [op]) base := by
      intro l; induction l with
      | nil => intro _; rfl
      | cons x l ih => intro base; cases x <;> simp_all [List.filter, audioOf, effMdFrom]
    have fold : ∀ (l : List BOp) (base : Option Metadata),
        effMdFrom base l.reverse = l.foldl (fun m op => effMdFrom m [op]) base := by
      intro l; induction l with
      | nil => intro _; rfl
      | cons x l ih => intro base; rw [List.reverse_cons, effMdFrom_snoc, ih, List.foldl_cons]
    rw [fold, fold, key]
  -- left side: append of an audio(None) call
  have hl : effectiveConfig (ops ++ [.audio ⟨r, ch, .none⟩]) =
      (lastSome videoOf ops).map fun (c, w, h) =>
        ({ codec := c, width := w, height := h, audio := some ⟨r, ch, .none⟩,
           md := effMetadata ops.reverse, fast := (lastSome fastOf ops).getD true } : Config) := by
    unfold effectiveConfig lastSome
    simp [List.reverse_append, List.findSome?_cons, videoOf, audioOf, fastOf, effMetadata]
  have hr : effectiveConfig (ops.filter fun op => (audioOf op).isNone) =
      (lastSome videoOf ops).map fun (c, w, h) =>
        ({ codec := c, width := w, height := h, audio := none,
           md := effMetadata ops.reverse, fast := (lastSome fastOf ops).getD true } : Config) := by
    unfold effectiveConfig
    rw [hv, hf, ha, effMetadata_eq, effMetadata_eq, hm]
  rw [hl, hr]
  cases lastSome videoOf ops with
  | none => rfl
  | some v =>
    obtain ⟨c, w, h⟩ := v
    simp [buildChecked, build]

/-- `new_with_fragment` is the declarative reading too -/
theorem C17_builder_fragment (ops : List BOp) :
    (Builder.run ops).newWithFragment = effectiveFragConfig ops := by
  unfold Builder.newWithFragment effectiveFragConfig
  rw [run_video, run_sps, run_pps, run_vps, run_av1, run_vp9]
  cases lastSome videoOf ops with
  | none => rfl
  | some v =>
    obtain ⟨c, w, h⟩ := v
    cases c <;> simp only <;> (repeat' split) <;> simp_all

/-- metadata through the setters equals metadata through a `Metadata` value -/
theorem C17_builder_setters (ops : List BOp) (m : Metadata) (t : Nat) (l : List Nat) :
    Builder.run (ops ++ [.withMetadata m, .setCreateTime t, .setLanguage l]) =
    Builder.run (ops ++ [.withMetadata { m with ctime := some t, language := some l }]) ∧
    Builder.run (ops ++ [.withMetadata m, .setLanguage l, .setCreateTime t]) =
    Builder.run (ops ++ [.withMetadata { m with ctime := some t, language := some l }]) := by
  simp [Builder.run, List.foldl_append, Builder.step]

/-- the setters alone start from an empty `Metadata` -/
theorem C17_builder_setters_alone (t : Nat) (l : List Nat) :
    (Builder.run [.setCreateTime t, .setLanguage l]).md = some { ctime := some t, language := some l } ∧
    (Builder.run [.setLanguage l, .setCreateTime t]).md = some { ctime := some t, language := some l } := by
  simp [Builder.run, Builder.new, Builder.step]

/-- `Metadata::new().with_*` calls: the last call of each kind decides, order across kinds is irrelevant -/
theorem C17_metadata_calls (t : Bytes) (c : Nat) (l : List Nat) :
    mkMetadata [.withTitle t, .withCreationTime c, .withLanguage l] = ⟨some t, some c, some l⟩ ∧
    mkMetadata [.withLanguage l, .withCreationTime c, .withTitle t] = ⟨some t, some c, some l⟩ ∧
    mkMetadata [.withCreationTime c, .withTitle t, .withLanguage l] = ⟨some t, some c, some l⟩ := by
  simp [mkMetadata, MdOp.apply]

/-- non-vacuity: a concrete sequence with aliases, an overridden audio call and setters builds, and
    denotes the expected configuration -/
example : effectiveConfig [.setVideoTrack .h264 640 480, .audio ⟨48000, 2, .opus⟩, .withFastStart false,
      .setLanguage [101, 110, 103], .setAudioTrack ⟨44100, 1, .aac .lc⟩, .video .vp9 16 16] =
    some { codec := .vp9, width := 16, height := 16, audio := some ⟨44100, 1, .aac .lc⟩,
           md := some { language := some [101, 110, 103] }, fast := false } := by decide

end Muxide
